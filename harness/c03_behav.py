"""Behavioural classes pushed through the real Python->Verilog transpiler by harness/c03.py (the transpiler reads the
source of live objects with `inspect`, so they live in a file).  `expect` documents what the unchanged tree does."""
import py4hw


class GoodCounter(py4hw.Logic):
    """integer state variable, if/elif/else, aug-assign"""
    expect = 'ok'

    def __init__(self, parent, name, inc, reset, q):
        super().__init__(parent, name)
        self.inc = self.addIn('inc', inc)
        self.reset = self.addIn('reset', reset)
        self.q = self.addOut('q', q)
        self.count = 0

    def clock(self):
        if (self.reset.get() == 1):
            self.count = 0
        elif (self.inc.get() == 1):
            self.count += 1
        else:
            self.count = self.count
        self.q.prepare(self.count)


class GoodMatch(py4hw.Logic):
    """match/case state machine"""
    expect = 'ok'

    def __init__(self, parent, name, go, q):
        super().__init__(parent, name)
        self.go = self.addIn('go', go)
        self.q = self.addOut('q', q)
        self.state = 0

    def clock(self):
        match self.state:
            case 0:
                if (self.go.get() == 1):
                    self.state = 1
                self.q.prepare(0)
            case 1:
                self.state = 2
                self.q.prepare(1)
            case _:
                self.state = 0
                self.q.prepare(3)


class GoodComb(py4hw.Logic):
    """combinational propagate with locals"""
    expect = 'ok'

    def __init__(self, parent, name, a, b, r):
        super().__init__(parent, name)
        self.a = self.addIn('a', a)
        self.b = self.addIn('b', b)
        self.r = self.addOut('r', r)

    def propagate(self):
        x = self.a.get() & self.b.get()
        y = (self.a.get() >> 1) | x
        if (x == 0):
            self.r.put(y)
        else:
            self.r.put(x + 1)


class AttrMismatch(py4hw.Logic):
    """attribute name differs from port name (the shape of SelectType in test/unit/Test_RtlGeneration.py)"""
    expect = 'ok'   # 'undeclared' before /repo 53243dd

    def __init__(self, parent, name, a, r):
        super().__init__(parent, name)
        self.a = self.addIn('a', a)
        self.result = self.addOut('r', r)

    def propagate(self):
        if (self.a.get() == 0):
            self.result.put(1)
        else:
            self.result.put(0)


class TernarySeq(py4hw.Logic):
    """conditional expression assigned to a state variable"""
    expect = 'ok'   # 'parse' before /repo 760fbc8

    def __init__(self, parent, name, a, q):
        super().__init__(parent, name)
        self.a = self.addIn('a', a)
        self.q = self.addOut('q', q)
        self.y = 0

    def clock(self):
        self.y = 1 if self.a.get() > 2 else 2
        self.q.prepare(self.y)


class KeywordVar(py4hw.Logic):
    """state variable whose Python name is a Verilog reserved word"""
    expect = 'reserved'

    def __init__(self, parent, name, a, q):
        super().__init__(parent, name)
        self.a = self.addIn('a', a)
        self.q = self.addOut('q', q)
        self.wait = 0

    def clock(self):
        if (self.a.get() == 1):
            self.wait = self.wait + 1
        self.q.prepare(self.wait)


class VarIsPortName(py4hw.Logic):
    """state variable named like a port that is held under another attribute name"""
    expect = 'dupDecl'

    def __init__(self, parent, name, a, q):
        super().__init__(parent, name)
        self.a = self.addIn('a', a)
        self.out = self.addOut('cnt', q)
        self.cnt = 0

    def clock(self):
        if (self.a.get() == 1):
            self.cnt = self.cnt + 1
        self.out.prepare(self.cnt)


class CombLocals(py4hw.Logic):
    """combinational block: method-local temporaries, one of them reassigned, used in a condition and in both branches"""
    expect = 'ok'

    def __init__(self, parent, name, a, b, r):
        super().__init__(parent, name)
        self.a = self.addIn('a', a)
        self.b = self.addIn('b', b)
        self.r = self.addOut('r', r)

    def propagate(self):
        s = self.a.get() + self.b.get()
        t = s >> 1
        t = t ^ self.b.get()
        if (t > s):
            self.r.put(t - s)
        else:
            self.r.put(s)


class CombInstVar(py4hw.Logic):
    """combinational block: instance variables that __init__ does not initialise with an int literal (one not at all)"""
    expect = 'ok'

    def __init__(self, parent, name, a, b, r, k=3):
        super().__init__(parent, name)
        self.a = self.addIn('a', a)
        self.b = self.addIn('b', b)
        self.r = self.addOut('r', r)
        self.k = k

    def propagate(self):
        self.tmp = self.a.get() & self.b.get()
        self.r.put(self.tmp + self.k)


class CombOneLocal(py4hw.Logic):
    """the smallest case: one temporary"""
    expect = 'ok'

    def __init__(self, parent, name, a, b, r):
        super().__init__(parent, name)
        self.a = self.addIn('a', a)
        self.b = self.addIn('b', b)
        self.r = self.addOut('r', r)

    def propagate(self):
        s = self.a.get() + self.b.get()
        self.r.put(s)


class SeqLocals(py4hw.Logic):
    """clocked control of CombLocals: the same temporaries in clock()"""
    expect = 'ok'

    def __init__(self, parent, name, a, b, r):
        super().__init__(parent, name)
        self.a = self.addIn('a', a)
        self.b = self.addIn('b', b)
        self.r = self.addOut('r', r)
        self.acc = 0

    def clock(self):
        s = self.a.get() + self.b.get()
        t = s >> 1
        self.acc = self.acc + t
        self.r.prepare(self.acc ^ s)


class SeqInstVar(py4hw.Logic):
    """clocked control of CombInstVar"""
    expect = 'ok'

    def __init__(self, parent, name, a, b, r, k=3):
        super().__init__(parent, name)
        self.a = self.addIn('a', a)
        self.b = self.addIn('b', b)
        self.r = self.addOut('r', r)
        self.k = k

    def clock(self):
        self.tmp = self.a.get() & self.b.get()
        self.r.prepare(self.tmp + self.k)


CLASSES = [GoodCounter, GoodMatch, GoodComb, AttrMismatch, TernarySeq, KeywordVar, VarIsPortName,
           CombLocals, CombInstVar, CombOneLocal, SeqLocals, SeqInstVar]


def build(cls, w=8):
    hw = py4hw.HWSystem()
    W = lambda n, k=1: hw.wire(n, k)
    if cls is GoodCounter:
        dut = cls(hw, 'dut', W('inc'), W('reset'), W('q', w))
    elif cls is GoodMatch:
        dut = cls(hw, 'dut', W('go'), W('q', 2))
    elif cls in (GoodComb, CombLocals, CombInstVar, CombOneLocal, SeqLocals, SeqInstVar):
        dut = cls(hw, 'dut', W('a', w), W('b', w), W('r', w))
    else:
        dut = cls(hw, 'dut', W('a', w if cls in (AttrMismatch, TernarySeq) else 1), W('q', w))
    return hw, dut


class ParamReg(py4hw.Logic):
    """parameterised register after test/interactive/tb_Parameter.py (shared module name; its `initial` method is left
    out: the transpiler raises NameError getBody on it).  The parameter is used inside the transpiled body."""

    def __init__(self, parent, name, a, load, r, init_value):
        super().__init__(parent, name)
        self.a = self.addIn('a', a)
        self.load = self.addIn('load', load)
        self.r = self.addOut('r', r)
        self.addParameter('INIT', init_value)

    def structureName(self):
        return 'ParamReg_{}'.format(self.r.getWidth())

    def clock(self):
        if (self.load.get()):
            self.r.prepare(self.a.get() + self.getParameterValue('INIT'))


class ParamRegKw(py4hw.Logic):
    """same, the parameter name is a Verilog reserved word"""

    def __init__(self, parent, name, a, load, r, init_value):
        super().__init__(parent, name)
        self.a = self.addIn('a', a)
        self.load = self.addIn('load', load)
        self.r = self.addOut('r', r)
        self.addParameter('table', init_value)

    def structureName(self):
        return 'ParamRegKw_{}'.format(self.r.getWidth())

    def clock(self):
        if (self.load.get()):
            self.r.prepare(self.a.get() + self.getParameterValue('table'))


class ParamComb(py4hw.Logic):
    """combinational use of two parameters in a transpiled propagate()"""

    def __init__(self, parent, name, a, r, lo, hi):
        super().__init__(parent, name)
        self.a = self.addIn('a', a)
        self.r = self.addOut('r', r)
        self.addParameter('LO', lo)
        self.addParameter('HI', hi)

    def propagate(self):
        if (self.a.get() < self.getParameterValue('LO')):
            self.r.put(self.getParameterValue('LO'))
        else:
            self.r.put(self.a.get() & self.getParameterValue('HI'))


class ParamQuad(py4hw.Logic):
    """transpiled combinational block with four parameters"""

    def __init__(self, parent, name, a, r, p0, p1, p2, p3):
        super().__init__(parent, name)
        self.a = self.addIn('a', a)
        self.r = self.addOut('r', r)
        self.addParameter('P0', p0)
        self.addParameter('P1', p1)
        self.addParameter('P2', p2)
        self.addParameter('P3', p3)

    def propagate(self):
        if (self.a.get() < self.getParameterValue('P0')):
            self.r.put(self.getParameterValue('P1') + self.getParameterValue('P2'))
        else:
            self.r.put(self.a.get() ^ self.getParameterValue('P3'))


class ParamTriSeq(py4hw.Logic):
    """transpiled clocked block with three parameters, shared module name"""

    def __init__(self, parent, name, a, load, r, lo, step, hi):
        super().__init__(parent, name)
        self.a = self.addIn('a', a)
        self.load = self.addIn('load', load)
        self.r = self.addOut('r', r)
        self.addParameter('LO', lo)
        self.addParameter('STEP', step)
        self.addParameter('HI', hi)

    def structureName(self):
        return 'ParamTriSeq_{}'.format(self.r.getWidth())

    def clock(self):
        if (self.load.get()):
            self.r.prepare(self.a.get() + self.getParameterValue('STEP'))
        elif (self.a.get() > self.getParameterValue('HI')):
            self.r.prepare(self.getParameterValue('LO'))


class ParamMid(py4hw.Logic):
    """structural block with its own parameter `pname` (value: literal or a Parameter of ITS parent) that it hands to
    its children: forwarded under the child's name INIT (same or different from pname), as a literal, to a reserved-word
    parameter, to two parameters of a combinational child, and to an inlined ShiftLeftConstant"""

    def __init__(self, parent, name, a, load, r, value, pname, modes, child_kw=False, extra=0):
        super().__init__(parent, name)
        self.addIn('a', a)
        self.addIn('load', load)
        self.addOut('r', r)
        self.addParameter(pname, value)
        for j in range(extra):                      # a structural module with 2 .. 4 parameters of its own
            self.addParameter('X{}'.format(j), 10 + j)
        xs = [self.getParameter('X{}'.format(j)) for j in range(extra)]
        w = r.getWidth()
        cur = a
        for k, mode in enumerate(modes):
            nxt = r if k == len(modes) - 1 else self.wire('t{}'.format(k), w)
            v = self.getParameter(pname) if mode in ('forward', 'comb', 'shift') else 3 + k
            if mode == 'comb':
                ParamComb(self, 'c{}'.format(k), cur, nxt, v, 5)
            elif mode == 'quad':                    # four parameters: forwarded own parameter, forwarded extras, literals
                ParamQuad(self, 'q{}'.format(k), cur, nxt, self.getParameter(pname), xs[0] if extra > 0 else 2, xs[1] if extra > 1 else 4, 6 + k)
            elif mode == 'tri':
                ParamTriSeq(self, 'y{}'.format(k), cur, load, nxt, self.getParameter(pname), xs[-1] if extra > 0 else 1, 200)
            elif mode == 'shift':
                py4hw.ShiftLeftConstant(self, 's{}'.format(k), cur, v, nxt)
            elif child_kw:
                ParamRegKw(self, 'p{}'.format(k), cur, load, nxt, v)
            else:
                ParamReg(self, 'p{}'.format(k), cur, load, nxt, v)
            cur = nxt


class ParamOuter(py4hw.Logic):
    """two-level chain: OUTER parameter -> ParamMid parameter -> child parameter"""

    def __init__(self, parent, name, a, load, r, value, outer, pname, modes, forward=True, extra=0):
        super().__init__(parent, name)
        self.addIn('a', a)
        self.addIn('load', load)
        self.addOut('r', r)
        self.addParameter(outer, value)
        for j in range(extra):
            self.addParameter('Y{}'.format(j), 20 + j)
        t = self.wire('m', r.getWidth())
        ParamMid(self, 'mid0', a, load, t, self.getParameter(outer) if forward else 9, pname, modes, False, extra)
        ParamMid(self, 'mid1', t, load, r, self.getParameter('Y0') if extra > 0 else self.getParameter(outer), pname, list(reversed(modes)),
                 False, max(0, extra - 1))


class ParamDeep(py4hw.Logic):
    """chain of `levels` structural blocks, each with 1 + extra parameters, forwarding one of them to the next level"""

    def __init__(self, parent, name, a, load, r, levels, pname, modes, extra, value=1):
        super().__init__(parent, name)
        self.addIn('a', a)
        self.addIn('load', load)
        self.addOut('r', r)
        self.addParameter('D{}'.format(levels), value)
        for j in range(extra):
            self.addParameter('E{}_{}'.format(levels, j), 30 + j)
        fwd = self.getParameter('E{}_0'.format(levels)) if extra > 0 and levels % 2 == 0 else self.getParameter('D{}'.format(levels))
        if levels > 2:
            ParamDeep(self, 'deep', a, load, r, levels - 1, pname, modes, extra, fwd)
        else:
            ParamMid(self, 'mid', a, load, r, fwd, pname, modes, False, extra)


def build_param(w=8, pname='INIT', modes=('forward', 'literal'), levels=1, outer='BASE', child_kw=False, forward=True, extra=0):
    hw = py4hw.HWSystem()
    a, load, r = hw.wire('a', w), hw.wire('load'), hw.wire('r', w)
    if levels == 1:
        dut = ParamMid(hw, 'test', a, load, r, 1, pname, list(modes), child_kw, extra)
    elif levels == 2:
        dut = ParamOuter(hw, 'test', a, load, r, 1, outer, pname, list(modes), forward, extra)
    else:
        dut = ParamDeep(hw, 'test', a, load, r, levels, pname, list(modes), extra)
    return hw, dut
