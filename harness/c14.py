"""C14 — Fixed-point blocks agree with exact scaled-integer arithmetic.
See DESIGN.md §5 C14, lean/Py4hwV/Props/C14.lean, lean/Py4hwV/Props/C14Helper.lean, lean/Py4hwV/Lib/{Fxp,FxpSpec}.lean,
notes/C14.md.

Streams
  T1        generated leaf definitions (Gen.*) the blocks are made of vs the real propagate() methods
  blocks    the constructor models (Lib.Fxp.* through Drv/C14.lean) vs the REAL blocks built with the real constructors
            and run by the real simulator: constructor/first propagation accepts or raises + every output value
  net       the flattened netlist of the real block executed by the Lean simulator model with the generated leaves
  spec      the Lean specification (FxpSpec.eval) vs the Python oracle below (one specification, two evaluators)
  helper    helper.FixedPoint.add/sub/mult (real) vs C12's Lean model, vs the real blocks on equal formats, vs the oracle
  ORACLE    fractions.Fraction arithmetic on the decoded operands compared with the outputs OBSERVED on the real
            implementation (= the failing-input search; runs even when nothing of the Lean side builds)
"""
import io, contextlib, itertools, json, os
from fractions import Fraction
from common import *
import t1, dump_ir as D

OBLIGATIONS = [
    # bridges: generated propagate() bodies -> reference leaves the block models are written over
    'Leaf.gen_addc', 'Leaf.gen_sub', 'Leaf.gen_sext', 'Leaf.gen_mul', 'Leaf.gen_range', 'Leaf.gen_bit', 'Leaf.gen_const',
    'Leaf.gen_not', 'Leaf.gen_and2', 'Leaf.gen_buf',
    # C07 / C08 theorems the compositions rest on
    'C07.sext_eq', 'C07.sign_spec', 'C08.equalConstant_spec',
    # property theorems (lean/Py4hwV/Props/C14.lean)
    'C14.fxpAdd_spec', 'C14.fxpAdd_mod', 'C14.fxpAdd_value', 'C14.fxpSub_spec', 'C14.fxpSub_mod', 'C14.fxpSub_value',
    'C14.fxpSign_spec', 'C14.fxpSign_value',
    'C14.fxpMult_window', 'C14.fxpMult_exact', 'C14.fxpMult_spec_partial', 'C14.fxpMult_spec_full_precision',
    'C14.fxpMult_spec_same_format', 'C14.fxpMult_value', 'C14.fxpMult_wide_counterexample', 'C14.fxpMult_wide_wrong',
    'C14.fxpMult_negative_low_illegal',
    'C14.fxpComparator_eq_spec', 'C14.fxpComparator_spec', 'C14.fxpComparator_value', 'C14.fxpComparator_lt_iff',
    'C14.fxpComparator_counterexample',
    # the same statements on the GENERATED leaf code (composition of Gen.*.step through the wire mask)
    'C14.genAdd_eq', 'C14.genSub_eq', 'C14.genSign_eq', 'C14.genMult_eq', 'C14.genComparatorCore_eq',
    'C14.gen_fxpAdd_spec', 'C14.gen_fxpSub_spec', 'C14.gen_fxpSign_spec', 'C14.gen_fxpMult_spec', 'C14.gen_fxpComparator_spec',
    # key lemmas the theorems rest on
    'C14.toSigned_put', 'C14.prod_bounds', 'C14.shr_mod_depends', 'C14.rescale_le', 'C14.sub_signed', 'C14.floor_div',
    'C14.rescale_floor', 'C14.val_lt', 'C14.val_mul',
]
HELPER_OBLIGATIONS = ['C14.helper_add_agrees', 'C14.helper_sub_agrees', 'C14.helper_mult_agrees', 'C14.helper_mult_spec',
                      'C12.fx_add_spec', 'C12.fx_sub_spec', 'C12.fx_mult_spec']

T1_CLASSES = ['AddCarryIn', 'Sub', 'SignExtend', 'Mul', 'Range', 'Bit', 'Constant', 'Not', 'And2', 'Buf', 'BitsLSBF']

FINDING_CLASSES = ('mult-wide-result', 'mult-negative-low')
BLOCKS = ('FixedPointAdd', 'FixedPointSub', 'FixedPointMult', 'FixedPointSign', 'FixedPointComparator')


# ------------------------------------------------------------------------------------------------------------------
# the specification in Python: exact rationals (fractions.Fraction) on the decoded operands
def ts(w, x):
    """two's-complement reading of a w-bit encoding"""
    x &= (1 << w) - 1
    return x - (1 << w) if w >= 1 and x >> (w - 1) else x


def val(w, f, x):
    return Fraction(ts(w, x), 1 << f)


def floor_frac(q):
    return q.numerator // q.denominator


def oracle(blk, p, x):
    """returns (expected outputs, class, in_domain). in_domain=False: parameters the property does not speak about
    (mixed formats for add/sub/compare, unsigned formats for sign/compare, wire width != sum(format))"""
    if blk in ('FixedPointAdd', 'FixedPointSub', 'FixedPointMult'):
        aw, bw, rw = p[0:3]
        af, bf, rf = tuple(p[3:6]), tuple(p[6:9]), tuple(p[9:12])
        widths_ok = aw == sum(af) and bw == sum(bf) and rw == sum(rf)
        if blk == 'FixedPointMult':
            dom = widths_ok and aw >= 1 and bw >= 1
            if not x:
                return None, ('mult-negative-low' if af[2] + bf[2] < rf[2] else ''), dom
            va, vb = val(aw, af[2], x[0]), val(bw, bf[2], x[1])
            e = floor_frac(va * vb * (1 << rf[2])) % (1 << rw)
            low = af[2] + bf[2] - rf[2]
            cls = ''
            if low < 0:
                cls = 'mult-negative-low'
            elif aw + bw < low + rw and va * vb < 0:
                cls = 'mult-wide-result'
            return [e], cls, dom
        dom = widths_ok and af == bf and af == rf
        if not x:
            return None, '', dom
        # the value-level oracle needs a common format; outside the domain use the scaled integers of the wires
        fa = af[2]
        va, vb = val(aw, fa, x[0]), val(bw, fa, x[1])
        s = va + vb if blk == 'FixedPointAdd' else va - vb
        raw = s * (1 << fa)
        assert raw.denominator == 1
        return [int(raw) % (1 << rw)], '', dom
    if blk == 'FixedPointSign':
        aw, sw = p[0:2]
        af = tuple(p[2:5])
        dom = aw == sum(af) and af[0] == 1 and sw >= 1
        if not x:
            return None, '', dom
        return [1 if val(aw, af[2], x[0]) < 0 else 0], '', dom
    if blk == 'FixedPointComparator':
        aw, bw, gw, ew, lw = p[0:5]
        af, bf = tuple(p[5:8]), tuple(p[8:11])
        dom = aw == bw and aw == sum(af) and af == bf and af[0] == 1 and min(gw, lw) >= 1 and ew == 1   # eq on a 1-bit wire (C08: EqualConstant is specified for 1-bit results)
        if not x:
            return None, '', dom
        va, vb = val(aw, af[2], x[0]), val(aw, af[2], x[1])
        d = (va - vb) * (1 << af[2])
        rep = -(1 << (aw - 1)) <= d < (1 << (aw - 1)) if aw >= 1 else d == 0
        return [int(va > vb), int(va == vb), int(va < vb)], ('' if rep else 'cmp-diff-not-representable'), dom
    raise KeyError(blk)


# ------------------------------------------------------------------------------------------------------------------
# the real blocks
def block_def(blk, p):
    import py4hw.logic.arithmetic_fxp as F
    import py4hw.logic.relational as R
    if blk in ('FixedPointAdd', 'FixedPointSub', 'FixedPointMult'):
        aw, bw, rw = p[0:3]
        af, bf, rf = tuple(p[3:6]), tuple(p[6:9]), tuple(p[9:12])
        K = getattr(F, blk)
        return [aw, bw], [rw], lambda s, i, o: K(s, 'dut', i[0], af, i[1], bf, o[0], rf)
    if blk == 'FixedPointSign':
        aw, sw = p[0:2]
        af = tuple(p[2:5])
        return [aw], [sw], lambda s, i, o: F.FixedPointSign(s, 'dut', i[0], af, o[0])
    if blk == 'FixedPointComparator':
        aw, bw, gw, ew, lw = p[0:5]
        af, bf = tuple(p[5:8]), tuple(p[8:11])
        gtnone = len(p) > 11 and p[11] == 1
        return [aw, bw], [gw, ew, lw], \
            lambda s, i, o: R.FixedPointComparator(s, 'dut', i[0], af, i[1], bf, None if gtnone else o[0], o[1], o[2])
    raise KeyError(blk)


class Real:
    """one real block instance inside its own HWSystem"""

    def __init__(self, blk, p):
        import py4hw
        self.blk, self.p = blk, tuple(p)
        self.inw, self.outw, ctor = block_def(blk, p)
        self.gtnone = blk == 'FixedPointComparator' and len(p) > 11 and p[11] == 1
        self.error = None
        try:
            with contextlib.redirect_stdout(io.StringIO()):
                self.sys = py4hw.HWSystem()
                self.ins = [self.sys.wire(f'i{k}', w) for k, w in enumerate(self.inw)]
                self.outs = [self.sys.wire(f'o{k}', w) for k, w in enumerate(self.outw)]
                ctor(self.sys, self.ins, self.outs)
                self.sim = self.sys.getSimulator()
        except Exception as e:   # the constructor (or the propagation done by getSimulator) rejects the parameters
            self.error = f'{type(e).__name__}: {str(e)[:80]}'

    def run(self, x, use_clk=False):
        for w, v in zip(self.ins, x):
            w.put(v)
        try:
            if use_clk:
                self.sim.clk(1)
            else:
                self.sim.propagateAll()
        except Exception as e:
            return f'{type(e).__name__}: {str(e)[:80]}'
        return [o.get() for o in self.outs]


# ------------------------------------------------------------------------------------------------------------------
# known findings: global file first (common.Result.fail), then the proposals that travel with this check until the
# integrator merges them (corpus/C14/proposed_findings.json — same schema, same matching function)
def local_findings():
    try:
        return json.load(open(os.path.join(VERIF, 'corpus', 'C14', 'proposed_findings.json')))['findings']
    except Exception:
        return []


def report_fail(res, what, replay):
    import common
    merged = {k.get('id') for k in common.load_known()}
    for k in local_findings():
        if k.get('id') not in merged and k.get('status') == 'known' and common._matches(k, what, replay):
            res.known_hits.append((k, what))
            return
    res.fail(what, replay)


# ------------------------------------------------------------------------------------------------------------------
class Batch:
    """collects (block, params, inputs, observed); the Python oracle runs immediately on the observation, the Lean model
    and the Lean specification are evaluated in one driver session per flush"""

    def __init__(self, res):
        self.res = res
        self.items = []
        self.driver_ok = True
        self.n_fail_reported = {}

    def add(self, blk, p, x, observed, ctor_error=None):
        p, x = tuple(p), tuple(x)
        res = self.res
        exp, cls, dom = oracle(blk, p, x)
        replay = dict(block=blk, params=list(p), inputs=list(x), cls=cls, expected=exp,
                      observed=observed if ctor_error is None else 'raises: ' + ctor_error)
        if x == ():
            res.hist('ctor', f"{blk}:{'raises' if ctor_error else 'accepts'}:{'in-domain' if dom else 'outside'}")
            if dom and ctor_error is not None:
                # the property quantifies over this format, the block cannot even be simulated
                res.hist('classes', f'{blk}:{cls or "IN-DOMAIN-FAILURE"}')
                report_fail(res, f'{blk}{list(p)}: block cannot be built/simulated for a format inside the property\'s domain '
                                 f'({ctor_error})', replay)
        elif dom:
            gtnone = blk == 'FixedPointComparator' and len(p) > 11 and p[11] == 1
            res.count((blk, p, x), hist={'block': blk})
            if isinstance(observed, str):
                good = False
            elif blk == 'FixedPointComparator':
                # eq is specified for every pair; gt / lt whenever the difference is representable
                idx = [1] if cls else [0, 1, 2]
                if gtnone:
                    idx = [i for i in idx if i != 0]
                good = all(observed[i] == exp[i] for i in idx)
                if cls:
                    res.hist('classes', f'{blk}:{cls}(exempt; lt {"wrong" if observed[2] != exp[2] else "right"})')
            else:
                good = observed == exp
            if not good:
                res.hist('classes', f'{blk}:{cls or "IN-DOMAIN-FAILURE"}')
                k = (blk, cls)
                self.n_fail_reported[k] = self.n_fail_reported.get(k, 0) + 1
                if self.n_fail_reported[k] <= 50:
                    report_fail(res, f'{blk}{list(p)} inputs {list(x)}: expected {exp} observed {observed}', replay)
            elif cls and blk != 'FixedPointComparator':
                res.hist('classes', f'{blk}:{cls}(agrees here)')
        else:
            res.hist('outside_domain_vectors', blk)
        self.items.append((blk, p, x, observed, ctor_error, exp, cls, dom))
        if len(self.items) >= 60000:
            self.flush()

    def flush(self):
        if not self.items:
            return
        items, self.items = self.items, []
        if not self.driver_ok:
            return
        lines = [f"{b} | {','.join(map(str, p))} | {','.join(map(str, x))}" for b, p, x, *_ in items]
        try:
            ans = run_driver('Drv/C14.lean', lines)
        except ToolFailure as e:
            self.driver_ok = False
            self.res.broken.append(('correspondence', 'blocks', 'model driver Drv/C14.lean does not run: ' + str(e)[-300:]))
            return
        res = self.res
        for (blk, p, x, obs, cerr, exp, cls, dom), a in zip(items, ans):
            parts = [s.strip() for s in a.split('|')]
            if len(parts) != 3:
                raise ToolFailure(f'driver answer {a!r} for {blk} {p} {x}')
            model, spec, lcls = parts
            gtnone = blk == 'FixedPointComparator' and len(p) > 11 and p[11] == 1
            info = dict(block=blk, params=list(p), inputs=list(x), observed=obs if cerr is None else 'raises: ' + cerr)
            # inside a finding class the model reproduces the DEFECT; if the implementation now agrees with the specification
            # there (the defect got fixed) that is not a disagreement to report: the check must keep passing
            repaired = cls in FINDING_CLASSES and cerr is None and (x == () or (not isinstance(obs, str) and obs == exp))
            if x == ():
                if (cerr is not None) != (model == '!'):
                    if repaired and model == '!':
                        res.hist('classes', f'{blk}:{cls}(now accepted by the implementation: fixed?)')
                    else:
                        res.disagree('blocks', dict(info, model=model, what='constructor accept/raise differs'))
                continue
            res.cov['disagreements_checked'] += 1
            if model != '!':
                mv = [int(v) for v in model.split(',') if v != '']
                ov = obs
                if gtnone and not isinstance(obs, str):
                    mv, ov = mv[1:], obs[1:]
                if isinstance(obs, str) or mv != ov:
                    if repaired:
                        res.hist('classes', f'{blk}:{cls}(implementation agrees with the specification, model does not: fixed?)')
                    else:
                        res.disagree('blocks', dict(info, model=mv, what='model output differs from implementation'))
            # one specification, two evaluators
            if dom:
                sv = [int(v) for v in spec.split(',') if v != '']
                if sv != exp or lcls != cls:
                    res.disagree('spec', dict(info, lean_spec=sv, lean_class=lcls, python_oracle=exp, python_class=cls,
                                              what='Lean specification and Python oracle differ'))


# ------------------------------------------------------------------------------------------------------------------
def formats_of_width(w, signed_only=False):
    """all (s, i, f) with s in {0,1} and s+i+f = w"""
    out = []
    for s in ((1,) if signed_only else (1, 0)):
        if w - s < 0:
            continue
        for f in range(0, w - s + 1):
            out.append((s, w - s - f, f))
    return out


def boundary(w):
    if w <= 0:
        return [0]
    m = (1 << w) - 1
    return sorted({0, 1 & m, m, 1 << (w - 1), (1 << (w - 1)) - 1, (1 << (w - 1)) + 1 & m, m - 1 if w > 1 else 0,
                   0x5555555555555555 & m, 0xAAAAAAAAAAAAAAAA & m})


WIDE_WIDTHS = (54, 64, 65, 96, 128)     # wider than a double's 53-bit significand (a float detour is no longer exact)


def wide_values(w, rng, n):
    """encodings with MORE THAN 53 significant bits: top and bottom bits set"""
    m = (1 << w) - 1
    top, top2 = 1 << (w - 1), 1 << (w - 2)
    vs = [top2 | 1, top | 1, top2 | 3, m, m - 1, top2 - 1, (top2 | 1) ^ m, 1, top | top2 | 1, 0x5555555555555555555555555555555555 & m | 1 | top2]
    for _ in range(n):
        vs.append((rng.randint(0, m) | 1 | (top2 if rng.chance(1, 2) else top)) & m)
        vs.append(rng.randint(0, m))
    return vs


def param_families(tier, rng):
    """yields (block, params, mode) with mode 'exh' (all operand encodings) or ('rnd', n)"""
    q = tier == 'quick'
    WMAX = 6                      # exhaustive: every format with total width <= 6
    # --- same-format blocks: every format (signed and unsigned labelled) of total width <= WMAX, all encodings
    for w in range(0, WMAX + 1):
        for fm in formats_of_width(w):
            if q and fm[0] == 0 and w >= 5:     # quick: unsigned-labelled formats (same code path) only up to 4 bits
                continue
            yield 'FixedPointAdd', (w, w, w) + fm + fm + fm, 'exh'
            yield 'FixedPointSub', (w, w, w) + fm + fm + fm, 'exh'
            yield 'FixedPointSign', (w, 1) + fm, 'exh'
            yield 'FixedPointComparator', (w, w, 1, 1, 1) + fm + fm, 'exh'
            if fm[0] == 1 and w in (1, 3):
                yield 'FixedPointComparator', (w, w, 2, 2, 2) + fm + fm, 'exh'       # wider output wires
                yield 'FixedPointComparator', (w, w, 1, 1, 1) + fm + fm + (1,), 'exh'  # gt=None
                yield 'FixedPointSign', (w, 3) + fm, 'exh'
    # --- constructor checks: mixed formats, width mismatches (outside the property: raise <=> model illegal)
    for fa, fb, fr in [((1, 1, 1), (1, 0, 2), (1, 1, 1)), ((1, 1, 1), (1, 1, 1), (1, 0, 2)), ((1, 1, 1), (1, 1, 1), (1, 2, 1)),
                       ((1, 2, 1), (1, 1, 1), (1, 1, 1))]:
        for blk in ('FixedPointAdd', 'FixedPointSub'):
            yield blk, (sum(fa), sum(fb), sum(fr)) + fa + fb + fr, ('rnd', 2)
    yield 'FixedPointAdd', (4, 3, 3, 1, 1, 1, 1, 1, 1, 1, 1, 1), ('rnd', 2)
    yield 'FixedPointMult', (4, 3, 3, 1, 1, 1, 1, 1, 1, 1, 1, 1), ('rnd', 2)
    yield 'FixedPointMult', (3, 3, 4, 1, 1, 1, 1, 1, 1, 1, 1, 1), ('rnd', 2)
    yield 'FixedPointSign', (4, 1, 1, 1, 1), ('rnd', 2)
    yield 'FixedPointComparator', (3, 3, 1, 1, 1, 1, 1, 1, 1, 0, 2), ('rnd', 2)
    yield 'FixedPointComparator', (3, 4, 1, 1, 1, 1, 1, 1, 1, 2, 1), ('rnd', 2)
    yield 'FixedPointComparator', (3, 3, 1, 1, 1, 1, 1, 1, 1, 1, 1, 0), ('rnd', 2)
    # --- multiplier: operand formats with aw + bw <= WMAX (quick) / 8 (thorough), every fraction split, every result
    #     format up to two bits wider than the full product, all operand encodings
    MW = WMAX if q else 8
    for aw in range(0, MW + 1):
        for bw in range(0, MW + 1 - aw):
            if aw + bw == 0:
                continue
            fas = formats_of_width(aw, signed_only=True) or [(0, 0, 0)]
            fbs = formats_of_width(bw, signed_only=True) or [(0, 0, 0)]
            for fa in fas:
                for fb in fbs:
                    for rw in range(0, aw + bw + 3):
                        frs = formats_of_width(rw, signed_only=True) or [(0, 0, 0)]
                        if q and aw + bw >= 5:          # quick: thin the large end (every 2nd result format)
                            frs = [fr for k, fr in enumerate(frs) if (k + rw + aw) % 2 == 0]
                        for fr in frs:
                            yield 'FixedPointMult', (aw, bw, rw) + fa + fb + fr, 'exh'
    # unsigned-labelled formats (the block reads every encoding as two's complement whatever the sign entry says)
    for fa, fb, fr in [((0, 1, 2), (0, 2, 1), (0, 3, 3)), ((0, 0, 3), (1, 1, 1), (0, 2, 2)), ((0, 2, 0), (0, 2, 0), (0, 4, 0))]:
        yield 'FixedPointMult', (sum(fa), sum(fb), sum(fr)) + fa + fb + fr, 'exh'
    # --- wide formats (both tiers): total width 54, 64, 65, 96, 128, operands with the top and bottom bits set
    for w in WIDE_WIDTHS:
        for f in (w // 2, 0, w - 1) if not q else (w // 2, (w * 7) % (w - 1)):
            fm = (1, w - 1 - f, f)
            yield 'FixedPointAdd', (w, w, w) + fm + fm + fm, ('wide', 8 if q else 60)
            yield 'FixedPointSub', (w, w, w) + fm + fm + fm, ('wide', 8 if q else 60)
            yield 'FixedPointSign', (w, 1) + fm, ('wide', 8 if q else 60)
            yield 'FixedPointComparator', (w, w, 1, 1, 1) + fm + fm, ('wide', 8 if q else 60)
            yield 'FixedPointMult', (w, w, w) + fm + fm + fm, ('wide', 8 if q else 60)
            yield 'FixedPointMult', (w, w, 2 * w) + fm + fm + (1, 2 * w - 1 - 2 * f, 2 * f), ('wide', 8 if q else 60)
    # --- sampled to 32 bits (thorough: 64)
    ns = 40 if q else 600
    nr = 40 if q else 300
    WS = 32 if q else 64
    for k in range(ns):
        r = rng.fork(('fmt', k))
        w = r.choice([7, 8, 9, 12, 15, 16, 17, 24, 31, 32] + ([] if q else [33, 48, 63, 64]))
        w = min(w, WS)
        f = r.choice([0, w - 1, r.randint(0, w - 1), w // 2])
        fm = (1, w - 1 - f, f)
        yield 'FixedPointAdd', (w, w, w) + fm + fm + fm, ('rnd', nr)
        yield 'FixedPointSub', (w, w, w) + fm + fm + fm, ('rnd', nr)
        yield 'FixedPointSign', (w, 1) + fm, ('rnd', nr // 2)
        yield 'FixedPointComparator', (w, w, 1, 1, 1) + fm + fm, ('rnd', nr)
        # multiplier: same format / full precision / random result format / different operand formats
        bw = r.choice([w, w, r.choice([4, 8, 13, 16, 24, 32])])
        fb_ = r.randint(0, bw - 1) if bw != w else f
        fb = (1, bw - 1 - fb_, fb_) if bw != w or r.chance(1, 2) else fm
        choices = [fm, (1, w + bw - 1 - (f + fb[2]), f + fb[2])]
        rw = r.randint(1, w + bw)
        rf_ = r.randint(0, min(rw - 1, f + fb[2]))
        choices.append((1, rw - 1 - rf_, rf_))
        rw2 = r.randint(max(1, w + bw - 3), w + bw + 4)          # around the edge of the product wire
        rf2 = r.randint(0, min(rw2 - 1, f + fb[2]))
        choices.append((1, rw2 - 1 - rf2, rf2))
        for fr in choices:
            yield 'FixedPointMult', (w, bw, sum(fr)) + fm + fb + fr, ('rnd', nr)


def input_vectors(real, mode, rng):
    if mode == 'exh':
        return itertools.product(*[range(1 << w) for w in real.inw])
    n = mode[1]
    if mode[0] == 'wide':
        cols = [wide_values(w, rng, n) for w in real.inw]
        if len(cols) == 1:
            return [(v,) for v in cols[0]]
        vs = list(itertools.product(cols[0][:10], cols[1][:10]))            # every pair of the structured values
        vs += list(zip(cols[0][10:], cols[1][10:]))
        vs += [(v, 1) for v in cols[0][:10]] + [(1, v) for v in cols[1][:10]]   # + one LSB (carry through > 53 bits)
        return vs
    vs = []
    bs = [boundary(w) for w in real.inw]
    for combo in itertools.islice(itertools.product(*bs), 81):   # most negative, -1, max, 0, 1 ... in every combination
        vs.append(combo)
    for _ in range(n):
        v = tuple(rng.bits(w) for w in real.inw)
        vs.append(v)
        if len(v) == 2 and real.inw[0] == real.inw[1] and rng.chance(1, 4):   # close operands (comparator / subtractor)
            d = rng.randint(-2, 2)
            vs.append((v[0], (v[0] + d) & ((1 << real.inw[0]) - 1)))
    return vs


def flush_net(res, nb):
    try:
        nb.run()
    except ToolFailure as e:
        res.broken.append(('correspondence', 'net', str(e)[-300:]))


def run_blocks(res, tier, rng, batch):
    nb = D.NetBatch(res, 'net')
    n_inst = 0
    net_n, net_cap = {}, (6 if tier == 'quick' else 60)
    for idx, (blk, p, mode) in enumerate(param_families(tier, rng)):
        real = Real(blk, p)
        n_inst += 1
        res.hist('instances', blk)
        if blk == 'FixedPointMult':
            low = p[5] + p[8] - p[11]
            res.hist('mult_window', 'low<0' if low < 0 else ('window above product wire' if low + p[2] > p[0] + p[1] else
                                                              ('full precision' if (low == 0 and p[2] == p[0] + p[1]) else 'inside')))
            res.hist('mult_formats', 'equal' if p[3:6] == p[6:9] == p[9:12] else ('operands equal' if p[3:6] == p[6:9] else 'all different'))
        if real.error is not None:
            batch.add(blk, p, (), None, ctor_error=real.error)
            continue
        batch.add(blk, p, (), None)
        r = rng.fork(('vec', idx))
        vecs = list(input_vectors(real, mode, r))
        for j, x in enumerate(vecs):
            obs = real.run(x, use_clk=(j % 7 == 3))
            batch.add(blk, p, x, obs)
        res.hist('width', f'{blk}:{min(128, (max(real.inw) + 7) // 8 * 8)}')
        if idx < 3 or idx % 500 == 0:
            res.sample(dict(block=blk, params=list(p), mode=str(mode), vectors=len(vecs)))
        # netlist-level tie
        net_n.setdefault(blk, 0)
        if net_n[blk] < net_cap and (idx * 7 + len(blk)) % 11 == 0 and sum(real.inw) >= 2:
            try:
                real2 = Real(blk, p)
                ops = []
                for x in vecs[:6]:
                    ops += [('poke', w, v) for w, v in zip(real2.ins, x)] + [('clk', 1)]
                nb.add(real2.sys, ops, sim=real2.sim, label=f'{blk}{list(p)}')
                res.hist('net_designs', blk)
                net_n[blk] += 1
            except D.NotDumpable as e:
                res.hist('net_not_dumpable', f'{blk}:{e}')
            except ToolFailure:
                raise
            except Exception as e:
                res.hist('net_errors', f'{blk}:{type(e).__name__}')
    batch.flush()
    flush_net(res, nb)
    res.cov['instances'] = n_inst


# ------------------------------------------------------------------------------------------------------------------
def run_helper(res, tier, rng):
    """helper.FixedPoint (the repo's reference): real add/sub/mult on raw encodings vs oracle, vs the real blocks on equal
    formats, vs C12's Lean model through the driver"""
    import py4hw.helper as H
    q = tier == 'quick'
    cases = []
    fmts = []
    for w in range(1, 6 if q else 7):
        fmts += [(fm, 'exh') for fm in formats_of_width(w, signed_only=True)]
    for k in range(20 if q else 300):
        r = rng.fork(('hf', k))
        w = r.choice([8, 12, 16, 17, 24, 32])
        f = r.randint(0, w - 1)
        fmts.append(((1, w - 1 - f, f), ('rnd', 30 if q else 200)))
    for w in WIDE_WIDTHS:                 # both tiers: wider than a double's significand
        for f in ((w // 2, 0, w - 2) if not q else (w // 2, (w * 7) % (w - 2))):
            fmts.append(((1, w - 1 - f, f), ('wide', 6 if q else 60)))
    lines, meta = [], []
    for n, (fm, mode) in enumerate(fmts):
        w = sum(fm)
        r = rng.fork(('hv', n))
        res.hist('helper_width', min(128, (w + 7) // 8 * 8))
        if mode[0] == 'wide':
            ca, cb = wide_values(w, r, mode[1]), wide_values(w, r, mode[1])
            vecs = list(itertools.product(ca[:10], cb[:10])) + list(zip(ca[10:], cb[10:])) + \
                   [(v, 1) for v in ca[:10]] + [(1, v) for v in cb[:10]]
        elif mode == 'exh':
            vecs = list(itertools.product(range(1 << w), repeat=2))
        else:
            vecs = list(itertools.islice(itertools.product(boundary(w), repeat=2), 49)) + \
                   [(r.bits(w), r.bits(w)) for _ in range(mode[1])]
        blocks = {}
        if fm[1] >= 1 or True:
            for op, blk in (('add', 'FixedPointAdd'), ('sub', 'FixedPointSub'), ('mult', 'FixedPointMult')):
                blocks[op] = Real(blk, (w, w, w) + fm + fm + fm)
        for (a, b) in vecs:
            for op in ('add', 'sub', 'mult'):
                try:
                    with contextlib.redirect_stdout(io.StringIO()):
                        fa = H.FixedPoint.fromRawValue(fm[0], fm[1], fm[2], a)
                        fb = H.FixedPoint.fromRawValue(fm[0], fm[1], fm[2], b)
                        hv = getattr(fa, op)(fb).v
                except Exception as e:
                    hv = f'{type(e).__name__}'
                va, vb = val(w, fm[2], a), val(w, fm[2], b)
                if op == 'mult':
                    exp = floor_frac(va * vb * (1 << fm[2])) % (1 << w)
                else:
                    exp = int((va + vb if op == 'add' else va - vb) * (1 << fm[2])) % (1 << w)
                res.count(('helper', op, fm, a, b), hist={'helper': op})
                if isinstance(hv, str):
                    # int_bits = 0: FixedPoint(sw, 0, fw, 0) evaluates 1 << -1 (C12's finding fx_iw0; not a block)
                    res.hist('helper_raises', f'{op}:iw={fm[1]}:{hv}')
                    if fm[1] >= 1:
                        report_fail(res, f'helper FixedPoint{fm}.{op} raises {hv} on raw ({a},{b})',
                                    dict(block='helper.' + op, params=list(fm), inputs=[a, b], expected=[exp], observed=hv, cls=''))
                else:
                    if hv != exp:
                        report_fail(res, f'helper FixedPoint{fm}.{op} on raw ({a},{b}): expected {exp} observed {hv}',
                                    dict(block='helper.' + op, params=list(fm), inputs=[a, b], expected=[exp], observed=[hv], cls=''))
                    rb = blocks[op]
                    if rb.error is None:
                        ob = rb.run((a, b))
                        if ob != [hv]:
                            res.disagree('helper', dict(op=op, fmt=list(fm), inputs=[a, b], helper=hv, block=ob,
                                                        what='helper and block differ on equal formats'))
                lines.append(f"helper | {op} | {fm[0]},{fm[1]},{fm[2]} | {a},{b}")
                meta.append((op, fm, a, b, hv))
    try:
        ans = run_driver('Drv/C14.lean', lines)
        for (op, fm, a, b, hv), m in zip(meta, ans):
            mv = 'raises' if m.strip() == '!' else int(m)
            hvn = 'raises' if isinstance(hv, str) else hv
            if mv != hvn:
                res.disagree('helper', dict(op=op, fmt=list(fm), inputs=[a, b], helper=hv, model=m,
                                            what='helper and its Lean model (Helper/FixedPoint.lean) differ'))
    except ToolFailure as e:
        res.broken.append(('correspondence', 'helper', 'driver does not run: ' + str(e)[-300:]))


# ------------------------------------------------------------------------------------------------------------------
def corpus_cases():
    cases = []
    for k in local_findings():
        w = k.get('witness')
        if isinstance(w, dict) and 'block' in w:
            cases.append(w)
    d = os.path.join(VERIF, 'corpus', 'C14')
    if os.path.isdir(d):
        for f in sorted(os.listdir(d)):
            if f.startswith('case') and f.endswith('.json'):
                cases += json.load(open(os.path.join(d, f)))
    return cases


def run_cases(res, batch, cases, tag):
    for c in cases:
        if c.get('block') not in BLOCKS:
            continue
        real = Real(c['block'], c['params'])
        res.hist(tag, c['block'])
        if real.error is not None:
            batch.add(c['block'], c['params'], (), None, ctor_error=real.error)
            continue
        batch.add(c['block'], c['params'], (), None)
        if c.get('inputs'):
            batch.add(c['block'], c['params'], c['inputs'], real.run(c['inputs']))
    batch.flush()


def main(res, tier, rng, replay):
    import time as _t
    ok, metas, errors, changed = regenerate()
    for e in errors:
        res.broken.append(('translator', 'py2lean', e))
    t0 = _t.time()
    proved = res.proof_stage('Py4hwV.Props.C14', OBLIGATIONS, extra_modules=['Py4hwV.Drv.Proto'])
    checker = ''
    if proved and tier != 'quick':
        # independent re-check of the compiled declarations with the external kernel checker
        import common as _c
        lk = _c._lock()
        try:
            pc = subprocess.run(['lake', 'env', 'leanchecker', 'Py4hwV.Props.C14', 'Py4hwV.Proofs.C14Lemmas', 'Py4hwV.Proofs.C14Rat',
                                 'Py4hwV.Lib.Fxp', 'Py4hwV.Lib.FxpSpec'], cwd=LEAN, capture_output=True, text=True, timeout=1500)
        finally:
            lk.close()
        checker = ' && lake env leanchecker <C14 modules>'
        if pc.returncode != 0:
            res.broken.append(('proof', 'leanchecker', (pc.stdout + pc.stderr)[-400:]))
    n_obl, n_dis, ax = res.cov['obligations'], res.cov['discharged'], set(res.cov.get('axioms_seen', []))
    # helper agreement lives in its own module: it imports C12's development (helper.py: FPNum, IEEE …); kept apart so
    # that the block theorems do not depend on it
    res.proof_stage('Py4hwV.Props.C14Helper', HELPER_OBLIGATIONS)
    res.cov['obligations'] += n_obl
    res.cov['discharged'] += n_dis
    res.cov['axioms_seen'] = sorted(ax | set(res.cov.get('axioms_seen', [])))
    res.cov['checker_cmd'] = (f'cd lean && lake build Py4hwV.Props.C14 Py4hwV.Props.C14Helper && #print axioms on '
                              f'{len(OBLIGATIONS) + len(HELPER_OBLIGATIONS)} obligations' + checker)
    res.notes.append(f'S0+S1 {_t.time() - t0:.1f}s')
    t0 = _t.time()
    if ok:
        try:
            t1.validate_generated(res, rng.fork('t1'), 60 if tier == 'quick' else 600, classes=T1_CLASSES)
        except ToolFailure as e:
            res.broken.append(('correspondence', 'T1', f'generated definitions do not run: {str(e)[-300:]}'))
    res.notes.append(f'T1 {_t.time() - t0:.1f}s')
    t0 = _t.time()
    batch = Batch(res)
    okb, out = lean_build(['Py4hwV.Lib.Fxp', 'Py4hwV.Lib.FxpSpec', 'Py4hwV.Helper.FixedPoint', 'Py4hwV.Drv.Proto'])
    if not okb:      # the Python oracle still runs on the real implementation
        batch.driver_ok = False
        errs = [l for l in out.split('\n') if 'error' in l][:4]
        res.broken.append(('correspondence', 'blocks', 'model modules do not build: ' + ' // '.join(errs)))
    run_cases(res, batch, corpus_cases(), 'corpus')
    if replay:          # re-run the failing inputs of a replay file on the real code, nothing else
        cs = [f.get('replay', {}) for f in json.load(open(replay)).get('failing_inputs', [])]
        run_cases(res, batch, cs, 'replay')
        res.cov['rule'] = 'replay of recorded failing inputs on the real implementation'
        return
    run_blocks(res, tier, rng, batch)
    res.notes.append(f'blocks+net+oracle {_t.time() - t0:.1f}s')
    t0 = _t.time()
    run_helper(res, tier, rng.fork('helper'))
    res.notes.append(f'helper {_t.time() - t0:.1f}s')
    res.cov['rule'] = ('one case = (block, wire widths, format tuples, operand encodings) run on the REAL block inside the real '
                       'simulator (propagateAll, every 7th vector through clk(1)) and judged by fractions.Fraction arithmetic on the '
                       'decoded operands; exhaustive operand encodings for every format of total width <= 6 (adder, subtractor, '
                       'sign, comparator; multiplier: aw+bw <= 6 (8 thorough), every fraction split, every result format up to '
                       'two bits wider than the full product, incl. formats the block cannot simulate); boundary vectors (most '
                       'negative, -1, max, 0, 1, alternating) in every combination + seeded random vectors to 32 (64) bits with '
                       'same-format, full-precision, random and over-wide result formats; outputs also compared with the Lean '
                       'model Lib.Fxp.eval and the Lean specification FxpSpec.eval; helper.FixedPoint add/sub/mult vs oracle, '
                       'real blocks and Lean model')
    res.assumptions += [
        'a format is a tuple of naturals (sign, integer, fraction); the value of an encoding is toSigned(width, x) / 2^fraction '
        'whatever the sign entry says (that is how every block reads it); "signed format" = sign entry 1 for Sign/Comparator',
        'truncation = floor (dropping low bits of the two\'s-complement product), as in DESIGN.md §5 C14',
        'comparator: eq is specified for all pairs; gt/lt only when the signed difference fits the operand format '
        '(the property\'s own exemption), theorem fxpComparator_lt_iff shows the exemption is exactly the failure set',
        'mixed operand/result formats for add/sub/compare are rejected by assertions ("@todo by now we only support same format"): '
        'outside the property (it speaks of one format); only raise <=> model-illegal is checked there',
    ]


if __name__ == '__main__':
    main_wrapper('C14', main)
