"""
T3 artefact import for live circuits: walks a py4hw object graph and exports it as the `Net.Netlist` of
lean/Py4hwV/Net/IR.lean (requests for Drv/Net.lean).  Also used as a "snapshot" (structure + values + leaf attributes).
"""
import os, json
from common import *


class NotDumpable(Exception):
    pass


_METAS = None


def metas():
    global _METAS
    if _METAS is None:
        m = json.load(open(os.path.join(LEAN, 'Py4hwV', 'Gen', 'meta.json')))
        _METAS = {c['cls']: c for c in m['classes']}
    return _METAS


def reset_metas():
    global _METAS
    _METAS = None


def all_wires(sys_obj):
    """every Wire reachable from the hierarchy (declared wires + port wires), stable order"""
    seen, order = set(), []

    def add(w):
        if w is not None and id(w) not in seen and hasattr(w, 'getWidth') and hasattr(w, 'value'):
            seen.add(id(w))
            order.append(w)

    def walk(o):
        for w in o._wires.values():
            add(w)
        for p in o.inPorts + o.outPorts + o.inOutPorts:
            add(p.wire)
        for c in o.children.values():
            walk(c)
    walk(sys_obj)
    return order


_REG_PUTS = None


def reg_puts_reset_value():
    """does Reg.__init__ (as written today) put the reset value on q?  (read from the source, not assumed)"""
    global _REG_PUTS
    if _REG_PUTS is None:
        import ast
        src = open(os.path.join(REPO, 'py4hw', 'logic', 'storage.py')).read()
        _REG_PUTS = False
        for c in ast.parse(src).body:
            if isinstance(c, ast.ClassDef) and c.name == 'Reg':
                for m in c.body:
                    if isinstance(m, ast.FunctionDef) and m.name == '__init__':
                        _REG_PUTS = 'q.put(self.reset_value)' in ast.unparse(m)
    return _REG_PUTS


class Dump:
    def __init__(self, sys_obj, sim=None, allow_unknown=False, ids=None):
        import py4hw
        self.sys = sys_obj
        self.sim = sim if sim is not None else sys_obj.getSimulator()
        self.wires = all_wires(sys_obj)
        self.leaves = sys_obj.allLeaves()
        if ids is not None:
            # optional (C04 histories): stable numbering over several dumps of a GROWING hierarchy — `ids` is a dict the caller
            # keeps; every wire / leaf keeps the number of the dump that saw it first, new objects are numbered after the old
            for key, objs in (('wires', self.wires), ('leaves', self.leaves)):
                known = ids.setdefault(key, [])
                seen = {id(o) for o in known}
                known += [o for o in objs if id(o) not in seen]
            self.wires, self.leaves = list(ids['wires']), list(ids['leaves'])
        self.wid = {id(w): i + 1 for i, w in enumerate(self.wires)}  # 0 = null wire
        self.lid = {id(l): i for i, l in enumerate(self.leaves)}
        self.lines = []
        M = metas()
        self.lines.append('reset')
        self.lines.append('wires ' + ','.join(['1'] + [str(w.getWidth()) for w in self.wires]))
        self.unknown = []
        for leaf in self.leaves:
            k = type(leaf).__name__
            if k not in M or not (leaf.isPropagatable() or leaf.isClockable()):
                if leaf.isPropagatable() or leaf.isClockable():
                    if not allow_unknown:
                        raise NotDumpable(k)
                    self.unknown.append(k)
                self.lines.append('leaf Unknown | | | | | | | ')
                continue
            meta = M[k]
            cfg = []
            for key, t in meta['cfg']:
                if key.startswith('w_'):
                    cfg.append(str(getattr(leaf, key[2:]).getWidth()))
                elif key.startswith('has_'):
                    cfg.append('1' if getattr(leaf, key[4:]) is not None else '0')
                elif key.startswith('p_'):
                    cfg.append(str(int(leaf.getParameterValue(key[2:]))))
                elif key.startswith('a_'):
                    cfg.append(str(int(getattr(leaf, key[2:]))))
                elif key.startswith('l_'):
                    v = getattr(leaf, key[2:])
                    cfg.append(','.join(str(ord(x)) if isinstance(x, str) else str(int(x)) for x in v))
            st = []
            for key, t in meta['st']:
                v = getattr(leaf, key)
                try:
                    st.append(','.join(str(int(x)) for x in v) if t == 'ilist' else str(int(v)))
                except (TypeError, ValueError):
                    # a state attribute that is not an integer (list): the generated model of this class cannot represent it
                    # (e.g. the source gained an attribute initialised with None): no model leg for this design
                    raise NotDumpable(f'{type(leaf).__name__}.{key} holds {v!r}')
            wi = lambda w: '0' if w is None else str(self.wid[id(w)])
            ins = ','.join(wi(getattr(leaf, n)) for n in meta['ins'])
            inls = ';'.join(','.join(wi(w) for w in getattr(leaf, n)) for n in meta['inls'])
            outs = ','.join(wi(getattr(leaf, n)) for n in meta['outs'])
            outls = ';'.join(','.join(wi(w) for w in getattr(leaf, n)) for n in meta['outls'])
            fl = ('p' if leaf.isPropagatable() else '') + ('c' if leaf.isClockable() else '')
            self.lines.append(f"leaf {meta['lean']} | {';'.join(cfg)} | {';'.join(st)} | {ins} | {inls} | {outs} | {outls} | {fl}")
            if k == 'Reg' and reg_puts_reset_value():
                # Reg.__init__ puts its reset value on q (construction-time put)
                self.lines.append(f"cons {self.wid[id(leaf.q)]} {int(leaf.reset_value)}")

    def schedule_lines(self, order=None, drivers=None):
        """order/drivers default to what the real simulator computed"""
        L = []
        if order is None:
            order = [self.lid[id(o)] for o in self.sim.propagatables]
        L.append('order ' + ','.join(str(k) for k in order))
        L.append('cleardrivers')
        if drivers is None:
            drivers = []
            for drv, ds in self.sim.clockDrivers.items():
                en = None if drv.enable is None else self.wid[id(drv.enable)]
                drivers.append((en, [self.lid[id(o)] for o in ds.clockables]))
        for en, cs in drivers:
            L.append(f"driver {'_' if en is None else en} | " + ','.join(str(k) for k in cs))
        return L

    def values(self):
        return [0] + [w.value for w in self.wires]

    def leaf_states(self):
        M = metas()
        out = []
        for leaf in self.leaves:
            k = type(leaf).__name__
            if k not in M:
                out.append(None)
                continue
            st = []
            for key, t in M[k]['st']:
                v = getattr(leaf, key)
                st.append([int(x) for x in v] if t == 'ilist' else [int(v)])
            out.append(st)
        return out


class NetBatch:
    """accumulates several (design, ops) runs and executes them in ONE driver session"""

    def __init__(self, res, stream):
        self.res, self.stream = res, stream
        self.lines, self.jobs = [], []

    def add(self, sys_obj, ops, sim=None, order=None, drivers=None, label=None, extra_check=None):
        """runs `ops` on the real simulator NOW, queues the same for the model. ops: ('poke', wire, v) | ('clk', n)
           returns the python trace (list of value vectors, index 0 = null wire)"""
        import py4hw
        sim = sim if sim is not None else sys_obj.getSimulator()
        sched = None
        try:
            d = Dump(sys_obj, sim)
            try:
                sched = d.schedule_lines(order, drivers)
            except Exception as e_:
                # the simulator's scheduling structures no longer have the shape the importer reads (e.g. clock domains not keyed
                # by ClockDriver objects): the tie to the model is broken, the implementation is still driven for the oracles
                msg = f'simulator schedule cannot be imported: {type(e_).__name__}: {str(e_)[:120]}'
                if not any(b[2] == msg for b in self.res.broken):
                    self.res.broken.append(('correspondence', self.stream, msg))
                raise NotDumpable('schedule')
        except NotDumpable as e:
            # a leaf the translator does not cover (or no longer covers): the model leg is skipped, the implementation
            # is still driven so that the caller's oracle (extra_check) runs on it
            self.res.hist('not_dumpable', str(e))
            d = Dump(sys_obj, sim, allow_unknown=True)
            trace = [d.values()]
            for op in ops:
                if op[0] == 'poke':
                    op[1].put(op[2])
                else:
                    sim.clk(op[1])
                trace.append(d.values())
                if extra_check:
                    extra_check(d, sim)
            return trace
        start = len(self.lines)
        self.lines += d.lines + sched + ['begin', 'vals']
        trace = [d.values()]
        for op in ops:
            if op[0] == 'poke':
                op[1].put(op[2])
                self.lines.append(f'poke {d.wid[id(op[1])]} {op[2]}')
            else:
                sim.clk(op[1])
                self.lines.append(f'clk {op[1]}')
            self.lines.append('vals')
            trace.append(d.values())
            if extra_check:
                extra_check(d, sim)
        self.lines.append('prepared')
        self.lines.append('clks')
        self.jobs.append(dict(start=start, end=len(self.lines), trace=trace, label=label, d=d,
                              prepared=len(py4hw.Wire.prepared), clks=sim.total_clks, n_ops=len(ops)))
        return trace

    def run(self):
        """returns number of designs that agreed"""
        if not self.jobs:
            return 0
        out = run_driver('Drv/Net.lean', self.lines)
        good = 0
        for jb in self.jobs:
            ls, os_ = self.lines[jb['start']:jb['end']], out[jb['start']:jb['end']]
            vals = [o for l, o in zip(ls, os_) if l == 'vals']
            ok = True
            d = jb['d']
            for step, (pv, lv) in enumerate(zip(jb['trace'], vals)):
                lvv = [int(x) for x in lv.split(',')] if lv and lv != 'bad-op' else None
                if lvv != pv:
                    ok = False
                    bad = [i for i in range(min(len(pv), len(lvv or []))) if (lvv or [])[i] != pv[i]][:5]
                    names = [d.wires[i - 1].getFullPath() for i in bad if i > 0]
                    self.res.disagree(self.stream, dict(design=jb['label'], step=step, wires=names,
                                                        python=[pv[i] for i in bad],
                                                        lean=[(lvv or [])[i] for i in bad], n_ops=jb['n_ops']))
                    break
            if ok and os_[-2].strip() != str(jb['prepared']):
                ok = False
                self.res.disagree(self.stream, dict(design=jb['label'], what='prepared list length',
                                                    python=jb['prepared'], lean=os_[-2]))
            if ok and os_[-1].strip() != str(jb['clks']):
                ok = False
                self.res.disagree(self.stream, dict(design=jb['label'], what='total_clks', python=jb['clks'], lean=os_[-1]))
            good += ok
        self.lines, self.jobs = [], []
        return good
