"""C07 — Integer arithmetic blocks compute their mathematical function for all inputs.
See DESIGN.md §5 C07, lean/Py4hwV/Props/C07.lean, lean/Py4hwV/Lib/{Arith,ArithSpec,LeafArith}.lean, notes/C07.md.

Streams
  T1       generated leaf definitions (Gen.*) vs the real propagate() methods            (t1.validate_generated)
  blocks   the hand-written constructor models (Lib.* through Drv/C07.lean) vs the REAL blocks built with the real
           constructors and run by the real simulator: constructor accepts/raises + every output value
  net      the flattened netlist of the real block executed by the Lean simulator model with the generated leaves
  oracle   the SPECIFICATION (ArithSpec.eval, plain integer arithmetic, evaluated in Lean through the driver — the
           fallback driver Drv/C07Spec.lean imports no generated code, so it runs even when a bridge is broken)
           compared with the outputs OBSERVED on the real implementation = the failing-input search
"""
import io, contextlib, itertools, json, os
from common import *
import t1, dump_ir as D

OBLIGATIONS = [
    # bridges: generated propagate() bodies -> reference leaves (lean/Py4hwV/Lib/Leaf.lean, LeafArith.lean)
    'Leaf.gen_addc', 'Leaf.gen_sub', 'Leaf.gen_mul', 'Leaf.gen_smul', 'Leaf.gen_c2_to_signed', 'Leaf.gen_div',
    'Leaf.gen_mod', 'Leaf.gen_sext', 'Leaf.gen_zext', 'Leaf.gen_shlC', 'Leaf.gen_shrC', 'Leaf.gen_rotl', 'Leaf.gen_rotr',
    'Leaf.gen_bit', 'Leaf.gen_range', 'Leaf.gen_mux2', 'Leaf.gen_const', 'Leaf.gen_not', 'Leaf.gen_buf', 'Leaf.gen_and2',
    'Leaf.gen_or2', 'Leaf.gen_concatLSBF',
    # property theorems (lean/Py4hwV/Props/C07.lean)
    'C07.add_spec', 'C07.add_co_spec', 'C07.add_co_exact', 'C07.signedAdd_spec', 'C07.signedAdd_co_spec', 'C07.sub_spec',
    'C07.signedSub_spec', 'C07.neg_spec', 'C07.neg_signed', 'C07.sign_spec', 'C07.abs_spec', 'C07.abs_inverted_spec',
    'C07.signExtend_spec', 'C07.zeroExtend_spec', 'C07.mul_spec', 'C07.signedMul_spec', 'C07.div_spec', 'C07.mod_spec',
    'C07.signedDiv_inner_divisor_ne_zero', 'C07.signedDiv_spec', 'C07.shiftLeftConstant_spec', 'C07.shiftRightConstant_spec',
    'C07.rotateLeftConstant_spec', 'C07.rotateRightConstant_spec', 'C07.rotateLeftConstantOld_counterexample',
    'C07.rotateRightConstantOld_counterexample', 'C07.shiftLeft_spec', 'C07.shiftRight_logical_spec',
    'C07.shiftRight_arith_spec', 'C07.shiftRight_wire_spec', 'C07.shiftRight_arith_former_witness',
    'C07.shr_extended', 'C07.rotateLeft_spec', 'C07.rotateRight_spec',
    'C07.rotateLeft_former_witness', 'C07.rotateRight_former_witness', 'C07.binaryToBCD_spec', 'C07.binaryToBCD_exact',
    'C07.countLeadingZeros_spec', 'C07.countLeadingZeros_z_spec',
    # the primitive blocks stated directly on the generated code
    'C07.gen_AddCarryIn_spec', 'C07.gen_Sub_spec', 'C07.gen_Mul_spec', 'C07.gen_SignedMul_spec', 'C07.gen_Div_spec',
    'C07.gen_Mod_spec', 'C07.gen_SignExtend_spec', 'C07.gen_ZeroExtend_spec', 'C07.gen_ShiftLeftConstant_spec',
    'C07.gen_ShiftRightConstant_spec', 'C07.gen_RotateLeftConstant_spec', 'C07.gen_RotateRightConstant_spec',
    # key lemmas the theorems rest on
    'C07.sext_eq', 'C07.barrel_inv', 'C07.barrel_shr', 'C07.barrel_shl', 'C07.barrel_rotl', 'C07.barrel_rotr',
    'C07.rotv_lt_M', 'C07.rotv_allones', 'C07.fFunction_top', 'C07.clzNext_top', 'C07.clzLevels_top', 'C07.bcdLoop_val',
]

T1_CLASSES = ['And2', 'Or2', 'Not', 'Buf', 'Bit', 'BitsLSBF', 'Constant', 'Mux2', 'Range', 'ShiftLeftConstant',
              'ShiftRightConstant', 'RotateLeftConstant', 'RotateRightConstant', 'ConcatenateLSBF', 'AddCarryIn', 'Sub',
              'Mul', 'SignedMul', 'Div', 'Mod', 'SignExtend', 'ZeroExtend']


# ------------------------------------------------------------------------------------------------------------------
# the real blocks.  p = constructor parameters (same encoding as ArithSpec.eval / Lib.arithEval), returns
# (input widths, output widths, constructor call)
def block_def(blk, p):
    import py4hw.logic.arithmetic as A
    import py4hw.logic.bitwise as B
    if blk in ('Add', 'SignedAdd'):
        aw, bw, rw, ciw, cow, wc = p
        K = getattr(A, blk)
        return ([aw, bw] + ([ciw] if ciw else []), [rw] + ([cow] if cow else []),
                lambda s, i, o: K(s, 'dut', i[0], i[1], o[0], ci=(i[2] if ciw else None), co=(o[1] if cow else None),
                                  width_check=bool(wc)))
    if blk in ('Sub', 'SignedSub', 'Mul', 'SignedMul', 'Div', 'Mod', 'SignedDiv'):
        aw, bw, rw = p
        K = getattr(A, blk)
        return [aw, bw], [rw], lambda s, i, o: K(s, 'dut', i[0], i[1], o[0])
    if blk in ('Neg', 'Sign', 'SignExtend', 'ZeroExtend'):
        aw, rw = p
        K = getattr(A, blk)
        return [aw], [rw], lambda s, i, o: K(s, 'dut', i[0], o[0])
    if blk == 'Abs':
        aw, rw, iw = p
        return [aw], [rw] + ([iw] if iw else []), \
            lambda s, i, o: A.Abs(s, 'dut', i[0], o[0], inverted=(o[1] if iw else None))
    if blk == 'ShiftRight':
        aw, wb, rw, mode, arw = p
        if mode == 2:
            return [aw, wb, arw], [rw], lambda s, i, o: A.ShiftRight(s, 'dut', i[0], i[1], o[0], arithmetic=i[2])
        return [aw, wb], [rw], lambda s, i, o: A.ShiftRight(s, 'dut', i[0], i[1], o[0], arithmetic=bool(mode))
    if blk in ('ShiftLeft', 'RotateLeft', 'RotateRight'):
        aw, wb, rw = p
        K = getattr(A, blk)
        return [aw, wb], [rw], lambda s, i, o: K(s, 'dut', i[0], i[1], o[0])
    if blk in ('ShiftLeftConstant', 'ShiftRightConstant', 'RotateLeftConstant', 'RotateRightConstant'):
        aw, rw, n = p
        K = getattr(B, blk)
        return [aw], [rw], lambda s, i, o: K(s, 'dut', i[0], n, o[0])
    if blk == 'CountLeadingZeros':
        aw, rw, zw = p
        return [aw], [rw, zw], lambda s, i, o: A.CountLeadingZeros(s, 'dut', i[0], o[0], o[1])
    if blk == 'BinaryToBCD':
        aw, rw = p
        return [aw], [rw], lambda s, i, o: A.BinaryToBCD(s, 'dut', i[0], o[0])
    raise KeyError(blk)


class Real:
    """one real block instance inside its own HWSystem"""

    def __init__(self, blk, p):
        import py4hw
        self.blk, self.p = blk, tuple(p)
        self.inw, self.outw, ctor = block_def(blk, p)
        self.error = None
        try:
            with contextlib.redirect_stdout(io.StringIO()):
                self.sys = py4hw.HWSystem()
                self.ins = [self.sys.wire(f'i{k}', w) for k, w in enumerate(self.inw)]
                self.outs = [self.sys.wire(f'o{k}', w) for k, w in enumerate(self.outw)]
                ctor(self.sys, self.ins, self.outs)
                self.sim = self.sys.getSimulator()
        except Exception as e:   # the constructor (or the propagation done by getSimulator) rejects the parameters
            self.error = f'{type(e).__name__}: {str(e)[:80]}'

    def run(self, x, use_clk=False):
        for w, v in zip(self.ins, x):
            w.put(v)
        try:
            if use_clk:
                self.sim.clk(1)
            else:
                self.sim.propagateAll()
        except Exception as e:
            return f'{type(e).__name__}: {str(e)[:80]}'
        return [o.get() for o in self.outs]


# ------------------------------------------------------------------------------------------------------------------
# known findings: global file first (common.Result.fail), then the proposals that travel with this check until the
# integrator merges them (corpus/C07/proposed_findings.json — same schema, same matching function)
def local_findings():
    try:
        return json.load(open(os.path.join(VERIF, 'corpus', 'C07', 'proposed_findings.json')))['findings']
    except Exception:
        return []


def report_fail(res, what, replay):
    import common
    merged = {k.get('id') for k in common.load_known()}
    for k in local_findings():
        if k.get('id') not in merged and k.get('status') == 'known' and common._matches(k, what, replay):
            res.known_hits.append((k, what))
            return
    res.fail(what, replay)


# ------------------------------------------------------------------------------------------------------------------
class Batch:
    """collects (block, params, inputs, observed) and evaluates model + spec in one driver session"""

    def __init__(self, res):
        self.res = res
        self.items = []
        self.driver = 'Drv/C07.lean'
        self.model_available = True

    def add(self, blk, p, x, observed, ctor_error=None):
        self.items.append((blk, tuple(p), tuple(x), observed, ctor_error))
        if len(self.items) >= 60000:
            self.flush()

    def flush(self):
        if not self.items:
            return
        items, self.items = self.items, []
        lines = [f"{b} | {','.join(map(str, p))} | {','.join(map(str, x))}" for b, p, x, _, _ in items]
        try:
            if not self.model_available:
                raise ToolFailure('model driver unavailable')
            ans = run_driver(self.driver, lines)
        except ToolFailure as e:
            if self.model_available:
                self.model_available = False
                self.res.broken.append(('correspondence', 'blocks', 'model driver Drv/C07.lean does not run: ' + str(e)[-300:]))
                ok, out = lean_build(['Py4hwV.Lib.ArithSpec', 'Py4hwV.Drv.Proto'])
                if not ok:
                    raise ToolFailure('specification module does not build: ' + out[-500:])
            ans = run_driver('Drv/C07Spec.lean', lines)
        res = self.res
        for (blk, p, x, obs, cerr), a in zip(items, ans):
            parts = [s.strip() for s in a.split('|')]
            if len(parts) != 3:
                raise ToolFailure(f'driver answer {a!r} for {blk} {p} {x}')
            model, spec, cls = parts
            spec = [int(v) for v in spec.split(',') if v != '']
            replay = dict(block=blk, params=list(p), inputs=list(x), cls=cls, expected=spec,
                          observed=obs if cerr is None else 'constructor raises: ' + cerr)
            # --- constructor accept / raise (records with no input vector)
            if x == ():
                res.hist('ctor', f"{blk}:{'raises' if cerr else 'accepts'}")
                if model != '-' and (cerr is not None) != (model == '!'):
                    res.disagree('blocks', dict(replay, model=model, what='constructor accept/raise differs'))
                    if cerr is not None:
                        report_fail(res, f'{blk}{list(p)}: constructor raises for parameters inside the legal domain', replay)
                continue
            # --- correspondence: model vs implementation
            if model not in ('-', '!'):
                mv = [int(v) for v in model.split(',') if v != '']
                if cls != 'div0' and (isinstance(obs, str) or mv != obs):
                    res.disagree('blocks', dict(replay, model=mv, what='model output differs from implementation'))
            # --- oracle: specification vs implementation
            if cls == 'div0':
                res.hist('classes', f'{blk}:div0(unspecified)')
                continue
            res.count((blk, p, x), hist={'block': blk})
            good = (not isinstance(obs, str)) and all(s == o for s, o in zip(spec, obs))
            if not good:
                res.hist('classes', f'{blk}:{cls or "IN-DOMAIN-FAILURE"}')
                report_fail(res, f'{blk}{list(p)} inputs {list(x)}: expected {spec} observed {obs}', replay)
            elif cls:
                res.hist('classes', f'{blk}:{cls}(agrees here)')


# ------------------------------------------------------------------------------------------------------------------
def boundary(w):
    m = (1 << w) - 1
    return sorted({0, 1 & m, m, 1 << (w - 1), (1 << (w - 1)) - 1 if w > 1 else 0, m - 1 if w > 1 else 0, 0x55555555555555555 & m,
                   0xAAAAAAAAAAAAAAAAA & m})


def param_families(tier, rng):
    """yields (block, params, mode) with mode 'exh' (all inputs) or ('rnd', n)"""
    q = tier == 'quick'
    W2 = 3 if q else 4          # exhaustive operand widths for two-operand blocks
    RW = 5 if q else 7
    big = [5, 7, 8, 9, 15, 16, 17, 24, 31, 32, 33, 48, 63, 64]
    nr = 24 if q else 300       # random vectors per sampled instance
    ns = 10 if q else 150       # sampled instances per family
    two = ['Sub', 'SignedSub', 'Mul', 'SignedMul', 'Div', 'Mod', 'SignedDiv']
    for aw in range(1, W2 + 1):
        for bw in range(1, W2 + 1):
            for rw in range(1, RW + 1):
                for blk in two:
                    yield blk, (aw, bw, rw), 'exh'
                for blk in ('Add', 'SignedAdd'):
                    for ciw in (0, 1) + (() if q else (2,)):
                        for cow in (0, 1):
                            yield blk, (aw, bw, rw, ciw, cow, 0), 'exh'
                    if blk == 'Add':
                        yield blk, (aw, bw, rw, 0, 0, 1), 'exh'
                        yield blk, (aw, bw, rw, 1, 1, 1), 'exh'
    if not q:                   # one operand of 5 bits, exhaustive, three result widths
        for aw in range(1, 6):
            for bw in range(1, 6):
                if max(aw, bw) != 5:
                    continue
                for rw in (5, 6, 10):
                    for blk in two:
                        yield blk, (aw, bw, rw), 'exh'
                    for blk in ('Add', 'SignedAdd'):
                        yield blk, (aw, bw, rw, 0, 0, 0), 'exh'
                        yield blk, (aw, bw, rw, 1, 1, 0), 'exh'
    for k in range(ns):
        r = rng.fork(('two', k))
        aw, bw = r.choice(big), r.choice(big)
        for blk in two + ['Add', 'SignedAdd']:
            rw = r.choice([max(aw, bw), max(aw, bw) + 1, aw + bw, r.choice(big), r.randint(1, 70)])
            if blk in ('Add', 'SignedAdd'):
                yield blk, (aw, bw, rw, r.choice([0, 1, 1, 3]), r.choice([0, 1]), 0), ('rnd', nr)
            else:
                yield blk, (aw, bw, rw), ('rnd', nr)
    # one-operand blocks
    W1 = 6 if q else 8
    for aw in range(1, W1 + 1):
        for rw in range(1, W1 + 3):
            for blk in ('Neg', 'SignExtend', 'ZeroExtend'):
                yield blk, (aw, rw), 'exh'
            yield 'Sign', (aw, 1 if rw > 2 else rw), 'exh'
            for iw in (0, 1) + ((2,) if rw == 1 else ()):
                yield 'Abs', (aw, rw, iw), 'exh'
            for n in range(0, aw + 3):
                yield 'ShiftLeftConstant', (aw, rw, n), 'exh'
                yield 'ShiftRightConstant', (aw, rw, n), 'exh'
                yield 'RotateLeftConstant', (aw, rw, n), 'exh'
                yield 'RotateRightConstant', (aw, rw, n), 'exh'
    for k in range(ns):
        r = rng.fork(('one', k))
        aw = r.choice(big)
        for blk in ('Neg', 'SignExtend', 'ZeroExtend'):
            yield blk, (aw, r.choice([aw, aw + 1, r.choice(big), r.randint(1, 70)])), ('rnd', nr)
        yield 'Sign', (aw, 1), ('rnd', nr)
        yield 'Abs', (aw, r.choice([aw, aw + 1, r.choice(big)]), r.choice([0, 1])), ('rnd', nr)
        for blk in ('ShiftLeftConstant', 'ShiftRightConstant'):
            yield blk, (aw, r.choice([aw, r.choice(big)]), r.randint(0, aw + 3)), ('rnd', nr)
        for blk in ('RotateLeftConstant', 'RotateRightConstant'):
            yield blk, (aw, r.choice([aw, aw, r.choice(big)]), r.randint(0, aw)), ('rnd', nr)
    # variable shifts / rotates
    WS = 3 if q else 4
    for aw in range(1, WS + 1):
        for wb in range(1, 4):
            for rw in range(1, aw + (1 << wb) + 3 if not q else aw + 4):
                yield 'ShiftLeft', (aw, wb, rw), 'exh'
                yield 'RotateLeft', (aw, wb, rw), 'exh'
                yield 'RotateRight', (aw, wb, rw), 'exh'
                for mode in (0, 1, 2):
                    yield 'ShiftRight', (aw, wb, rw, mode, 1 if mode == 2 else 0), 'exh'
    yield 'ShiftRight', (3, 2, 3, 2, 2), 'exh'
    for k in range(ns):
        r = rng.fork(('sh', k))
        aw = r.choice(big)
        wb = r.randint(1, 7)
        rw = r.choice([aw, aw, aw + 1, r.choice(big)])
        yield 'ShiftLeft', (aw, wb, rw), ('rnd', nr)
        mode = r.choice([0, 1, 2])
        yield 'ShiftRight', (aw, wb, rw, mode, 1 if mode == 2 else 0), ('rnd', nr)
        wbr = r.randint(1, max(1, aw.bit_length() + 1))
        yield 'RotateLeft', (aw, wbr, r.choice([aw, aw, aw + 3, max(1, aw - 1)])), ('rnd', nr)
        yield 'RotateRight', (aw, wbr, r.choice([aw, aw, aw + 3, max(1, aw - 1)])), ('rnd', nr)
    # CLZ, BCD
    for aw in range(1, 10 if q else 13):
        for rw in range(1, 7):
            yield 'CountLeadingZeros', (aw, rw, 1), 'exh'
        yield 'CountLeadingZeros', (aw, 5, 2), 'exh'
        for rw in (3, 4, 8, 12, 16):
            yield 'BinaryToBCD', (aw, rw), 'exh'
    for aw in ([16, 17, 31, 32, 33, 64] if q else [15, 16, 17, 24, 31, 32, 33, 48, 63, 64, 65, 100, 128]):
        yield 'CountLeadingZeros', (aw, (aw - 1).bit_length() + rng.fork(('clz', aw)).choice([0, 1, 3]), 1), ('rnd', 4 * nr)
        yield 'BinaryToBCD', (aw, 4 * rng.fork(('bcd', aw)).randint(1, 24)), ('rnd', nr)


def input_vectors(real, mode, rng):
    if mode == 'exh':
        return itertools.product(*[range(1 << w) for w in real.inw])
    n = mode[1]
    vs = []
    bs = [boundary(w) for w in real.inw]
    for combo in itertools.islice(itertools.product(*bs), 40):
        vs.append(combo)
    if real.blk == 'CountLeadingZeros':            # every leading-one position
        vs += [((1 << k) | (rng.bits(k) if k else 0),) for k in range(real.inw[0])]
    if real.blk in ('ShiftLeft', 'ShiftRight', 'RotateLeft', 'RotateRight'):   # amounts around the data width
        aw, wb = real.inw[0], real.inw[1]
        for b in (aw - 1, aw, aw + 1, (1 << wb) - 1, 0, 1):
            if 0 <= b < (1 << wb):
                vs.append((rng.bits(aw), b) + ((1,) if len(real.inw) == 3 else ()))
                vs.append(((1 << (aw - 1)) | rng.bits(aw), b) + ((rng.randint(0, 1),) if len(real.inw) == 3 else ()))
    for _ in range(n):
        vs.append(tuple(rng.bits(w) for w in real.inw))
    return vs


def run_blocks(res, tier, rng, batch):
    nb = D.NetBatch(res, 'net')
    n_inst = 0
    net_n, net_cap = {}, (4 if tier == 'quick' else 40)
    for idx, (blk, p, mode) in enumerate(param_families(tier, rng)):
        real = Real(blk, p)
        n_inst += 1
        res.hist('instances', blk)
        if real.error is not None:
            batch.add(blk, p, (), None, ctor_error=real.error)
            continue
        batch.add(blk, p, (), None)          # accept/raise comparison only
        r = rng.fork(('vec', idx))
        vecs = list(input_vectors(real, mode, r))
        for j, x in enumerate(vecs):
            obs = real.run(x, use_clk=(j % 7 == 3))
            batch.add(blk, p, x, obs)
        if idx < 4 or idx % 400 == 0:
            res.sample(dict(block=blk, params=list(p), mode=str(mode), vectors=len(vecs)))
        # netlist-level tie: the real flattened netlist executed by the Lean simulator model with the generated leaves
        net_n[blk] = net_n.get(blk, 0)
        small = sum(real.inw) + sum(real.outw) <= (24 if tier == 'quick' else 80)
        if blk not in ('Div', 'Mod', 'SignedDiv') and small and net_n[blk] < net_cap and (idx * 7 + len(blk)) % 5 == 0:
            try:
                real2 = Real(blk, p)
                ops = []
                for x in vecs[:4]:
                    ops += [('poke', w, v) for w, v in zip(real2.ins, x)] + [('clk', 1)]
                nb.add(real2.sys, ops, sim=real2.sim, label=f'{blk}{list(p)}')
                res.hist('net_designs', blk)
                net_n[blk] += 1
            except D.NotDumpable as e:
                res.hist('net_not_dumpable', f'{blk}:{e}')
            if len(nb.jobs) >= 150:
                flush_net(res, nb)
                nb = D.NetBatch(res, 'net')
    batch.flush()
    flush_net(res, nb)
    res.cov['instances'] = n_inst
    return batch


def flush_net(res, nb):
    try:
        nb.run()
    except ToolFailure as e:
        res.broken.append(('correspondence', 'net', str(e)[-300:]))


def run_corpus(res, batch):
    """witnesses of the known findings and minimised past disagreements first"""
    d = os.path.join(VERIF, 'corpus', 'C07')
    cases = []
    for k in local_findings():
        if k.get('witness'):
            cases.append(k['witness'])
    if os.path.isdir(d):
        for f in sorted(os.listdir(d)):
            if f.startswith('case') and f.endswith('.json'):
                cases += json.load(open(os.path.join(d, f)))
    for c in cases:
        real = Real(c['block'], c['params'])
        if real.error is not None:
            batch.add(c['block'], c['params'], (), None, ctor_error=real.error)
            continue
        batch.add(c['block'], c['params'], c['inputs'], real.run(c['inputs']))
        res.hist('corpus', c['block'])
    batch.flush()


def main(res, tier, rng, replay):
    ok, metas, errors, changed = regenerate()
    for e in errors:
        res.broken.append(('translator', 'py2lean', e))
    import time as _t
    t0 = _t.time()
    res.proof_stage('Py4hwV.Props.C07', OBLIGATIONS, extra_modules=['Py4hwV.Drv.Proto'])
    res.notes.append(f'S0+S1 {_t.time() - t0:.1f}s')
    t0 = _t.time()
    if ok:
        try:
            t1.validate_generated(res, rng.fork('t1'), 60 if tier == 'quick' else 600, classes=T1_CLASSES)
        except ToolFailure as e:
            res.broken.append(('correspondence', 'T1', f'generated definitions do not run: {str(e)[-300:]}'))
    res.notes.append(f'T1 {_t.time() - t0:.1f}s')
    t0 = _t.time()
    batch = Batch(res)
    if res.broken:      # do not even try the model driver when the build is broken: straight to the oracle
        okb, _ = lean_build(['Py4hwV.Lib.Arith', 'Py4hwV.Lib.ArithSpec', 'Py4hwV.Drv.Proto'])
        if not okb:
            batch.model_available = False
            okb, out = lean_build(['Py4hwV.Lib.ArithSpec', 'Py4hwV.Drv.Proto'])
            if not okb:
                raise ToolFailure('specification module does not build: ' + out[-500:])
    run_corpus(res, batch)
    if replay:          # re-run the failing inputs of a replay file on the real code, nothing else
        for f in json.load(open(replay)).get('failing_inputs', []):
            c = f.get('replay', {})
            if 'block' in c and isinstance(c.get('inputs'), list):
                real = Real(c['block'], c['params'])
                if real.error is not None:
                    batch.add(c['block'], c['params'], (), None, ctor_error=real.error)
                else:
                    batch.add(c['block'], c['params'], c['inputs'], real.run(c['inputs']))
        batch.flush()
        res.cov['rule'] = 'replay of recorded failing inputs on the real implementation'
        return
    run_blocks(res, tier, rng, batch)
    res.notes.append(f'blocks+net+oracle {_t.time() - t0:.1f}s')
    res.cov['rule'] = ('one case = (block, constructor parameters, input vector) run on the REAL block inside the real simulator '
                       '(propagateAll, every 7th vector through clk(1)); exhaustive inputs for all small width combinations, '
                       'boundary vectors x seeded random vectors for widths up to 64 (128 for CLZ/BCD in the thorough tier); every '
                       'constructor option (ci/co/width_check, inverted, arithmetic False/True/wire); outputs compared with the Lean '
                       'model (Lib.arithEval) and with the Lean specification (ArithSpec.eval); zero divisors excluded')
    res.assumptions += [
        'math.ceil(math.log2(aw)) in CountLeadingZeros is modelled by the integer ceiling log (exact for aw < 2^49)',
        'Div/Mod/SignedDiv with a zero divisor draw random numbers: unspecified by the property, never compared',
        'SignedDiv is specified as truncating division (Int.tdiv, Verilog/C semantics), the carry-out of SignedAdd as the '
        'carry of the rw-bit two\'s-complement encodings',
        'co / inverted / z ports are 1 bit wide in the theorems about them (wider z wires get inverted high bits)',
    ]


if __name__ == '__main__':
    main_wrapper('C07', main)
