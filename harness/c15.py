"""C15 — Waveform capture records exactly what the wires carried, once per cycle.
See DESIGN.md §5 C15, lean/Py4hwV/Proto/Waveform.lean (model), lean/Py4hwV/Props/C15.lean (theorems), notes/C15.md.

Streams (all on the REAL py4hw.logic.simulation.Waveform driven through the REAL Simulator.clk):
  wf-direct   bare systems (input wires + Buf aliases), watch lists of wires / in-ports / out-ports / duplicates,
              exhaustive small value sequences and seeded long ones, clear() between runs, clk(0)
  wf-designs  seeded random netlists (gen_designs) with 1-2 Waveforms over random watch lists, optionally inside a
              gated clock domain, random pokes / clk(n) / clear()
  wf-net      the same designs executed completely in Lean (Net.Sim + generated leaves + recorder leaf)
Oracle (the property itself, evaluated on the implementation's observable behaviour):
  O1  getDict()[wire of entry] == the values the wire carried going into each edge (snapshots taken through the public
      listener API / before clk, independent of Waveform.clock), one per simulated cycle since the last clear()
  O2  the WaveDrom rendering decodes (Lean `decodeWave` through the driver AND a Python transcription of the WaveDrom
      reading) to exactly those sequences; labels are upper-case hex, 1-bit rows carry bit characters
  O3  every row and the clock row span n + 2 characters (frame 'x'…'x' / 'P'…'x'), n = recorded cycles; n = 0 included
"""
import os, itertools, time
from common import *
import gen_designs as G, dump_ir as D

OBLIGATIONS = [
    'C15.parseHex_hexUpper', 'C15.decStr_bit', 'C15.encLoop_eq_enc', 'C15.decodeBody_enc',
    'C15.wavedrom_roundtrip', 'C15.wavedrom_roundtrip_wide', 'C15.wavedrom_span', 'C15.render_injective',
    'C15.init_inv', 'C15.init_by_identity', 'C15.init_wires_mem', 'C15.init_raises_iff', 'C15.init_cycles_zero',
    'C15.inv_clock', 'C15.inv_clear', 'C15.inv_run', 'C15.no_raise',
    'C15.samples_clock', 'C15.samples_clear', 'C15.capture_model', 'C15.clear_resets', 'C15.alias_share',
    'C15.getWavedrom_rows', 'C15.getWavedrom_decodes', 'C15.getWavedrom_span', 'C15.getWavedrom_clk',
    'C15.clockDrivers_val', 'C15.clkCycle_recorder', 'C15.capture_gated', 'C15.capture_once_per_cycle',
    'C15.capture_clk', 'C15.gated_counterexample', 'C15.withRecorders_isRecorder', 'C15.waveform_end_to_end',
    'C06.wire_values_fit', 'C06.inv_clk',
]

MODEL_MODULES = ['Py4hwV.Drv.Proto', 'Py4hwV.Net.IR', 'Py4hwV.Proto.Waveform', 'Py4hwV.Proto.WaveformNet']


# ------------------------------------------------------------------------------------------------ spec helpers
def spec_decode(ww, wave, labels):
    """WaveDrom reading of a signal row (a transcription of the SPEC, not of get_wavedrom): returns the list of
    per-cycle values between the framing characters, or None when the row is not well formed.
    'x' frame, '.' continues the previous cycle, '0'/'1' levels (1-bit rows), '2' data cycle taking the next label"""
    if len(wave) < 2 or wave[0] != 'x' or wave[-1] != 'x':
        return None
    out, last, ls = [], None, list(labels)
    for c in wave[1:-1]:
        if c == '.':
            if last is None:
                return None
            out.append(last)
        elif ww == 1:
            if c not in '01':
                return None
            last = int(c)
            out.append(last)
        elif c == '2':
            if not ls:
                return None
            l = ls.pop(0)
            if not l or any(ch not in '0123456789ABCDEF' for ch in l):
                return None
            last = int(l, 16)
            out.append(last)
        else:
            return None
    if ls:
        return None
    return out


class Snap:
    """public listener API: value of every wire after the post-edge propagate of each cycle"""

    def __init__(self, wires):
        self.wires, self.snaps = wires, []

    def simulatorUpdated(self):
        self.snaps.append([w.get() for w in self.wires])


def wire_of(x):
    import py4hw
    return x if isinstance(x, py4hw.Wire) else x.wire


class Case:
    """one real system with waveforms; runs ops on the real simulator and keeps what is needed by oracle and model"""

    def __init__(self, res, stream, sysobj, wires, wfs, label, gate=None):
        # wfs: list of dict(wf=Waveform, entries=[obj], gate=wire-or-None)
        self.res, self.stream, self.sys, self.wires, self.wfs, self.label = res, stream, sysobj, wires, wfs, label
        self.wid = {id(w): i + 1 for i, w in enumerate(wires)}
        self.sim = sysobj.getSimulator()
        self.lis = Snap(wires)
        self.sim.addListener(self.lis)
        self.events = [[] for _ in wfs]      # per waveform: ('c', values) | ('x',)
        self.oplog = []
        self.ok = True
        self.extra = {}

    def run(self, ops):
        try:
            self._run(ops)
        except Exception as e:           # the real simulator / Waveform raised: nothing to compare for this case
            self.ok = False
            self.res.disagree(self.stream, dict(case=self.label, what='implementation raised while running the ops',
                                                err=repr(e)[:200], ops=self.oplog[-6:]))

    def _run(self, ops):
        for op in ops:
            if op[0] == 'poke':
                op[1].put(op[2])
                self.oplog.append(('poke', self.wid[id(op[1])], op[2]))
            elif op[0] == 'clear':
                self.wfs[op[1]]['wf'].clear()
                self.events[op[1]].append(('x',))
                self.oplog.append(('clear', op[1]))
            else:
                n = op[1]
                self.sim.propagateAll()          # what clk() does first; makes the pre-edge values observable
                first = [w.get() for w in self.wires]
                k0 = len(self.lis.snaps)
                self.sim.clk(n)
                got = self.lis.snaps[k0:]
                self.oplog.append(('clk', n))
                if len(got) != n:
                    self.res.fail(f'Simulator.clk({n}) simulated {len(got)} cycles', self.replay(dict(oracle='cycles')))
                    self.ok = False
                    return
                cyc = ([first] + got[:-1]) if n > 0 else []
                for ev in self.events:
                    ev.extend(('c', v) for v in cyc)

    def expected(self, i, w):
        """value sequence the wire carried going into each (enabled) edge since waveform i's last clear()"""
        gate = self.wfs[i].get('gate')
        out = []
        for e in self.events[i]:
            if e[0] == 'x':
                out = []
            elif gate is None or e[1][self.wid[id(gate)] - 1] != 0:
                out.append(e[1][self.wid[id(w)] - 1])
        return out

    def replay(self, extra):
        r = dict(stream=self.stream, case=self.label, widths=[w.getWidth() for w in self.wires],
                 watch=[[('w' if x is wire_of(x) else 'p') + str(self.wid[id(wire_of(x))]) for x in f['entries']]
                        for f in self.wfs],
                 gated=[f.get('gate') is not None for f in self.wfs],
                 gate=next((self.wid[id(f['gate'])] - 1 for f in self.wfs if f.get('gate') is not None), None),
                 ops=self.oplog[:200])
        r.update(self.extra)
        r.update(extra)
        return r


def check_case(res, c, decq, modelq, short):
    """O1-O3 on the real objects + queue the model comparison"""
    if not c.ok:
        return
    for i, f in enumerate(c.wfs):
        wf, entries = f['wf'], f['entries']
        gated = f.get('gate') is not None
        dd = wf.getDict()
        ncyc = None
        # --- O1: one sample per cycle, equal to the pre-edge value, aliases and duplicates share
        for j, x in enumerate(entries):
            w = wire_of(x)
            exp = c.expected(i, w)
            ncyc = len(exp)
            got = dd.get(w)
            if got != exp:
                kind = 'count' if (got is None or len(got) != len(exp)) else 'value'
                res.fail(f'getDict() of watched wire differs from the values it carried into the '
                         f"{'enabled ' if gated else ''}edges ({kind})",
                         c.replay(dict(oracle=('O1g-' if gated else 'O1-') + kind, waveform=i, entry=j, wire=c.wid[id(w)],
                                       expected=exp[:40], got=None if got is None else got[:40])))
                return
        if len(dd) != len({id(wire_of(x)) for x in entries}):
            res.fail('getDict() has a different number of keys than distinct watched wires',
                     c.replay(dict(oracle='O1-keys', waveform=i, keys=len(dd))))
            return
        try:
            wd = wf.get_wavedrom(short)
        except Exception as e:
            res.fail('get_wavedrom() raised on a recorder whose watch list was accepted by the constructor',
                     c.replay(dict(oracle='O2-raise', waveform=i, err=repr(e)[:120])))
            return
        sig = wd['signal']
        # --- O3: span
        ok_shape = (len(sig) == len(entries) + 1 and wd['head']['text'] == wf.name and wd['head']['tock'] == 0)
        if not ok_shape:
            res.fail('get_wavedrom(): wrong number of rows / head', c.replay(dict(oracle='O3-shape', waveform=i, rows=len(sig))))
            return
        ck = sig[0]['wave']
        if not (sig[0]['name'] == 'clk' and ck == 'P' + '.' * ncyc + 'x'):
            res.fail('get_wavedrom(): clock row does not span the recorded cycles',
                     c.replay(dict(oracle='O3-clk', waveform=i, cycles=ncyc, wave=ck)))
            return
        for j, x in enumerate(entries):
            w = wire_of(x)
            row = sig[j + 1]
            exp = c.expected(i, w)
            name = x.name if short else x.getFullPath()
            if row['name'] != name:
                res.fail('get_wavedrom(): row name', c.replay(dict(oracle='O3-name', waveform=i, entry=j, got=row['name'], expected=name)))
                return
            if len(row['wave']) != len(exp) + 2:
                res.fail('get_wavedrom(): row does not span exactly the recorded cycles',
                         c.replay(dict(oracle='O3-span', waveform=i, entry=j, cycles=len(exp), wave=row['wave'], samples=exp[:40])))
                return
            # --- O2: decode back
            dec = spec_decode(w.getWidth(), row['wave'], row['data'])
            if dec != exp:
                res.fail('get_wavedrom() row does not decode back to the recorded samples',
                         c.replay(dict(oracle='O2-decode', waveform=i, entry=j, width=w.getWidth(), wave=row['wave'][:80],
                                       data=row['data'][:40], samples=exp[:40], decoded=None if dec is None else dec[:40])))
                return
            decq.append((w.getWidth(), row['wave'], row['data'], exp, c, i, j))
            res.hist('row_width', 'w1' if w.getWidth() == 1 else ('w2-8' if w.getWidth() <= 8 else ('w9-32' if w.getWidth() <= 32 else 'w33+')))
            res.hist('row_kind', 'port' if x is not w else 'wire')
        res.hist('cycles_recorded', ncyc if ncyc < 4 else ('4-15' if ncyc < 16 else '16+'))
        res.hist('watch_has_duplicates', len(dd) != len(entries))
        # --- model comparison request (stateless): the model gets the observed pre-edge vectors
        ents = '!'.join(f"{'w' if x is wire_of(x) else 'p'}:{c.wid[id(wire_of(x))]}:{x.getFullPath()}:{x.name}" for x in entries)
        gate = f.get('gate')
        ops = []
        for e in c.events[i]:
            if e[0] == 'x':
                ops.append('x')
            elif gate is None or e[1][c.wid[id(gate)] - 1] != 0:
                ops.append(','.join(['0'] + [str(v) for v in e[1]]))
        line = f"wf | {','.join(['1'] + [str(w.getWidth()) for w in c.wires])} | {ents} | {';'.join(ops)} | {1 if short else 0}"
        real = dict(uniq=[c.wid[id(w)] for w in wf.uniqueWires],
                    data=';'.join(f"{c.wid[id(k)]}:{','.join(str(v) for v in l)}" for k, l in dd.items()),
                    fmt=','.join('b' if fm == '' else ('h' if fm == '{:X}' else '?') for fm in wf.format),
                    clk=ck, rows='!'.join(f"{r['name']}~{r['wave']}~{','.join(r['data'])}" for r in sig[1:]))
        modelq.append((line, real, c, i))


class Batch:
    """all Lean requests of a run go through few driver processes (start-up of the interpreter dominates)"""
    LIMIT = 40000

    def __init__(self, res):
        self.res, self.lines, self.cbs = res, [], []

    def add(self, lines, cb):
        if lines:
            self.cbs.append((len(self.lines), len(lines), cb))
            self.lines += lines
        if len(self.lines) >= self.LIMIT:
            self.flush()

    def flush(self):
        if not self.lines:
            return
        lines, cbs = self.lines, self.cbs
        self.lines, self.cbs = [], []
        try:
            out = run_driver('Drv/C15.lean', ['reset'] + lines)[1:]
        except ToolFailure as e:
            self.res.broken.append(('correspondence', 'driver', str(e)[:300]))
            return
        self.res.hist('driver_runs', 'n')
        for a, n, cb in cbs:
            cb(out[a:a + n])


BATCH = None
DEC_SEEN = {}


def flush_queues(res, decq, modelq):
    """Lean side: decoder applied to the REAL rendering, model vs implementation"""
    dq = []
    for t in decq:                       # identical (width, wave, labels, expected) requests are asked once
        key = (t[0], t[1], tuple(t[2]), tuple(t[3]))
        if key not in DEC_SEEN:
            DEC_SEEN[key] = 1
            dq.append(t)
        res.cov['disagreements_checked'] += 1
    mq = list(modelq)
    decq.clear(); modelq.clear()
    lines = [f"dec | {ww} | {wave} | {','.join(labels)}" for ww, wave, labels, exp, c, i, j in dq]
    lines += [m[0] for m in mq]
    BATCH.add(lines, lambda out: _check_answers(res, dq, mq, out))


def _check_answers(res, decq, modelq, out):
    for (ww, wave, labels, exp, c, i, j), o in zip(decq, out):
        want = 'some:' + ','.join(str(v) for v in exp)
        if o.strip() != want:
            res.fail('Lean decodeWave of the real get_wavedrom() row differs from the recorded samples',
                     c.replay(dict(oracle='O2-lean-decode', waveform=i, entry=j, width=ww, wave=wave[:80], data=labels[:40],
                                   samples=exp[:40], decoded=o[:200])))
    for (line, real, c, i), o in zip(modelq, out[len(decq):]):
        f = [x.strip() for x in o.split('|')]
        if f[0] != 'ok' or len(f) != 8:
            res.disagree(c.stream, dict(case=c.label, what='model raises / bad answer', answer=o[:200], request=line[:300]))
            continue
        got = dict(uniq=f[1], data=f[2], fmt=f[3], clk=f[5], rows=f[6], flags=f[7])
        want = dict(uniq=','.join(str(u) for u in real['uniq']), data=real['data'], fmt=real['fmt'], clk=real['clk'],
                    rows=real['rows'], flags='00')
        for k in want:
            if got[k] != want[k]:
                res.disagree(c.stream, dict(case=c.label, waveform=i, field=k, python=want[k][:300], lean=got[k][:300],
                                            replay=c.replay({})))
                break


# ------------------------------------------------------------------------------------------------ wf-direct
ATOM_WIRE = {'w': 'w', 'pi': 'w', 'ba': 'w', 'o': 'o', 'po': 'o', 'br': 'o', 'q': 'q', 'pq': 'q', 'pq2': 'q'}


def build_direct(widths, watch, gate=None):
    """inputs i<k> of the given widths; channel k is a SUB-BLOCK blk<k> (ports a, r) with an internal wire that is
    called `q` in EVERY block (distinct wires, same short name), Buf b1: i<k> -> q, Buf b2: q -> o<k>.
    watch atoms: ('w',k) input wire | ('o',k) output wire | ('q',k) the block's internal wire q |
      ('pi',k) b1 in-port, ('ba',k) block in-port (aliases of i<k>) | ('po',k) b2 out-port, ('br',k) block out-port (aliases of o<k>) |
      ('pq',k) b1 out-port, ('pq2',k) b2 in-port (aliases of blk<k>.q)"""
    import py4hw
    import py4hw.logic.bitwise as B
    from py4hw.logic.simulation import Waveform
    s = py4hw.HWSystem()
    ins = [s.wire(f'i{k}', w) for k, w in enumerate(widths)]
    outs = [s.wire(f'o{k}', w) for k, w in enumerate(widths)]
    blks, qs, b1, b2 = [], [], [], []
    for k, w in enumerate(widths):
        blk = py4hw.Logic(s, f'blk{k}')
        blk.addIn('a', ins[k])
        blk.addOut('r', outs[k])
        q = blk.wire('q', w)
        b1.append(B.Buf(blk, 'b1', ins[k], q))
        b2.append(B.Buf(blk, 'b2', q, outs[k]))
        blks.append(blk)
        qs.append(q)

    def obj(t, k):
        return {'w': ins[k], 'o': outs[k], 'q': qs[k], 'pi': b1[k].inPorts[0], 'po': b2[k].outPorts[0],
                'pq': b1[k].outPorts[0], 'pq2': b2[k].inPorts[0], 'ba': blks[k].inPorts[0], 'br': blks[k].outPorts[0]}[t]
    entries = [obj(t, k) for t, k in watch]
    parent, gw = s, None
    if gate is not None:                 # Waveform inside a clock domain gated by input wire `gate`
        gw = ins[gate]
        parent = py4hw.Logic(s, 'gated')
        parent.clockDriver = py4hw.ClockDriver('gclk', base=s.clockDriver, enable=gw)
    wf = Waveform(parent, 'wf', entries)
    return s, ins, ins + outs + qs, dict(wf=wf, entries=entries, gate=gw)


def direct_case(res, label, widths, watch, seqs, clear_at=(), chunk=1, decq=None, modelq=None, short=False, gate=None):
    """seqs: list of value tuples (one per input wire) applied before each cycle"""
    s, ins, wires, f = build_direct(widths, watch, gate)
    c = Case(res, 'wf-direct', s, wires, [f], label)
    c.extra = dict(nw=len(widths), layout='inputs | outputs | per-block internal wires all named q')
    if len({wire_of(x).name for x in f['entries']}) < len({id(wire_of(x)) for x in f['entries']}):
        res.hist('watch_same_name_distinct_wires', 'direct')
    ops = []
    for t, vals in enumerate(seqs):
        if t in clear_at:
            ops.append(('clear', 0))
        for k, v in enumerate(vals):
            ops.append(('poke', ins[k], v))
        ops.append(('clk', 1))
    if len(seqs) in clear_at:
        ops.append(('clear', 0))
    if chunk == 0:
        ops.append(('clk', 0))
    c.run(ops)
    # independent expectation for this stream: the poked values themselves
    if c.ok:
        start = max([t for t in clear_at if t <= len(seqs)], default=0)
        for j, (t, k) in enumerate(watch):
            exp = [vals[k] & ((1 << widths[k]) - 1) for vals in seqs[start:]
                   if gate is None or vals[gate] & ((1 << widths[gate]) - 1) != 0]
            got = f['wf'].getDict().get(wire_of(f['entries'][j]))
            if got != exp:
                res.fail('getDict() differs from the values driven on the watched wire',
                         c.replay(dict(oracle='O1-driven', entry=j, expected=exp[:40], got=None if got is None else got[:40])))
                c.ok = False
                break
    check_case(res, c, decq, modelq, short)
    res.count(('direct', tuple(widths), tuple(watch), tuple(seqs), tuple(clear_at), gate),
              hist={'direct_len': len(seqs) if len(seqs) < 8 else '8+'})
    return c


def stream_direct(res, tier, rng):
    decq, modelq = [], []
    quick = tier == 'quick'
    # (a) exhaustive value sequences on one wire, widths 1..3, every run-length pattern included
    for w, L in ((1, 8 if quick else 12), (2, 5 if quick else 6), (3, 3 if quick else 5)):
        for n in range(L + 1):
            for seq in itertools.product(range(1 << w), repeat=n):
                direct_case(res, f'ex-w{w}', [w], [('w', 0)], [(v,) for v in seq], decq=decq, modelq=modelq, short=(n % 2 == 1))
        flush_queues(res, decq, modelq)
    # (b) exhaustive watch-list shapes over two wires (1 bit + 2 bits): wires, in/out ports, duplicates, lengths 1..3
    atoms = [('w', 0), ('w', 1), ('pi', 0), ('o', 0), ('po', 1), ('q', 0), ('q', 1), ('pq', 1), ('pq2', 0)]
    seqs = [(1, 2), (1, 2), (0, 2), (0, 3), (1, 0)]
    for n in (1, 2, 3) if quick else (1, 2, 3, 4):
        for watch in itertools.product(atoms, repeat=n):
            for cl in ((), (3,)):
                direct_case(res, 'ex-watch', [1, 2], list(watch), seqs, clear_at=cl, decq=decq, modelq=modelq)
        flush_queues(res, decq, modelq)
    # (c) zero cycles, clk(0), clear with nothing recorded
    for w in (1, 2, 8, 64):
        direct_case(res, 'zero', [w], [('w', 0), ('pi', 0), ('w', 0)], [], chunk=0, decq=decq, modelq=modelq)
        direct_case(res, 'zero-clear', [w], [('w', 0)], [], clear_at=(0,), chunk=0, decq=decq, modelq=modelq)
    # (c') gated recorder: every enable sequence (1-bit and 2-bit enable) up to length 4 (thorough 6); data = cycle index
    for ew, L in ((1, 4 if quick else 7), (2, 3 if quick else 5)):
        for n in range(L + 1):
            for en in itertools.product(range(1 << ew), repeat=n):
                direct_case(res, f'ex-gate{ew}', [ew, 4], [('w', 1), ('w', 0)], [(e, t + 1) for t, e in enumerate(en)],
                            decq=decq, modelq=modelq, gate=0)
    flush_queues(res, decq, modelq)
    # (d) seeded: all widths, long sequences with holds (run-length), boundary values, clears
    n_rand = 1500 if quick else 50000
    for i in range(n_rand):
        r = rng.fork(('direct', i))
        nw = r.randint(1, 3)
        widths = [r.choice([1, 1, 2, 3, 4, 5, 7, 8, 9, 12, 16, 17, 31, 32, 33, 63, 64, 65, 100]) if r.chance(3, 4) else r.randint(1, 64)
                  for _ in range(nw)]
        watch = [(r.choice(['w', 'w', 'o', 'pi', 'po', 'q', 'q', 'pq', 'pq2', 'ba', 'br']), r.randint(0, nw - 1))
                 for _ in range(r.randint(1, 6))]
        L = r.randint(0, 40 if quick else 120)
        seqs, cur = [], [0] * nw
        for t in range(L):
            for k in range(nw):
                if not r.chance(1, 2):       # hold with prob 1/2 -> runs
                    cur[k] = r.bits(widths[k]) if r.chance(1, 2) else r.randint(0, min((1 << widths[k]) - 1, 20))
                    if r.chance(1, 10):
                        cur[k] = r.choice([-1, 1 << widths[k], (1 << widths[k]) + 10])   # masked by the wire
            seqs.append(tuple(cur))
        clear_at = tuple(sorted({r.randint(0, max(L, 1)) for _ in range(r.randint(0, 2))})) if r.chance(1, 3) else ()
        direct_case(res, f'rand{i}', widths, watch, seqs, clear_at=clear_at, decq=decq, modelq=modelq, short=r.chance(1, 2),
                    gate=(r.randint(0, nw - 1) if r.chance(1, 6) else None))
        if i < 2:
            res.sample(dict(stream='wf-direct', widths=widths, watch=watch, seq=seqs[:6], clear_at=clear_at))
        if len(modelq) >= 400:
            flush_queues(res, decq, modelq)
    flush_queues(res, decq, modelq)


# ------------------------------------------------------------------------------------------------ wf-designs / wf-net
def stream_designs(res, tier, rng):
    import py4hw
    import py4hw.logic.storage as S_
    import py4hw.logic.bitwise as B_
    from py4hw.logic.simulation import Waveform
    quick = tier == 'quick'
    n_designs = 700 if quick else 16000
    decq, modelq, netq = [], [], []
    built = 0
    for i in range(n_designs):
        r = rng.fork(('design', i))
        plan = G.random_plan(r, r.randint(1, 14 if quick else 30), wmax=r.choice([1, 3, 8, 17, 33, 64]))
        try:
            sysobj, ins, W, leaves = G.build(plan, inst_order=r.shuffle(range(len(plan['nodes']))))
        except Exception as e:
            res.hist('build_errors', str(e)[:50])
            continue
        cands = list(W.values())
        ports = []
        for lf in leaves.values():
            ports += [p for p in lf.inPorts + lf.outPorts if p.wire is not None]
        # sibling instances of one sub-block: internal wire `q`, leaves `reg`/`buf` and ports a/r are named alike in all
        stage_q = []
        try:
            for k in range(r.choice([0, 1, 2, 2, 3])):
                src = r.choice(cands)
                blk = py4hw.Logic(sysobj, f'stage{k}')
                dst = sysobj.wire(f'stage{k}_r', r.choice([src.getWidth(), r.randint(1, 8)]))
                blk.addIn('a', src)
                blk.addOut('r', dst)
                q = blk.wire('q', r.choice([src.getWidth(), r.randint(1, 8)]))
                rg = S_.Reg(blk, 'reg', src, q)
                bf = B_.Buf(blk, 'buf', q, dst)
                stage_q.append(q)
                cands += [q, dst]
                ports += rg.inPorts + rg.outPorts + bf.inPorts + bf.outPorts + blk.inPorts + blk.outPorts
        except Exception as e:
            res.hist('build_errors', str(e)[:50])
            continue
        wfs = []
        try:
            for k in range(r.choice([1, 1, 2])):
                entries = []
                if len(stage_q) >= 2 and r.chance(1, 2):
                    entries += r.shuffle(stage_q)[:2]           # two DIFFERENT wires that are both called q
                for _ in range(r.randint(1, 7)):
                    t = r.randint(0, 9)
                    if t < 4 or not ports:
                        entries.append(r.choice(cands))
                    elif t < 7:
                        entries.append(r.choice(ports))
                    else:
                        entries.append(r.choice(entries) if entries else r.choice(cands))     # duplicate
                gate = None
                parent = sysobj
                if r.chance(1, 4):
                    ones = [w for w in cands if w.getWidth() <= 2]
                    gate = r.choice(ones) if ones else r.choice(cands)
                    parent = py4hw.Logic(sysobj, f'gated{k}')
                    parent.clockDriver = py4hw.ClockDriver(f'gclk{k}', base=sysobj.clockDriver, enable=gate)
                wfs.append(dict(wf=Waveform(parent, f'wf{k}', entries), entries=entries, gate=gate))
        except Exception as e:
            res.disagree('wf-designs', dict(design=i, what='Waveform constructor raised', err=repr(e)[:200]))
            continue
        all_w = D.all_wires(sysobj)
        try:
            c = Case(res, 'wf-designs', sysobj, all_w, wfs, dict(design=i, plan=G.plan_summary(plan), stages=len(stage_q)))
        except Exception as e:
            res.hist('build_errors', str(e)[:50])
            continue
        built += 1
        for f in wfs:
            if len({wire_of(x).name for x in f['entries']}) < len({id(wire_of(x)) for x in f['entries']}):
                res.hist('watch_same_name_distinct_wires', 'designs')
        # structural facts the Net-level theorem assumes about the scheduler
        for f in wfs:
            occ = sum(ds.clockables.count(f['wf']) for ds in c.sim.clockDrivers.values())
            if occ != 1 or f['wf'] in c.sim.propagatables:
                res.disagree('wf-designs', dict(design=i, what='Waveform scheduled != once as clockable / is propagatable', occ=occ))
        ops = []
        for o in G.random_ops(r, ins, r.randint(2, 14)):
            ops.append(o if o[0] == 'poke' else ('clk', r.choice([0, 1, 1, 1, 2, 3, 5])))
            if r.chance(1, 12):
                ops.append(('clear', r.randint(0, len(wfs) - 1)))
        try:
            d = D.Dump(sysobj, c.sim, allow_unknown=True)
        except D.NotDumpable:
            d = None
        c.run(ops)
        check_case(res, c, decq, modelq, r.chance(1, 2))
        res.count(('design', i), hist={'design_nodes': len(plan['nodes']) // 5 * 5, 'waveforms': len(wfs),
                                       'gated': sum(f['gate'] is not None for f in wfs)})
        if i < 2:
            res.sample(dict(stream='wf-designs', replay=c.replay({})))
        # --- wf-net: whole simulation in Lean with recorder leaves
        if d is not None and set(d.unknown) <= {'Waveform'} and c.ok:
            L = d.lines + d.schedule_lines()
            for f in wfs:
                L.append(f"recorder {d.lid[id(f['wf'])]} | " + ','.join(str(d.wid[id(w)]) for w in f['wf'].uniqueWires))
            L.append('begin')
            for op in c.oplog:
                if op[0] == 'poke':
                    L.append(f'poke {d.wid[id(all_w[op[1] - 1])]} {op[2]}')
                elif op[0] == 'clk':
                    L.append(f'clk {op[1]}')
                else:
                    L.append(f"cleardata {d.lid[id(wfs[op[1]]['wf'])]}")
            q0 = len(L)
            want = []
            for f in wfs:
                L.append(f"data {d.lid[id(f['wf'])]}")
                want.append(';'.join(f"{d.wid[id(k)]}:{','.join(str(v) for v in l)}" for k, l in f['wf'].getDict().items()))
            L.append('vals')
            want.append(','.join(str(v) for v in d.values()))
            netq.append((L, q0, want, c))
        if len(modelq) >= 300:
            flush_queues(res, decq, modelq)
        if len(netq) >= 150:
            flush_net(res, netq)
    flush_queues(res, decq, modelq)
    flush_net(res, netq)
    res.cov['designs_built'] = built


def flush_net(res, netq):
    for job in netq:
        BATCH.add(job[0], lambda out, job=job: _check_net(res, [job], out))
    netq.clear()


def _check_net(res, netq, out):
    pos = 0
    for L, q0, want, c in netq:
        o = out[pos:pos + len(L)]
        pos += len(L)
        bad = [x for x in o[:q0] if x.strip() != 'ok']
        if bad:
            res.disagree('wf-net', dict(case=c.label, what='session error', answer=bad[0]))
            continue
        res.cov['disagreements_checked'] += 1
        for k, (g, w) in enumerate(zip(o[q0:], want)):
            if g.strip() != w:
                res.disagree('wf-net', dict(case=c.label, what='recorder data' if k < len(want) - 1 else 'wire values',
                                            python=w[:300], lean=g[:300], replay=c.replay({})))
                break
        res.hist('wf_net', 'compared')


def static_facts(res):
    """facts about the class the model relies on"""
    from py4hw.logic.simulation import Waveform
    import py4hw
    if callable(getattr(Waveform, 'propagate', None)):
        res.disagree('static', 'Waveform has a propagate method (model: clockable only)')
    if not callable(getattr(Waveform, 'clock', None)):
        res.disagree('static', 'Waveform has no clock method')
    if '__eq__' in py4hw.Wire.__dict__ or '__hash__' in py4hw.Wire.__dict__:
        res.disagree('static', 'Wire defines __eq__/__hash__ (model: wires are compared by identity)')


def replay_direct(res, r, label, decq, modelq):
    """re-executes a wf-direct replay dict (as written by Case.replay): widths = inputs then Buf outputs; watch tokens
    w<i>/p<i> in that numbering; ops literally"""
    nw = r.get('nw', len(r['widths']) // 2)
    widths = r['widths'][:nw]

    def atom(tok):
        k = int(tok[1:]) - 1
        return (('w', 'o', 'q')[k // nw] if tok[0] == 'w' else ('pi', 'po', 'pq')[k // nw], k % nw)
    watch = [atom(t) for t in r['watch'][0]]
    gate = r.get('gate')
    s, ins, wires, f = build_direct(widths, watch, gate)
    c = Case(res, 'wf-direct', s, wires, [f], label)
    c.extra = dict(nw=nw)
    ops = []
    for o in r['ops']:
        if o[0] == 'poke':
            ops.append(('poke', wires[o[1] - 1], o[2]))
        elif o[0] == 'clk':
            ops.append(('clk', o[1]))
        else:
            ops.append(('clear', 0))
    c.run(ops)
    check_case(res, c, decq, modelq, bool(r.get('short', False)))
    res.count(('replay', label))


def strict_reading_probe(res):
    """Reading 'one sample per SIMULATED cycle' literally, a Waveform inside a gated clock domain falls short (it samples
    once per edge of ITS clock: theorem capture_gated, negative witness gated_counterexample).  The witness is re-derived
    on the real code at every run and recorded in the evidence; it is reported through res.fail only when the integrator
    has listed it (known_findings id C15-gated-domain), because the edge-based reading of the property holds."""
    s, ins, wires, f = build_direct([1, 4], [('w', 1)], gate=0)
    sim = s.getSimulator()
    ins[0].put(0)
    for t in range(3):
        ins[1].put(t + 1)
        sim.clk(1)
    got = f['wf'].getDict()[ins[1]]
    res.hist('strict_reading_gated', f'simulated=3 recorded={len(got)}')
    if len(got) != 3:
        res.notes.append('gated-domain Waveform: 3 simulated cycles with enable=0 -> %d samples (edge-based reading: 0 expected)' % len(got))
        if any(k.get('id') == 'C15-gated-domain' for k in load_known()):
            res.fail('Waveform inside a gated clock domain records fewer samples than simulated cycles',
                     dict(oracle='O1-strict-gated', gated=[True], simulated=3, recorded=len(got), widths=[1, 4],
                          watch=[['w2']], ops=[['poke', 1, 0], ['poke', 2, 1], ['clk', 1], ['poke', 2, 2], ['clk', 1],
                                               ['poke', 2, 3], ['clk', 1]]))


def run_corpus(res):
    cdir = os.path.join(VERIF, 'corpus', 'C15')
    if not os.path.isdir(cdir):
        return
    decq, modelq = [], []
    for fn in sorted(os.listdir(cdir)):
        if fn.endswith('.json'):
            j = json.load(open(os.path.join(cdir, fn)))
            if 'ops' in j:
                replay_direct(res, j, 'corpus:' + fn, decq, modelq)
                continue
            direct_case(res, 'corpus:' + fn, j['widths'], [tuple(x) for x in j['watch']], [tuple(x) for x in j['seqs']],
                        clear_at=tuple(j.get('clear_at', ())), decq=decq, modelq=modelq, short=j.get('short', False))
    flush_queues(res, decq, modelq)


def main(res, tier, rng, replay):
    ok, metas, errors, changed = regenerate()
    for e in errors:
        res.broken.append(('translator', 'py2lean', e))
    global BATCH
    BATCH = Batch(res)
    t0 = time.time()
    okm, outm = lean_build(MODEL_MODULES)
    if not okm:
        res.broken.append(('proof', 'model', 'model modules do not build: ' + ' // '.join(
            [l for l in outm.split('\n') if 'error' in l][:5])))
    res.proof_stage('Py4hwV.Props.C15', OBLIGATIONS)
    res.cov['t_proof_stage_s'] = round(time.time() - t0, 1)
    static_facts(res)
    strict_reading_probe(res)
    run_corpus(res)
    if replay:
        decq, modelq = [], []
        body = json.load(open(replay))
        for k, fi in enumerate(body.get('failing_inputs', [])):
            if fi.get('replay', {}).get('stream') == 'wf-direct':
                replay_direct(res, fi['replay'], f'replay{k}', decq, modelq)
        flush_queues(res, decq, modelq)
    t1_ = time.time()
    stream_direct(res, tier, rng.fork('direct'))
    res.cov['t_direct_s'] = round(time.time() - t1_, 1)
    t1_ = time.time()
    stream_designs(res, tier, rng.fork('designs'))
    res.cov['t_designs_s'] = round(time.time() - t1_, 1)
    t1_ = time.time()
    BATCH.flush()
    res.cov['t_last_driver_run_s'] = round(time.time() - t1_, 1)
    res.failures.sort(key=lambda f: len(json.dumps(f, default=str)))       # report the smallest failing input first
    res.cov['rule'] = ('real Waveform objects clocked by the real Simulator.clk. wf-direct: every value sequence over 1/2/3-bit wires '
                       'up to length 8/5/3 (thorough 12/6/5), every watch list of length<=3 (thorough 4) over {wire, in-port alias, '
                       'out-port alias, second wire} incl. duplicates, with and without clear(); zero cycles / clk(0); seeded long '
                       'sequences with holds over widths 1..100. wf-designs: seeded random netlists with registers/memories and 1-2 '
                       'Waveforms over random watch lists (wires, leaf ports, duplicates), a quarter inside a gated clock domain, random '
                       'pokes/clk(n)/clear(). Oracles O1-O3 evaluated on getDict()/get_wavedrom(); the Lean decoder is applied to every '
                       'real row; model (init/clock/clear/getDict/getWavedrom) compared field by field; wf-net: complete Lean simulation '
                       'with recorder leaves vs getDict(). distinct = distinct (widths, watch list, value sequence) / design.')
    res.assumptions += [
        'FieldInspector / ValueFormatter watch entries are outside C15 and not modelled',
        'a Waveform inside a gated clock domain samples only in cycles where its enable is non-zero (model: capture_gated); '
        'the once-per-simulated-cycle statement is proved for recorders whose clock driver has no enable',
        'pre-edge values are observed through Simulator.propagateAll() + the listener API (post-edge propagate of cycle t = '
        'values going into edge t+1); no library clock() method calls put() (checked by ast scan in notes, C05 model assumption)',
        'Waveform(parent, name, single_wire) raises TypeError (len() of a Wire) before any capture: only list arguments are modelled',
    ]


if __name__ == '__main__':
    main_wrapper('C15', main)
