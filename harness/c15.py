"""C15 — Waveform capture records exactly what the wires carried, once per cycle.
See DESIGN.md §5 C15, lean/Py4hwV/Proto/Waveform.lean (model), lean/Py4hwV/Props/C15.lean (theorems), notes/C15.md.

Streams (all on the REAL py4hw.logic.simulation.Waveform driven through the REAL Simulator.clk):
  wf-direct   bare systems (input wires + Buf aliases), watch lists of wires / in-ports / out-ports / duplicates,
              exhaustive small value sequences and seeded long ones, clear() between runs, clk(0)
  wf-designs  seeded random netlists (gen_designs) with 1-2 Waveforms over random watch lists, optionally inside a
              gated clock domain, random pokes / clk(n) / clear()
  wf-net      the same designs / sessions executed completely in Lean (`Waveform.session`: Net.Sim + generated leaves +
              Waveform objects), every query answered by the model at the same point of the history
  wf-process   several recorders per PROCESS with different watch-list layouts (2-4 systems, 1-2 recorders each), each
              scenario in a fresh process state (forked child of the pristine harness process / re-executed recorder module)
  QUERIES (getDict() / get_wavedrom(shortNames)) are operations of a history like poke / clk(n) / clear(): they are
  issued at arbitrary points (exhaustively for short histories, seeded for long ones: render - clear - refill to the
  same length - render, render twice, both shortNames values, several Waveforms over overlapping watch lists) and each
  answer is checked against the recorder's content AT THAT MOMENT (theorem C15.session_render_spec).
Oracle (the property itself, evaluated on the implementation's observable behaviour):
  O1  getDict()[wire of entry] == the values the wire carried going into each edge (snapshots taken through the public
      listener API / before clk, independent of Waveform.clock), one per simulated cycle since the last clear()
  O2  the WaveDrom rendering decodes (Lean `decodeWave` through the driver AND a Python transcription of the WaveDrom
      reading) to exactly those sequences; labels are upper-case hex, 1-bit rows carry bit characters
  O3  every row and the clock row span n + 2 characters (frame 'x'…'x' / 'P'…'x'), n = recorded cycles; n = 0 included
"""
import os, itertools, time
from common import *
import gen_designs as G, dump_ir as D

OBLIGATIONS = [
    'C15.parseHex_hexUpper', 'C15.decStr_bit', 'C15.encLoop_eq_enc', 'C15.decodeBody_enc',
    'C15.wavedrom_roundtrip', 'C15.wavedrom_roundtrip_wide', 'C15.wavedrom_span', 'C15.render_injective',
    'C15.init_inv', 'C15.init_by_identity', 'C15.init_wires_mem', 'C15.init_raises_iff', 'C15.init_cycles_zero',
    'C15.inv_clock', 'C15.inv_clear', 'C15.inv_run', 'C15.no_raise',
    'C15.samples_clock', 'C15.samples_clear', 'C15.capture_model', 'C15.clear_resets', 'C15.alias_share',
    'C15.getWavedrom_rows', 'C15.getWavedrom_decodes', 'C15.getWavedrom_span', 'C15.getWavedrom_clk',
    'C15.clockDrivers_val', 'C15.clkCycle_recorder', 'C15.capture_gated', 'C15.capture_once_per_cycle',
    'C15.capture_clk', 'C15.gated_counterexample', 'C15.withRecorders_isRecorder', 'C15.waveform_end_to_end',
    'C06.wire_values_fit', 'C06.inv_clk',
    # arbitrary sessions (Props/C15Session.lean)
    'C15.run_eq', 'C15.capture_clk_gated', 'C15.session_data', 'C15.session_now', 'C15.session_capture',
    'C15.trace_fit', 'C15.session_render_spec', 'C15.session_dict_spec', 'C15.session_queries_transparent',
    'C15.session_render_twice', 'C15.trace_cycles_ungated', 'C06.inv_putW', 'C06.inv_propagateAll',
]
PROP_MODULE = 'Py4hwV.Props.C15Session'          # imports Py4hwV.Props.C15

MODEL_MODULES = ['Py4hwV.Drv.Proto', 'Py4hwV.Net.IR', 'Py4hwV.Proto.Waveform', 'Py4hwV.Proto.WaveformNet']


# ------------------------------------------------------------------------------------------------ spec helpers
def spec_decode(ww, wave, labels):
    """WaveDrom reading of a signal row (a transcription of the SPEC, not of get_wavedrom): returns the list of
    per-cycle values between the framing characters, or None when the row is not well formed.
    'x' frame, '.' continues the previous cycle, '0'/'1' levels (1-bit rows), '2' data cycle taking the next label"""
    if len(wave) < 2 or wave[0] != 'x' or wave[-1] != 'x':
        return None
    out, last, ls = [], None, list(labels)
    for c in wave[1:-1]:
        if c == '.':
            if last is None:
                return None
            out.append(last)
        elif ww == 1:
            if c not in '01':
                return None
            last = int(c)
            out.append(last)
        elif c == '2':
            if not ls:
                return None
            l = ls.pop(0)
            if not l or any(ch not in '0123456789ABCDEF' for ch in l):
                return None
            last = int(l, 16)
            out.append(last)
        else:
            return None
    if ls:
        return None
    return out


class Snap:
    """public listener API: value of every wire after the post-edge propagate of each cycle"""

    def __init__(self, wires):
        self.wires, self.snaps = wires, []

    def simulatorUpdated(self):
        self.snaps.append([w.get() for w in self.wires])


def wire_of(x):
    import py4hw
    return x if isinstance(x, py4hw.Wire) else x.wire


def ent_token(x, wid):
    return f"{'w' if x is wire_of(x) else 'p'}:{wid[id(wire_of(x))]}:{x.getFullPath()}:{x.name}"


class Case:
    """one real system with waveforms; runs a HISTORY of operations on the real simulator / Waveforms
         ('poke', wire, v) | ('clk', n) | ('clear', i) | ('query', i, short[, driven]) | ('dict', i[, driven])
       and evaluates the property's oracle at every query, on the recorder's content at that moment"""

    def __init__(self, res, stream, sysobj, wires, wfs, label, decq=None, modelq=None, model_every=True):
        # wfs: list of dict(wf=Waveform, entries=[obj], gate=wire-or-None)
        self.res, self.stream, self.sys, self.wires, self.wfs, self.label = res, stream, sysobj, wires, wfs, label
        self.wid = {id(w): i + 1 for i, w in enumerate(wires)}
        self.sim = sysobj.getSimulator()
        self.lis = Snap(wires)
        self.sim.addListener(self.lis)
        self.events = [[] for _ in wfs]      # per waveform: ('c', values) | ('x',)
        self.oplog = []
        self.qlog = []                       # answers of the real objects, one per query, in history order
        self.decq, self.modelq, self.model_every = decq, modelq, model_every
        self.ok = True
        self.extra = {}

    def run(self, ops):
        try:
            self._run(ops)
        except Exception as e:           # the real simulator / Waveform raised: nothing to compare for this case
            self.ok = False
            self.res.disagree(self.stream, dict(case=self.label, what='implementation raised while running the ops',
                                                err=repr(e)[:200], ops=self.oplog[-6:]))

    def _run(self, ops):
        for op in ops:
            if not self.ok:
                return
            if op[0] == 'poke':
                op[1].put(op[2])
                self.oplog.append(('poke', self.wid[id(op[1])], op[2]))
            elif op[0] == 'clear':
                self.wfs[op[1]]['wf'].clear()
                self.events[op[1]].append(('x',))
                self.oplog.append(('clear', op[1]))
            elif op[0] == 'query':
                self.query(op[1], bool(op[2]), op[3] if len(op) > 3 else None)
            elif op[0] == 'dict':
                self.query(op[1], None, op[2] if len(op) > 2 else None)
            else:
                n = op[1]
                self.sim.propagateAll()          # what clk() does first; makes the pre-edge values observable
                first = [w.get() for w in self.wires]
                k0 = len(self.lis.snaps)
                self.sim.clk(n)
                got = self.lis.snaps[k0:]
                self.oplog.append(('clk', n))
                if len(got) != n:
                    self.res.fail(f'Simulator.clk({n}) simulated {len(got)} cycles', self.replay(dict(oracle='cycles')))
                    self.ok = False
                    return
                cyc = ([first] + got[:-1]) if n > 0 else []
                for ev in self.events:
                    ev.extend(('c', v) for v in cyc)

    def expected(self, i, w):
        """value sequence the wire carried going into each (enabled) edge since waveform i's last clear()"""
        gate = self.wfs[i].get('gate')
        out = []
        for e in self.events[i]:
            if e[0] == 'x':
                out = []
            elif gate is None or e[1][self.wid[id(gate)] - 1] != 0:
                out.append(e[1][self.wid[id(w)] - 1])
        return out

    def replay(self, extra, nops=None):
        gates = [None if f.get('gate') is None else self.wid[id(f['gate'])] - 1 for f in self.wfs]
        ops = self.oplog if nops is None else self.oplog[:nops]
        r = dict(stream=self.stream, case=self.label, widths=[w.getWidth() for w in self.wires],
                 watch=[[('w' if x is wire_of(x) else 'p') + str(self.wid[id(wire_of(x))]) for x in f['entries']]
                        for f in self.wfs],
                 gated=[g is not None for g in gates], gates=gates,
                 gate=next((g for g in gates if g is not None), None),
                 ops=[list(o) for o in (ops if len(ops) <= 200 else ops[-200:])], ops_truncated=len(ops) > 200)
        r.update(self.extra)
        r.update(extra)
        return r

    def _fail(self, what, extra):
        self.res.fail(what, self.replay(extra))
        self.ok = False

    def query(self, i, short, driven=None):
        """getDict() (and, unless short is None, get_wavedrom(short)) on waveform i NOW: oracles O1-O3 on the answer,
        the model comparison is queued.  `driven`: optional independent expectation per entry (values poked by the stream)"""
        if not self.ok:
            return
        res = self.res
        f = self.wfs[i]
        wf, entries = f['wf'], f['entries']
        gated = f.get('gate') is not None
        self.oplog.append(('dict', i) if short is None else ('query', i, int(short)))
        nops = len(self.oplog)
        dd = wf.getDict()
        ncyc = None
        if driven is not None:
            for j, x in enumerate(entries):
                got = dd.get(wire_of(x))
                if got != driven[j]:
                    self._fail('getDict() differs from the values driven on the watched wire',
                               dict(oracle='O1-driven', waveform=i, entry=j, expected=driven[j][:40],
                                    got=None if got is None else got[:40]))
                    return
        # --- O1: one sample per cycle, equal to the pre-edge value, aliases and duplicates share
        for j, x in enumerate(entries):
            w = wire_of(x)
            exp = self.expected(i, w)
            ncyc = len(exp)
            got = dd.get(w)
            if got != exp:
                kind = 'count' if (got is None or len(got) != len(exp)) else 'value'
                self._fail(f'getDict() of watched wire differs from the values it carried into the '
                           f"{'enabled ' if gated else ''}edges ({kind})",
                           dict(oracle=('O1g-' if gated else 'O1-') + kind, waveform=i, entry=j, wire=self.wid[id(w)],
                                expected=exp[:40], got=None if got is None else got[:40]))
                return
        if len(dd) != len({id(wire_of(x)) for x in entries}):
            self._fail('getDict() has a different number of keys than distinct watched wires',
                       dict(oracle='O1-keys', waveform=i, keys=len(dd)))
            return
        rec = dict(pos=nops, i=i, short=short, data=[(k, list(l)) for k, l in dd.items()])
        self.qlog.append(rec)
        res.hist('queries', 'getDict' if short is None else ('render-short' if short else 'render-full'))
        if short is None:
            return
        renders = [q for q in self.qlog[:-1] if q['i'] == i and q['short'] is not None]
        if renders:
            prev = renders[-1]
            cleared = any(o[0] == 'clear' and o[1] == i for o in self.oplog[prev['pos']:nops])
            res.hist('render_history', ('after-clear' if cleared else 'no-clear') +
                     ('/same-length' if prev['ncyc'] == ncyc else '/other-length') +
                     ('/same-names' if prev['short'] == short else '/other-names'))
        rec['ncyc'] = ncyc
        try:
            wd = wf.get_wavedrom(short)
        except Exception as e:
            self._fail('get_wavedrom() raised on a recorder whose watch list was accepted by the constructor',
                       dict(oracle='O2-raise', waveform=i, err=repr(e)[:120]))
            return
        sig = wd['signal']
        # --- O3: span
        ok_shape = (len(sig) == len(entries) + 1 and wd['head']['text'] == wf.name and wd['head']['tock'] == 0)
        if not ok_shape:
            self._fail('get_wavedrom(): wrong number of rows / head', dict(oracle='O3-shape', waveform=i, rows=len(sig)))
            return
        ck = sig[0]['wave']
        if not (sig[0]['name'] == 'clk' and ck == 'P' + '.' * ncyc + 'x'):
            self._fail('get_wavedrom(): clock row does not span the recorded cycles',
                       dict(oracle='O3-clk', waveform=i, cycles=ncyc, wave=ck))
            return
        for j, x in enumerate(entries):
            w = wire_of(x)
            row = sig[j + 1]
            exp = self.expected(i, w)
            name = x.name if short else x.getFullPath()
            if row['name'] != name:
                self._fail('get_wavedrom(): row name', dict(oracle='O3-name', waveform=i, entry=j, got=row['name'], expected=name))
                return
            if len(row['wave']) != len(exp) + 2:
                self._fail('get_wavedrom(): row does not span exactly the recorded cycles',
                           dict(oracle='O3-span', waveform=i, entry=j, cycles=len(exp), wave=row['wave'], samples=exp[:40]))
                return
            # --- O2: decode back
            dec = spec_decode(w.getWidth(), row['wave'], row['data'])
            if dec != exp:
                self._fail('get_wavedrom() row does not decode back to the samples the recorder holds',
                           dict(oracle='O2-decode', waveform=i, entry=j, width=w.getWidth(), wave=row['wave'][:80],
                                data=row['data'][:40], samples=exp[:40], decoded=None if dec is None else dec[:40]))
                return
            if self.decq is not None:
                self.decq.append((w.getWidth(), row['wave'], list(row['data']), exp, self, i, j, nops))
            res.hist('row_width', 'w1' if w.getWidth() == 1 else ('w2-8' if w.getWidth() <= 8 else ('w9-32' if w.getWidth() <= 32 else 'w33+')))
            res.hist('row_kind', 'port' if x is not w else 'wire')
        res.hist('cycles_recorded', ncyc if ncyc < 4 else ('4-15' if ncyc < 16 else '16+'))
        res.hist('watch_has_duplicates', len(dd) != len(entries))
        rec.update(text=wd['head']['text'], clk=ck,
                   rows='!'.join(f"{r['name']}~{r['wave']}~{','.join(r['data'])}" for r in sig[1:]))
        if self.modelq is None or not (self.model_every or rec.get('final')):
            return
        # --- model comparison request (stateless): the model gets the observed pre-edge vectors of the history so far
        ents = '!'.join(ent_token(x, self.wid) for x in entries)
        gate = f.get('gate')
        ops = []
        for e in self.events[i]:
            if e[0] == 'x':
                ops.append('x')
            elif gate is None or e[1][self.wid[id(gate)] - 1] != 0:
                ops.append(','.join(['0'] + [str(v) for v in e[1]]))
        line = f"wf | {','.join(['1'] + [str(w.getWidth()) for w in self.wires])} | {ents} | {';'.join(ops)} | {1 if short else 0}"
        real = dict(uniq=[self.wid[id(w)] for w in wf.uniqueWires],
                    data=';'.join(f"{self.wid[id(k)]}:{','.join(str(v) for v in l)}" for k, l in dd.items()),
                    fmt=','.join('b' if fm == '' else ('h' if fm == '{:X}' else '?') for fm in wf.format),
                    clk=ck, rows=rec['rows'])
        self.modelq.append((line, real, self, i, nops))


def check_case(res, c, decq, modelq, short):
    """final query of every waveform of the case (O1-O3 on the real objects + queued model comparison)"""
    c.decq, c.modelq = decq, modelq
    c.model_every = True
    for i in range(len(c.wfs)):
        c.query(i, short)


class Batch:
    """all Lean requests of a run go through few driver processes (start-up of the interpreter dominates)"""
    LIMIT = 40000

    def __init__(self, res):
        self.res, self.lines, self.cbs = res, [], []

    def add(self, lines, cb):
        if lines:
            self.cbs.append((len(self.lines), len(lines), cb))
            self.lines += lines
        if len(self.lines) >= self.LIMIT:
            self.flush()

    def flush(self):
        if not self.lines:
            return
        lines, cbs = self.lines, self.cbs
        self.lines, self.cbs = [], []
        try:
            out = run_driver('Drv/C15.lean', ['reset'] + lines)[1:]
        except ToolFailure as e:
            self.res.broken.append(('correspondence', 'driver', str(e)[:300]))
            return
        self.res.hist('driver_runs', 'n')
        for a, n, cb in cbs:
            cb(out[a:a + n])


BATCH = None
DEC_SEEN = {}


def flush_queues(res, decq, modelq):
    """Lean side: decoder applied to the REAL rendering, model vs implementation"""
    dq = []
    for t in decq:                       # identical (width, wave, labels, expected) requests are asked once
        key = (t[0], t[1], tuple(t[2]), tuple(t[3]))
        if key not in DEC_SEEN:
            DEC_SEEN[key] = 1
            dq.append(t)
        res.cov['disagreements_checked'] += 1
    mq = list(modelq)
    decq.clear(); modelq.clear()
    lines = [f"dec | {t[0]} | {t[1]} | {','.join(t[2])}" for t in dq]
    lines += [m[0] for m in mq]
    BATCH.add(lines, lambda out: _check_answers(res, dq, mq, out))


def _check_answers(res, decq, modelq, out):
    for (ww, wave, labels, exp, c, i, j, nops), o in zip(decq, out):
        want = 'some:' + ','.join(str(v) for v in exp)
        if o.strip() != want:
            res.fail('Lean decodeWave of the real get_wavedrom() row differs from the recorded samples',
                     c.replay(dict(oracle='O2-lean-decode', waveform=i, entry=j, width=ww, wave=wave[:80], data=labels[:40],
                                   samples=exp[:40], decoded=o[:200]), nops))
    for (line, real, c, i, nops), o in zip(modelq, out[len(decq):]):
        f = [x.strip() for x in o.split('|')]
        if f[0] != 'ok' or len(f) != 8:
            res.disagree(c.stream, dict(case=c.label, what='model raises / bad answer', answer=o[:200], request=line[:300]))
            continue
        got = dict(uniq=f[1], data=f[2], fmt=f[3], clk=f[5], rows=f[6], flags=f[7])
        want = dict(uniq=','.join(str(u) for u in real['uniq']), data=real['data'], fmt=real['fmt'], clk=real['clk'],
                    rows=real['rows'], flags='00')
        for k in want:
            if got[k] != want[k]:
                res.disagree(c.stream, dict(case=c.label, waveform=i, field=k, python=want[k][:300], lean=got[k][:300],
                                            replay=c.replay({}, nops)))
                break


# ------------------------------------------------------------------------------------------------ wf-direct
ATOM_WIRE = {'w': 'w', 'pi': 'w', 'ba': 'w', 'o': 'o', 'po': 'o', 'br': 'o', 'q': 'q', 'pq': 'q', 'pq2': 'q'}


def build_direct(widths, watch, gate=None):
    s, ins, wires, fs = build_direct_multi(widths, [watch], [gate])
    return s, ins, wires, fs[0]


def build_direct_multi(widths, watches, gates):
    """inputs i<k> of the given widths; channel k is a SUB-BLOCK blk<k> (ports a, r) with an internal wire that is
    called `q` in EVERY block (distinct wires, same short name), Buf b1: i<k> -> q, Buf b2: q -> o<k>.
    One Waveform per watch list (overlapping lists allowed), Waveform m optionally inside a clock domain gated by input gates[m].
    watch atoms: ('w',k) input wire | ('o',k) output wire | ('q',k) the block's internal wire q |
      ('pi',k) b1 in-port, ('ba',k) block in-port (aliases of i<k>) | ('po',k) b2 out-port, ('br',k) block out-port (aliases of o<k>) |
      ('pq',k) b1 out-port, ('pq2',k) b2 in-port (aliases of blk<k>.q)"""
    import py4hw
    import py4hw.logic.bitwise as B
    from py4hw.logic.simulation import Waveform
    s = py4hw.HWSystem()
    ins = [s.wire(f'i{k}', w) for k, w in enumerate(widths)]
    outs = [s.wire(f'o{k}', w) for k, w in enumerate(widths)]
    blks, qs, b1, b2 = [], [], [], []
    for k, w in enumerate(widths):
        blk = py4hw.Logic(s, f'blk{k}')
        blk.addIn('a', ins[k])
        blk.addOut('r', outs[k])
        q = blk.wire('q', w)
        b1.append(B.Buf(blk, 'b1', ins[k], q))
        b2.append(B.Buf(blk, 'b2', q, outs[k]))
        blks.append(blk)
        qs.append(q)

    def obj(t, k):
        return {'w': ins[k], 'o': outs[k], 'q': qs[k], 'pi': b1[k].inPorts[0], 'po': b2[k].outPorts[0],
                'pq': b1[k].outPorts[0], 'pq2': b2[k].inPorts[0], 'ba': blks[k].inPorts[0], 'br': blks[k].outPorts[0]}[t]
    fs = []
    for m, (watch, gate) in enumerate(zip(watches, gates)):
        entries = [obj(t, k) for t, k in watch]
        parent, gw = s, None
        sfx = '' if m == 0 else str(m)
        if gate is not None:                 # Waveform inside a clock domain gated by input wire `gate`
            gw = ins[gate]
            parent = py4hw.Logic(s, 'gated' + sfx)
            parent.clockDriver = py4hw.ClockDriver('gclk' + sfx, base=s.clockDriver, enable=gw)
        fs.append(dict(wf=Waveform(parent, 'wf' + sfx, entries), entries=entries, gate=gw))
    return s, ins, ins + outs + qs, fs


def direct_script(res, label, widths, watches, script, gates=None, decq=None, modelq=None, final_short=(False,),
                  netq=None, model_every=True, extra=None):
    """script: history over the bare system
         ('cyc', vals)  poke every input, one clk(1)   | ('clk0',) clk(0) | ('clear', m) | ('query', m, short) | ('dict', m)
       followed by a final query of every Waveform for each value in final_short.
       Independent expectation of this stream (O1-driven): the poked values themselves, tracked per Waveform."""
    ctx = direct_build(res, label, widths, watches, gates, decq, modelq, netq, model_every, extra)
    return direct_run(res, ctx, script, final_short)


def direct_build(res, label, widths, watches, gates=None, decq=None, modelq=None, netq=None, model_every=True, extra=None):
    gates = list(gates) if gates else [None] * len(watches)
    s, ins, wires, fs = build_direct_multi(widths, watches, gates)
    c = Case(res, 'wf-direct', s, wires, fs, label, decq, modelq, model_every)
    c.extra = dict(nw=len(widths), layout='inputs | outputs | per-block internal wires all named q')
    c.extra.update(extra or {})
    for f in fs:
        if len({wire_of(x).name for x in f['entries']}) < len({id(wire_of(x)) for x in f['entries']}):
            res.hist('watch_same_name_distinct_wires', 'direct')
    d = None
    if netq is not None:
        try:
            d = D.Dump(s, c.sim, allow_unknown=True)
        except D.NotDumpable:
            d = None
    return dict(c=c, d=d, ins=ins, widths=widths, watches=watches, gates=gates, netq=netq, model_every=model_every)


def direct_run(res, ctx, script, final_short=(False,)):
    c, d, ins, widths, watches, gates = ctx['c'], ctx['d'], ctx['ins'], ctx['widths'], ctx['watches'], ctx['gates']
    mask = [(1 << w) - 1 for w in widths]
    drv = [[[] for _ in widths] for _ in watches]

    def snapshot(m):
        return [list(drv[m][k]) for t, k in watches[m]]
    ops, ncyc = [], 0
    for st in script:
        if st[0] == 'cyc':
            for k, v in enumerate(st[1]):
                ops.append(('poke', ins[k], v))
            ops.append(('clk', 1))
            ncyc += 1
            for m, g in enumerate(gates):
                if g is None or st[1][g] & mask[g] != 0:
                    for k, v in enumerate(st[1]):
                        drv[m][k].append(v & mask[k])
        elif st[0] == 'clk0':
            ops.append(('clk', 0))
        elif st[0] == 'clear':
            ops.append(('clear', st[1]))
            drv[st[1]] = [[] for _ in widths]
        elif st[0] == 'query':
            ops.append(('query', st[1], st[2], snapshot(st[1])))
        else:
            ops.append(('dict', st[1], snapshot(st[1])))
    nfin = len(final_short) * len(watches)
    for sh in final_short:
        for m in range(len(watches)):
            ops.append(('query', m, sh, snapshot(m)))
    c.model_every = ctx['model_every']
    c.run(ops[:len(ops) - nfin])
    c.model_every = True
    c.run(ops[len(ops) - nfin:])
    res.count(('direct', tuple(widths), tuple(tuple(w) for w in watches), tuple(tuple(x) for x in script), tuple(gates),
               tuple(final_short)),
              hist={'direct_len': ncyc if ncyc < 8 else '8+', 'direct_waveforms': len(watches)})
    if d is not None and c.ok and set(d.unknown) <= {'Waveform'}:
        queue_net(c, d, ctx['netq'])
    return c


# ------------------------------------------------------------------------------------------------ wf-process
def in_fresh_process(fn):
    """fn() in a forked child of the harness process.  The fork is taken while the parent has not constructed any Waveform /
    simulator yet, so every child is a process in which the recorders of ONE scenario are the only ones ever created
    (class-level / module-level state of py4hw is pristine).  Returns fn()'s JSON-able result."""
    import traceback
    rd, wr = os.pipe()
    pid = os.fork()
    if pid == 0:
        try:
            os.close(rd)
            data = json.dumps(fn(), default=str).encode()
        except BaseException as e:
            data = json.dumps({'error': repr(e)[:300], 'tb': traceback.format_exc()[-800:]}).encode()
        try:
            with os.fdopen(wr, 'wb') as f:
                f.write(data)
        finally:
            os._exit(0)
    os.close(wr)
    with os.fdopen(rd, 'rb') as f:
        data = f.read()
    os.waitpid(pid, 0)
    try:
        return json.loads(data)
    except ValueError:
        return {'error': 'child died without an answer'}


def deep_tuple(x):
    return tuple(deep_tuple(y) for y in x) if isinstance(x, (list, tuple)) else x


def fresh_recorder_module():
    """re-executes py4hw/logic/simulation.py (the file that defines Waveform): class-level and module-level state of the
    recorder is what it is in a process that has not constructed a recorder yet; build_direct_multi picks the class up from
    the module at every call"""
    import importlib
    import py4hw.logic.simulation as M
    importlib.reload(M)


def process_scenario(res, spec, label, mode='fork'):
    """spec = dict(order='build-run' | 'build-first', systems=[dict(widths, watches, gates, script, final_short)]): the recorders
    of all systems are the only ones of a fresh process, constructed in list order; 'build-run' constructs and runs system after
    system, 'build-first' constructs every system (all recorders exist) before any of them is simulated.  O1-O3 at every query.
    mode 'fork': a forked child of the still pristine harness process (everything of py4hw is fresh);
    mode 'reload': in this process after re-executing the recorder's module (cheap: used for the large families)"""
    def body(cres):
        ctxs = []
        for k, sy in enumerate(spec['systems']):
            ctx = direct_build(cres, label, sy['widths'], [[tuple(a) for a in wl] for wl in sy['watches']], sy.get('gates'),
                               extra=dict(stream='wf-process', process=spec, member=k, mode=mode))
            ctx['c'].stream = 'wf-process'
            if spec['order'] == 'build-run':
                direct_run(cres, ctx, [deep_tuple(x) for x in sy['script']], tuple(sy.get('final_short', (False,))))
            ctxs.append(ctx)
        if spec['order'] != 'build-run':
            for ctx, sy in zip(ctxs, spec['systems']):
                direct_run(cres, ctx, [deep_tuple(x) for x in sy['script']], tuple(sy.get('final_short', (False,))))
    res.hist('process_mode', mode)
    t_ = time.time()
    nrec = sum(len(sy['watches']) for sy in spec['systems'])
    if mode == 'reload':
        fresh_recorder_module()
        try:
            body(res)
        except Exception as e:
            res.disagree('wf-process', dict(case=label, what='scenario raised', err=repr(e)[:300]))
        res.hist('process_recorders', nrec)
        res.hist('process_order', spec['order'])
        res.cov['t_process_reload_s'] = round(res.cov.get('t_process_reload_s', 0) + time.time() - t_, 2)
        return

    def child():
        cres = Result(res.prop, res.tier, res.seed, res.level)
        body(cres)
        return dict(failures=cres.failures, known=[[k, w] for k, w in cres.known_hits], broken=cres.broken,
                    hist=cres.cov['histograms'], evals=cres.cov['evaluations'])
    out = in_fresh_process(child)
    if 'error' in out:
        res.disagree('wf-process', dict(case=label, what='scenario raised in the child process', err=out['error'], tb=out.get('tb', '')[-300:]))
        return
    res.failures += out['failures']
    res.known_hits += [(k, w) for k, w in out['known']]
    res.broken += [tuple(b) for b in out['broken']]
    for k, d in out['hist'].items():
        for v, n in d.items():
            res.hist(k, v, n)
    res.cov['evaluations'] += out['evals']
    res.count(('process', json.dumps(spec, sort_keys=True, default=str)), hist={'process_recorders': nrec, 'process_order': spec['order']})


def layout_of(sy):
    return tuple(tuple('b' if sy['widths'][k] == 1 else 'h' for t, k in wl) for wl in sy['watches'])


def stream_process(res, tier, rng):
    """several recorders per PROCESS with different watch-list layouts (1-bit / wide at the same watch-list position, other
    lengths), on separate systems or on one system, each with its own history.  The large families run after a reload of the
    recorder's module, a seeded selection of them (and the corpus witnesses) additionally in forked fresh processes."""
    quick = tier == 'quick'
    import py4hw, py4hw.logic.bitwise, py4hw.logic.simulation          # imported once, in the parent (no object is constructed)
    seq = [(1, 2), (1, 3), (0, 3), (0, 9), (1, 9)]
    script = [('cyc', v) for v in seq[:3]] + [('query', 0, False), ('clear', 0)] + [('cyc', v) for v in seq[2:]]
    specs = []
    # exhaustive: two recorders (separate systems, 1-bit + 4-bit inputs), every pair of watch lists of length 1..3 (4 thorough)
    atoms = [('w', 0), ('w', 1)]
    lists = [list(w) for n in ((1, 2, 3) if quick else (1, 2, 3, 4)) for w in itertools.product(atoms, repeat=n)]
    for wa in lists:
        for wb in lists:
            for order in ('build-run', 'build-first'):
                specs.append(('ex-process', dict(order=order, systems=[
                    dict(widths=[1, 4], watches=[wa], gates=[None], script=script, final_short=(False, True)),
                    dict(widths=[1, 4], watches=[wb], gates=[None], script=script, final_short=(True, False))])))
    # seeded: 2-4 systems with 1-2 recorders each, random widths / watch lists / phase-structured histories
    for i in range(150 if quick else 2000):
        r = rng.fork(('process', i))
        systems = []
        for k in range(r.randint(2, 4)):
            nw = r.randint(1, 3)
            widths = [r.choice([1, 1, 1, 2, 4, 8, 33]) for _ in range(nw)]
            nwf = r.choice([1, 1, 2])
            watches = [[(r.choice(['w', 'o', 'q', 'pi', 'po', 'pq', 'ba', 'br']), r.randint(0, nw - 1)) for _ in range(r.randint(1, 4))]
                       for _ in range(nwf)]
            gates = [None] * nwf
            systems.append(dict(widths=widths, watches=watches, gates=gates, script=phase_script(r, widths, nwf, gates),
                                final_short=(r.chance(1, 2),)))
        specs.append((f'process{i}', dict(order=r.choice(['build-run', 'build-first']), systems=systems)))
    # forked fresh processes FIRST (nothing has been constructed in this process yet): a seeded selection
    pick = rng.fork('process-fork')
    different = [x for x in specs if len({layout_of(sy) for sy in x[1]['systems']}) > 1]
    for label, spec in pick.shuffle(different)[:(6 if quick else 40)]:
        process_scenario(res, spec, label, 'fork')
    for label, spec in specs:
        res.hist('process_layouts', 'same' if len({layout_of(sy) for sy in spec['systems']}) == 1 else 'different')
        process_scenario(res, spec, label, 'reload')
    fresh_recorder_module()


def direct_case(res, label, widths, watch, seqs, clear_at=(), chunk=1, decq=None, modelq=None, short=False, gate=None):
    """seqs: list of value tuples (one per input wire) applied before each cycle; clear() before cycle t for t in clear_at"""
    script = []
    for t, vals in enumerate(seqs):
        if t in clear_at:
            script.append(('clear', 0))
        script.append(('cyc', tuple(vals)))
    if len(seqs) in clear_at:
        script.append(('clear', 0))
    if chunk == 0:
        script.append(('clk0',))
    return direct_script(res, label, widths, [list(watch)], script, [gate], decq, modelq, final_short=(short,))


def phase_script(r, widths, nwf, gates):
    """a history made of RUNS separated by queries and clear()s.  Run lengths coincide often: the recorder is refilled to a
    length it had at an earlier query (with other values), queried twice in a row, queried with both shortNames values,
    queried when empty, the Waveforms of one system are cleared / queried independently"""
    nw = len(widths)
    script, lens = [], []
    cur = [0] * nw
    short = [r.chance(1, 2) for _ in range(nwf)]

    def q(m):
        if not r.chance(2, 3):
            short[m] = not short[m]
        script.append(('query', m, short[m]))
    for ph in range(r.randint(2, 5)):
        n = r.choice(lens) if lens and r.chance(1, 2) else r.choice([0, 1, 1, 2, 2, 3, 4, 6, 9])
        lens.append(n)
        for t in range(n):
            for k in range(nw):
                if r.chance(2, 3):
                    cur[k] = r.bits(widths[k]) if r.chance(1, 2) else r.randint(0, min((1 << widths[k]) - 1, 3))
            for g in gates:
                if g is not None and r.chance(2, 3):
                    cur[g] = 1
            script.append(('cyc', tuple(cur)))
            if r.chance(1, 10):
                q(r.randint(0, nwf - 1))
        if n == 0 and r.chance(1, 2):
            script.append(('clk0',))
        for m in range(nwf):
            if r.chance(3, 4):
                q(m)
                if r.chance(1, 4):
                    q(m)
            elif r.chance(1, 3):
                script.append(('dict', m))
        for m in range(nwf):
            if r.chance(2, 3):
                script.append(('clear', m))
        if r.chance(1, 6):
            q(r.randint(0, nwf - 1))
    return script


def stream_direct(res, tier, rng):
    decq, modelq, netq = [], [], []
    quick = tier == 'quick'
    # (a) exhaustive value sequences on one wire, widths 1..3, every run-length pattern included
    for w, L in ((1, 8 if quick else 12), (2, 5 if quick else 6), (3, 3 if quick else 5)):
        for n in range(L + 1):
            for seq in itertools.product(range(1 << w), repeat=n):
                direct_case(res, f'ex-w{w}', [w], [('w', 0)], [(v,) for v in seq], decq=decq, modelq=modelq, short=(n % 2 == 1))
        flush_queues(res, decq, modelq)
    # (b) exhaustive watch-list shapes over two wires (1 bit + 2 bits): wires, in/out ports, duplicates, lengths 1..3
    atoms = [('w', 0), ('w', 1), ('pi', 0), ('o', 0), ('po', 1), ('q', 0), ('q', 1), ('pq', 1), ('pq2', 0)]
    seqs = [(1, 2), (1, 2), (0, 2), (0, 3), (1, 0)]
    for n in (1, 2, 3) if quick else (1, 2, 3, 4):
        for watch in itertools.product(atoms, repeat=n):
            for cl in ((), (3,)):
                direct_case(res, 'ex-watch', [1, 2], list(watch), seqs, clear_at=cl, decq=decq, modelq=modelq)
        flush_queues(res, decq, modelq)
    # (c) zero cycles, clk(0), clear with nothing recorded
    for w in (1, 2, 8, 64):
        direct_case(res, 'zero', [w], [('w', 0), ('pi', 0), ('w', 0)], [], chunk=0, decq=decq, modelq=modelq)
        direct_case(res, 'zero-clear', [w], [('w', 0)], [], clear_at=(0,), chunk=0, decq=decq, modelq=modelq)
    # (c') gated recorder: every enable sequence (1-bit and 2-bit enable) up to length 4 (thorough 6); data = cycle index
    for ew, L in ((1, 4 if quick else 7), (2, 3 if quick else 5)):
        for n in range(L + 1):
            for en in itertools.product(range(1 << ew), repeat=n):
                direct_case(res, f'ex-gate{ew}', [ew, 4], [('w', 1), ('w', 0)], [(e, t + 1) for t, e in enumerate(en)],
                            decq=decq, modelq=modelq, gate=0)
    flush_queues(res, decq, modelq)
    # (e) EVERY history of length <= 5 (thorough 6) over {cycle with values A, cycle with values B, clear(), get_wavedrom(False),
    #     get_wavedrom(True)} on a 1-bit + 2-bit system (wire, wire, port alias), followed by get_wavedrom with both
    #     shortNames values: queries at every point, render twice, render - clear - refill (same / other length) - render
    alpha = [('cyc', (1, 1)), ('cyc', (0, 2)), ('clear', 0), ('query', 0, False), ('query', 0, True)]
    for n in range(0, (5 if quick else 6) + 1):
        for hist in itertools.product(alpha, repeat=n):
            if n and hist[-1][0] == 'query':
                continue                     # the final queries follow anyway: covered by the shorter history
            direct_script(res, 'ex-hist', [1, 2], [[('w', 0), ('w', 1), ('pi', 1)]], list(hist), decq=decq, modelq=modelq,
                          final_short=(False, True), model_every=False)
        flush_queues(res, decq, modelq)
    # (f) seeded sessions: 1-3 Waveforms over overlapping watch lists of one system, phase-structured histories; each also
    #     runs completely in Lean (wf-net) with every query answered by the model at the same point
    n_sess = 350 if quick else 4000
    for i in range(n_sess):
        r = rng.fork(('session', i))
        nw = r.randint(1, 3)
        widths = [r.choice([1, 1, 2, 3, 4, 8, 9, 16, 33, 64]) for _ in range(nw)]
        nwf = r.choice([1, 2, 2, 3])
        base = [(r.choice(['w', 'o', 'q', 'pi', 'po', 'pq', 'pq2', 'ba', 'br']), r.randint(0, nw - 1)) for _ in range(r.randint(1, 3))]
        watches = []
        for m in range(nwf):                  # overlapping: every list takes some of the common atoms + own ones
            wl = [a for a in base if r.chance(2, 3)]
            wl += [(r.choice(['w', 'o', 'q', 'pi', 'po', 'pq', 'pq2', 'ba', 'br']), r.randint(0, nw - 1)) for _ in range(r.randint(0 if wl else 1, 3))]
            watches.append(r.shuffle(wl))
        gates = [(r.randint(0, nw - 1) if r.chance(1, 6) else None) for _ in range(nwf)]
        script = phase_script(r, widths, nwf, gates)
        direct_script(res, f'sess{i}', widths, watches, script, gates, decq, modelq,
                      final_short=((False, True) if r.chance(1, 2) else (r.chance(1, 2),)), netq=netq)
        if i < 2:
            res.sample(dict(stream='wf-direct', kind='session', widths=widths, watches=watches, gates=gates, script=script[:12]))
        if len(modelq) >= 400:
            flush_queues(res, decq, modelq)
        if len(netq) >= 150:
            flush_net(res, netq)
    flush_queues(res, decq, modelq)
    flush_net(res, netq)
    # (d) seeded: all widths, long sequences with holds (run-length), boundary values, clears
    n_rand = 1500 if quick else 35000
    for i in range(n_rand):
        r = rng.fork(('direct', i))
        nw = r.randint(1, 3)
        widths = [r.choice([1, 1, 2, 3, 4, 5, 7, 8, 9, 12, 16, 17, 31, 32, 33, 63, 64, 65, 100]) if r.chance(3, 4) else r.randint(1, 64)
                  for _ in range(nw)]
        watch = [(r.choice(['w', 'w', 'o', 'pi', 'po', 'q', 'q', 'pq', 'pq2', 'ba', 'br']), r.randint(0, nw - 1))
                 for _ in range(r.randint(1, 6))]
        L = r.randint(0, 40 if quick else 120)
        seqs, cur = [], [0] * nw
        for t in range(L):
            for k in range(nw):
                if not r.chance(1, 2):       # hold with prob 1/2 -> runs
                    cur[k] = r.bits(widths[k]) if r.chance(1, 2) else r.randint(0, min((1 << widths[k]) - 1, 20))
                    if r.chance(1, 10):
                        cur[k] = r.choice([-1, 1 << widths[k], (1 << widths[k]) + 10])   # masked by the wire
            seqs.append(tuple(cur))
        clear_at = tuple(sorted({r.randint(0, max(L, 1)) for _ in range(r.randint(0, 2))})) if r.chance(1, 3) else ()
        direct_case(res, f'rand{i}', widths, watch, seqs, clear_at=clear_at, decq=decq, modelq=modelq, short=r.chance(1, 2),
                    gate=(r.randint(0, nw - 1) if r.chance(1, 6) else None))
        if i < 2:
            res.sample(dict(stream='wf-direct', widths=widths, watch=watch, seq=seqs[:6], clear_at=clear_at))
        if len(modelq) >= 400:
            flush_queues(res, decq, modelq)
    flush_queues(res, decq, modelq)


# ------------------------------------------------------------------------------------------------ wf-designs / wf-net
def design_ops(r, ins, nwf):
    """history on a random netlist: pokes / clk(n) incl. 0 / clear(i) / queries at arbitrary points; half of the time
    phase-structured (runs whose lengths coincide, separated by query and clear, see phase_script)"""
    ops = []

    def pokes(k):
        return [o for o in G.random_ops(r, ins, k) if o[0] == 'poke']
    if r.chance(1, 2):
        for o in G.random_ops(r, ins, r.randint(2, 14)):
            ops.append(o if o[0] == 'poke' else ('clk', r.choice([0, 1, 1, 1, 2, 3, 5])))
            if r.chance(1, 12):
                ops.append(('clear', r.randint(0, nwf - 1)))
            if r.chance(1, 6):
                ops.append(('query', r.randint(0, nwf - 1), r.chance(1, 2)) if r.chance(3, 4) else ('dict', r.randint(0, nwf - 1)))
        return ops
    lens = []
    short = [r.chance(1, 2) for _ in range(nwf)]

    def q(m):
        if not r.chance(2, 3):
            short[m] = not short[m]
        ops.append(('query', m, short[m]))
    for ph in range(r.randint(2, 4)):
        n = r.choice(lens) if lens and r.chance(1, 2) else r.choice([0, 1, 1, 2, 3, 5])
        lens.append(n)
        left = n
        ops.extend(pokes(r.randint(0, 3)))
        while left > 0:
            k = r.randint(1, left)
            ops.append(('clk', k))
            left -= k
            ops.extend(pokes(r.randint(0, 2)))
        if n == 0 and r.chance(1, 2):
            ops.append(('clk', 0))
        for m in range(nwf):
            if r.chance(3, 4):
                q(m)
                if r.chance(1, 4):
                    q(m)
            elif r.chance(1, 3):
                ops.append(('dict', m))
        for m in range(nwf):
            if r.chance(2, 3):
                ops.append(('clear', m))
    return ops


def queue_net(c, d, netq):
    """the history of case c as a `Waveform.session` of the Lean driver: construction of the Waveform objects from their
    watch lists (wfobj), then the operations literally; every query is answered by the model at the same point"""
    L = d.lines + d.schedule_lines()
    want = {}
    for f in c.wfs:
        L.append(f"wfobj {d.lid[id(f['wf'])]} | {f['wf'].name} | " + '!'.join(ent_token(x, d.wid) for x in f['entries']))
        want[len(L) - 1] = ('uniqueWires', 'ok | ' + ','.join(str(d.wid[id(w)]) for w in f['wf'].uniqueWires), 0)
    L.append('begin')
    qs = iter(c.qlog)
    for pos, op in enumerate(c.oplog):
        if op[0] == 'poke':
            L.append(f'poke {d.wid[id(c.wires[op[1] - 1])]} {op[2]}')
        elif op[0] == 'clk':
            L.append(f'clk {op[1]}')
        elif op[0] == 'clear':
            L.append(f'clearwf {op[1]}')
        else:
            q = next(qs, None)
            if q is None or q['pos'] != pos + 1:
                break                        # a query that failed its oracle has no logged answer: nothing to compare after it
            L.append(f"getdict {q['i']}")
            want[len(L) - 1] = ('getDict', ';'.join(f"{d.wid[id(k)]}:{','.join(str(v) for v in l)}" for k, l in q['data']), pos + 1)
            if q['short'] is not None and 'rows' in q:
                L.append(f"render {q['i']} {1 if q['short'] else 0}")
                want[len(L) - 1] = ('get_wavedrom', f"{q['text']} | {q['clk']} | {q['rows']}", pos + 1)
    L.append('vals')
    want[len(L) - 1] = ('wire values', ','.join(str(v) for v in d.values()), len(c.oplog))
    netq.append((L, want, c))


def stream_designs(res, tier, rng):
    import py4hw
    import py4hw.logic.storage as S_
    import py4hw.logic.bitwise as B_
    from py4hw.logic.simulation import Waveform
    quick = tier == 'quick'
    n_designs = 700 if quick else 10000
    decq, modelq, netq = [], [], []
    built = 0
    for i in range(n_designs):
        r = rng.fork(('design', i))
        plan = G.random_plan(r, r.randint(1, 14 if quick else 30), wmax=r.choice([1, 3, 8, 17, 33, 64]))
        try:
            sysobj, ins, W, leaves = G.build(plan, inst_order=r.shuffle(range(len(plan['nodes']))))
        except Exception as e:
            res.hist('build_errors', str(e)[:50])
            continue
        cands = list(W.values())
        ports = []
        for lf in leaves.values():
            ports += [p for p in lf.inPorts + lf.outPorts if p.wire is not None]
        # sibling instances of one sub-block: internal wire `q`, leaves `reg`/`buf` and ports a/r are named alike in all
        stage_q = []
        try:
            for k in range(r.choice([0, 1, 2, 2, 3])):
                src = r.choice(cands)
                blk = py4hw.Logic(sysobj, f'stage{k}')
                dst = sysobj.wire(f'stage{k}_r', r.choice([src.getWidth(), r.randint(1, 8)]))
                blk.addIn('a', src)
                blk.addOut('r', dst)
                q = blk.wire('q', r.choice([src.getWidth(), r.randint(1, 8)]))
                rg = S_.Reg(blk, 'reg', src, q)
                bf = B_.Buf(blk, 'buf', q, dst)
                stage_q.append(q)
                cands += [q, dst]
                ports += rg.inPorts + rg.outPorts + bf.inPorts + bf.outPorts + blk.inPorts + blk.outPorts
        except Exception as e:
            res.hist('build_errors', str(e)[:50])
            continue
        wfs = []
        try:
            for k in range(r.choice([1, 1, 2])):
                entries = []
                if len(stage_q) >= 2 and r.chance(1, 2):
                    entries += r.shuffle(stage_q)[:2]           # two DIFFERENT wires that are both called q
                for _ in range(r.randint(1, 7)):
                    t = r.randint(0, 9)
                    if t < 4 or not ports:
                        entries.append(r.choice(cands))
                    elif t < 7:
                        entries.append(r.choice(ports))
                    else:
                        entries.append(r.choice(entries) if entries else r.choice(cands))     # duplicate
                gate = None
                parent = sysobj
                if r.chance(1, 4):
                    ones = [w for w in cands if w.getWidth() <= 2]
                    gate = r.choice(ones) if ones else r.choice(cands)
                    parent = py4hw.Logic(sysobj, f'gated{k}')
                    parent.clockDriver = py4hw.ClockDriver(f'gclk{k}', base=sysobj.clockDriver, enable=gate)
                wfs.append(dict(wf=Waveform(parent, f'wf{k}', entries), entries=entries, gate=gate))
        except Exception as e:
            res.disagree('wf-designs', dict(design=i, what='Waveform constructor raised', err=repr(e)[:200]))
            continue
        all_w = D.all_wires(sysobj)
        try:
            c = Case(res, 'wf-designs', sysobj, all_w, wfs, dict(design=i, plan=G.plan_summary(plan), stages=len(stage_q)))
        except Exception as e:
            res.hist('build_errors', str(e)[:50])
            continue
        built += 1
        for f in wfs:
            if len({wire_of(x).name for x in f['entries']}) < len({id(wire_of(x)) for x in f['entries']}):
                res.hist('watch_same_name_distinct_wires', 'designs')
        # structural facts the Net-level theorem assumes about the scheduler
        for f in wfs:
            occ = sum(ds.clockables.count(f['wf']) for ds in c.sim.clockDrivers.values())
            if occ != 1 or f['wf'] in c.sim.propagatables:
                res.disagree('wf-designs', dict(design=i, what='Waveform scheduled != once as clockable / is propagatable', occ=occ))
        ops = design_ops(r, ins, len(wfs))
        try:
            d = D.Dump(sysobj, c.sim, allow_unknown=True)
        except D.NotDumpable:
            d = None
        c.decq, c.modelq = decq, modelq
        c.run(ops)
        check_case(res, c, decq, modelq, r.chance(1, 2))
        if r.chance(1, 2):
            check_case(res, c, decq, modelq, r.chance(1, 2))         # asked again (same or other shortNames)
        res.count(('design', i), hist={'design_nodes': len(plan['nodes']) // 5 * 5, 'waveforms': len(wfs),
                                       'gated': sum(f['gate'] is not None for f in wfs)})
        if i < 2:
            res.sample(dict(stream='wf-designs', replay=c.replay({})))
        # --- wf-net: whole session in Lean (Waveform objects as leaves, every query answered at the same point)
        if d is not None and set(d.unknown) <= {'Waveform'} and c.ok:
            queue_net(c, d, netq)
        if len(modelq) >= 300:
            flush_queues(res, decq, modelq)
        if len(netq) >= 150:
            flush_net(res, netq)
    flush_queues(res, decq, modelq)
    flush_net(res, netq)
    res.cov['designs_built'] = built


def flush_net(res, netq):
    for job in netq:
        BATCH.add(job[0], lambda out, job=job: _check_net(res, [job], out))
    netq.clear()


def _check_net(res, netq, out):
    pos = 0
    for L, want, c in netq:
        o = out[pos:pos + len(L)]
        pos += len(L)
        bad = [x for k, x in enumerate(o) if k not in want and x.strip() != 'ok']
        if bad or len(o) != len(L):
            res.disagree('wf-net', dict(case=c.label, what='session error', answer=(bad or ['short output'])[0]))
            continue
        res.cov['disagreements_checked'] += 1
        for k in sorted(want):
            what, w, nops = want[k]
            if o[k].strip() != w.strip():
                res.disagree('wf-net', dict(case=c.label, what=what, request=L[k], python=w[:300], lean=o[k][:300],
                                            replay=c.replay({}, nops)))
                break
            if what in ('getDict', 'get_wavedrom'):
                res.hist('wf_net_queries', what)
        res.hist('wf_net', 'compared')


def static_facts(res):
    """facts about the class the model relies on"""
    from py4hw.logic.simulation import Waveform
    import py4hw
    if callable(getattr(Waveform, 'propagate', None)):
        res.disagree('static', 'Waveform has a propagate method (model: clockable only)')
    if not callable(getattr(Waveform, 'clock', None)):
        res.disagree('static', 'Waveform has no clock method')
    if '__eq__' in py4hw.Wire.__dict__ or '__hash__' in py4hw.Wire.__dict__:
        res.disagree('static', 'Wire defines __eq__/__hash__ (model: wires are compared by identity)')


def replay_direct(res, r, label, decq, modelq):
    """re-executes a wf-direct replay dict (as written by Case.replay): widths = inputs, Buf outputs, internal wires; watch
    tokens w<i>/p<i> in that numbering (one list per Waveform); ops literally, queries included"""
    nw = r.get('nw', len(r['widths']) // 2)
    widths = r['widths'][:nw]

    def atom(tok):
        k = int(tok[1:]) - 1
        return (('w', 'o', 'q')[k // nw] if tok[0] == 'w' else ('pi', 'po', 'pq')[k // nw], k % nw)
    watches = [[atom(t) for t in wl] for wl in r['watch']]
    gates = r.get('gates')
    if gates is None:
        gates = [r.get('gate')] + [None] * (len(watches) - 1)
    s, ins, wires, fs = build_direct_multi(widths, watches, gates)
    c = Case(res, 'wf-direct', s, wires, fs, label, decq, modelq)
    c.extra = dict(nw=nw)
    ops = []
    for o in r['ops']:
        if o[0] == 'poke':
            ops.append(('poke', wires[o[1] - 1], o[2]))
        elif o[0] == 'clk':
            ops.append(('clk', o[1]))
        elif o[0] == 'query':
            ops.append(('query', o[1], bool(o[2])))
        elif o[0] == 'dict':
            ops.append(('dict', o[1]))
        else:
            ops.append(('clear', o[1] if len(o) > 1 else 0))
    c.run(ops)
    check_case(res, c, decq, modelq, bool(r.get('short', False)))
    res.count(('replay', label))


def strict_reading_probe(res):
    """Reading 'one sample per SIMULATED cycle' literally, a Waveform inside a gated clock domain falls short (it samples
    once per edge of ITS clock: theorem capture_gated, negative witness gated_counterexample).  The witness is re-derived
    on the real code at every run and recorded in the evidence; it is reported through res.fail only when the integrator
    has listed it (known_findings id C15-gated-domain), because the edge-based reading of the property holds."""
    s, ins, wires, f = build_direct([1, 4], [('w', 1)], gate=0)
    sim = s.getSimulator()
    ins[0].put(0)
    for t in range(3):
        ins[1].put(t + 1)
        sim.clk(1)
    got = f['wf'].getDict()[ins[1]]
    res.hist('strict_reading_gated', f'simulated=3 recorded={len(got)}')
    if len(got) != 3:
        res.notes.append('gated-domain Waveform: 3 simulated cycles with enable=0 -> %d samples (edge-based reading: 0 expected)' % len(got))
        if any(k.get('id') == 'C15-gated-domain' for k in load_known()):
            res.fail('Waveform inside a gated clock domain records fewer samples than simulated cycles',
                     dict(oracle='O1-strict-gated', gated=[True], simulated=3, recorded=len(got), widths=[1, 4],
                          watch=[['w2']], ops=[['poke', 1, 0], ['poke', 2, 1], ['clk', 1], ['poke', 2, 2], ['clk', 1],
                                               ['poke', 2, 3], ['clk', 1]]))


def run_corpus_process(res):
    cdir = os.path.join(VERIF, 'corpus', 'C15')
    if not os.path.isdir(cdir):
        return
    for fn in sorted(os.listdir(cdir)):
        if fn.endswith('.json'):
            j = json.load(open(os.path.join(cdir, fn)))
            if 'process' in j:
                process_scenario(res, j['process'], 'corpus:' + fn, 'fork')


def run_corpus(res):
    cdir = os.path.join(VERIF, 'corpus', 'C15')
    if not os.path.isdir(cdir):
        return
    decq, modelq = [], []
    for fn in sorted(os.listdir(cdir)):
        if fn.endswith('.json'):
            j = json.load(open(os.path.join(cdir, fn)))
            if 'process' in j:
                continue
            if 'ops' in j:
                replay_direct(res, j, 'corpus:' + fn, decq, modelq)
                continue
            direct_case(res, 'corpus:' + fn, j['widths'], [tuple(x) for x in j['watch']], [tuple(x) for x in j['seqs']],
                        clear_at=tuple(j.get('clear_at', ())), decq=decq, modelq=modelq, short=j.get('short', False))
    flush_queues(res, decq, modelq)


def main(res, tier, rng, replay):
    ok, metas, errors, changed = regenerate()
    for e in errors:
        res.broken.append(('translator', 'py2lean', e))
    global BATCH
    BATCH = Batch(res)
    # wf-process first: its children are forked from a process that has not constructed any recorder yet (and is still small)
    t1_ = time.time()
    body = json.load(open(replay)) if replay else {}
    for k, fi in enumerate(body.get('failing_inputs', [])):
        if fi.get('replay', {}).get('stream') == 'wf-process':
            process_scenario(res, fi['replay']['process'], f'replay{k}', 'fork')
            process_scenario(res, fi['replay']['process'], f'replay{k}', 'reload')
    run_corpus_process(res)
    stream_process(res, tier, rng.fork('process'))
    res.cov['t_process_s'] = round(time.time() - t1_, 1)
    t0 = time.time()
    okm, outm = lean_build(MODEL_MODULES)
    if not okm:
        res.broken.append(('proof', 'model', 'model modules do not build: ' + ' // '.join(
            [l for l in outm.split('\n') if 'error' in l][:5])))
    res.proof_stage(PROP_MODULE, OBLIGATIONS)
    res.cov['t_proof_stage_s'] = round(time.time() - t0, 1)
    static_facts(res)
    strict_reading_probe(res)
    run_corpus(res)
    if replay:
        decq, modelq = [], []
        for k, fi in enumerate(body.get('failing_inputs', [])):
            if fi.get('replay', {}).get('stream') == 'wf-direct':
                replay_direct(res, fi['replay'], f'replay{k}', decq, modelq)
        flush_queues(res, decq, modelq)
    t1_ = time.time()
    stream_direct(res, tier, rng.fork('direct'))
    res.cov['t_direct_s'] = round(time.time() - t1_, 1)
    t1_ = time.time()
    stream_designs(res, tier, rng.fork('designs'))
    res.cov['t_designs_s'] = round(time.time() - t1_, 1)
    t1_ = time.time()
    BATCH.flush()
    res.cov['t_last_driver_run_s'] = round(time.time() - t1_, 1)
    res.failures.sort(key=lambda f: len(json.dumps(f, default=str)))       # report the smallest failing input first
    res.cov['rule'] = ('real Waveform objects clocked by the real Simulator.clk. wf-direct: every value sequence over 1/2/3-bit wires '
                       'up to length 8/5/3 (thorough 12/6/5), every watch list of length<=3 (thorough 4) over {wire, in-port alias, '
                       'out-port alias, second wire} incl. duplicates, with and without clear(); zero cycles / clk(0); seeded long '
                       'sequences with holds over widths 1..100. wf-designs: seeded random netlists with registers/memories and 1-2 '
                       'Waveforms over random watch lists (wires, leaf ports, duplicates), a quarter inside a gated clock domain, random '
                       'pokes/clk(n)/clear(). Oracles O1-O3 evaluated on getDict()/get_wavedrom(); the Lean decoder is applied to every '
                       'real row; model (init/clock/clear/getDict/getWavedrom) compared field by field; wf-net: complete Lean simulation '
                       'with Waveform objects (Waveform.session) vs getDict()/get_wavedrom() at every query. Queries are operations of '
                       'the histories: every history of length<=5 (thorough 6) over {cycle A, cycle B, clear, render False, render True}; '
                       'seeded sessions with 1-3 Waveforms over overlapping watch lists and coinciding run lengths; wf-process: several '
                       'recorders per fresh process with different watch-list layouts (exhaustive pairs of watch lists of length<=3, '
                       'thorough 4, + seeded). distinct = distinct (widths, watch lists, history) / design / process scenario.')
    res.assumptions += [
        'FieldInspector / ValueFormatter watch entries are outside C15 and not modelled',
        'a Waveform inside a gated clock domain samples only in cycles where its enable is non-zero (model: capture_gated); '
        'the once-per-simulated-cycle statement is proved for recorders whose clock driver has no enable',
        'pre-edge values are observed through Simulator.propagateAll() + the listener API (post-edge propagate of cycle t = '
        'values going into edge t+1); no library clock() method calls put() (checked by ast scan in notes, C05 model assumption)',
        'Waveform(parent, name, single_wire) raises TypeError (len() of a Wire) before any capture: only list arguments are modelled',
        'wf-process: a fresh process is a forked child of the harness process taken before any recorder/simulator was constructed '
        '(py4hw imported, nothing built), or - for the large families - this process after importlib.reload of py4hw.logic.simulation',
    ]


if __name__ == '__main__':
    main_wrapper('C15', main)
