"""Seeded generators of designs for the Verilog properties (C01/C03/C19): a structural `Top` block with ports,
containing either a random netlist of primitive leaves or a library block at sampled legal parameters."""
from common import *
import gen_designs as G

EMITTABLE = ['And2', 'Or2', 'Not', 'Buf', 'Mux2', 'Sub', 'Mul', 'AddCarryIn', 'Constant', 'ShiftLeftConstant',
             'ShiftRightConstant', 'Bit', 'Range', 'ZeroExtend', 'SignExtend', 'Repeat', 'ConcatenateLSBF',
             'ConcatenateMSBF', 'BitsLSBF', 'BitsMSBF', 'SignedMul', 'Reg']


def top_class():
    import py4hw

    class Top(py4hw.Logic):
        def __init__(self, parent, name):
            super().__init__(parent, name)
    return Top


def plan_design(rng, n_nodes=None, wmax=8, kinds=None, extreme=False):
    """random netlist of primitive leaves inside a Top block. returns dict(hw, top, inputs, outputs, desc)"""
    import py4hw
    plan = G.random_plan(rng, n_nodes or rng.randint(1, 12), seq_ratio=(1, 5), wmax=wmax, kinds=kinds or EMITTABLE, extreme=extreme)
    hw = py4hw.HWSystem()
    top = top_class()(hw, 'top')
    # leaves are created with parent = top, wires belong to hw (the emitter only looks at port wires)
    sysobj, ins, W, leaves = G.build(plan, into=hw, leaf_parent=top)
    inputs = {}
    for (nm, w), wire in zip(plan['inputs'], ins):
        top.addIn(nm, wire)
        inputs[nm] = wire
    outputs = {}
    for key, wire in W.items():
        if key[0] == 'node':
            top.addOut(wire.name, wire)
            outputs[wire.name] = wire
    return dict(hw=hw, top=top, inputs=inputs, outputs=outputs, desc=G.plan_summary(plan), kind='plan')


class _Shim:
    """lets gen_designs.build create wires on the HWSystem and leaves under `top`"""

    def __init__(self, hw, top):
        self._hw, self._top = hw, top
        self.clockDriver = hw.clockDriver

    def wire(self, name, width=1):
        return self._hw.wire(name, width)

    def __getattr__(self, k):
        return getattr(self._top, k)


def _shim_parent_fix():
    pass


def lib_design(rng, which=None):
    """one library block at sampled legal parameters inside a Top block"""
    import py4hw
    hw = py4hw.HWSystem()
    top = top_class()(hw, 'top')
    W = lambda: rng.choice([1, 2, 3, 4, 5, 8, 9, 16])
    specs = {
        'Add': lambda: _mk(hw, top, rng, [('a', W()), ('b', W())], [('r', W())], lambda i, o: py4hw.Add(top, 'dut', i['a'], i['b'], o['r'])),
        'Sub': lambda: _mk(hw, top, rng, [('a', W()), ('b', W())], [('r', W())], lambda i, o: py4hw.Sub(top, 'dut', i['a'], i['b'], o['r'])),
        'Mul': lambda: _mk(hw, top, rng, [('a', W()), ('b', W())], [('r', W())], lambda i, o: py4hw.Mul(top, 'dut', i['a'], i['b'], o['r'])),
        'And': lambda: _mkN(hw, top, rng, py4hw.And),
        'Or': lambda: _mkN(hw, top, rng, py4hw.Or),
        'Nor': lambda: _mkN(hw, top, rng, py4hw.Nor),
        'Xor2': lambda: _same(hw, top, rng, lambda i, o: py4hw.Xor2(top, 'dut', i['a'], i['b'], o['r'])),
        'Nand2': lambda: _same(hw, top, rng, lambda i, o: py4hw.Nand2(top, 'dut', i['a'], i['b'], o['r'])),
        'Nor2': lambda: _same(hw, top, rng, lambda i, o: py4hw.Nor2(top, 'dut', i['a'], i['b'], o['r'])),
        'Reg': lambda: _reg(hw, top, rng),
        # degenerate arities: a one-input And/Or is a connection, a one-input Nor an inverter
        'And1': lambda: _mkN(hw, top, rng, py4hw.And, n=1),
        'Or1': lambda: _mkN(hw, top, rng, py4hw.Or, n=1),
        'Nor1': lambda: _mkN(hw, top, rng, py4hw.Nor, n=1),
        # NOT in the stream: memories (`_mem` below).  Their hand-written bodies use `(* attribute *)` instances and reg ARRAYS, which the
        # Lean Verilog semantics does not execute (C03 parses and checks them; C09/C05 decide their simulator side): see DESIGN §8 / §10.2
        'Counter': lambda: _mk(hw, top, rng, [('reset', 1), ('inc', 1)], [('q', W())], lambda i, o: py4hw.Counter(top, 'dut', i['reset'], i['inc'], o['q'])),
        'ModuloCounter': lambda: _modc(hw, top, rng),
        'Mux2': lambda: _mux2(hw, top, rng),
        'Equal': lambda: _eq(hw, top, rng),
        'EqualConstant': lambda: _eqc(hw, top, rng),
        'Comparator': lambda: _cmp(hw, top, rng),
        'Abs': lambda: _abs(hw, top, rng),
        'Neg': lambda: _same1(hw, top, rng, lambda i, o: py4hw.Neg(top, 'dut', i['a'], o['r'])),
        'SignExtend': lambda: _sext(hw, top, rng),
        'ShiftLeft': lambda: _mk(hw, top, rng, [('a', W()), ('b', rng.randint(1, 4))], [('r', W())], lambda i, o: py4hw.ShiftLeft(top, 'dut', i['a'], i['b'], o['r'])),
    }
    name = which or rng.choice(sorted(specs))
    d = specs[name]()
    d.update(hw=hw, top=top, kind='lib:' + name)
    return d


def _mk(hw, top, rng, ins, outs, ctor):
    i = {n: hw.wire(n, w) for n, w in ins}
    o = {n: hw.wire(n, w) for n, w in outs}
    for n, w in i.items():
        top.addIn(n, w)
    for n, w in o.items():
        top.addOut(n, w)
    ctor(i, o)
    return dict(inputs=i, outputs=o, desc=dict(ins=ins, outs=outs))


def _mem(hw, top, rng, kind):
    from py4hw.logic import storage as S
    aw, dw = rng.choice([1, 1, 2]), rng.choice([1, 4, 8])
    if kind == 'SynchronousMemory':
        ins = [('ra', aw), ('wa', aw), ('we', 1), ('wd', dw)]
        return _mk(hw, top, rng, ins, [('rd', dw)],
                   lambda i, o: S.SynchronousMemory(top, 'dut', i['ra'], i['wa'], i['we'], o['rd'], i['wd']))
    ins = [('ra_a', aw), ('wa_a', aw), ('we_a', 1), ('wd_a', dw), ('ra_b', aw), ('wa_b', aw), ('we_b', 1), ('wd_b', dw)]
    return _mk(hw, top, rng, ins, [('rd_a', dw), ('rd_b', dw)],
               lambda i, o: S.DualPortSynchronousMemory(top, 'dut', i['ra_a'], i['wa_a'], i['we_a'], o['rd_a'], i['wd_a'],
                                                        i['ra_b'], i['wa_b'], i['we_b'], o['rd_b'], i['wd_b']))


def _mkN(hw, top, rng, cls, n=None):
    n = n or rng.randint(1, 5)
    w = rng.choice([1, 2, 4, 8])
    ins = [(f'i{k}', w) for k in range(n)]
    return _mk(hw, top, rng, ins, [('r', w)], lambda i, o: cls(top, 'dut', [i[f'i{k}'] for k in range(n)], o['r']))


def _same(hw, top, rng, ctor):
    w = rng.choice([1, 2, 4, 8])
    return _mk(hw, top, rng, [('a', w), ('b', w)], [('r', w)], ctor)


def _same1(hw, top, rng, ctor):
    w = rng.choice([1, 2, 4, 8])
    return _mk(hw, top, rng, [('a', w)], [('r', w)], ctor)


def _reg(hw, top, rng):
    import py4hw
    w = rng.choice([1, 2, 4, 8])
    he, hr = rng.randint(0, 1), rng.randint(0, 1)
    rv = None if rng.chance(1, 2) else rng.randint(0, (1 << w) - 1)
    ins = [('d', w)] + ([('e', 1)] if he else []) + ([('r', 1)] if hr else [])
    return _mk(hw, top, rng, ins, [('q', w)],
               lambda i, o: py4hw.Reg(top, 'dut', i['d'], o['q'], enable=i.get('e'), reset=i.get('r'), reset_value=rv)) | {'params': dict(reset_value=rv)}


def _modc(hw, top, rng):
    import py4hw
    w = rng.choice([2, 3, 4, 8])
    mod = rng.randint(2, (1 << w) - 1)
    return _mk(hw, top, rng, [('reset', 1), ('inc', 1)], [('q', w), ('carryout', 1)],
               lambda i, o: py4hw.ModuloCounter(top, 'dut', mod, i['reset'], i['inc'], o['q'], o['carryout'])) | {'params': dict(mod=mod)}


def _mux2(hw, top, rng):
    import py4hw
    w = rng.choice([1, 2, 4, 8])
    sw = rng.choice([1, 1, 1, 2, 3])
    return _mk(hw, top, rng, [('sel', sw), ('a', w), ('b', w)], [('r', w)], lambda i, o: py4hw.Mux2(top, 'dut', i['sel'], i['a'], i['b'], o['r']))


def _eq(hw, top, rng):
    import py4hw
    w = rng.choice([1, 2, 4, 8])
    return _mk(hw, top, rng, [('a', w), ('b', w)], [('r', 1)], lambda i, o: py4hw.Equal(top, 'dut', i['a'], i['b'], o['r']))


def _eqc(hw, top, rng):
    import py4hw
    w = rng.choice([1, 2, 4, 8])
    v = rng.randint(0, (1 << w) + 2)
    return _mk(hw, top, rng, [('a', w)], [('r', 1)], lambda i, o: py4hw.EqualConstant(top, 'dut', i['a'], v, o['r'])) | {'params': dict(v=v)}


def _cmp(hw, top, rng):
    import py4hw
    w = rng.choice([1, 2, 4, 8])
    return _mk(hw, top, rng, [('a', w), ('b', w)], [('gt', 1), ('eq', 1), ('lt', 1)],
               lambda i, o: py4hw.Comparator(top, 'dut', i['a'], i['b'], o['gt'], o['eq'], o['lt']))


def _abs(hw, top, rng):
    import py4hw
    w = rng.choice([2, 4, 8])
    return _mk(hw, top, rng, [('a', w)], [('r', w)], lambda i, o: py4hw.Abs(top, 'dut', i['a'], o['r']))


def _sext(hw, top, rng):
    import py4hw
    w = rng.choice([1, 2, 4, 8])
    rw = w + rng.randint(0, 6)
    return _mk(hw, top, rng, [('a', w)], [('r', rw)], lambda i, o: py4hw.SignExtend(top, 'dut', i['a'], o['r']))


def _stim_value(rng, w):
    """half uniform, half boundary patterns (0, 1, small, all ones, sign bit, sign bit - 1, single high bits, alternating bits): wide
    dividers / multipliers / comparators only differ from their specification on operand pairs a uniform draw never produces"""
    if w <= 0:
        return 0
    m = (1 << w) - 1
    k = rng.randint(0, 15)
    if k < 8:
        return rng.bits(w)
    if k == 8:
        return 0
    if k == 9:
        return 1 & m
    if k == 10:
        return rng.randint(0, min(m, 15))
    if k == 11:
        return m
    if k == 12:
        return (1 << (w - 1)) & m
    if k == 13:
        return ((1 << (w - 1)) - 1) & m
    if k == 14:
        return (m - rng.randint(0, min(m, 3))) & m
    return (0x5555555555555555555555 if rng.chance(1, 2) else 0xAAAAAAAAAAAAAAAAAAAAAA) & m


def random_history(rng, inputs, n):
    return [{nm: _stim_value(rng, w.getWidth()) for nm, w in inputs.items()} for _ in range(n)]


def _block_class():
    import py4hw

    class Block(py4hw.Logic):
        """structural block built from a plan; ports: plan inputs + selected node outputs"""

        def __init__(self, parent, name, plan, in_wires, out_keys, out_wires, hw):
            super().__init__(parent, name)
            for (nm, w), wire in zip(plan['inputs'], in_wires):
                self.addIn(nm, wire)
            # build leaves under self; internal wires are created on hw with unique names
            sysobj, ins, W, leaves = G.build(_rename(plan, name), into=_WireFactory(hw, in_wires), leaf_parent=self)
            for key, ow in zip(out_keys, out_wires):
                # drive the exported wire from the internal node output through a Buf (keeps the internal wire local)
                py4hw.Buf(self, 'ob_' + ow.name, W[key], ow)
                self.addOut('o_' + ow.name, ow)
    return Block


def _rename(plan, prefix):
    import copy
    p = copy.deepcopy(plan)
    for nd in p['nodes']:
        nd['name'] = prefix + '_' + nd['name']
    return p


class _WireFactory:
    """hands out the block's input wires for the plan inputs and fresh hw wires for everything else"""

    def __init__(self, hw, in_wires):
        self.hw, self.in_wires, self.k = hw, list(in_wires), 0
        self.clockDriver = hw.clockDriver

    def wire(self, name, width=1):
        if name.startswith('in') and name[2:].isdigit() and int(name[2:]) < len(self.in_wires):
            return self.in_wires[int(name[2:])]
        return self.hw.wire(name, width)


def hier_design(rng, kinds=None):
    """Top -> (Mid ->)? Block -> leaves, with the same plan instantiated more than once"""
    import py4hw
    hw = py4hw.HWSystem()
    Top = top_class()
    Block = _block_class()
    top = Top(hw, 'top')
    inputs, outputs, avail = {}, {}, []
    desc = []
    n_plans = rng.randint(1, 2)
    plans = [G.random_plan(rng.fork(('p', k)), rng.randint(1, 6), seq_ratio=(1, 4), wmax=rng.choice([2, 4, 8]), kinds=kinds or EMITTABLE)
             for k in range(n_plans)]
    uid = [0]

    def get_in(w):
        c = [x for x in avail if x.getWidth() == w]
        if c and rng.chance(2, 3):
            return rng.choice(c)
        nm = f'ti{len(inputs)}'
        wire = hw.wire(nm, w)
        top.addIn(nm, wire)
        inputs[nm] = wire
        avail.append(wire)
        return wire

    def inst_block(parent, plan, tag, inst_name=None):
        uid[0] += 1
        name = f'b{uid[0]}'          # unique prefix for the wires; the INSTANCE name may repeat under different parents
        in_wires = [get_in(w) for (_, w) in plan['inputs']]
        keys = [('node', j, k) for j, nd in enumerate(plan['nodes']) for k in range(len(nd['outw']))]
        keys = rng.shuffle(keys)[:rng.randint(1, min(3, len(keys)))]
        out_wires = [hw.wire(f'{name}_x{q}', plan['nodes'][key[1]]['outw'][key[2]]) for q, key in enumerate(keys)]
        # plan-internal wire names must be unique in hw: prefix them
        p2 = _rename(plan, name)
        for nd in p2['nodes']:
            pass
        Block(parent, inst_name or name, _uniq(p2, name), in_wires, keys, out_wires, hw)
        for ow in out_wires:
            avail.append(ow)
        desc.append(dict(block=inst_name or name, plan=tag, parent=parent.name, outs=[o.name for o in out_wires]))
        return out_wires

    mids = []
    for t in range(rng.randint(2, 4)):
        k = rng.randint(0, n_plans - 1)
        if rng.chance(1, 3):
            mid = Top(top, f'mid{t}')
            mids.append(mid)
            # instance names are unique among siblings only: blocks of the same class, with different contents, may carry the
            # same instance name under different parents
            ows = inst_block(mid, plans[k], k, inst_name='blk' if rng.fork(('samename', t)).chance(1, 2) else None)
            # mid's own ports: everything its block touches
            blk = list(mid.children.values())[0]
            for p in blk.inPorts:
                mid.addIn('m_' + p.wire.name, p.wire)
            for p in blk.outPorts:
                mid.addOut('m_' + p.wire.name, p.wire)
        else:
            ows = inst_block(top, plans[k], k)
        for ow in ows:
            if rng.chance(2, 3):
                top.addOut(ow.name, ow)
                outputs[ow.name] = ow
    if not outputs:
        ow = avail[-1]
        top.addOut(ow.name, ow)
        outputs[ow.name] = ow
    return dict(hw=hw, top=top, inputs=inputs, outputs=outputs, kind='hier',
                desc=dict(blocks=desc, plans=[G.plan_summary(p) for p in plans]))


def _uniq(plan, prefix):
    """G.build names internal wires '<node name>_o<k>'; node names are already prefixed"""
    return plan


# ------------------------------------------------------------------------------------------------------------------
# every arithmetic / logic / sequential library block at sampled legal parameters, re-using the block tables of the
# C07 / C08 / C09 harnesses (constructor closures taking a parent), placed inside a structural Top with ports
_C07_FAM = None


def _top_with(hw, inw, outw, ctor_call, kind):
    Top = top_class()
    top = Top(hw, 'top')
    ins = {f'i{k}': hw.wire(f'i{k}', w) for k, w in enumerate(inw)}
    outs = {f'o{k}': hw.wire(f'o{k}', w) for k, w in enumerate(outw)}
    for n, w in ins.items():
        top.addIn(n, w)
    for n, w in outs.items():
        top.addOut(n, w)
    ctor_call(top, list(ins.values()), list(outs.values()))
    return dict(hw=hw, top=top, inputs=ins, outputs=outs, kind=kind)


def c07_design(rng):
    """one arithmetic block (Add/Sub/Signed*/Neg/Abs/Sign/extends/Mul/Div/Mod/SignedDiv/shifts/rotates/CLZ/BCD) inside a Top"""
    import py4hw, c07
    global _C07_FAM
    if _C07_FAM is None:
        _C07_FAM = [(b, p) for b, p, _ in c07.param_families('quick', Rng(12345))]
    blk, p = rng.choice(_C07_FAM)
    inw, outw, ctor = c07.block_def(blk, p)
    hw = py4hw.HWSystem()
    d = _top_with(hw, inw, outw, lambda top, i, o: ctor(top, i, o), f'c07:{blk}')
    d['desc'] = dict(block=blk, params=list(p), input_widths=inw, output_widths=outw)
    d['nondet_div'] = blk in ('Div', 'Mod', 'SignedDiv')
    return d


_SAME_NAME = None


def _two(rng, xs):
    i = rng.randint(0, len(xs) - 1)
    j = rng.randint(0, len(xs) - 2)
    if j >= i:
        j += 1
    return xs[i], xs[j]


def _same_name_groups():
    """[(class, [params...])] : parameter tuples of the c07 family whose live instances answer the same structureName() (computed on the
    tree under test, once per process)"""
    import py4hw, c07, io, contextlib
    global _SAME_NAME, _C07_FAM
    if _SAME_NAME is not None:
        return _SAME_NAME
    if _C07_FAM is None:
        _C07_FAM = [(b, p) for b, p, _ in c07.param_families('quick', Rng(12345))]
    by = {}
    for blk, p in _C07_FAM:
        try:
            with contextlib.redirect_stdout(io.StringIO()):
                inw, outw, ctor = c07.block_def(blk, p)
                hw = py4hw.HWSystem()
                o = ctor(hw, [hw.wire(f'i{k}', w) for k, w in enumerate(inw)], [hw.wire(f'o{k}', w) for k, w in enumerate(outw)])
            if not hasattr(o, 'structureName'):
                continue
            by.setdefault((blk, o.structureName()), []).append(tuple(p))
        except Exception:
            continue
    _SAME_NAME = [(k[0], sorted(set(v))) for k, v in sorted(by.items()) if len(set(v)) >= 2]
    return _SAME_NAME


def signature_collisions(limit=16):
    """[(class, p, p2)]: pairs of parameter tuples that answer the SAME structureName() on the tree under test although their port
    signatures (input / output widths, optional ports) DIFFER.  On the unchanged tree the list is empty; every pair is a design in which
    the generator shares one module between instances that cannot both be bound to it (seeded/C01q, C03a)."""
    import c07
    out = []
    for blk, ps in _same_name_groups():
        sig = {}
        for q in ps:
            inw, outw, _ = c07.block_def(blk, q)
            sig.setdefault((tuple(inw), tuple(outw)), q)
        reps = list(sig.values())
        for a_ in range(len(reps)):
            for b_ in range(a_ + 1, len(reps)):
                out.append((blk, reps[a_], reps[b_]))
    # spread over the classes / names rather than the first group only
    step = max(1, len(out) // limit)
    return out[::step][:limit]


def twin_design(rng, forced=None):
    """two lanes, each a small structural block holding ONE library arithmetic block of the same class and the same port widths but
    (where the class has them) different constructor OPTIONS -- logical vs arithmetic ShiftRight, Abs with / without the inverted flag,
    Add with / without carry ports: the generator may share one module between instances only when they are interchangeable"""
    import py4hw, c07
    global _C07_FAM
    if _C07_FAM is None:
        _C07_FAM = [(b, p) for b, p, _ in c07.param_families('quick', Rng(12345))]
    opt = {'ShiftRight': [3], 'Abs': [2], 'Add': [3, 4], 'SignedAdd': [3, 4]}
    fam = [(b, p) for b, p in _C07_FAM if b in opt] if rng.chance(3, 4) else _C07_FAM
    blk, p = rng.choice(fam)
    p2 = list(p)
    if blk in opt:
        k = rng.choice(opt[blk])
        if blk == 'ShiftRight':
            if p2[3] in (0, 1):
                p2[3] = 1 - p2[3]
        else:
            p2[k] = 0 if p2[k] else 1
    if rng.chance(1, 2):
        # "neighbour" twins: another member of the same class's parameter family that differs in exactly ONE parameter (one operand or
        # result width, one option): instances may share a module only when every port width and option agrees (seeded/C01q)
        near = [q for b, q in _C07_FAM if b == blk and len(q) == len(p) and sum(1 for x, y in zip(p, q) if x != y) == 1]
        if near:
            p2 = list(rng.choice(near))
    if rng.chance(1, 3):
        # "same-name" twins: two parameter tuples of one class whose instances get the SAME structureName() on the tree under test --
        # exactly the pairs for which the generator emits one shared module; sharing is sound only if they are interchangeable
        groups = _same_name_groups()
        if groups:
            g = rng.choice(groups)
            blk = g[0]
            p, p2 = rng.sample2(g[1]) if hasattr(rng, 'sample2') else _two(rng, g[1])
            p2 = list(p2)
    flip = rng.chance(1, 2)
    if forced is not None:
        blk, p, p2 = forced[:3]
        if len(forced) > 3:
            flip = bool(forced[3])
    variants = [tuple(p), tuple(p2)]
    if flip:
        variants.reverse()
    hw = py4hw.HWSystem()
    Top = top_class()
    top = Top(hw, 'top')
    inputs, outputs = {}, {}
    for ln, pv in enumerate(variants):
        inw, outw, ctor = c07.block_def(blk, pv)
        lane = Top(top, f'lane{ln}')
        iw = [hw.wire(f'l{ln}_i{k}', w) for k, w in enumerate(inw)]
        ow = [hw.wire(f'l{ln}_o{k}', w) for k, w in enumerate(outw)]
        for w_ in iw:
            top.addIn(w_.name, w_)
            lane.addIn(w_.name, w_)
            inputs[w_.name] = w_
        for w_ in ow:
            top.addOut(w_.name, w_)
            lane.addOut(w_.name, w_)
            outputs[w_.name] = w_
        ctor(lane, iw, ow)
    d = dict(hw=hw, top=top, inputs=inputs, outputs=outputs, kind=f'twin:{blk}')
    d['desc'] = dict(block=blk, variants=[list(v) for v in variants])
    d['nondet_div'] = blk in ('Div', 'Mod', 'SignedDiv')      # division / modulo by zero is excluded by the property (both lanes)
    return d


def wide_design(rng):
    """one wide arithmetic block (48..96-bit operands) inside a Top: the places where a host-language shortcut (floats, fixed-size masks)
    stops being exact"""
    import py4hw, c07
    blk = rng.choice(['Div', 'Div', 'Mod', 'Mul', 'Sub', 'SignedMul', 'SignedDiv', 'Add'])
    aw = rng.choice([48, 53, 54, 60, 64, 65, 96])
    bw = rng.choice([aw, aw, 8, 64])
    rw = rng.choice([aw, aw, 64, aw + bw if blk in ('Mul', 'SignedMul') else aw])
    p = (aw, bw, rw, 0, 0, 0) if blk == 'Add' else (aw, bw, rw)
    inw, outw, ctor = c07.block_def(blk, p)
    hw = py4hw.HWSystem()
    d = _top_with(hw, inw, outw, lambda top, i, o: ctor(top, i, o), f'c07:{blk}')
    d['desc'] = dict(block=blk, params=list(p), input_widths=inw, output_widths=outw, wide=True)
    d['nondet_div'] = blk in ('Div', 'Mod', 'SignedDiv')
    return d


def c08_design(rng):
    """one logic / selection / comparison block inside a Top"""
    import py4hw, c08
    case = c08.random_case(rng, rng.choice([4, 8, 16]))
    hw = py4hw.HWSystem()
    d = _top_with(hw, case.inw, case.outw, lambda top, i, o: case.ctor(py4hw, top, i, o), f'c08:{case.real}')
    d['desc'] = case.summary()
    return d


def derived_clock_design(rng):
    """a sub-block whose clock is a wire generated by the design itself (the pattern of the repo's Vitis kernel platform:
    ClockDriver(name, base=system clock, wire=g, enable=g)): g is a divider register or a Sequence; the block holds a Counter / Reg"""
    import py4hw
    hw = py4hw.HWSystem()
    Top = top_class()
    top = Top(hw, 'top')
    inc = hw.wire('inc', 1)
    top.addIn('inc', inc)
    g = hw.wire('g', 1)
    w = rng.choice([2, 4, 8])
    cnt = hw.wire('cnt', w)
    top.addOut('g', g)
    top.addOut('cnt', cnt)
    if rng.chance(1, 2):
        ng = hw.wire('ng', 1)
        py4hw.Not(top, 'ng', g, ng)
        py4hw.Reg(top, 'div', ng, g)
        how = 'toggle register'
    else:
        e = hw.wire('e', 1)
        top.addIn('e', e)
        py4hw.Reg(top, 'gen', e, g)
        how = 'registered input'
    dut = Top(top, 'dut')
    dut.clockDriver = py4hw.ClockDriver('clk_dut', base=hw.clockDriver, wire=g, enable=g)
    dut.addIn('inc', inc)
    dut.addOut('cnt', cnt)
    if rng.chance(1, 2):
        py4hw.Counter(dut, 'c', None, inc, cnt)
        what = 'Counter'
    else:
        d = hw.wire('d', w)
        top.addIn('d', d)
        dut.addIn('d', d)
        py4hw.Reg(dut, 'r', d, cnt, enable=inc)
        what = 'Reg'
    ins = {p.name: p.wire for p in top.inPorts}
    return dict(hw=hw, top=top, inputs=ins, outputs={'g': g, 'cnt': cnt}, kind='derived',
                desc=dict(clock_wire='g (' + how + ')', block=what, width=w))
