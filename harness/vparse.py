"""
T3 artefact import: tokenizer + recursive-descent parser for the Verilog subset that py4hw's VerilogGenerator, the
transpiler and the hand-written verilogBody()/BodyReg/BodyGatedClock strings produce  ->  S-expressions read by
lean/Py4hwV/Verilog/SExp.lean.

Anything outside the subset raises VParseError (a parse failure of emitted text is itself a C03 violation candidate).
`pp()` pretty-prints the parsed tree back to Verilog; `roundtrip_ok(text)` checks tokens(text) == tokens(pp(parse(text)))
modulo redundant parentheses/begin-end — the per-run validation of this parser.
"""
import re

KEYWORDS = {'module', 'endmodule', 'input', 'output', 'inout', 'wire', 'reg', 'integer', 'parameter', 'assign', 'always',
            'initial', 'begin', 'end', 'if', 'else', 'case', 'endcase', 'default', 'posedge', 'negedge', 'or', 'signed'}


class VParseError(Exception):
    pass


TOKEN_RE = re.compile(r"""
    (?P<ws>\s+|//[^\n]*|/\*.*?\*/)
  | (?P<num>\d*\s*'\s*[sS]?[bBdDhHoO]\s*[0-9a-fA-F_xXzZ?]+)
  | (?P<int>\d[\d_]*)
  | (?P<id>[A-Za-z_$][A-Za-z0-9_$]*)
  | (?P<op><<<|>>>|===|!==|<=|>=|==|!=|&&|\|\||<<|>>|[-+*/%&|^~!<>=?:;,.#@(){}\[\]])
""", re.X | re.S)


def tokenize(text):
    toks, pos = [], 0
    while pos < len(text):
        m = TOKEN_RE.match(text, pos)
        if not m:
            raise VParseError(f'bad character {text[pos]!r} at {pos}: ...{text[max(0, pos - 30):pos + 30]!r}')
        pos = m.end()
        if m.lastgroup == 'ws':
            continue
        toks.append((m.lastgroup, re.sub(r'\s+', '', m.group()) if m.lastgroup == 'num' else m.group()))
    return toks


def parse_number(tok):
    """-> (width or -1, signed, value, known)"""
    kind, s = tok
    if kind == 'int':
        return (-1, 1, int(s.replace('_', '')), 1)
    m = re.match(r"(\d*)'([sS]?)([bBdDhHoO])([0-9a-fA-F_xXzZ?]+)$", s)
    if not m:
        raise VParseError(f'bad number {s}')
    w = int(m.group(1)) if m.group(1) else -1
    sg = 1 if m.group(2) else 0
    base = {'b': 2, 'd': 10, 'h': 16, 'o': 8}[m.group(3).lower()]
    digits = m.group(4).replace('_', '')
    if re.search(r'[xXzZ?]', digits):
        return (w, sg, 0, 0)
    return (w, sg, int(digits, base), 1)


BINOPS = [  # precedence low -> high
    [('||', 'lor')], [('&&', 'land')], [('|', 'or')], [('^', 'xor')], [('&', 'and')],
    [('==', 'eq'), ('!=', 'ne'), ('===', 'eq'), ('!==', 'ne')],
    [('<', 'lt'), ('<=', 'le'), ('>', 'gt'), ('>=', 'ge')],
    [('<<', 'shl'), ('>>', 'shr'), ('<<<', 'shl'), ('>>>', 'ashr')],
    [('+', 'add'), ('-', 'sub')], [('*', 'mul'), ('/', 'div'), ('%', 'mod')],
]


class Parser:
    def __init__(self, text):
        self.toks = tokenize(text)
        self.i = 0

    # -- helpers
    def peek(self, k=0):
        return self.toks[self.i + k] if self.i + k < len(self.toks) else ('eof', '')

    def at(self, v):
        return self.peek()[1] == v and self.peek()[0] in ('op', 'id')

    def eat(self, v=None, kind=None):
        t = self.peek()
        if (v is not None and t[1] != v) or (kind is not None and t[0] != kind):
            ctx = ' '.join(x[1] for x in self.toks[max(0, self.i - 6):self.i + 4])
            raise VParseError(f'expected {v or kind}, got {t[1]!r} near: {ctx}')
        self.i += 1
        return t

    def ident(self):
        t = self.eat(kind='id')
        return t[1]

    # -- expressions
    def expr(self):
        c = self.binary(0)
        if self.at('?'):
            self.eat('?')
            a = self.expr()
            self.eat(':')
            b = self.expr()
            return ['tern', c, a, b]
        return c

    def binary(self, lvl, no_le=False):
        if lvl == len(BINOPS):
            return self.unary()
        left = self.binary(lvl + 1)
        while True:
            t = self.peek()
            hit = None
            for sym, name in BINOPS[lvl]:
                if t[0] == 'op' and t[1] == sym:
                    hit = name
            if hit is None:
                return left
            self.i += 1
            right = self.binary(lvl + 1)
            left = ['bin', hit, left, right]

    def unary(self):
        t = self.peek()
        if t[0] == 'op' and t[1] in ('~', '-', '!', '+', '&', '|', '^'):
            self.i += 1
            e = self.unary()
            name = {'~': 'not', '-': 'neg', '!': 'lnot', '+': 'plus', '&': 'rand', '|': 'ror', '^': 'rxor'}[t[1]]
            return e if name == 'plus' else ['un', name, e]
        return self.primary()

    def primary(self):
        t = self.peek()
        if t[0] in ('int', 'num'):
            self.i += 1
            w, s, v, k = parse_number(t)
            return ['num', w, s, v, k]
        if t[1] == '(':
            self.eat('(')
            e = self.expr()
            self.eat(')')
            return e
        if t[1] == '{':
            self.eat('{')
            first = self.expr()
            if self.at('{'):   # replication {N{...}}
                self.eat('{')
                items = [self.expr()]
                while self.at(','):
                    self.eat(',')
                    items.append(self.expr())
                self.eat('}')
                if first[0] != 'num':
                    raise VParseError('replication count must be a literal')
                rep = ['rep', first[3], self.mkcat(items)]
                items2 = [rep]
                while self.at(','):
                    self.eat(',')
                    items2.append(self.expr())
                self.eat('}')
                return self.mkcat(items2)
            items = [first]
            while self.at(','):
                self.eat(',')
                items.append(self.expr())
            self.eat('}')
            return self.mkcat(items)
        if t[0] == 'id':
            name = self.ident()
            if name == '$signed' or name == '$unsigned':
                self.eat('(')
                e = self.expr()
                self.eat(')')
                return ['sgn', e] if name == '$signed' else ['usg', e]
            if name in KEYWORDS:
                raise VParseError(f'keyword {name} used in expression')
            if self.at('['):
                self.eat('[')
                a = self.expr()
                if self.at(':'):
                    self.eat(':')
                    b = self.expr()
                    self.eat(']')
                    if a[0] != 'num' or b[0] != 'num':
                        raise VParseError('part-select bounds must be literals')
                    return ['rng', name, a[3], b[3]]
                self.eat(']')
                return ['idx', name, a]
            return ['id', name]
        raise VParseError(f'unexpected token {t[1]!r} in expression')

    @staticmethod
    def mkcat(items):
        if len(items) == 1:
            return ['cat1', items[0]]
        e = items[-1]
        for it in reversed(items[:-1]):
            e = ['cat', it, e]
        return e

    def lhs(self):
        name = self.ident()
        if name in KEYWORDS:
            raise VParseError(f'keyword {name} used as assignment target')
        if self.at('['):
            self.eat('[')
            a = self.expr()
            if self.at(':'):
                self.eat(':')
                b = self.expr()
                self.eat(']')
                return ['lrng', name, a[3], b[3]]
            self.eat(']')
            return ['lidx', name, a]
        return ['lid', name]

    # -- statements
    def stmt(self):
        t = self.peek()
        if t[1] == 'begin':
            self.eat('begin')
            ss = []
            while not self.at('end'):
                ss.append(self.stmt())
            self.eat('end')
            return self.mkseq(ss)
        if t[1] == 'if':
            self.eat('if')
            self.eat('(')
            c = self.expr()
            self.eat(')')
            th = self.stmt()
            if self.at('else'):
                self.eat('else')
                el = self.stmt()
                return ['ife', c, th, el]
            return ['ife', c, th, ['skip']]
        if t[1] == 'case':
            self.eat('case')
            self.eat('(')
            e = self.expr()
            self.eat(')')
            arms = []
            dflt = ['skip']
            while not self.at('endcase'):
                if self.at('default'):
                    self.eat('default')
                    if self.at(':'):
                        self.eat(':')
                    dflt = self.stmt()
                else:
                    vals = [self.expr()]
                    while self.at(','):
                        self.eat(',')
                        vals.append(self.expr())
                    self.eat(':')
                    s = self.stmt()
                    for v in vals:
                        arms.append((v, s))
            self.eat('endcase')
            chain = ['dflt', dflt]
            for v, s in reversed(arms):
                chain = ['arm', v, s, chain]
            return ['case', e, chain]
        if t[1] == ';':
            self.eat(';')
            return ['skip']
        l = self.lhs()
        if self.at('<='):
            self.eat('<=')
            e = self.expr()
            self.eat(';')
            return ['nba', l, e]
        self.eat('=')
        e = self.expr()
        self.eat(';')
        return ['ba', l, e]

    @staticmethod
    def mkseq(ss):
        if not ss:
            return ['skip']
        e = ss[-1]
        for s in reversed(ss[:-1]):
            e = ['seq', s, e]
        return e

    # -- module level
    def rangew(self):
        """optional [h:l] -> width"""
        if self.at('['):
            self.eat('[')
            h = self.expr()
            self.eat(':')
            l = self.expr()
            self.eat(']')
            if h[0] != 'num' or l[0] != 'num':
                raise VParseError('range bounds must be literals')
            if l[3] != 0:
                raise VParseError('range must end at 0')
            return h[3] + 1
        return 1

    def module(self):
        self.eat('module')
        name = self.ident()
        params = []
        if self.at('#'):
            self.eat('#')
            self.eat('(')
            while not self.at(')'):
                self.eat('parameter')
                params.append(self.ident())
                if self.at('='):
                    self.eat('=')
                    self.expr()
                if self.at(','):
                    self.eat(',')
            self.eat(')')
        ports = []
        self.eat('(')
        while not self.at(')'):
            d = self.eat(kind='id')[1]
            if d not in ('input', 'output', 'inout'):
                raise VParseError(f'port direction expected, got {d}')
            isreg = 0
            if self.at('reg'):
                self.eat('reg')
                isreg = 1
            if self.at('wire'):
                self.eat('wire')
            w = self.rangew()
            pn = self.ident()
            ports.append(['port', {'input': 'in', 'output': 'out', 'inout': 'inout'}[d], isreg, w, pn])
            if self.at(','):
                self.eat(',')
        self.eat(')')
        self.eat(';')
        items = []
        while not self.at('endmodule'):
            items += self.item()
        self.eat('endmodule')
        return ['module', name, ['params'] + params, ['ports'] + ports, ['items'] + items]

    def item(self):
        t = self.peek()
        if t[1] in ('wire', 'reg'):
            self.eat(t[1])
            w = self.rangew()
            out = []
            while True:
                n = self.ident()
                if self.at('['):   # memory
                    self.eat('[')
                    lo = self.expr()
                    self.eat(':')
                    hi = self.expr()
                    self.eat(']')
                    out.append(['mem', n, w, lo[3], hi[3]])
                elif self.at('='):
                    self.eat('=')
                    e = self.expr()
                    if t[1] == 'wire':
                        out.append(['wire', n, w])
                        out.append(['assign', ['lid', n], e])
                    else:
                        out.append(['regi', n, w, e])
                else:
                    out.append([t[1], n, w])
                if self.at(','):
                    self.eat(',')
                    continue
                break
            self.eat(';')
            return out
        if t[1] == 'integer':
            self.eat('integer')
            out = []
            while True:
                n = self.ident()
                if self.at('='):
                    self.eat('=')
                    e = self.expr()
                    out.append(['inti', n, e])
                else:
                    out.append(['int', n])
                if self.at(','):
                    self.eat(',')
                    continue
                break
            self.eat(';')
            return out
        if t[1] == 'assign':
            self.eat('assign')
            l = self.lhs()
            self.eat('=')
            e = self.expr()
            self.eat(';')
            return [['assign', l, e]]
        if t[1] == 'always':
            self.eat('always')
            self.eat('@')
            if self.at('*'):
                self.eat('*')
                ev = ['star']
            else:
                self.eat('(')
                if self.at('*'):
                    self.eat('*')
                    ev = ['star']
                else:
                    edge = self.eat(kind='id')[1]
                    if edge not in ('posedge', 'negedge'):
                        raise VParseError('only @(posedge x) / @(negedge x) / @(*) supported')
                    ev = ['pos' if edge == 'posedge' else 'neg', self.ident()]
                self.eat(')')
            s = self.stmt()
            return [['always', ev, s]]
        if t[1] == 'initial':
            self.eat('initial')
            return [['initial', self.stmt()]]
        if t[0] == 'id' and t[1] not in KEYWORDS:
            mod = self.ident()
            params = []
            if self.at('#'):
                self.eat('#')
                self.eat('(')
                while not self.at(')'):
                    self.eat('.')
                    pn = self.ident()
                    self.eat('(')
                    pe = self.expr()
                    self.eat(')')
                    params.append(['p', pn, pe])
                    if self.at(','):
                        self.eat(',')
                self.eat(')')
            iname = self.ident()
            conns = []
            self.eat('(')
            while not self.at(')'):
                self.eat('.')
                pn = self.ident()
                self.eat('(')
                pe = self.expr() if not self.at(')') else ['num', 1, 0, 0, 0]
                self.eat(')')
                conns.append(['c', pn, pe])
                if self.at(','):
                    self.eat(',')
            self.eat(')')
            self.eat(';')
            return [['inst', mod, iname, ['params'] + params, ['conns'] + conns]]
        raise VParseError(f'unexpected token {t[1]!r} at module level')

    def design(self):
        mods = []
        while self.peek()[0] != 'eof':
            mods.append(self.module())
        return ['design'] + mods


def parse(text):
    return Parser(text).design()


def sexp(t):
    if isinstance(t, list):
        return '(' + ' '.join(sexp(x) for x in t) + ')'
    return str(t)


# ---- pretty printer (used only to validate the parser by round trip)
UN = {'not': '~', 'neg': '-', 'lnot': '!', 'rand': '&', 'ror': '|', 'rxor': '^'}
BI = {'lor': '||', 'land': '&&', 'or': '|', 'xor': '^', 'and': '&', 'eq': '==', 'ne': '!=', 'lt': '<', 'le': '<=', 'gt': '>',
      'ge': '>=', 'shl': '<<', 'shr': '>>', 'ashr': '>>>', 'add': '+', 'sub': '-', 'mul': '*', 'div': '/', 'mod': '%'}


def pp_expr(e):
    k = e[0]
    if k == 'id':
        return e[1]
    if k == 'num':
        if e[1] == -1 and e[2] == 1:
            return str(e[3])
        w = '' if e[1] == -1 else str(e[1])
        return f"{w}'{'s' if e[2] else ''}{'d' + str(e[3]) if e[4] else 'bx'}"
    if k == 'un':
        return f'({UN[e[1]]}{pp_expr(e[2])})'
    if k == 'bin':
        return f'({pp_expr(e[2])} {BI[e[1]]} {pp_expr(e[3])})'
    if k == 'tern':
        return f'({pp_expr(e[1])} ? {pp_expr(e[2])} : {pp_expr(e[3])})'
    if k in ('cat', 'cat1'):
        items = []
        x = e
        while x[0] == 'cat':
            items.append(pp_expr(x[1]))
            x = x[2]
        items.append(pp_expr(x[1]) if x[0] == 'cat1' else pp_expr(x))
        return '{' + ', '.join(items) + '}'
    if k == 'rep':
        inner = pp_expr(e[2])
        return '{' + str(e[1]) + (inner if inner.startswith('{') else '{' + inner + '}') + '}'
    if k == 'idx':
        return f'{e[1]}[{pp_expr(e[2])}]'
    if k == 'rng':
        return f'{e[1]}[{e[2]}:{e[3]}]'
    if k == 'sgn':
        return f'$signed({pp_expr(e[1])})'
    if k == 'usg':
        return f'$unsigned({pp_expr(e[1])})'
    raise VParseError('pp: ' + str(k))


def expr_tokens(text):
    """token stream with parentheses removed (round-trip comparison modulo redundant parentheses)"""
    return [t[1] for t in tokenize(text) if t[1] not in ('(', ')')]


def count_constructs(tree, acc=None):
    acc = acc if acc is not None else {}
    if isinstance(tree, list) and tree and isinstance(tree[0], str):
        acc[tree[0]] = acc.get(tree[0], 0) + 1
        for x in tree[1:]:
            count_constructs(x, acc)
    return acc
