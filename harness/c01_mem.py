"""C01, memory stream — the hand-written Verilog bodies of AsynchronousMemory / SynchronousMemory / DualPortSynchronousMemory
(py4hw/logic/storage.py `verilogBody()`), which the shared Lean Verilog semantics does not execute (reg arrays, attributes).

Model: lean/Py4hwV/Verilog/MemBody.lean (AST + IEEE-1364 cycle semantics of "memory bodies"), lean/Py4hwV/Emit/MemSim.lean
(simulator side = the steps generated from storage.py + ghost "written" flags), theorems lean/Py4hwV/Props/C01Mem.lean.

Per run, for live instances at sampled widths:
  * the REAL emitted module (header + body) is tokenised and parsed here into the AST of MemBody.lean; lean/Drv/C01Mem.lean decides
    `parsed = template` (`Mem.syncBody/asyncBody/dualBody`, the terms the theorems are about) and the fragment check `Body.wf`;
  * three-way differential on seeded histories biased to same-address collisions: real py4hw simulator  vs  generated step
    (`Lib.memClk`, `Mem.asyncClk`, `Lib.dualPortClk`)  vs  the PARSED real body under the MemBody semantics;
  * exhaustive tiny cases (every history of a small length over every in-range input) in the driver, counterexamples replayed on
    the real simulator.
The oracle (the property itself): every known value the body drives on a read-data output equals the real simulator's value on that
cycle.  One class exists on the current tree and is reported as KNOWN-FINDING (PROPOSED_FINDINGS, C01-mem-powerup-x): an x that the body shows
because the cell / read register has not been written since power-up (simulator: 0).  Two defects found by this stream were repaired in
/repo (dual-port asynchronous read a7c9173, MsgSequencer ready polarity 0f39eeb): their witnesses are replayed at every run."""
import re
from common import *

OBLIGATIONS_MEM = ['C01Mem.sync_body_run', 'C01Mem.sync_body_sim', 'C01Mem.sync_powerup_x',
                   'C01Mem.async_body_run', 'C01Mem.async_body_sim', 'C01Mem.async_powerup_x',
                   'C01Mem.dual_body_run', 'C01Mem.dual_body_run_partial', 'C01Mem.dual_body_counterexample',
                   'C01Mem.dual_powerup_x', 'C01Mem.dual_swap_run_partial', 'C01Mem.dual_swap_counterexample',
                   'C01Mem.sync_blocking_write_differs', 'C01Mem.dual_reg_body_run', 'Mem.dualReg_step_rel',
                   'C01Mem.msg_fixed_body_run', 'C01Mem.msg_body_counterexample', 'C01Mem.msg_powerup', 'Mem.msg_body_step',
                   'Mem.msg_sim_step', 'Mem.fill_get', 'Mem.msg_power_mem',
                   'Mem.memClk_eq', 'Mem.asyncClk_eq', 'Mem.dualPortClk_eq', 'Mem.asyncClk_idem', 'Mem.async_pass_idem',
                   'Mem.sync_cycle_mem', 'Mem.sync_cycle_reg', 'Mem.sync_step_rel', 'Mem.async_step_rel', 'Mem.dual_step_rel',
                   'Mem.dual_quiet_spec', 'Mem.absMem_set', 'Mem.absMem_getD']

KINDS = {'sync': 'SynchronousMemory', 'async': 'AsynchronousMemory', 'dual': 'DualPortSynchronousMemory'}
PORTS = ['read_address', 'write_address', 'write', 'readdata', 'writedata']


# ---- parser of the real module text -> s-expression of Mem.Body ---------------------------------------------------------------------
class OutsideFragment(Exception):
    pass


TOK = re.compile(r"\s*(\(\*.*?\*\)|<=|==|[A-Za-z_][A-Za-z0-9_$]*|\d+'[hHdDbB][0-9a-fA-F_]+|\d+|[=!@()\[\]:;*,+%])", re.S)


def tokenize(s):
    s = re.sub(r'//[^\n]*', '', s)
    out, pos = [], 0
    while True:
        while pos < len(s) and s[pos].isspace():
            pos += 1
        if pos >= len(s):
            return out
        m = TOK.match(s, pos)
        if not m:
            raise OutsideFragment('token at %r' % s[pos:pos + 20])
        out.append(m.group(1))
        pos = m.end()


class P:
    def __init__(self, toks):
        self.t, self.i, self.array, self.bare_unsized = toks, 0, None, False

    def peek(self, k=0):
        return self.t[self.i + k] if self.i + k < len(self.t) else None

    def take(self, x=None):
        tok = self.peek()
        if tok is None or (x is not None and tok != x):
            raise OutsideFragment('expected %r, found %r' % (x, tok))
        self.i += 1
        return tok

    def num(self):
        tok = self.take()
        if not tok.isdigit():
            raise OutsideFragment('number expected, found %r' % tok)
        return int(tok)

    def literal(self):
        tok = self.take()
        if "'" in tok:
            w, rest = tok.split("'")
            return int(rest[1:].replace('_', ''), {'h': 16, 'd': 10, 'b': 2}[rest[0].lower()]) % (1 << int(w))
        if not tok.isdigit():
            raise OutsideFragment('literal expected, found %r' % tok)
        return int(tok)

    def name(self):
        tok = self.take()
        if not re.match(r'[A-Za-z_]', tok) or tok in ('reg', 'always', 'assign', 'begin', 'end', 'if', 'else', 'posedge', 'input', 'output', 'initial'):
            raise OutsideFragment('name expected, found %r' % tok)
        return tok

    def rng(self):
        """[h:l] -> (h, l)"""
        self.take('[')
        h = self.num()
        self.take(':')
        l = self.num()
        self.take(']')
        return h, l

    # expressions:  ==  <  +  <  %  <  unary
    def expr(self):
        a = self.addexpr()
        while self.peek() == '==':
            self.take()
            a = '(eq %s %s)' % (a, self.addexpr())
        return a

    def addexpr(self):
        a = self.mulexpr()
        ua = self.bare_unsized
        while self.peek() == '+':
            self.take()
            b = self.mulexpr()
            if not (ua or self.bare_unsized):
                # MemBody.lean reads `+` without wrap-around: only sound in a context of >= 32 bits (an unsized literal operand)
                raise OutsideFragment('`+` without an unsized literal operand')
            a, ua = '(add %s %s)' % (a, b), False
        self.bare_unsized = False if a.startswith('(add') else self.bare_unsized
        return a

    def mulexpr(self):
        a = self.unary()
        while self.peek() == '%':
            self.take()
            a = '(mod %s %s)' % (a, self.unary())
            self.bare_unsized = False
        return a

    def unary(self):
        self.bare_unsized = False
        if self.peek() == '!':
            self.take()
            e = '(lnot %s)' % self.unary()
            self.bare_unsized = False
            return e
        tok = self.peek()
        if tok == '(':
            self.take()
            e = self.expr()
            self.take(')')
            return e
        if tok is not None and "'" in tok:
            self.take()
            w, rest = tok.split("'")
            v = int(rest[1:].replace('_', ''), {'h': 16, 'd': 10, 'b': 2}[rest[0].lower()])
            return '(num %d)' % (v % (1 << int(w)))
        if tok is not None and tok.isdigit():
            e = '(num %d)' % self.num()
            self.bare_unsized = True
            return e
        n = self.name()
        if self.peek() == '[':
            if n != self.array:
                raise OutsideFragment('select of %r (not the array)' % n)
            self.take()
            e = self.expr()
            self.take(']')
            self.bare_unsized = False
            return '(rd %s)' % e
        if n == self.array:
            raise OutsideFragment('whole array used as a value')
        return '(id %s)' % n

    # statements
    def stmt(self):
        tok = self.peek()
        if tok == 'begin':
            self.take()
            items = []
            while self.peek() != 'end':
                items.append(self.stmt())
            self.take('end')
            if not items:
                return '(skip)'
            s = items[-1]
            for x in reversed(items[:-1]):
                s = '(seq %s %s)' % (x, s)
            return s
        if tok == 'if':
            self.take()
            self.take('(')
            c = self.expr()
            self.take(')')
            t = self.stmt()
            e = '(skip)'
            if self.peek() == 'else':
                self.take()
                e = self.stmt()
            return '(ife %s %s %s)' % (c, t, e)
        n = self.name()
        if self.peek() == '[':
            if n != self.array:
                raise OutsideFragment('select of %r on the left (not the array)' % n)
            self.take()
            lhs = '(cell %s)' % self.expr()
            self.take(']')
        else:
            lhs = '(reg %s)' % n
        op = self.take()
        if op not in ('<=', '='):
            raise OutsideFragment('assignment operator expected, found %r' % op)
        e = self.expr()
        self.take(';')
        return '(%s %s %s)' % ('nba' if op == '<=' else 'ba', lhs, e)


def parse_module(text, cls_name, port_names):
    """the module of the emitted text whose name starts with cls_name -> s-expression `(body …)` for lean/Drv/C01Mem.lean"""
    text = re.sub(r'//[^\n]*', '', text)
    found = [m for m in re.finditer(r'\bmodule\s+(\w+)\s*\((.*?)\)\s*;(.*?)\bendmodule', text, re.S) if m.group(1).startswith(cls_name)]
    if len(found) != 1:
        raise OutsideFragment('%d modules named %s*' % (len(found), cls_name))
    header, body = found[0].group(2), found[0].group(3)
    ins, outs, clk = [], [], []
    for p in header.split(','):
        pm = re.match(r'\s*(input|output)\s*(?:\[(\d+):(\d+)\])?\s*(\w+)\s*$', p)
        if not pm or (pm.group(3) not in (None, '0')):
            raise OutsideFragment('port declaration %r' % p.strip())
        w = int(pm.group(2)) + 1 if pm.group(2) else 1
        if pm.group(1) == 'input' and pm.group(4) not in port_names:
            if w != 1:
                raise OutsideFragment('clock port wider than one bit')
            clk.append(pm.group(4))
        else:
            (ins if pm.group(1) == 'input' else outs).append((pm.group(4), w))
    if len(clk) > 1:
        raise OutsideFragment('two extra input ports %r' % clk)
    p = P(tokenize(body))
    attr, mem, regs, pos, comb, assigns, inits, minit = 0, None, [], [], [], [], [], []
    # the array name is needed before expressions are parsed: first declaration `reg [..] <name> [..];`
    am = re.search(r'\breg\s*\[\s*\d+\s*:\s*\d+\s*\]\s*(\w+)\s*\[', body)
    p.array = am.group(1) if am else None
    while p.peek() is not None:
        tok = p.peek()
        pending_attr = 0
        if tok.startswith('(*'):
            p.take()
            pending_attr = 1
            tok = p.peek()
        if tok == 'reg':
            p.take()
            h, l = p.rng() if p.peek() == '[' else (0, 0)
            if l != 0:
                raise OutsideFragment('reg range not [h:0]')
            n = p.name()
            if p.peek() == '[':
                L, R = p.rng()
                if mem is not None:
                    raise OutsideFragment('two arrays')
                mem, attr = (h + 1, L, R), pending_attr
            else:
                if p.peek() == '=':
                    p.take()
                    inits.append((n, p.literal()))
                regs.append((n, h + 1))
            p.take(';')
        elif tok == 'always':
            p.take()
            p.take('@')
            if p.peek() == '*':
                p.take()
                comb.append(p.stmt())
                continue
            p.take('(')
            if p.peek() == '*':
                p.take()
                p.take(')')
                comb.append(p.stmt())
            else:
                p.take('posedge')
                c = p.name()
                p.take(')')
                pos.append((c, p.stmt()))
        elif tok == 'initial':
            # `initial begin <array>[<literal>] = <literal>; … end`: the power-up content of the array
            p.take()
            p.take('begin')
            while p.peek() != 'end':
                if p.name() != p.array:
                    raise OutsideFragment('initial block assigns something else than the array')
                p.take('[')
                i_ = p.literal()
                p.take(']')
                p.take('=')
                minit.append((i_, p.literal()))
                p.take(';')
            p.take('end')
        elif tok == 'assign':
            p.take()
            n = p.name()
            p.take('=')
            e = p.expr()
            p.take(';')
            assigns.append((n, e))
        else:
            raise OutsideFragment('module item starting with %r' % tok)
    if mem is None:
        raise OutsideFragment('no array')
    L = lambda xs: ' '.join('(%s %s)' % x for x in xs)
    return ('(body (clk %s) (ins %s) (outs %s) (attr %d) (mem %d %d %d) (regs %s) (posedge %s) (comb %s) (assigns %s) (inits %s) (minit %s))'
            % (clk[0] if clk else '-', L(ins), L(outs), attr, mem[0], mem[1], mem[2], L(regs), L(pos), ' '.join(comb), L(assigns), L(inits), L(minit)))


# ---- live instances ----------------------------------------------------------------------------------------------------------------
def build(kind, aw, dw, ww, wdw):
    """-> dict(hw, top, mem, ins=[wires in history order], outs=[wires])"""
    import py4hw
    from py4hw.logic import storage as S
    import gen_vdesigns as GV
    hw = py4hw.HWSystem()
    top = GV.top_class()(hw, 'top')
    sfx = ['_a', '_b'] if kind == 'dual' else ['']
    ins, outs, args = [], [], []
    for s in sfx:
        ra, wa, we, wd = hw.wire('ra' + s, aw), hw.wire('wa' + s, aw), hw.wire('we' + s, ww), hw.wire('wd' + s, wdw)
        rd = hw.wire('rd' + s, dw)
        for n, w in (('ra', ra), ('wa', wa), ('we', we), ('wd', wd)):
            top.addIn(n + s, w)
        top.addOut('rd' + s, rd)
        ins += [ra, wa, we, wd]
        outs.append(rd)
        args += [ra, wa, we, rd, wd]
    mem = getattr(S, KINDS[kind])(top, 'dut', *args)
    return dict(hw=hw, top=top, mem=mem, ins=ins, outs=outs)


def real_trace(kind, p, hist):
    """real py4hw simulator: (row before the first edge, [row after every cycle])"""
    d = build(kind, *p)
    sim = d['hw'].getSimulator()
    row0 = [w.get() for w in d['outs']]
    rows = []
    for step in hist:
        for w, v in zip(d['ins'], step):
            w.put(v)
        sim.clk(1)
        rows.append([w.get() for w in d['outs']])
    return row0, rows


def emitted_body(kind, p):
    """real emitted text of a Top containing one memory -> (s-expression, module text)"""
    import py4hw, vsim
    d = build(kind, *p)
    text = vsim.gen_text(py4hw.VerilogGenerator(d['top']), d['top'])
    names = [pt.name for pt in d['mem'].inPorts] + [pt.name for pt in d['mem'].outPorts]
    m = re.search(r'\bmodule\s+' + KINDS[kind] + r'\w*.*?endmodule', text, re.S)
    return parse_module(text, KINDS[kind], names), (m.group(0) if m else text)


# ---- MsgSequencer (py4hw/logic/protocol/uart/sequencer.py): the fourth hand-written body with a reg array ---------------------------------
def build_msg(msg):
    import py4hw
    from py4hw.logic.protocol.uart.sequencer import MsgSequencer
    import gen_vdesigns as GV
    hw = py4hw.HWSystem()
    top = GV.top_class()(hw, 'top')
    ready, valid, v = hw.wire('ready', 1), hw.wire('valid', 1), hw.wire('v', 8)
    top.addIn('ready', ready)
    top.addOut('valid', valid)
    top.addOut('v', v)
    dut = MsgSequencer(top, 'dut', ready, valid, v, msg)
    return dict(hw=hw, top=top, mem=dut, ins=[ready], outs=[valid, v])


def msg_real_trace(msg, sched):
    d = build_msg(msg)
    sim = d['hw'].getSimulator()
    row0 = [w.get() for w in d['outs']]
    rows = []
    for r_ in sched:
        d['ins'][0].put(r_)
        sim.clk(1)
        rows.append([w.get() for w in d['outs']])
    return row0, rows


def msg_emitted(msg):
    """-> (s-expression of the parsed real module, module text, width of `count` as written, clock name)"""
    import py4hw, vsim
    d = build_msg(msg)
    text = vsim.gen_text(py4hw.VerilogGenerator(d['top']), d['top'])
    m = re.search(r'\bmodule\s+MsgSequencer\w*.*?endmodule', text, re.S)
    sx = parse_module(text, 'MsgSequencer', ['ready', 'valid', 'v'])
    wm = re.search(r'\(regs .*?\(count (\d+)\)', sx)
    cm = re.match(r'\(body \(clk (\S+)\)', sx)
    return sx, (m.group(0) if m else text), (int(wm.group(1)) if wm else 0), cm.group(1)


def ready_schedule(r, n):
    """runs of held values, single-cycle pulses, alternation: every interleaving of the two states with both ready values"""
    out = []
    while len(out) < n:
        k = r.randint(0, 5)
        if k == 0:
            out += [1] * r.randint(2, 6)
        elif k == 1:
            out += [0] * r.randint(1, 4)
        elif k == 2:
            out += [1, 0] * r.randint(1, 3)
        else:
            out.append(r.randint(0, 1))
    return out[:n]


# ---- histories biased to collisions ---------------------------------------------------------------------------------------------------
def port_step(r, aw, ww, wdw, written, hot):
    """one port's (ra, wa, we, wd); `written` = addresses written so far, `hot` = addresses the other port touches on this edge"""
    A = (1 << aw) - 1
    k = r.randint(0, 9)
    wd = r.bits(wdw)
    we = r.randint(1, (1 << ww) - 1)
    known = sorted(written)
    if k <= 2 and known:                       # read and write the SAME written cell on the same edge
        a = r.choice(known)
        return [a, a, we, wd]
    if k == 3:                                 # collision on any cell
        a = r.randint(0, A)
        return [a, a, we, wd]
    if k == 4 and hot:                         # touch what the other port touches
        a = r.choice(sorted(hot))
        return [a, r.choice(sorted(hot)), we if r.chance(1, 2) else 0, wd]
    ra = r.choice(known) if (known and k <= 7) else r.randint(0, A)
    if k == 5:
        return [ra, r.randint(0, A), 0, wd]    # pure read
    return [ra, r.randint(0, A), we if r.chance(3, 4) else 0, wd]


def history(r, kind, p, n):
    aw, dw, ww, wdw = p
    written, h = set(), []
    for j in range(n):
        if j < 2 and r.chance(2, 3):           # start by writing: later reads see known cells
            a = r.randint(0, (1 << aw) - 1)
            st = [r.randint(0, (1 << aw) - 1), a, 1, r.bits(wdw)]
            if kind == 'dual':
                st += [r.randint(0, (1 << aw) - 1), r.randint(0, (1 << aw) - 1), r.randint(0, 1), r.bits(wdw)]
        else:
            st = port_step(r, aw, ww, wdw, written, set())
            if kind == 'dual':
                st += port_step(r, aw, ww, wdw, written, {st[0], st[1]})
        for o in range(0, len(st), 4):
            if st[o + 2]:
                written.add(st[o + 1])
        h.append(st)
    return h


def quiet(st):
    a, b = st[0:4], st[4:8]
    return not ((a[2] != 0 and a[1] in (a[0], b[0])) or (b[2] != 0 and b[1] in (a[0], b[0])))


def rows_of(s):
    s = s.strip()
    return [] if not s else [[(v if v == 'x' else int(v)) for v in row.split(',')] for row in s.split(';')]


def hist_str(h):
    return ';'.join(','.join(str(v) for v in st) for st in h)


# port a writes 3 to cell 0; on the next edge port a reads cell 0 while writing 1 to it (simulator: 3; the body of before a7c9173: 1)
WITNESS_DUAL = [[1, 0, 1, 3, 1, 0, 0, 0], [0, 0, 1, 1, 1, 0, 0, 0]]
# message "Hi", ready held at 1 (simulator: valid 1, 0; the body of before 0f39eeb: valid 1, 1)
WITNESS_MSG = ('Hi', [1, 1])

# Findings of this stream, proposed to the integrator (known_findings.json is not written here).
#   status "fixed": repaired in /repo; the entry suppresses NOTHING — the former witness is replayed at every check and any mismatch on it
#                   (a recurrence) is a VIOLATION like every other mismatch;
#   status "known": exists on the current tree; a failure whose replay satisfies class_expr is reported as KNOWN-FINDING, anything else
#                   as a VIOLATION.  class_expr of C01-mem-powerup-x = exactly the `mask false` rows of C01Mem.sync_body_run /
#                   async_body_run / dual_reg_body_run: the body drives x AND the cell (or read register) had not been written before.
PROPOSED_FINDINGS = [
    {"id": "C01-msgsequencer-ready-polarity", "property": "C01", "status": "fixed", "commit": "0f39eeb",
     "anchor": "py4hw/logic/protocol/uart/sequencer.py:81",
     "class_expr": "r.get('block') == 'MsgSequencer' and r.get('text_is_old_template')",
     "witness": {"block": "MsgSequencer", "msg": "Hi", "ready_per_cycle": [1, 1], "cycle": 2, "output": "valid", "simulator": 0, "verilog": 1},
     "what": "MsgSequencer: the state-1 branch of the emitted body waited while ready == 1, clock() waits while ready == 0 "
             "(Lean: C01Mem.msg_body_counterexample; repaired text: C01Mem.msg_fixed_body_run)"},
    {"id": "C01-dualport-async-read", "property": "C01", "status": "fixed", "commit": "a7c9173", "anchor": "py4hw/logic/storage.py:367",
     "class_expr": "r.get('block') == 'DualPortSynchronousMemory' and r.get('same_edge_write_of_a_cell_read')",
     "witness": {"block": "DualPortSynchronousMemory", "address_width": 1, "data_width": 2, "history": WITNESS_DUAL, "cycle": 2,
                 "output": "readdata_a", "simulator": 3, "verilog": 1},
     "what": "DualPortSynchronousMemory: the emitted body read the array asynchronously (assign readdata_a = mem[read_address_a]) while "
             "clock() registers the read: a cell written on the edge on which it is read showed the new data in Verilog, the old in the "
             "simulator (Lean: C01Mem.dual_body_counterexample; repaired text: C01Mem.dual_reg_body_run)"},
    {"id": "C01-mem-powerup-x", "property": "C01", "status": "known", "anchor": "py4hw/logic/storage.py:252,304,371",
     "class_expr": "r.get('known_class') and 'mem-powerup-x' in r.get('explained_by', []) and r.get('verilog') == 'x' "
                   "and r.get('simulator') == 0 and r.get('read_cell_written_before') is False "
                   "and r.get('block') in ('SynchronousMemory', 'AsynchronousMemory', 'DualPortSynchronousMemory')",
     "witness": {"block": "SynchronousMemory", "address_width": 1, "data_width": 1, "history": [[0, 0, 1, 1]], "cycle": 1, "output": "readdata",
                 "simulator": 0, "verilog": "x", "read_cell_written_before": False},
     "what": "memories: a cell (or the read register) that has not been written since power-up is x in the emitted Verilog "
             "(reg array / reg without initial value), 0 in the simulator"},
]


class Findings:
    """the one class of disagreement that exists on the current tree (C01-mem-powerup-x): a failure inside its class_expr is reported as
    KNOWN-FINDING — through res.fail once known_findings.json lists the id, from PROPOSED_FINDINGS until then; outside it: VIOLATION"""

    def __init__(self, res):
        self.res, self.first = res, {}
        self.entry = {e['id']: e for e in PROPOSED_FINDINGS}
        self.listed = {k.get('id') for k in load_known() if k.get('property') == 'C01' and k.get('status') == 'known'}

    def hit(self, cls, detail):
        """-> True when the failure is inside the known class (reported once), False when it has to be treated as a violation"""
        import common
        e = self.entry['C01-' + cls]
        replay = dict(detail, known_class=True, explained_by=[cls])
        what = 'memory body and simulator disagree on a read-data output'
        if e['status'] != 'known' or not common._matches(e, what, replay):
            return False
        self.res.hist('mem_known_classes', cls)
        if cls not in self.first:
            self.first[cls] = detail
            if e['id'] in self.listed:
                self.res.fail(what, replay)
            else:
                self.res.known_hits.append((e, what))
                self.res.notes.append(dict(proposed_known_finding=e['id'], first_witness=detail))
        return True


def judge(res, fnd, kind, p, hist, real, vrows, known, stream, body_text, tie='same'):
    """the property's oracle on one history: the PARSED real body (rows `vrows`) against the real simulator (rows `real`).
    returns True when a genuine failure was reported"""
    names = ['readdata_a', 'readdata_b'] if kind == 'dual' else ['valid', 'v'] if kind == 'msg' else ['readdata']
    for j, (vr, rr) in enumerate(zip(vrows, real)):
        for o, (v, r_) in enumerate(zip(vr, rr)):
            if v == r_:
                continue
            if kind == 'msg':
                detail = dict(block='MsgSequencer', msg=p[0], count_width=p[1], ready_per_cycle=[st[0] for st in hist[:j + 1]], cycle=j + 1,
                              output=names[o], simulator=r_, verilog=v, stream=stream, text_is_old_template=tie.startswith('old-defect'),
                              body=body_text[:1800])
                res.fail('MsgSequencer body (IEEE 1364 reading of the emitted text) and simulator disagree on an output', detail)
                return True
            kn = known[j][o] if j < len(known) and o < len(known[j]) else 1
            detail = dict(block=KINDS[kind], address_width=p[0], data_width=p[1], write_width=p[2], writedata_width=p[3],
                          history=hist[:j + 1], history_fields='ra,wa,we,wd' + (' of port a, then of port b' if kind == 'dual' else ''),
                          cycle=j + 1, output=names[o], simulator=r_, verilog=v, read_cell_written_before=bool(kn), stream=stream,
                          body=body_text[:1500])
            if kind == 'dual':
                detail['same_edge_write_of_a_cell_read'] = not quiet(hist[j])
            if v == 'x' and not kn and fnd.hit('mem-powerup-x', detail):
                continue                                   # never written since power-up: x in Verilog, 0 in the simulator
            res.fail('memory body (IEEE 1364 reading of the emitted text) and simulator disagree on a read-data output', detail)
            return True
    return False


def stream(res, tier, rng):
    """registered by harness/c01.py"""
    import py4hw
    fnd = Findings(res)
    quick = tier == 'quick'
    # sampled widths: every small combination first, then random ones (address width <= 10 in storage.py)
    params = []
    for kind in KINDS:
        params += [(kind, (1, 1, 1, 1)), (kind, (2, 3, 1, 3)), (kind, (1, 2, 1, 4)), (kind, (2, 4, 2, 4))]
        r = rng.fork(('mem-widths', kind))
        for _ in range(6 if quick else 60):
            dw = r.choice([1, 2, 3, 4, 8, 9, 16, 32, 33])
            params.append((kind, (r.choice([1, 1, 2, 2, 3, 4, 5]), dw, r.choice([1, 1, 1, 2, 3]), r.choice([dw, dw, dw, dw + 1, max(1, dw - 1), dw + 7]))))
    lines, meta, done = [], [], set()
    for idx, (kind, p) in enumerate(params):
        r = rng.fork(('mem', idx))
        try:
            sx, btext = emitted_body(kind, p)
        except OutsideFragment as e:
            # the emitted body left the fragment of MemBody.lean: the tie to the theorems is broken and nothing can be executed
            res.hist('mem_text', 'OUTSIDE-FRAGMENT')
            res.disagree('mem-text', dict(block=KINDS[kind], widths=p, reason='emitted body outside the fragment of Verilog/MemBody.lean: ' + str(e)))
            continue
        except Exception as e:
            res.hist('mem_text', 'generation-error:' + type(e).__name__)
            res.fail(f'Verilog generation fails for a memory block: {type(e).__name__}: {str(e)[:200]}', dict(block=KINDS[kind], widths=p))
            continue
        nh = (3 if quick else 10)
        for k in range(nh):
            h = history(r.fork(('h', k)), kind, p, r.randint(4, 14) if quick else r.randint(6, 40))
            lines.append(f"job {kind} {' '.join(map(str, p))} | {sx} | {hist_str(h)}")
            meta.append(dict(kind=kind, p=p, hist=h, body=btext, what='job'))
        if p == (1, 1, 1, 1) and (kind, 'exh') not in done:
            done.add((kind, 'exh'))
            # exhaustive tiny case on the smallest parameter set of each kind
            ln = {'sync': 3, 'async': 3, 'dual': 1}[kind] if quick else {'sync': 4, 'async': 4, 'dual': 2}[kind]
            lines.append(f"exh {kind} {' '.join(map(str, p))} | {sx} | {ln}")
            meta.append(dict(kind=kind, p=p, body=btext, what='exh', len=ln, sx=sx))
    # MsgSequencer: messages of several lengths (powers of two and not), schedules with back-pressure
    rm = rng.fork('msgseq')
    msgs = ['Hi', 'abc', 'Hello World\n', 'py4hw', ''.join(chr(rm.randint(32, 126)) for _ in range(rm.randint(2, 9)))]
    for k, msg in enumerate(msgs if quick else msgs + [''.join(chr(rm.randint(1, 255)) for _ in range(rm.randint(2, 40))) for _ in range(12)]):
        try:
            sx, btext, wc, clk = msg_emitted(msg)
        except OutsideFragment as e:
            res.hist('mem_text', 'OUTSIDE-FRAGMENT')
            res.disagree('mem-text', dict(block='MsgSequencer', msg=msg, reason='emitted body outside the fragment of Verilog/MemBody.lean: ' + str(e)))
            continue
        except Exception as e:
            res.hist('mem_text', 'generation-error:' + type(e).__name__)
            res.fail(f'Verilog generation fails for MsgSequencer: {type(e).__name__}: {str(e)[:200]}', dict(block='MsgSequencer', msg=msg))
            continue
        scheds = [[1] * (2 * len(msg) + 3)] + [ready_schedule(rm.fork((k, j)), rm.randint(6, 30)) for j in range(2 if quick else 8)]
        for sc in scheds:
            lines.append(f"job msg {clk} {wc} {','.join(str(ord(c)) for c in msg)} | {sx} | {';'.join(map(str, sc))}")
            meta.append(dict(kind='msg', p=(msg, wc, clk), hist=[[x] for x in sc], body=btext, what='job'))
    # the witnesses of the two REPAIRED defects (PROPOSED_FINDINGS, status fixed) are replayed on the real code at every run: a mismatch on
    # them is a recurrence and is reported like any other mismatch (VIOLATION)
    try:
        sx, btext = emitted_body('dual', (1, 2, 1, 2))
        lines.append(f'job dual 1 2 1 2 | {sx} | {hist_str(WITNESS_DUAL)}')
        meta.append(dict(kind='dual', p=(1, 2, 1, 2), hist=WITNESS_DUAL, body=btext, what='job', witness=True))
        sx, btext, wc, clk = msg_emitted(WITNESS_MSG[0])
        lines.append(f"job msg {clk} {wc} {','.join(str(ord(c)) for c in WITNESS_MSG[0])} | {sx} | {';'.join(map(str, WITNESS_MSG[1]))}")
        meta.append(dict(kind='msg', p=(WITNESS_MSG[0], wc, clk), hist=[[x] for x in WITNESS_MSG[1]], body=btext, what='job', witness=True))
        res.hist('mem_witness', 'witnesses of C01-dualport-async-read and C01-msgsequencer-ready-polarity replayed')
    except Exception as e:
        res.hist('mem_witness', 'not replayed: ' + str(e)[:60])
    try:
        out = run_driver('Drv/C01Mem.lean', lines)
    except ToolFailure as e:
        res.broken.append(('correspondence', 'mem-driver', str(e)[:400]))
        out = []
    replay_lines, replay_meta = [], []
    for m, o in zip(meta, out):
        kind, p = m['kind'], m['p']
        if m['what'] == 'exh':
            if o.startswith('ok '):
                res.hist('mem_exhaustive', f"{kind} widths {p} len {m['len']}: {o[3:]} histories agree")
                res.count(('mem-exh', kind, p, m['len']), hist={})
            elif o.startswith('cex '):
                # the parsed body differs from the generated simulator step on a tiny history: replay it on the real simulator
                h = [[int(v) for v in st.split(',')] for st in o[4:].split(';')]
                replay_lines.append(f"job {kind} {' '.join(map(str, p))} | {m['sx']} | {hist_str(h)}")
                replay_meta.append(dict(m, hist=h, what='job', stream='exhaustive'))
            else:
                res.broken.append(('correspondence', 'mem-driver', f'{kind} {p}: {o[:200]}'))
            continue
        handle_job(res, fnd, m, o, 'witness' if m.get('witness') else 'seeded')
    if replay_lines:
        try:
            for m, o in zip(replay_meta, run_driver('Drv/C01Mem.lean', replay_lines)):
                handle_job(res, fnd, m, o, m['stream'])
        except ToolFailure as e:
            res.broken.append(('correspondence', 'mem-driver', str(e)[:400]))
    res.cov['mem_rule'] = ('memory stream: AsynchronousMemory / SynchronousMemory / DualPortSynchronousMemory at sampled address / data / write / '
                           'write-data widths; the real emitted module is parsed into the AST of Verilog/MemBody.lean; lean/Drv/C01Mem.lean decides '
                           'parsed == template (the terms of C01Mem.sync_body_run / async_body_run / dual_body_run) and Body.wf, and runs the PARSED '
                           'body under the IEEE-1364 cycle semantics on seeded histories biased to same-address read/write collisions; oracle: every '
                           'known value on a read-data output equals the real simulator on that cycle (three-way with the generated step functions); '
                           'exhaustive tiny histories in the driver; classes mem-powerup-x and dualport-async-read reported separately; MsgSequencer '
                           '(reg array filled by an initial block): parsed == Mem.msgBody (repaired or current polarity), ready schedules with '
                           'back-pressure, three-way real simulator / Gen.MsgSequencer.step / parsed body')


def handle_job(res, fnd, m, o, stream_name):
    kind, p, hist = m['kind'], m['p'], m['hist']
    f = [x.strip() for x in o.split('|')]
    if len(f) != 9:
        res.broken.append(('correspondence', 'mem-driver', f'{kind} {p}: {o[:200]}'))
        return
    tie, wf, row0, vtr, ttr, pred, gsim, known, swp = f
    try:
        real0, real = msg_real_trace(p[0], [st[0] for st in hist]) if kind == 'msg' else real_trace(kind, p, hist)
    except Exception as e:
        res.hist('mem_simulation_errors', type(e).__name__ + ':' + str(e)[:50])
        return
    if kind == 'msg':
        res.count(('mem', kind, p, hist_str(hist)), hist={'mem_kind': kind, 'msg_length': len(p[0])})
    else:
        res.count(('mem', kind, p, hist_str(hist)), hist={'mem_kind': kind, 'mem_collisions': sum(1 for st in hist for q in range(0, len(st), 4)
                                                                                                  if st[q + 2] and st[q] == st[q + 1])})
    vrows, trows, prows, krows = rows_of(vtr), rows_of(ttr), rows_of(pred), rows_of(known)
    grows = rows_of(gsim)
    KN = dict(KINDS, msg='MsgSequencer')
    base = dict(block=KN[kind], widths=p, history=hist)
    # (1) generated step vs the real simulator (model vs implementation)
    if grows != real:
        res.disagree('mem-gen', dict(base, generated=grows, simulator=real))
    # (2) the tie of the theorems to the text
    if tie != 'same':
        res.hist('mem_text', 'OLD-DEFECT-TEXT' if tie.startswith('old-defect') else 'TEXT-DIFFERS')
        if not any(b[1] == 'mem-text' and b[2].get('block') == KN[kind] for b in res.broken if isinstance(b[2], dict)):
            res.disagree('mem-text', dict(block=KN[kind], widths=p, driver=tie[:1200], body=m['body'][:1500]))
    else:
        res.hist('mem_text', f'covered: {KN[kind]} parsed body == template')
        if kind == 'msg' and known.strip() != '1':
            res.hist('mem_text', 'MsgSequencer outside the hypotheses of msg_fixed_body_run (len <= 2^wc, codes < 256)')
        if trows != vrows or prows != vrows:
            res.broken.append(('correspondence', 'mem-theorem-vs-driver', dict(base, parsed=vrows, template=trows, predicted=prows)))
    if wf != '1':
        res.hist('mem_text', 'not-wf')
        res.disagree('mem-text', dict(block=KN[kind], widths=p, reason='Body.wf fails on the parsed body', body=m['body'][:1500]))
    # (3) the oracle: the parsed real body against the real simulator
    if len(vrows) != len(real):
        res.broken.append(('correspondence', 'mem-driver', dict(base, parsed=vrows, simulator=real)))
        return
    if judge(res, fnd, kind, p, hist, real, vrows, krows, stream_name, m['body'], tie):
        return
    # the other execution order of the clocked blocks (IEEE 1364-2005 11.4.2): only compared where the ports do not clash
    srows = rows_of(swp)
    if kind == 'dual' and srows != vrows:
        clash = any(st[2] and st[6] and st[1] == st[5] for st in hist)
        res.hist('mem_block_order', 'differs after a write clash' if clash else 'DIFFERS WITHOUT A CLASH')
        if not clash:
            res.disagree('mem-block-order', dict(base, source_order=vrows, other_order=srows))
    # power-up observation (before the first edge)
    r0 = rows_of(row0)
    names = ['readdata_a', 'readdata_b'] if kind == 'dual' else ['valid', 'v'] if kind == 'msg' else ['readdata']
    for o, (v, s_) in enumerate(zip(r0[0] if r0 else [], real0)):
        if v == s_:
            continue
        d0 = dict(block=KN[kind], address_width=p[0], data_width=p[1], history=[], cycle=0, output=names[o], simulator=s_, verilog=v,
                  read_cell_written_before=False, stream=stream_name)
        if kind != 'msg' and v == 'x' and fnd.hit('mem-powerup-x', d0):
            continue
        res.fail('memory body and simulator disagree at power-up', d0)
        return
