"""C03 text utilities around harness/vparse.py (which stays untouched):
  strip_attributes   documented grammar gap: `(* name = "string" *)` attribute instances are removed before parsing
  canon_ids          instance-unique module suffixes (hex(id(obj))) -> first-occurrence indices
  pp_design          full pretty printer of the parse tree back to Verilog
  roundtrip          per-run validation of the parser: significant tokens of the emitted text == significant tokens of the
                     pretty-printed parse, and parse(pp(parse(text))) == parse(text)
"""
import re
import vparse

ATTR_RE = re.compile(r'\(\*\s*[A-Za-z_]\w*\s*(=\s*("[^"\n]*"|\w+)\s*)?\*\)')


def strip_attributes(text):
    return ATTR_RE.sub(' ', text)


def canon_ids(text, objs):
    """replace `_<hex(id(o))>` by `_o<k>` (k = index of o in `objs`)"""
    for k, o in enumerate(objs):
        text = text.replace('_' + hex(id(o))[2:], f'_o{k}')
    return text


# ------------------------------------------------------------------------------------------------ pretty printer
def pp_expr(e):
    """vparse pp_expr, except that a replication (which the parser always wraps into a one-element concatenation) is
    printed once"""
    k = e[0]
    if k == 'cat1' and e[1][0] == 'rep':
        return pp_expr(e[1])
    if k == 'un':
        return f'({vparse.UN[e[1]]}{pp_expr(e[2])})'
    if k == 'bin':
        return f'({pp_expr(e[2])} {vparse.BI[e[1]]} {pp_expr(e[3])})'
    if k == 'tern':
        return f'({pp_expr(e[1])} ? {pp_expr(e[2])} : {pp_expr(e[3])})'
    if k in ('cat', 'cat1'):
        items = []
        x = e
        while x[0] == 'cat':
            items.append(pp_expr(x[1]))
            x = x[2]
        items.append(pp_expr(x[1]) if x[0] == 'cat1' and x[1][0] != 'rep' else pp_expr(x))
        return '{' + ', '.join(items) + '}'
    if k == 'rep':
        inner = pp_expr(e[2])
        return '{' + str(e[1]) + (inner if inner.startswith('{') else '{' + inner + '}') + '}'
    if k == 'idx':
        return f'{e[1]}[{pp_expr(e[2])}]'
    if k == 'sgn':
        return f'$signed({pp_expr(e[1])})'
    if k == 'usg':
        return f'$unsigned({pp_expr(e[1])})'
    return vparse.pp_expr(e)


def pp_lhs(l):
    if l[0] == 'lid':
        return l[1]
    if l[0] == 'lidx':
        return f'{l[1]}[{pp_expr(l[2])}]'
    return f'{l[1]}[{l[2]}:{l[3]}]'


def pp_stmt(s):
    k = s[0]
    if k == 'skip':
        return ';'
    if k == 'seq':
        items = []
        x = s
        while x[0] == 'seq':
            items.append(pp_stmt(x[1]))
            x = x[2]
        items.append(pp_stmt(x))
        return 'begin\n' + '\n'.join(items) + '\nend'
    if k == 'ife':
        t = f'if ({pp_expr(s[1])}) begin {pp_stmt(s[2])} end'
        if s[3] != ['skip']:
            t += f' else begin {pp_stmt(s[3])} end'
        return t
    if k == 'nba':
        return f'{pp_lhs(s[1])} <= {pp_expr(s[2])};'
    if k == 'ba':
        return f'{pp_lhs(s[1])} = {pp_expr(s[2])};'
    if k == 'case':
        out = f'case ({pp_expr(s[1])})\n'
        x = s[2]
        while x[0] == 'arm':
            out += f'{pp_expr(x[1])} : begin {pp_stmt(x[2])} end\n'
            x = x[3]
        if x[1] != ['skip']:
            out += f'default : begin {pp_stmt(x[1])} end\n'
        return out + 'endcase'
    raise vparse.VParseError('pp_stmt: ' + str(k))


def rng(w):
    return f'[{w - 1}:0] ' if w > 1 else ''


def pp_item(it):
    k = it[0]
    if k == 'wire':
        return f'wire {rng(it[2])}{it[1]};'
    if k == 'reg':
        return f'reg {rng(it[2])}{it[1]};'
    if k == 'regi':
        return f'reg {rng(it[2])}{it[1]} = {pp_expr(it[3])};'
    if k == 'mem':
        return f'reg {rng(it[2])}{it[1]} [{it[3]}:{it[4]}];'
    if k == 'int':
        return f'integer {it[1]};'
    if k == 'inti':
        return f'integer {it[1]} = {pp_expr(it[2])};'
    if k == 'assign':
        return f'assign {pp_lhs(it[1])} = {pp_expr(it[2])};'
    if k == 'always':
        ev = it[1]
        e = '*' if ev[0] == 'star' else ('posedge ' if ev[0] == 'pos' else 'negedge ') + ev[1]
        return f'always @({e}) begin {pp_stmt(it[2])} end'
    if k == 'initial':
        return f'initial begin {pp_stmt(it[1])} end'
    if k == 'inst':
        ps = it[3][1:]
        cs = it[4][1:]
        p = ('#(' + ','.join(f'.{x[1]}({pp_expr(x[2])})' for x in ps) + ') ') if ps else ''
        c = ','.join(f'.{x[1]}({"" if x[2] == ["num", 1, 0, 0, 0] else pp_expr(x[2])})' for x in cs)
        return f'{it[1]} {p}{it[2]}({c});'
    raise vparse.VParseError('pp_item: ' + str(k))


class ParserD(vparse.Parser):
    """vparse.Parser that additionally KEEPS the default value of every `parameter P = e` of a module header (the shared
    parser parses and drops it): `self.pdefs` = list of (module, parameter, expr | None).  The tree is unchanged."""

    def __init__(self, text):
        super().__init__(text)
        self.pdefs = []

    def module(self):
        # look ahead over the parameter port list only, then let the shared parser build the tree
        j = self.i
        if self.peek()[1] == 'module' and self.peek(2)[1] == '#':
            name = self.peek(1)[1]
            self.i += 4                      # module NAME # (
            while not self.at(')'):
                self.eat('parameter')
                pn = self.ident()
                e = None
                if self.at('='):
                    self.eat('=')
                    e = self.expr()
                self.pdefs.append((name, pn, e))
                if self.at(','):
                    self.eat(',')
            self.i = j
        return super().module()


def strict_separators(toks):
    """the shared parser treats the commas of parameter port lists, port lists, connection lists and parameter overrides as
    optional; IEEE 1364-2005 (A.1.3, A.4.1) does not: every list element but the first follows a comma"""
    prev = None
    for kind, t in toks:
        if t in ('parameter', 'input', 'output', 'inout', '.') and kind in ('id', 'op'):
            if t == 'parameter' and prev in ('(', ','):
                pass
            elif t == 'parameter':
                raise vparse.VParseError(f'missing separator before `parameter` (after {prev!r}) in a module parameter port list')
            elif prev not in ('(', ','):
                raise vparse.VParseError(f'missing separator before {t!r} (after {prev!r}) in a port / connection list')
        prev = t


def parse_d(text):
    """-> (tree, pdefs); raises VParseError also for a missing list separator"""
    p = ParserD(text)
    strict_separators(p.toks)
    return p.design(), p.pdefs


def pdefs_sexp(pdefs):
    return '(pdefs ' + ' '.join(f'(d {m} {n} {vparse.sexp(e)})' for m, n, e in pdefs if e is not None) + ')'


def pp_module(m, pdefs=()):
    _, name, params, ports, items = m
    out = f'module {name} '
    if params[1:]:
        dv = {n: e for mm, n, e in pdefs if mm == name}
        out += '#(' + ', '.join('parameter ' + p + (f' = {pp_expr(dv[p])}' if dv.get(p) is not None else '') for p in params[1:]) + ') '
    ps = []
    for p in ports[1:]:
        d = {'in': 'input', 'out': 'output', 'inout': 'inout'}[p[1]]
        ps.append(f'{d} {"reg " if p[2] else ""}{rng(p[3])}{p[4]}')
    out += '(\n  ' + ',\n  '.join(ps) + ');\n'
    out += '\n'.join(pp_item(i) for i in items[1:])
    return out + '\nendmodule\n'


def pp_design(tree, pdefs=()):
    return '\n'.join(pp_module(m, pdefs) for m in tree[1:])


# ------------------------------------------------------------------------------------------------ round trip
DROP = {'(', ')', 'begin', 'end', ';'}
DECLKW = {'wire', 'reg', 'input', 'output', 'inout'}


def sig_tokens(text):
    """significant tokens: everything except parentheses, begin/end, semicolons; numbers by value; `[0:0]` ranges of
    declarations and `default` [`:`] removed"""
    toks = vparse.tokenize(text)
    out = []
    i = 0
    while i < len(toks):
        kind, t = toks[i]
        if kind in ('int', 'num'):
            w, s, v, k = vparse.parse_number(toks[i])
            out.append(f'#{w}:{s}:{v}:{k}')
        elif t in DROP:
            pass
        elif t == '[' and out and out[-1] in DECLKW and [x[1] for x in toks[i:i + 5]] == ['[', '0', ':', '0', ']']:
            i += 5
            continue
        elif t == 'default':
            if i + 1 < len(toks) and toks[i + 1][1] == ':':
                i += 1
        else:
            out.append(t)
        i += 1
    return out


def roundtrip(text, tree, pdefs=()):
    """None when the parser is validated on this text, else a short description of the first mismatch"""
    try:
        back = pp_design(tree, pdefs)
        a, b = sig_tokens(text), sig_tokens(back)
        if a != b:
            k = next((i for i, (x, y) in enumerate(zip(a, b)) if x != y), min(len(a), len(b)))
            return f'token {k}: emitted …{" ".join(a[max(0, k - 4):k + 3])}… vs reprinted …{" ".join(b[max(0, k - 4):k + 3])}…'
        t2, p2 = parse_d(back)
        if t2 != tree or list(p2) != list(pdefs):
            return 'parse(pp(parse(text))) differs from parse(text)'
    except vparse.VParseError as e:
        return f'reprinted text does not parse: {e}'
    return None


def module_of(tree, name):
    for m in tree[1:]:
        if m[1] == name:
            return m
    return None


def instances(m):
    return [it for it in m[4][1:] if it[0] == 'inst']
