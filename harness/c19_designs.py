"""C19 design builders.  Every builder is a deterministic function of (kind, rng state): calling it twice with forks of
the same Rng gives two isomorphic circuits made of DIFFERENT objects (twins) whose Graph numbering coincides.

returns dict(hw, tops: [objects generation may be requested for, ancestors first], inputs: {name: wire}, desc, kind)"""
import io, contextlib
from common import *
import gen_vdesigns as GV
import gen_designs as G

KINDS = ['plan', 'lib', 'hier', 'params', 'hier', 'uart', 'hil', 'gated', 'behav', 'msg', 'params']


def all_objs(o, acc=None):
    acc = acc if acc is not None else []
    acc.append(o)
    for c in o.children.values():
        all_objs(c, acc)
    return acc


def build(kind, rng, tier='quick'):
    with contextlib.redirect_stdout(io.StringIO()):
        d = _build(kind, rng, tier)
    d['kind'] = kind
    d.setdefault('tops', [d['hw']])
    return d


def _build(kind, rng, tier):
    import py4hw
    big = tier != 'quick'
    if kind == 'plan':
        d = GV.plan_design(rng, n_nodes=rng.randint(1, 20 if big else 10), wmax=rng.choice([1, 3, 8, 16]))
        d['tops'] = [d['hw'], d['top']]
        return d
    if kind == 'lib':
        d = GV.lib_design(rng)
        d['tops'] = [d['hw'], d['top']] + [c for c in d['top'].children.values()]
        return d
    if kind == 'hier':
        return hier(rng, depth=rng.randint(1, 3 if big else 2))
    if kind == 'uart':
        import c17
        n = rng.choice([2, 3, 4, 8])
        lk = c17.RealLink(n, (2 * n * 9600, 9600))
        return dict(hw=lk.hw, tops=[lk.hw, lk.cg, lk.ser, lk.des], inputs={'s_valid': lk.s_valid, 's_v': lk.s_v, 'd_ready': lk.d_ready},
                    desc=dict(uart_n=n))
    if kind == 'hil':
        import c20
        cfg = (rng.choice([2, 4, 8]), rng.choice([4, 8, 16]), rng.choice([2, 4, 8]))
        rq = c20.RealReq(cfg, 8, with_resp=(8, rng.choice([8, 16])))
        hw = rq.req.parent
        return dict(hw=hw, tops=[hw, rq.req, rq.resp], inputs={'valid': rq.valid, 'c': rq.c, 'vin': rq.vin, 'size': rq.size, 'rr': rq.rr},
                    desc=dict(hil=cfg))
    if kind == 'gated':
        return gated(rng)
    if kind == 'behav':
        return behav(rng)
    if kind == 'msg':
        return msg(rng)
    if kind == 'params':
        return params(rng, depth=rng.randint(2, 4))
    raise Exception(kind)


def box_class(name='Box'):
    import py4hw
    return type(name, (py4hw.Logic,), {})


def odd_value(rng, W):
    """a constructor constant for a W-bit block: too wide, negative, boundary, or ordinary"""
    return rng.choice([(1 << W) + rng.randint(0, 300), 0x1F0, 300, -1, -(1 << (W - 1)), -rng.randint(2, 300), (1 << W) - 1, 1 << W,
                       rng.randint(1, (1 << W) - 1), (1 << (W + 3)) | 1])


def hier(rng, depth=2):
    """nested containers (no structureName: instance-suffixed module names) holding library blocks that DO share
    structure names (Add4, Reg8E, …), inlinable leaves, and nested boxes; the same block types recur in several boxes"""
    import py4hw
    hw = py4hw.HWSystem()
    W = rng.choice([2, 4, 8])
    Box, Cell = box_class('Box'), box_class('Cell')
    tops = [hw]
    cnt = [0]

    def fresh(parent, w=None, tag='t'):
        cnt[0] += 1
        return parent.wire(f'{tag}{cnt[0]}', W if w is None else w)

    def fill(box, ins, outs, lvl):
        """ins: wires readable inside box (width W), outs: wires the box must drive (width W)"""
        avail = list(ins)
        bits = []
        n = rng.randint(2, 6)
        for k in range(n):
            kind = rng.choice(['Add', 'Reg', 'RegE', 'And2', 'Or2', 'Not', 'Mux2', 'Constant', 'Counter', 'Sub', 'Xor2', 'box', 'Equal', 'RegV', 'RegV'])
            a, b = rng.choice(avail), rng.choice(avail)
            nm = f'u{k}'
            if kind == 'box' and lvl < depth:
                r = fresh(box)
                sub = (Cell if rng.chance(1, 2) else Box)(box, nm)
                tops.append(sub)
                i1 = sub.addIn('x', a)
                i2 = sub.addIn('y', b)
                sub.addOut('z', r)
                fill(sub, [i1, i2], [r], lvl + 1)
                avail.append(r)
                continue
            if kind == 'box':
                kind = 'Add'
            r = fresh(box)
            if kind == 'Add':
                py4hw.Add(box, nm, a, b, r)
            elif kind == 'Sub':
                py4hw.Sub(box, nm, a, b, r)
            elif kind == 'Reg':
                py4hw.Reg(box, nm, a, r)
            elif kind == 'RegV':
                # constructor constants that do not fit the width / are negative / are in range: the module name carries the value
                v = odd_value(rng, W)
                if rng.chance(1, 2):
                    if not bits:
                        e = fresh(box, 1, 'e')
                        py4hw.Bit(box, nm + '_b', b, 0, e)
                        bits.append(e)
                    py4hw.Reg(box, nm, a, r, reset=bits[0], reset_value=v)
                else:
                    py4hw.Reg(box, nm, a, r, reset_value=v)
            elif kind == 'RegE':
                if not bits:
                    e = fresh(box, 1, 'e')
                    py4hw.Bit(box, nm + '_b', b, 0, e)
                    bits.append(e)
                py4hw.Reg(box, nm, a, r, enable=bits[0])
            elif kind in ('And2', 'Or2', 'Xor2'):
                getattr(py4hw, kind)(box, nm, a, b, r)
            elif kind == 'Not':
                py4hw.Not(box, nm, a, r)
            elif kind == 'Mux2':
                if not bits:
                    e = fresh(box, 1, 'e')
                    py4hw.Bit(box, nm + '_b', b, 0, e)
                    bits.append(e)
                py4hw.Mux2(box, nm, bits[0], a, b, r)
            elif kind == 'Constant':
                py4hw.Constant(box, nm, rng.randint(0, (1 << W) - 1) if rng.chance(1, 2) else odd_value(rng, W), r)
            elif kind == 'Counter':
                rs, inc = fresh(box, 1, 'e'), fresh(box, 1, 'e')
                py4hw.Bit(box, nm + '_r', a, 0, rs)
                py4hw.Bit(box, nm + '_i', b, W - 1, inc)
                py4hw.Counter(box, nm, rs, inc, r)
            elif kind == 'Equal':
                e = fresh(box, 1, 'e')
                py4hw.Equal(box, nm, a, b, e)
                py4hw.ZeroExtend(box, nm + '_z', e, r)
            avail.append(r)
        for k, o in enumerate(outs):
            py4hw.Buf(box, f'ob{k}', rng.choice(avail[len(ins):] or avail), o)

    top = Box(hw, 'top')
    tops.append(top)
    inputs = {}
    tin = []
    for k in range(rng.randint(1, 3)):
        w = hw.wire(f'in{k}', W)
        inputs[f'in{k}'] = w
        tin.append(top.addIn(f'in{k}', w))
    outs = []
    for k in range(rng.randint(1, 2)):
        w = hw.wire(f'out{k}', W)
        top.addOut(f'out{k}', w)
        outs.append(w)
    fill(top, tin, outs, 1)
    # every hierarchy holds at least one block whose constructor constant does not fit its width (too wide or negative)
    py4hw.Reg(top, 'rv', tin[0], fresh(top), reset_value=rng.choice([(1 << W) + rng.randint(1, 300), 0x1F0 + (1 << W), -1, -rng.randint(2, 300)]))
    return dict(hw=hw, tops=tops, inputs=inputs, desc=dict(hier_W=W, depth=depth, objs=len(all_objs(hw))))


def gated(rng):
    """a register bank behind a GatedClock (own ClockDriver with base = system clock)"""
    import py4hw
    from py4hw.logic.clock import GatedClock
    hw = py4hw.HWSystem()
    W = rng.choice([1, 4, 8])
    Box = box_class('Dom')
    d, en, q, q2 = hw.wire('d', W), hw.wire('en'), hw.wire('q', W), hw.wire('q2', W)
    top = box_class('GTop')(hw, 'top')
    top.addIn('d', d)
    top.addIn('en', en)
    top.addOut('q', q)
    top.addOut('q2', q2)
    enout = top.wire('enout')
    gclk = top.wire('gclk')
    drv = py4hw.ClockDriver('gclk', base=hw.clockDriver, enable=enout, wire=gclk)
    GatedClock(top, 'gate', en, enout, drv)
    dom = Box(top, 'dom')
    dom.clockDriver = drv
    dom.addIn('d', d)
    dom.addOut('q', q)
    n = rng.randint(1, 3)
    prev = d
    for k in range(n):
        nxt = q if k == n - 1 else dom.wire(f's{k}', W)
        py4hw.Reg(dom, f'r{k}', prev, nxt)
        prev = nxt
    py4hw.Reg(top, 'plain', d, q2)
    return dict(hw=hw, tops=[hw, top, dom], inputs={'d': d, 'en': en}, desc=dict(gated_W=W, n=n))


def behav_classes():
    """small behavioural (transpiled) classes: a sequential one whose constructor stores an argument that clock() later
    changes is the realistic way for generation to depend on simulation state"""
    import py4hw

    class Acc(py4hw.Logic):
        def __init__(self, parent, name, a, r):
            super().__init__(parent, name)
            self.a = self.addIn('a', a)
            self.r = self.addOut('r', r)
            self.total = 0

        def clock(self):
            self.total = self.total + self.a.get()
            self.r.prepare(self.total)

    class Inc(py4hw.Logic):
        def __init__(self, parent, name, a, r):
            super().__init__(parent, name)
            self.a = self.addIn('a', a)
            self.r = self.addOut('r', r)

        def propagate(self):
            self.r.put(self.a.get() + 1)
    class Toggler(py4hw.Logic):
        """bool-initialised state that clock() keeps assigning bools to"""

        def __init__(self, parent, name, en, q):
            super().__init__(parent, name)
            self.en = self.addIn('en', en)
            self.q = self.addOut('q', q)
            self.phase = False
            self.armed = True
            self.count = 0

        def clock(self):
            if (self.en.get() == 1):
                if (self.phase):
                    self.q.prepare(self.count)
                    self.phase = False
                else:
                    self.count = self.count + 3
                    self.phase = True
            else:
                if (self.armed):
                    self.armed = False
                else:
                    self.armed = True
    return Acc, Inc, Toggler


def behav(rng):
    import py4hw
    Acc, Inc, Toggler = behav_classes()
    hw = py4hw.HWSystem()
    W = rng.choice([4, 8])
    a, m, r = hw.wire('a', W), hw.wire('m', W), hw.wire('r', W)
    top = box_class('BTop')(hw, 'top')
    top.addIn('a', a)
    top.addOut('r', r)
    i1 = Inc(top, 'inc', a, m)
    a1 = Acc(top, 'acc', m, r)
    tops = [hw, top, i1, a1]
    if rng.chance(1, 2):
        r2 = hw.wire('r2', W)
        top.addOut('r2', r2)
        tops.append(Acc(top, 'acc2', a, r2))
    en, tq = hw.wire('en'), hw.wire('tq', W)
    top.addIn('en', en)
    top.addOut('tq', tq)
    tops.append(Toggler(top, 'tog', en, tq))
    cq = hw.wire('cq', W)
    top.addOut('cq', cq)
    tops.append(_ca_chg(py4hw, top, a, cq) if rng.chance(1, 2) else _ca_peak(py4hw, top, a, cq))
    return dict(hw=hw, tops=tops, inputs={'a': a, 'en': en}, desc=dict(behav_W=W))


def msg(rng):
    """UARTMsgGenerator: structural block with a verilogBody() leaf (MsgSequencer) and transpiled FSMs"""
    import py4hw
    from py4hw.logic.protocol.uart.sequencer import UARTMsgGenerator
    hw = py4hw.HWSystem()
    tx = hw.wire('tx')
    n = rng.choice([2, 4])
    text = rng.choice(['Hi', 'py4hw', 'A'])
    gen = UARTMsgGenerator(hw, 'gen', tx, 2 * n * 9600, 9600, text)
    return dict(hw=hw, tops=[hw, gen] + [c for c in gen.children.values() if len(c.children) or c.isClockable()][:4],
                inputs={}, desc=dict(msg=text, n=n))


# ------------------------------------------------------------------------------------------------
# parameters forwarded through 2-4 hierarchy levels, renamed at every level, read by behavioural methods during simulation
def param_classes():
    import py4hw

    class PReg(py4hw.Logic):
        def __init__(self, parent, name, d, clear, q, init):
            super().__init__(parent, name)
            self.d = self.addIn('d', d)
            self.clear = self.addIn('clear', clear)
            self.q = self.addOut('q', q)
            self.addParameter('INIT', init)

        def clock(self):
            if (self.clear.get() == 1):
                self.q.prepare(self.getParameterValue('INIT'))
            else:
                self.q.prepare(self.d.get())

    class PAdd(py4hw.Logic):
        def __init__(self, parent, name, a, r, k):
            super().__init__(parent, name)
            self.a = self.addIn('a', a)
            self.r = self.addOut('r', r)
            self.addParameter('K', k)

        def propagate(self):
            self.r.put(self.a.get() + self.getParameterValue('K'))

    class PBox(py4hw.Logic):
        pass
    return PReg, PAdd, PBox


PARAM_NAMES = [['START', 'RESET_TO', 'BASE', 'ROOTV'], ['P1', 'P2', 'P3', 'P4'], ['START', 'RESET_TO', 'BASE', 'ROOTV'],
               ['LO', 'MID', 'HI', 'TOPV'], ['INIT', 'INIT', 'INIT', 'INIT'], ['START', 'START', 'BASE', 'BASE']]


def params(rng, depth=2):
    """PBox(level depth) -> … -> PBox(level 1) -> PReg(INIT) / PAdd(K): every level declares its own parameter (a different
    name per level in most name sets; one set re-uses the leaf's name everywhere as a control) bound to the parent's
    Parameter object, or — mixed in — to a direct value; a second, directly valued parameter on some boxes"""
    import py4hw
    PReg, PAdd, PBox = param_classes()
    hw = py4hw.HWSystem()
    W = rng.choice([4, 8])
    names = rng.choice(PARAM_NAMES)
    d, clear = hw.wire('d', W), hw.wire('clear')
    tops = [hw]
    cnt = [0]

    def box(parent, name, level, din, q, pvalue):
        """level >= 1: a PBox with parameter names[level-1]"""
        b = PBox(parent, name)
        tops.append(b)
        b.addIn('d', din)
        b.addIn('clear', clear)
        b.addOut('q', q)
        pn = names[level - 1]
        b.addParameter(pn, pvalue)
        if rng.chance(1, 3):
            b.addParameter('GAIN', rng.randint(0, 5))
        n = rng.randint(1, 2)
        prev = din
        for k in range(n):
            cnt[0] += 1
            nxt = q if k == n - 1 else b.wire(f'm{cnt[0]}', W)
            pv = b.getParameter(pn) if not rng.chance(1, 5) else rng.randint(0, (1 << W) - 1)
            if level > 1:
                box(b, f'l{k}', level - 1, prev, nxt, pv)
            elif rng.chance(1, 3):
                tops.append(PAdd(b, f'a{k}', prev, nxt, pv))
            else:
                tops.append(PReg(b, f's{k}', prev, clear, nxt, pv))
            prev = nxt
        return b
    q = hw.wire('q', W)
    box(hw, 'bank', depth, d, q, rng.randint(1, (1 << W) - 1))
    return dict(hw=hw, tops=tops[:8], inputs={'d': d, 'clear': clear}, desc=dict(params_depth=depth, names=names, W=W, objs=len(all_objs(hw))))


# ------------------------------------------------------------------------------------------------
# same-named behavioural classes: every builder defines its OWN local class called `Stage`
def _stage_up(py4hw, top, a, r):
    class Stage(py4hw.Logic):
        def __init__(self, parent, name, a, r):
            super().__init__(parent, name)
            self.a = self.addIn('a', a)
            self.r = self.addOut('r', r)
            self.count = 0

        def clock(self):
            self.count = self.count + 1
            self.r.prepare(self.count)
    return Stage(top, 'stage', a, r)


def _stage_down(py4hw, top, a, r):
    class Stage(py4hw.Logic):
        def __init__(self, parent, name, a, r):
            super().__init__(parent, name)
            self.a = self.addIn('a', a)
            self.r = self.addOut('r', r)
            self.count = 100

        def clock(self):
            self.count = self.count - 3
            self.r.prepare(self.count)
    return Stage(top, 'stage', a, r)


def _stage_up2(py4hw, top, a, r):
    class Stage(py4hw.Logic):
        def __init__(self, parent, name, a, r):
            super().__init__(parent, name)
            self.a = self.addIn('a', a)
            self.r = self.addOut('r', r)
            self.count = 0

        def clock(self):
            self.count = self.count + 1
            self.r.prepare(self.count)
    return Stage(top, 'stage', a, r)


def _stage_acc(py4hw, top, a, r):
    class Stage(py4hw.Logic):
        def __init__(self, parent, name, a, r):
            super().__init__(parent, name)
            self.a = self.addIn('a', a)
            self.r = self.addOut('r', r)
            self.count = 0

        def clock(self):
            self.count = self.count + self.a.get()
            self.r.prepare(self.count)
    return Stage(top, 'stage', a, r)


def _stage_xor(py4hw, top, a, r):
    class Stage(py4hw.Logic):
        def __init__(self, parent, name, a, r):
            super().__init__(parent, name)
            self.a = self.addIn('a', a)
            self.r = self.addOut('r', r)

        def propagate(self):
            self.r.put(self.a.get() ^ 5)
    return Stage(top, 'stage', a, r)


# ------------------------------------------------------------------------------------------------
# DIFFERENT behavioural classes that share IDENTIFIER names: a constructor argument stored as `self.<name> = <name>` in one class,
# the same <name> as a local variable / as an attribute assigned only in clock() / as a constant-initialised state in others
def _id_saturate(py4hw, top, a, r):
    class Saturate(py4hw.Logic):
        def __init__(self, parent, name, a, r, limit):
            super().__init__(parent, name)
            self.a = self.addIn('a', a)
            self.r = self.addOut('r', r)
            self.count = 0
            self.limit = limit

        def clock(self):
            if (self.a.get() == 1):
                if (self.count < self.limit):
                    self.count = self.count + 1
            self.r.prepare(self.count)
    return Saturate(top, 'stage', a, r, 5)


def _id_window(py4hw, top, a, r):
    class Window(py4hw.Logic):
        def __init__(self, parent, name, a, r):
            super().__init__(parent, name)
            self.a = self.addIn('a', a)
            self.r = self.addOut('r', r)

        def clock(self):
            limit = self.a.get() & 7
            if (self.a.get() > limit):
                self.r.prepare(limit)
            else:
                self.r.prepare(self.a.get())
    return Window(top, 'stage', a, r)


def _id_hold(py4hw, top, a, r):
    class Hold(py4hw.Logic):
        def __init__(self, parent, name, a, r):
            super().__init__(parent, name)
            self.a = self.addIn('a', a)
            self.r = self.addOut('r', r)

        def clock(self):
            self.limit = self.a.get() & 3
            self.r.prepare(self.limit)
    return Hold(top, 'stage', a, r)


def _id_scale(py4hw, top, a, r):
    class Scale(py4hw.Logic):
        def __init__(self, parent, name, a, r, step, total):
            super().__init__(parent, name)
            self.a = self.addIn('a', a)
            self.r = self.addOut('r', r)
            self.count = 0
            self.step = step
            self.total = total

        def clock(self):
            self.count = self.count + self.step
            if (self.count > self.total):
                self.count = 0
            self.r.prepare(self.count)
    return Scale(top, 'stage', a, r, 3, 40)


def _id_ramp(py4hw, top, a, r):
    class Ramp(py4hw.Logic):
        def __init__(self, parent, name, a, r):
            super().__init__(parent, name)
            self.a = self.addIn('a', a)
            self.r = self.addOut('r', r)
            self.total = 0

        def clock(self):
            step = self.a.get() & 1
            self.total = self.total + step + 1
            self.r.prepare(self.total)
    return Ramp(top, 'stage', a, r)


def _id_mask(py4hw, top, a, r):
    class Mask(py4hw.Logic):
        def __init__(self, parent, name, a, r):
            super().__init__(parent, name)
            self.a = self.addIn('a', a)
            self.r = self.addOut('r', r)

        def propagate(self):
            limit = self.a.get() >> 1
            step = limit & 3
            self.r.put(limit ^ step)
    return Mask(top, 'stage', a, r)


# ------------------------------------------------------------------------------------------------
# integer attributes that clock() creates itself (NOT initialised in the constructor), read textually before they are written,
# guarded by a flag: they do not exist on the live object before the first cycle and exist afterwards
def _ca_chg(py4hw, top, a, r):
    class ChangeCounter(py4hw.Logic):
        def __init__(self, parent, name, a, r):
            super().__init__(parent, name)
            self.a = self.addIn('a', a)
            self.r = self.addOut('r', r)
            self.started = 0
            self.count = 0

        def clock(self):
            if (self.started == 1):
                if (self.a.get() != self.prev):
                    self.count = self.count + 1
            self.prev = self.a.get()
            self.started = 1
            self.r.prepare(self.count)
    return ChangeCounter(top, 'stage', a, r)


def _ca_peak(py4hw, top, a, r):
    class Peak(py4hw.Logic):
        def __init__(self, parent, name, a, r):
            super().__init__(parent, name)
            self.a = self.addIn('a', a)
            self.r = self.addOut('r', r)
            self.seen = 0

        def clock(self):
            if (self.seen == 1):
                if (self.a.get() > self.best):
                    self.best = self.a.get()
            else:
                self.best = self.a.get()
                self.seen = 1
            self.r.prepare(self.best)
    return Peak(top, 'stage', a, r)


# ------------------------------------------------------------------------------------------------
# local variables named like Verilog / SystemVerilog reserved words (legal Python identifiers) or like generated identifiers
def _kw_bit(py4hw, top, a, r):
    class Parity(py4hw.Logic):
        def __init__(self, parent, name, a, r):
            super().__init__(parent, name)
            self.a = self.addIn('a', a)
            self.r = self.addOut('r', r)
            self.count = 0

        def clock(self):
            bit = self.a.get() & 1
            self.count = self.count + bit
            self.r.prepare(self.count)
    return Parity(top, 'stage', a, r)


def _kw_time(py4hw, top, a, r):
    class Mix(py4hw.Logic):
        def __init__(self, parent, name, a, r):
            super().__init__(parent, name)
            self.a = self.addIn('a', a)
            self.r = self.addOut('r', r)

        def propagate(self):
            time = self.a.get() >> 1
            reg = time & 3
            self.r.put(time ^ reg)
    return Mix(top, 'stage', a, r)


def _kw_new(py4hw, top, a, r):
    class Track(py4hw.Logic):
        def __init__(self, parent, name, a, r):
            super().__init__(parent, name)
            self.a = self.addIn('a', a)
            self.r = self.addOut('r', r)
            self.old = 0

        def clock(self):
            new = self.a.get()
            bit_0 = new ^ self.old
            self.old = new
            self.r.prepare(bit_0)
    return Track(top, 'stage', a, r)


KWLOCALS = {'kwbit': _kw_bit, 'kwtime': _kw_time, 'kwnew': _kw_new}
CLOCKATTR = {'chg': _ca_chg, 'peak': _ca_peak}
SAMENAME = {'up': _stage_up, 'down': _stage_down, 'up2': _stage_up2, 'acc': _stage_acc, 'xor': _stage_xor}
# variants that must give the SAME text (identical source, different class objects): the control
SAMENAME_EQUAL = [('up', 'up2')]
IDENTS = {'saturate': _id_saturate, 'window': _id_window, 'hold': _id_hold, 'scale': _id_scale, 'ramp': _id_ramp, 'mask': _id_mask}
FAMILIES = {'same-name classes': (SAMENAME, SAMENAME_EQUAL), 'shared identifier names': (IDENTS, []),
            'attributes created by clock()': (CLOCKATTR, []), 'keyword-like local names': (KWLOCALS, [])}
VARIANTS = dict(SAMENAME)
VARIANTS.update(IDENTS)
VARIANTS.update(CLOCKATTR)
VARIANTS.update(KWLOCALS)


def samename(variant, W=8):
    import py4hw
    with contextlib.redirect_stdout(io.StringIO()):
        hw = py4hw.HWSystem()
        a, r = hw.wire('a', W), hw.wire('r', W)
        top = box_class('STop')(hw, 'top')
        top.addIn('a', a)
        top.addOut('r', r)
        st = VARIANTS[variant](py4hw, top, a, r)
    return dict(hw=hw, top=top, stage=st, inputs={'a': a}, r=r, variant=variant, W=W)


def samename_texts(d, gen=None):
    """(canon text of the hierarchy of top, canon text of the Stage module alone)"""
    import py4hw
    import c19_lib as L
    ids = [hex(id(o))[2:] for o in all_objs(d['hw'])]
    gen = gen if gen is not None else py4hw.VerilogGenerator(d['hw'])
    with contextlib.redirect_stdout(io.StringIO()):
        th = gen.getVerilogForHierarchy(d['top'], noInstanceNumberInTopEntity=True)
        tm = gen.getVerilog(d['stage'])
    return dict(hier=L.canon_text(th, ids), mod=L.canon_text(tm, ids), raw_hier=th)


if __name__ == '__main__':
    # reference for ONE variant in a fresh interpreter: nothing else has been generated in this process
    import sys, json
    d = samename(sys.argv[1], int(sys.argv[2]))
    t = samename_texts(d)
    print(json.dumps(dict(hier=t['hier'], mod=t['mod'])))
