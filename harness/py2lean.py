#!/venv/bin/python
"""
T1 translator: Python (py4hw leaf `propagate()` / `clock()` bodies, FSM `clock()` methods, small
static helper functions, `Wire.put/prepare`) -> Lean 4 definitions under lean/Py4hwV/Gen/.

The translation is deliberately literal: one Lean `do` block (in the `Id` monad, `let mut` for
every Python variable that is assigned) per Python method, statement for statement.  Nothing is
approximated: a construct outside the subset raises `Untranslatable(file, line, why)`, which the
checks treat as a broken tie (never as "skip").

Interface of a generated class `K` (namespace `Gen.K`):
  structure Cfg   -- values read from `self` but never assigned in the method: widths (`w_X` from
                  -- `self.X.getWidth()`), parameters (`p_N` from getParameterValue('N')), plain attributes
                  -- (`a_X`), presence flags (`has_X` from `self.X is None`), lists (`l_X`)
  structure St    -- attributes assigned in the method (the leaf's state); `init` from `__init__` constants
  structure In    -- one field per wire read with `.get()`
  structure Out   -- one `Option Int` per wire written with `.put()/.prepare()` (none = not written this call;
                  -- the value is *before* the wire mask, exactly what the Python passes to put/prepare);
                  -- `ol_X : Option (List Int)` for a list of wires written in a `for i in range(w)` loop
  def step (c : Cfg) (s : St) (i : In) : St × Out
  def dyn  (c : List Int) (s : List (List Int)) (i : List Int) : ...   -- positional, for the drivers
plus string tables `cfgNames/stNames/inNames/outNames` so the Python side knows the positions.
"""
import ast, sys, os, json, textwrap, hashlib

REPO = os.environ.get('PY4HW_REPO', '/repo')
LEAN_KEYWORDS = {'in', 'end', 'at', 'from', 'do', 'then', 'else', 'if', 'let', 'fun', 'have', 'show', 'with',
                 'match', 'open', 'local', 'def', 'theorem', 'instance', 'structure', 'class', 'where', 'by',
                 'for', 'return', 'mut', 'type', 'Type', 'Prop', 'Sort', 'import', 'namespace', 'section',
                 'variable', 'universe', 'example', 'axiom', 'abbrev', 'inductive', 'deriving', 'extends',
                 'private', 'protected', 'partial', 'unsafe', 'noncomputable', 'macro', 'syntax', 'notation',
                 'infix', 'prefix', 'postfix', 'set_option', 'attribute', 'export', 'using', 'calc', 'nomatch',
                 'this', 'assert', 'unless', 'try', 'catch', 'finally', 'throw', 'continue', 'break', 'true', 'false'}


class Untranslatable(Exception):
    def __init__(self, file, line, why):
        super().__init__(f'untranslatable {file}:{line}: {why}')
        self.file, self.line, self.why = file, line, why


def fld(n):
    return f'«{n}»' if n in LEAN_KEYWORDS else n


def lit(n):
    return f'({n})' if n < 0 else str(n)


class MethodTranslator:
    """translates one method body of one class"""

    def __init__(self, file, clsnode, methnode, src):
        self.file, self.cls, self.meth, self.src = file, clsnode, methnode, src
        self.cfg = {}     # name -> type ('int'|'bool'|'ilist')
        self.st = {}      # name -> type ('int'|'ilist')
        self.ins = []     # wire names read
        self.outs = []    # wire names written (scalar)
        self.outls = []   # wire-list names written in range loops
        self.inls = []    # wire-list names read by enumerate loops: list of (width, value)
        self.locals = []
        self.assigned_attrs = set()
        self.list_attrs = set()
        self.nondet = False
        self._scan()

    def bad(self, node, why):
        raise Untranslatable(self.file, getattr(node, 'lineno', self.meth.lineno), why)

    # ---- pre-scan -----------------------------------------------------------------------------
    def _scan(self):
        for n in ast.walk(self.meth):
            if isinstance(n, (ast.Assign, ast.AugAssign)):
                tgts = n.targets if isinstance(n, ast.Assign) else [n.target]
                for t in tgts:
                    if isinstance(t, ast.Attribute) and isinstance(t.value, ast.Name) and t.value.id == 'self':
                        self.assigned_attrs.add(t.attr)
                    elif isinstance(t, ast.Subscript) and self._is_self_attr(t.value):
                        self.assigned_attrs.add(t.value.attr)
                        self.list_attrs.add(t.value.attr)
                    elif isinstance(t, ast.Name):
                        if t.id not in self.locals:
                            self.locals.append(t.id)
                    else:
                        self.bad(n, 'assignment target')
            if isinstance(n, ast.Subscript) and self._is_self_attr(n.value):
                self.list_attrs.add(n.value.attr)
        for a in sorted(self.assigned_attrs):
            self.st[a] = 'ilist' if a in self.list_attrs else 'int'

    @staticmethod
    def _is_self_attr(n):
        return isinstance(n, ast.Attribute) and isinstance(n.value, ast.Name) and n.value.id == 'self'

    def _use_in(self, name):
        if name not in self.ins:
            self.ins.append(name)

    def _use_out(self, name):
        if name not in self.outs:
            self.outs.append(name)

    # ---- expressions --------------------------------------------------------------------------
    def as_int(self, e, loopenv=None):
        s, t = self.expr(e, loopenv)
        if t == 'bool':
            return f'(Py.ofBool {s})'
        if t != 'int':
            self.bad(e, f'expected int, got {t}')
        return s

    def as_bool(self, e, loopenv=None):
        s, t = self.expr(e, loopenv)
        if t == 'int':
            return f'(Py.truthy {s})'
        if t != 'bool':
            self.bad(e, f'expected bool, got {t}')
        return s

    def expr(self, e, loopenv=None):
        """returns (lean string, type)"""
        le = loopenv or {}
        if isinstance(e, ast.Constant):
            if isinstance(e.value, bool):
                return ('true' if e.value else 'false'), 'bool'
            if isinstance(e.value, int):
                return f'({lit(e.value)} : Int)', 'int'
            self.bad(e, f'constant {e.value!r}')
        if isinstance(e, ast.Name):
            if e.id in le:
                return le[e.id]
            if e.id in self.locals:
                return f'lv_{e.id}', 'int'
            if e.id in self.params:
                return f'lv_{e.id}', 'int'
            self.bad(e, f'name {e.id}')
        if isinstance(e, ast.Attribute):
            if self._is_self_attr(e):
                a = e.attr
                if a in self.st:
                    if self.st[a] != 'int':
                        self.bad(e, 'list attribute used as value')
                    return f'st_{a}', 'int'
                self.cfg[f'a_{a}'] = 'int'
                return f'c_.a_{a}', 'int'
            self.bad(e, 'attribute')
        if isinstance(e, ast.Call):
            return self.call(e, le)
        if isinstance(e, ast.Subscript):
            if self._is_self_attr(e.value):
                a = e.value.attr
                idx = self.as_int(e.slice, le)
                if a in self.st:
                    return f'(Py.lget st_{a} {idx})', 'int'
                self.cfg[f'l_{a}'] = 'ilist'
                return f'(Py.lget c_.l_{a} {idx})', 'int'
            self.bad(e, 'subscript')
        if isinstance(e, ast.BinOp):
            a = self.as_int(e.left, le)
            b = self.as_int(e.right, le)
            op = type(e.op)
            tbl = {ast.Add: '({} + {})', ast.Sub: '({} - {})', ast.Mult: '({} * {})',
                   ast.FloorDiv: '(Py.fdiv {} {})', ast.Mod: '(Py.fmod {} {})',
                   ast.BitAnd: '(Py.land {} {})', ast.BitOr: '(Py.lor {} {})', ast.BitXor: '(Py.lxor {} {})',
                   ast.LShift: '(Py.shlT {} {})', ast.RShift: '(Py.shrT {} {})'}
            if op not in tbl:
                self.bad(e, f'operator {op.__name__}')
            return tbl[op].format(a, b), 'int'
        if isinstance(e, ast.UnaryOp):
            if isinstance(e.op, ast.Invert):
                return f'(Py.lnot {self.as_int(e.operand, le)})', 'int'
            if isinstance(e.op, ast.USub):
                return f'(- {self.as_int(e.operand, le)})', 'int'
            if isinstance(e.op, ast.Not):
                return f'(!{self.as_bool(e.operand, le)})', 'bool'
            self.bad(e, 'unary operator')
        if isinstance(e, ast.Compare):
            if len(e.ops) != 1:
                self.bad(e, 'chained comparison')
            op = e.ops[0]
            l, r = e.left, e.comparators[0]
            if isinstance(op, (ast.Is, ast.IsNot)):
                if isinstance(r, ast.Constant) and r.value is None and self._is_self_attr(l):
                    self.cfg[f'has_{l.attr}'] = 'bool'
                    s = f'c_.has_{l.attr}'
                    return (f'(!{s})' if isinstance(op, ast.Is) else s), 'bool'
                self.bad(e, 'is / is not')
            a = self.as_int(l, le)
            b = self.as_int(r, le)
            tbl = {ast.Eq: '({} == {})', ast.NotEq: '({} != {})', ast.Lt: '(decide ({} < {}))',
                   ast.LtE: '(decide ({} ≤ {}))', ast.Gt: '(decide ({} > {}))', ast.GtE: '(decide ({} ≥ {}))'}
            if type(op) not in tbl:
                self.bad(e, 'comparison operator')
            return tbl[type(op)].format(a, b), 'bool'
        if isinstance(e, ast.BoolOp):
            # only as a condition (both Python and the model then only look at truthiness)
            parts = [self.as_bool(v, le) for v in e.values]
            j = ' && ' if isinstance(e.op, ast.And) else ' || '
            return '(' + j.join(parts) + ')', 'bool'
        if isinstance(e, ast.IfExp):
            c = self.as_bool(e.test, le)
            return f'(if {c} then {self.as_int(e.body, le)} else {self.as_int(e.orelse, le)})', 'int'
        self.bad(e, f'expression {type(e).__name__}')

    def call(self, e, le):
        f = e.func
        # self.X.get() / self.X.getWidth() / item.get() / item.getWidth()
        if isinstance(f, ast.Attribute) and f.attr in ('get', 'getWidth') and not e.args:
            tgt = f.value
            if self._is_self_attr(tgt):
                w = tgt.attr
                if f.attr == 'get':
                    self._use_in(w)
                    return f'i_.{fld(w)}', 'int'
                self.cfg[f'w_{w}'] = 'int'
                return f'c_.w_{w}', 'int'
            if isinstance(tgt, ast.Name) and tgt.id in le and le[tgt.id][1] == 'wire':
                base = le[tgt.id][0]
                return (f'{base}.2' if f.attr == 'get' else f'{base}.1'), 'int'
            self.bad(e, 'get()/getWidth() target')
        if isinstance(f, ast.Attribute) and self._is_self_attr(f) is False and isinstance(f.value, ast.Name) \
                and f.value.id == 'self' and f.attr == 'getParameterValue':
            pass
        if isinstance(f, ast.Attribute) and isinstance(f.value, ast.Name) and f.value.id == 'self' \
                and f.attr == 'getParameterValue':
            if len(e.args) == 1 and isinstance(e.args[0], ast.Constant) and isinstance(e.args[0].value, str):
                n = e.args[0].value
                self.cfg[f'p_{n}'] = 'int'
                return f'c_.p_{n}', 'int'
            self.bad(e, 'getParameterValue argument')
        if isinstance(f, ast.Name) and f.id == 'ord' and len(e.args) == 1:
            a = e.args[0]
            if isinstance(a, ast.Constant) and isinstance(a.value, str) and len(a.value) == 1:
                return f'({ord(a.value)} : Int)', 'int'
            # ord(self.msg[e]) : the string attribute is exported as its list of code points
            if isinstance(a, ast.Subscript) and self._is_self_attr(a.value):
                return self.expr(a, le)
            self.bad(e, 'ord argument')
        if isinstance(f, ast.Name) and f.id == 'len' and len(e.args) == 1 and self._is_self_attr(e.args[0]):
            a = e.args[0].attr
            if a in self.st:
                return f'(Int.ofNat st_{a}.length)', 'int'
            self.cfg[f'l_{a}'] = 'ilist'
            return f'(Int.ofNat c_.l_{a}.length)', 'int'
        # IntegerHelper.c2_to_signed / signed_to_c2 (possibly qualified py4hw.IntegerHelper.x)
        if isinstance(f, ast.Attribute) and f.attr in ('c2_to_signed', 'signed_to_c2') and len(e.args) == 2:
            a = self.as_int(e.args[0], le)
            b = self.as_int(e.args[1], le)
            return f'(Gen.IntegerHelper.{f.attr} {a} {b})', 'int'
        if isinstance(f, ast.Attribute) and f.attr == 'randint':
            self.nondet = True
            return '(0 : Int) /- random.randint: nondeterministic branch, never compared -/', 'int'
        self.bad(e, f'call {ast.unparse(f)}')

    # ---- statements ---------------------------------------------------------------------------
    def stmts(self, body, ind):
        out = []
        for s in body:
            out += self.stmt(s, ind)
        if not out:
            out = [ind + 'pure ()']
        return out

    def stmt(self, s, ind):
        if isinstance(s, ast.Expr):
            v = s.value
            if isinstance(v, ast.Constant) and isinstance(v.value, str):
                return []  # docstring
            if isinstance(v, ast.Call):
                f = v.func
                if isinstance(f, ast.Name) and f.id == 'print':
                    return []
                if isinstance(f, ast.Attribute) and f.attr in ('put', 'prepare') and len(v.args) == 1 \
                        and self._is_self_attr(f.value):
                    w = f.value.attr
                    self._use_out(w)
                    return [f'{ind}o_{w} := some {self.as_int(v.args[0])}']
            self.bad(s, 'expression statement')
        if isinstance(s, (ast.Import, ast.ImportFrom, ast.Pass)):
            return []
        if isinstance(s, ast.Assign):
            if len(s.targets) != 1:
                self.bad(s, 'multiple targets')
            return self.assign(s.targets[0], self.as_int(s.value), s, ind)
        if isinstance(s, ast.AugAssign):
            cur = self.expr(s.target)[0] if not isinstance(s.target, ast.Subscript) else None
            if cur is None:
                self.bad(s, 'augmented subscript')
            fake = ast.BinOp(left=s.target, op=s.op, right=s.value)
            ast.copy_location(fake, s)
            return self.assign(s.target, self.as_int(fake), s, ind)
        if isinstance(s, ast.If):
            c = self.as_bool(s.test)
            out = [f'{ind}if {c} then'] + self.stmts(s.body, ind + '  ')
            if s.orelse:
                if len(s.orelse) == 1 and isinstance(s.orelse[0], ast.If):
                    sub = self.stmt(s.orelse[0], ind)
                    sub[0] = f'{ind}else ' + sub[0].lstrip()
                    out += sub
                else:
                    out += [f'{ind}else'] + self.stmts(s.orelse, ind + '  ')
            return out
        if isinstance(s, ast.Return):
            if not self.is_function:
                self.bad(s, 'return in method')
            return [f'{ind}return {self.as_int(s.value)}']
        if isinstance(s, ast.For):
            return self.forloop(s, ind)
        self.bad(s, f'statement {type(s).__name__}')

    def assign(self, t, val, s, ind):
        if isinstance(t, ast.Name):
            return [f'{ind}lv_{t.id} := {val}']
        if self._is_self_attr(t):
            if self.st.get(t.attr) != 'int':
                self.bad(s, 'assignment to list attribute')
            return [f'{ind}st_{t.attr} := {val}']
        if isinstance(t, ast.Subscript) and self._is_self_attr(t.value):
            a = t.value.attr
            return [f'{ind}st_{a} := Py.lset st_{a} {self.as_int(t.slice)} {val}']
        self.bad(s, 'assignment target')

    def forloop(self, s, ind):
        it = s.iter
        # pattern A/B: for i in range(a[,b]):
        if isinstance(it, ast.Call) and isinstance(it.func, ast.Name) and it.func.id == 'range' \
                and isinstance(s.target, ast.Name) and 1 <= len(it.args) <= 2:
            lo = '(0 : Int)' if len(it.args) == 1 else self.as_int(it.args[0])
            hi = self.as_int(it.args[-1])
            iv = s.target.id
            le = {iv: (f'(Int.ofNat lp_{iv})', 'int')}
            rng = f'(List.range\' (Int.toNat {lo}) (Int.toNat {hi} - Int.toNat {lo}))'
            # A: single statement self.L[i].put(e)  -> list output
            if len(s.body) == 1 and isinstance(s.body[0], ast.Expr) and isinstance(s.body[0].value, ast.Call):
                c = s.body[0].value
                f = c.func
                if isinstance(f, ast.Attribute) and f.attr in ('put', 'prepare') and isinstance(f.value, ast.Subscript) \
                        and self._is_self_attr(f.value.value) and isinstance(f.value.slice, ast.Name) \
                        and f.value.slice.id == iv:
                    L = f.value.value.attr
                    if L not in self.outls:
                        self.outls.append(L)
                    body = self.as_int(c.args[0], le)
                    return [f'{ind}ol_{L} := some ({rng}.map (fun lp_{iv} => {body}))']
            # B: body = assignments to locals only -> foldl
            vars_ = []
            for b in s.body:
                if not (isinstance(b, ast.Assign) and len(b.targets) == 1 and isinstance(b.targets[0], ast.Name)):
                    self.bad(b, 'loop body statement')
                if b.targets[0].id not in vars_:
                    vars_.append(b.targets[0].id)
            return self._fold(s, ind, rng, f'lp_{iv}', le, vars_)
        # pattern C: for idx, item in enumerate(self.ins):
        if isinstance(it, ast.Call) and isinstance(it.func, ast.Name) and it.func.id == 'enumerate' \
                and len(it.args) == 1 and self._is_self_attr(it.args[0]) and isinstance(s.target, ast.Tuple) \
                and len(s.target.elts) == 2:
            L = it.args[0].attr
            if L not in self.inls:
                self.inls.append(L)
            idx, item = s.target.elts[0].id, s.target.elts[1].id
            le = {item: (f'lp_{item}', 'wire')}
            vars_ = []
            for b in s.body:
                if not (isinstance(b, ast.Assign) and len(b.targets) == 1 and isinstance(b.targets[0], ast.Name)):
                    self.bad(b, 'loop body statement')
                if b.targets[0].id not in vars_:
                    vars_.append(b.targets[0].id)
            for n in ast.walk(ast.Module(body=s.body, type_ignores=[])):
                if isinstance(n, ast.Name) and n.id == idx:
                    self.bad(s, 'enumerate index used')
            return self._fold(s, ind, f'il_.{fld(L)}', f'lp_{item}', le, vars_)
        self.bad(s, 'for loop shape')

    def _fold(self, s, ind, lst, itername, le, vars_):
        if len(vars_) != 1:
            self.bad(s, 'loop must update exactly one local')
        v = vars_[0]
        le2 = dict(le)
        le2[v] = ('acc_', 'int')
        lets = []
        for b in s.body:
            lets.append(f'let acc_ := {self.as_int(b.value, le2)}; ')
        return [f'{ind}lv_{v} := {lst}.foldl (fun acc_ {itername} => {"".join(lets)}acc_) lv_{v}']


def find_class(tree, name):
    for n in tree.body:
        if isinstance(n, ast.ClassDef) and n.name == name:
            return n
    return None


def init_constants(clsnode):
    """`self.X = <int constant>` assignments in __init__ (last one wins), plus symbolic inits."""
    res = {}
    for m in clsnode.body:
        if isinstance(m, ast.FunctionDef) and m.name == '__init__':
            for n in ast.walk(m):
                if isinstance(n, ast.Assign) and len(n.targets) == 1:
                    t = n.targets[0]
                    if isinstance(t, ast.Attribute) and isinstance(t.value, ast.Name) and t.value.id == 'self':
                        if isinstance(n.value, ast.Constant) and isinstance(n.value.value, int) \
                                and not isinstance(n.value.value, bool):
                            res[t.attr] = n.value.value
                        elif t.attr in res:
                            del res[t.attr]
    return res


def translate_class(file, clsname, methname, leanname=None):
    path = os.path.join(REPO, file)
    src = open(path).read()
    tree = ast.parse(src)
    cls = find_class(tree, clsname)
    if cls is None:
        raise Untranslatable(file, 0, f'class {clsname} not found')
    meth = None
    for m in cls.body:
        if isinstance(m, ast.FunctionDef) and m.name == methname:
            meth = m
    if meth is None:
        raise Untranslatable(file, cls.lineno, f'method {clsname}.{methname} not found')
    tr = MethodTranslator(file, cls, meth, src)
    tr.is_function = False
    tr.params = []
    body = tr.stmts(meth.body, '  ')
    inits = init_constants(cls)
    name = leanname or clsname
    cfg = sorted(tr.cfg.items())
    st = sorted(tr.st.items())
    L = []
    L.append(f'/- generated from {file}:{meth.lineno}  {clsname}.{methname} -/')
    L.append(f'namespace Gen.{name}')
    tyname = {'int': 'Int', 'bool': 'Bool', 'ilist': 'List Int'}
    L.append('structure Cfg where')
    L.append('  mk ::')
    for k, t in cfg:
        L.append(f'  {fld(k)} : {tyname[t]}')
    L.append('deriving Repr, DecidableEq, Inhabited')
    L.append('structure St where')
    L.append('  mk ::')
    for k, t in st:
        L.append(f'  {fld(k)} : {tyname[t]}')
    L.append('deriving Repr, DecidableEq, Inhabited')
    L.append('structure In where')
    L.append('  mk ::')
    for k in tr.ins:
        L.append(f'  {fld(k)} : Int')
    L.append('deriving Repr, DecidableEq, Inhabited')
    L.append('structure InL where')
    L.append('  mk ::')
    for k in tr.inls:
        L.append(f'  {fld(k)} : List (Int × Int)')
    L.append('deriving Repr, DecidableEq, Inhabited')
    L.append('structure Out where')
    L.append('  mk ::')
    for k in tr.outs:
        L.append(f'  {fld(k)} : Option Int')
    for k in tr.outls:
        L.append(f'  {fld("ol_" + k)} : Option (List Int)')
    L.append('deriving Repr, DecidableEq, Inhabited')
    # init: only if every int state attr has a constant initialiser
    if all((t == 'int' and k in inits) for k, t in st):
        L.append('def init : St := ⟨' + ', '.join(lit(inits[k]) for k, t in st) + '⟩')
    L.append(f'def step (c_ : Cfg) (s_ : St) (i_ : In) (il_ : InL) : St × Out := Id.run do')
    for k, t in st:
        L.append(f'  let mut st_{k} := s_.{fld(k)}')
    for k in tr.locals:
        L.append(f'  let mut lv_{k} : Int := 0')
    for k in tr.outs:
        L.append(f'  let mut o_{k} : Option Int := none')
    for k in tr.outls:
        L.append(f'  let mut ol_{k} : Option (List Int) := none')
    L += body
    L.append('  return (⟨' + ', '.join(f'st_{k}' for k, t in st) + '⟩, ⟨'
             + ', '.join([f'o_{k}' for k in tr.outs] + [f'ol_{k}' for k in tr.outls]) + '⟩)')
    # positional wrapper for drivers
    L.append('def cfgNames : List String := [' + ', '.join(f'"{k}"' for k, t in cfg) + ']')
    L.append('def stNames : List String := [' + ', '.join(f'"{k}"' for k, t in st) + ']')
    L.append('def inNames : List String := [' + ', '.join(f'"{k}"' for k in tr.ins) + ']')
    L.append('def inlNames : List String := [' + ', '.join(f'"{k}"' for k in tr.inls) + ']')
    L.append('def outNames : List String := [' + ', '.join(f'"{k}"' for k in tr.outs) + ']')
    L.append('def outlNames : List String := [' + ', '.join(f'"{k}"' for k in tr.outls) + ']')

    def getter(t, idx, src_):
        if t == 'int':
            return f'((({src_}).getD {idx} []).headD 0)'
        if t == 'bool':
            return f'(((({src_}).getD {idx} []).headD 0) != 0)'
        return f'(({src_}).getD {idx} [])'
    L.append('/-- positional interface: every cfg/state entry is a list of ints (scalars are singletons) -/')
    L.append('def dyn (c : List (List Int)) (s : List (List Int)) (i : List Int) (il : List (List (Int × Int))) :'
             ' List (List Int) × List (Option Int) × List (Option (List Int)) :=')
    L.append('  let c_ : Cfg := ⟨' + ', '.join(getter(t, n, 'c') for n, (k, t) in enumerate(cfg)) + '⟩')
    L.append('  let s_ : St := ⟨' + ', '.join(getter(t, n, 's') for n, (k, t) in enumerate(st)) + '⟩')
    L.append('  let i_ : In := ⟨' + ', '.join(f'(i.getD {n} 0)' for n, k in enumerate(tr.ins)) + '⟩')
    L.append('  let il_ : InL := ⟨' + ', '.join(f'(il.getD {n} [])' for n, k in enumerate(tr.inls)) + '⟩')
    L.append('  let r := step c_ s_ i_ il_')
    L.append('  ([' + ', '.join((f'[r.1.{fld(k)}]' if t == 'int' else f'r.1.{fld(k)}') for k, t in st) + '], ['
             + ', '.join(f'r.2.{fld(k)}' for k in tr.outs) + '], ['
             + ', '.join(f'r.2.{fld("ol_" + k)}' for k in tr.outls) + '])')
    L.append(f'end Gen.{name}')
    meta = dict(file=file, cls=clsname, method=methname, lean=name, line=meth.lineno,
                cfg=[[k, t] for k, t in cfg], st=[[k, t] for k, t in st], ins=tr.ins, inls=tr.inls,
                outs=tr.outs, outls=tr.outls, nondet=tr.nondet, init={k: inits.get(k) for k, t in st},
                src_sha=hashlib.sha256(ast.get_source_segment(src, meth).encode()).hexdigest()[:16])
    return '\n'.join(L), meta


def translate_function(file, qualname, leanname):
    """plain function / staticmethod with int parameters and a returned int"""
    path = os.path.join(REPO, file)
    src = open(path).read()
    tree = ast.parse(src)
    parts = qualname.split('.')
    node = tree
    for p in parts:
        found = None
        for n in node.body:
            if isinstance(n, (ast.ClassDef, ast.FunctionDef)) and n.name == p:
                found = n
        if found is None:
            raise Untranslatable(file, 0, f'{qualname} not found')
        node = found
    meth = node
    cls = ast.ClassDef(name='_', body=[], bases=[], keywords=[], decorator_list=[])
    tr = MethodTranslator(file, cls, meth, src)
    tr.is_function = True
    tr.params = [a.arg for a in meth.args.args if a.arg != 'self']
    selfish = [a.arg for a in meth.args.args if a.arg == 'self']
    tr.locals = [l for l in tr.locals if l not in tr.params]
    body = tr.stmts(meth.body, '  ')
    L = [f'/- generated from {file}:{meth.lineno}  {qualname} -/']
    sig = ' '.join(f'(p_{p} : Int)' for p in tr.params)
    extra = ''
    if selfish:
        # method on an object whose int attributes are passed as a config (e.g. Wire.put reads self.width)
        extra = ' '.join(f'({k} : Int)' for k in sorted(tr.cfg))
    L.append(f'def {leanname} {extra} {sig} : Int := Id.run do'.replace('  ', ' '))
    for p in tr.params:
        L.append(f'  let mut lv_{p} := p_{p}')
    for k in tr.locals:
        L.append(f'  let mut lv_{k} : Int := 0')
    L += body
    if not any(isinstance(n, ast.Return) for n in ast.walk(meth)):
        raise Untranslatable(file, meth.lineno, 'function without return')
    # a do block whose last statement is an `if` with returns in both arms still needs a tail value
    L.append('  return 0 /- unreachable tail (Python would return None) -/')
    meta = dict(file=file, qualname=qualname, lean=leanname, params=tr.params, line=meth.lineno,
                src_sha=hashlib.sha256(ast.get_source_segment(src, meth).encode()).hexdigest()[:16])
    txt = '\n'.join(L).replace('c_.', '')
    return txt, meta


def translate_wire_method(file, clsname, methname, leanname, result_attr):
    """`Wire.put` / `Wire.prepare`: methods whose effect is `self.<result_attr> = f(self.width, val)`.
       The test `self in Wire.prepared` (the "already prepared" branch of prepare) becomes the Int parameter
       `p_already` (1 = the wire is already in the prepared list), so code placed in that branch is translated too.
       Generated: def leanname (a_width : Int) (p_already : Int)? (p_val : Int) : Int := value finally stored in result_attr"""
    path = os.path.join(REPO, file)
    src = open(path).read()
    tree = ast.parse(src)
    cls = find_class(tree, clsname)
    meth = [m for m in cls.body if isinstance(m, ast.FunctionDef) and m.name == methname][0]
    meth = ast.parse(ast.get_source_segment(src, meth).replace('\r', '')).body[0] if False else meth
    import copy
    m2 = copy.deepcopy(meth)
    uses_already = [False]

    class Rw(ast.NodeTransformer):
        def visit_Compare(self, n):
            if len(n.ops) == 1 and isinstance(n.ops[0], ast.In) and 'prepared' in ast.unparse(n.comparators[0]) \
                    and isinstance(n.left, ast.Name) and n.left.id == 'self':
                uses_already[0] = True
                return ast.copy_location(ast.Compare(left=ast.Name(id='already', ctx=ast.Load()), ops=[ast.NotEq()],
                                                     comparators=[ast.Constant(value=0)]), n)
            return self.generic_visit(n)

        def visit_Assign(self, n):
            t = n.targets[0]
            if MethodTranslator._is_self_attr(t) and t.attr == result_attr:
                return ast.copy_location(ast.Assign(targets=[ast.Name(id='res_', ctx=ast.Store())], value=n.value), n)
            return self.generic_visit(n)

        def visit_Return(self, n):
            if n.value is None:
                return ast.copy_location(ast.Return(value=ast.Name(id='res_', ctx=ast.Load())), n)
            return n

        def visit_Expr(self, n):
            if 'prepared.append' in ast.unparse(n):
                return None
            return n
    m2 = Rw().visit(m2)
    ast.fix_missing_locations(m2)
    tr = MethodTranslator(file, cls, m2, src)
    tr.is_function = True
    tr.params = [a.arg for a in meth.args.args if a.arg != 'self'] + (['already'] if uses_already[0] else [])
    tr.locals = [l for l in tr.locals if l not in tr.params]
    if 'res_' not in tr.locals:
        raise Untranslatable(file, meth.lineno, f'{clsname}.{methname} does not assign self.{result_attr}')
    body = tr.stmts(m2.body, '  ')
    cfgs = sorted(tr.cfg)
    params = (['already'] if uses_already[0] else []) + [a.arg for a in meth.args.args if a.arg != 'self']
    L = [f'/- generated from {file}:{meth.lineno}  {clsname}.{methname} (value stored in self.{result_attr}; '
         f'p_already = `self in Wire.prepared`) -/']
    L.append(f'def {leanname} ' + ' '.join(f'({k} : Int)' for k in cfgs) + ' '
             + ' '.join(f'(p_{p} : Int)' for p in params) + ' : Int := Id.run do')
    for p_ in params:
        L.append(f'  let mut lv_{p_} := p_{p_}')
    for k in tr.locals:
        L.append(f'  let mut lv_{k} : Int := 0')
    L += body
    L.append('  return lv_res_')
    txt = '\n'.join(L).replace('c_.', '')
    meta = dict(file=file, cls=clsname, method=methname, lean=leanname, cfg=cfgs, params=params, line=meth.lineno,
                src_sha=hashlib.sha256(ast.get_source_segment(src, meth).encode()).hexdigest()[:16])
    return txt, meta


# ------------------------------------------------------------------------------------------------
# what is translated, grouped into generated modules
LEAF_TARGETS = [
    ('py4hw/logic/bitwise.py', c, 'propagate') for c in
    ['And2', 'Or2', 'Not', 'Buf', 'Bit', 'BitsLSBF', 'BitsMSBF', 'Constant', 'Mux2', 'Repeat', 'Range',
     'ShiftLeftConstant', 'ShiftRightConstant', 'RotateLeftConstant', 'RotateRightConstant',
     'ConcatenateMSBF', 'ConcatenateLSBF']
] + [
    ('py4hw/logic/arithmetic.py', c, 'propagate') for c in
    ['AddCarryIn', 'Sub', 'Mul', 'SignedMul', 'Div', 'Mod', 'SignExtend', 'ZeroExtend']
] + [
    ('py4hw/logic/storage.py', 'Latch', 'propagate'),
    ('py4hw/logic/storage.py', 'AsynchronousMemory', 'propagate'),
    ('py4hw/logic/clock.py', 'GatedClock', 'propagate'),
    ('py4hw/logic/storage.py', 'Reg', 'clock'),
    ('py4hw/logic/storage.py', 'SynchronousMemory', 'clock'),
    ('py4hw/logic/clock.py', 'AutoReset', 'clock'),
    ('py4hw/logic/simulation.py', 'Sequence', 'clock'),
]
FSM_TARGETS = [
    ('py4hw/logic/protocol/uart/serdes.py', 'UARTSerializer', 'clock'),
    ('py4hw/logic/protocol/uart/serdes.py', 'UARTDeserializer', 'clock'),
    ('py4hw/logic/protocol/uart/clock.py', 'ClockSyncFSM', 'clock'),
    ('py4hw/logic/protocol/uart/sequencer.py', 'MsgSequencer', 'clock'),
    ('py4hw/emulation/HILWrapperUART.py', 'CMDRequest', 'clock'),
    ('py4hw/emulation/HILWrapperUART.py', 'CMDResponse', 'clock'),
    ('py4hw/emulation/vitiswrapping.py', 'Axi2ClkFSM', 'clock'),
    ('py4hw/emulation/vitiswrapping.py', 'VitisKernelFSM', 'clock'),
]
FUNC_TARGETS = [
    ('py4hw/helper.py', 'IntegerHelper.signed_to_c2', 'Gen.IntegerHelper.signed_to_c2'),
    ('py4hw/helper.py', 'IntegerHelper.c2_to_signed', 'Gen.IntegerHelper.c2_to_signed'),
    ('py4hw/helper.py', 'signExtend', 'Gen.Helper.signExtend'),
]
WIRE_TARGETS = [
    ('py4hw/base.py', 'Wire', 'put', 'Gen.Wire.put', 'value'),
    ('py4hw/base.py', 'Wire', 'prepare', 'Gen.Wire.prepare', 'next'),
    ('py4hw/base.py', 'BidirWire', 'put', 'Gen.BidirWire.put', 'value'),
    ('py4hw/base.py', 'BidirWire', 'prepare', 'Gen.BidirWire.prepare', 'next'),
]

HEADER = '''/-
  GENERATED by /verif/harness/py2lean.py from /repo's working tree -- do not edit.
  Regenerated (and re-checked) on every run of ./check.
-/
'''
OPTS = 'set_option linter.unusedVariables false\n'


def generate(outdir):
    """returns (ok, metas, errors); writes files only when their content changed"""
    metas = {'classes': [], 'functions': [], 'wire': []}
    errors = []
    funcs = []
    for file, q, ln in FUNC_TARGETS:
        try:
            t, m = translate_function(file, q, ln)
            funcs.append(t)
            metas['functions'].append(m)
        except Untranslatable as e:
            errors.append(str(e))
    wires = []
    for file, c, m_, ln, attr in WIRE_TARGETS:
        try:
            t, m = translate_wire_method(file, c, m_, ln, attr)
            wires.append(t)
            metas['wire'].append(m)
        except Untranslatable as e:
            errors.append(str(e))
    leaves, fsms = [], []
    names = []
    for group, acc in ((LEAF_TARGETS, leaves), (FSM_TARGETS, fsms)):
        for file, c, m_ in group:
            try:
                t, m = translate_class(file, c, m_)
                acc.append(t)
                m['group'] = 'leaf' if acc is leaves else 'fsm'
                metas['classes'].append(m)
                names.append(c)
            except Untranslatable as e:
                errors.append(str(e))
    files = {
        'Helpers.lean': HEADER + 'import Py4hwV.Core.PyInt\n' + OPTS + '\n' + '\n\n'.join(funcs) + '\n\n' + '\n\n'.join(wires) + '\n',
        'Leaves.lean': HEADER + 'import Py4hwV.Gen.Helpers\n' + OPTS + '\n' + '\n\n'.join(leaves) + '\n',
        'Fsm.lean': HEADER + 'import Py4hwV.Gen.Helpers\n' + OPTS + '\n' + '\n\n'.join(fsms) + '\n',
    }
    # dispatcher for the drivers
    disp = [HEADER + 'import Py4hwV.Gen.Leaves', 'import Py4hwV.Gen.Fsm', OPTS, 'namespace Gen',
            'def dynStep (k : String) (c : List (List Int)) (s : List (List Int)) (i : List Int) '
            '(il : List (List (Int × Int))) : Option (List (List Int) × List (Option Int) × List (Option (List Int))) :=',
            '  match k with']
    for n in names:
        disp.append(f'  | "{n}" => some (Gen.{n}.dyn c s i il)')
    disp.append('  | _ => none')
    disp.append('def classNames : List String := [' + ', '.join(f'"{n}"' for n in names) + ']')
    disp.append('end Gen')
    files['Dispatch.lean'] = '\n'.join(disp) + '\n'
    # per-property extension targets: harness/targets.d/<Module>.json ->  Gen/<Module>.lean
    #   {"functions": [[file, qualname, leanname], ...], "classes": [[file, class, method, leanname?], ...]}
    tdir = os.path.join(os.path.dirname(os.path.abspath(__file__)), 'targets.d')
    metas['ext'] = {}
    if os.path.isdir(tdir):
        for fn in sorted(os.listdir(tdir)):
            if not fn.endswith('.json'):
                continue
            modname = fn[:-5]
            spec = json.load(open(os.path.join(tdir, fn)))
            parts, em = [], {'functions': [], 'classes': []}
            for t in spec.get('functions', []):
                try:
                    tx, m = translate_function(t[0], t[1], t[2])
                    parts.append(tx)
                    em['functions'].append(m)
                except Untranslatable as e:
                    errors.append(str(e))
            for t in spec.get('classes', []):
                try:
                    tx, m = translate_class(t[0], t[1], t[2], t[3] if len(t) > 3 else None)
                    parts.append(tx)
                    em['classes'].append(m)
                except Untranslatable as e:
                    errors.append(str(e))
            files[modname + '.lean'] = HEADER + 'import Py4hwV.Gen.Helpers\n' + OPTS + '\n' + '\n\n'.join(parts) + '\n'
            metas['ext'][modname] = em
    os.makedirs(outdir, exist_ok=True)
    changed = []
    for fn, txt in files.items():
        p = os.path.join(outdir, fn)
        old = open(p).read() if os.path.exists(p) else None
        if old != txt:
            open(p, 'w').write(txt)
            changed.append(fn)
    mp = os.path.join(outdir, 'meta.json')
    mt = json.dumps(metas, indent=1, sort_keys=True)
    if not os.path.exists(mp) or open(mp).read() != mt:
        open(mp, 'w').write(mt)
    return (not errors), metas, errors, changed


if __name__ == '__main__':
    out = sys.argv[1] if len(sys.argv) > 1 else os.path.join(os.path.dirname(__file__), '..', 'lean', 'Py4hwV', 'Gen')
    ok, metas, errors, changed = generate(out)
    for e in errors:
        print(e)
    print('changed:', changed)
    sys.exit(0 if ok else 3)
