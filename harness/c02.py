"""C02 - Python-to-Verilog transpilation preserves the behaviour of behavioural blocks.
See DESIGN.md section 5 C02, lean/Py4hwV/Props/C02.lean, notes/C02.md.

Three-way differential per behavioural class instance (repo classes + seeded generated classes):
    real py4hw simulation of the Python method (HWSystem + Simulator.clk(1))           [implementation, observed]
  = Tp.exec (lean/Py4hwV/Transpile/PySem.lean) on the method-as-data (harness/py2syntax.py) [model of the Python side]
  = V semantics (lean/Drv/V.lean) of the REAL transpiler's emitted text (harness/vparse.py) [implementation, emitted]
plus  Tp.trModule (model of the translation, Transpile/Model.lean) == parse(real text) on the proved fragment.
The property's oracle = "simulator value == known Verilog value, for every port and state variable, on every cycle of an
input sequence that stays in the domain"; the domain flag is Tp.execD evaluated by the driver.
"""
import os, sys, io, contextlib, importlib, importlib.util, tempfile, shutil, json, ast, re
from common import *
import common
import vparse, vsim, py2syntax, c02_gen

OBLIGATIONS = [
    # the generated tables (real VerilogOperator.getOp / toVerilog) are the ones the proofs assume
    'C02.ops_table', 'C02.assign_table', 'C02.paren_table', 'C02.paren_pairs_table',
    # Python side
    'C02.evalD_eval', 'C02.execD_exec', 'C02.evalD_inDom',
    # expression level
    'C02.binop_sound', 'C02.selfW_trE', 'C02.trE_both', 'C02.trE_sound', 'C02.trE_cond_sound', 'C02.transpile_expr_sound',
    'C02.transpile_port_assign_sound', 'C02.transpile_cond_sound', 'C02.val_ite',
    # statement / cycle / history level
    'C02.later_noop', 'C02.trS_sound', 'C02.cycle_sound', 'C02.transpile_seq_sound_partial', 'C02.fstore_laws', 'C02.agree0', 'C02.crel0', 'C02.okS0',
    'C02.refuse_or_sound', 'C02.refuse_complete',
    # combinational bodies
    'C02.comb_sound', 'C02.transpile_sound_all', 'C02.transpile_comb_sound_all', 'C02.supported_comb', 'C02.crelC', 'C02.okC0',
    # power-up
    'C02.cycle_soundB', 'C02.runD_mono', 'C02.execD_masked', 'C02.powerup_crel', 'C02.init_list_last', 'C02.initial_block_sound', 'C02.trModule_items',
    'C02.transpile_seq_sound_from_powerup', 'C02.powerup_safe_of_noOutRead', 'C02.powerup0', 'C02.powerup_crel_full',
    'C02.transpile_sound_from_powerup_all', 'C02.init_outputs_zero', 'C02.initial_block_establishes_powerup',
    # the interpreter actually run on the emitted text (Verilog/Run.lean): store laws, execution congruence, scheduling, sessions
    'C02.store_wok', 'C02.store_write_laws', 'C02.evalAssign_norm', 'C02.expr_congr', 'C02.exec_congr', 'C02.applyQ_congr',
    'C02.cycle_single_posedge', 'C02.trS_simple', 'C02.run_cycle', 'C02.drive_congr', 'C02.run_history', 'C02.fs_laws',
    'C02.transpile_seq_sound_run_partial',
    # negative results (each replayed on the real transpiler by the witnesses)
    'C02.or_value_counterexample', 'C02.narrow_compare_counterexample', 'C02.cmp_rhs_unparenthesised_counterexample',
    'C02.guard_fallthrough_counterexample', 'C02.uninit_output_counterexample', 'C02.bit31_counterexample',
]

DRIVER = 'Drv/C02.lean'
VDRIVER = 'Drv/C02V.lean'     # Drv/V.lean whose `begin` drives the inputs with 0 before the first settle (Transpile/VBegin0.lean)


class VBatch0(vsim.VBatch):
    def run(self):
        if not self.jobs:
            return []
        out = run_driver(VDRIVER, self.lines)
        res = []
        for jb in self.jobs:
            ls, os_ = self.lines[jb['start']:jb['end']], out[jb['start']:jb['end']]
            trace = []
            for l, o in zip(ls, os_):
                if l.startswith('gets '):
                    vals = o.split(',')
                    trace.append({n: (v if v == 'x' else int(v)) for n, v in zip(jb['outputs'], vals)})
            res.append(dict(label=jb['label'], parse=os_[0], begin=os_[1], errors=os_[-1], trace=trace))
        self.lines, self.jobs = [], []
        return res


# proposals for /verif/known_findings.json (the integrator merges them); used locally until they are listed there.
# class_expr = one disjunct of the complement of `Tp.supported` (hypothesis of C02.transpile_*_sound) each.
PROPOSED_FINDINGS = [
    {"id": "C02-ternary-not-verilog", "property": "C02", "status": "fixed", "fixed_by": "760fbc8", "anchor": "py4hw/transpilation/python2verilog_transpilation.py:356",
     "class_expr": "'ternary' in r.get('reasons', []) and r.get('kind') in ('unparseable','mismatch')",
     "witness": {"src": "y = 1 if self.a.get() > 2 else 2; self.r.prepare(y)"},
     "what": "a ternary `x if c else y` is accepted and emitted as the statement text `y=if (c) begin 1 end else begin 2 end;` (not Verilog); "
             "ReplaceIf.visit_IfExp fires before ReplaceIfExp can produce `?:`"},
    {"id": "C02-guarded-case", "property": "C02", "status": "fixed", "fixed_by": "edb114b", "anchor": "py4hw/transpilation/python2verilog_transpilation.py:389",
     "class_expr": "'case-guard' in r.get('reasons', []) and r.get('kind') in ('mismatch','x-after-write','x-state','x-consequence')",
     "witness": {"src": "match self.st:\n case 0 if self.a.get()==1: self.st=1\n case _: self.st=2", "history": [{"a": 0}], "signal": "st", "sim": 2, "verilog": 0},
     "what": "`case V if guard:` becomes `V: if (guard) ...` inside the Verilog case arm: when the guard fails Python falls through to the "
             "following cases / `case _`, the Verilog does nothing"},
    {"id": "C02-match-no-default", "property": "C02", "status": "fixed", "fixed_by": "b2612d8", "anchor": "py4hw/transpilation/python2verilog_transpilation.py:1177",
     "class_expr": "r.get('kind')=='unparseable' and 'match-no-default' in r.get('reasons', [])",
     "witness": {"src": "match self.st:\n case 0: self.st=1\n case 1: self.st=2"},
     "what": "a `match` without `case _` is emitted as `default:endcase` (IEEE 1364-2005 A.6.7 requires a statement or `;` after `default:`)"},
    {"id": "C02-bool-value", "property": "C02", "status": "known", "anchor": "py4hw/transpilation/python2verilog_transpilation.py:921",
     "class_expr": "'bool-value' in r.get('reasons', []) and r.get('kind') in ('mismatch','x-after-write','x-state','x-consequence')",
     "witness": {"src": "x = self.a.get() or self.b.get(); self.r.prepare(x)", "history": [{"a": 5, "b": 0}], "signal": "r", "sim": 5, "verilog": 1},
     "what": "`a or b` / `a and b` used as a VALUE is emitted as `a||b` / `a&&b` (0/1) while Python returns one of the operands"},
    {"id": "C02-cmp-rhs-precedence", "property": "C02", "status": "fixed", "fixed_by": "72c6814", "anchor": "py4hw/transpilation/python2verilog_transpilation.py:537",
     "class_expr": "'cmp-rhs-prec' in r.get('reasons', []) and r.get('kind') in ('mismatch','x-after-write','x-state','x-consequence')",
     "witness": {"src": "if self.a.get() == self.b.get() & 1: self.r.prepare(1)\nelse: self.r.prepare(0)", "history": [{"a": 3, "b": 3}], "signal": "r", "sim": 0, "verilog": 1},
     "what": "the right operand of a comparison is kept as a bare list and emitted without parentheses: `a == (b & 1)` becomes `a==b&1`, "
             "which Verilog reads as `(a==b)&1` (also | ^ and/or and nested comparisons)"},
    {"id": "C02-narrow-context", "property": "C02", "status": "known", "anchor": "py4hw/transpilation/python2verilog_transpilation.py:497",
     "class_expr": "('narrow-compare' in r.get('reasons', []) or 'narrow-test' in r.get('reasons', []) or 'narrow-shift' in r.get('reasons', []) "
                   "or 'narrow-subject' in r.get('reasons', []) or 'narrow-assign' in r.get('reasons', [])) and r.get('kind') in ('mismatch','x-after-write','x-state','x-consequence')",
     "witness": {"src": "if (self.a.get() + self.b.get()) > self.b.get(): self.r.prepare(1)\nelse: self.r.prepare(0)", "widths": {"a": 8, "b": 8}, "history": [{"a": 200, "b": 100}], "signal": "r", "sim": 1, "verilog": 0},
     "what": "an expression made only of narrow ports in a self-determined position (comparison operands, if-test, shift amount, case subject) is "
             "evaluated at the ports' width in Verilog: 8-bit a=200,b=100: Python (a+b)>b is True, Verilog computes 44>100"},
    {"id": "C02-read-after-put", "property": "C02", "status": "fixed", "fixed_by": "b298f20", "anchor": "py4hw/transpilation/python2verilog_transpilation.py:481",
     "class_expr": "('read-after-put' in r.get('reasons', []) or 'put-in-clock' in r.get('reasons', []) or 'prepare-in-propagate' in r.get('reasons', [])) "
                   "and r.get('kind') in ('mismatch','x-after-write','x-state','x-consequence','v-error')",
     "witness": {"src": "self.r.put(self.a.get()); self.r.put(self.r.get() + self.b.get())", "history": [{"a": 1, "b": 2}], "signal": "r", "sim": 3},
     "what": "`put` becomes a non-blocking `<=` inside `always @(*)`: a body that reads back a wire it has just put sees the old value in Verilog "
             "(r.put(a); r.put(r.get()+b) never settles), and `put` inside clock() takes effect one edge late"},
    {"id": "C02-attr-ne-port", "property": "C02", "status": "fixed", "fixed_by": "53243dd", "anchor": "py4hw/transpilation/python2verilog_transpilation.py:697",
     "class_expr": "'attr-ne-port' in r.get('reasons', []) and r.get('kind') in ('mismatch','x-after-write','x-state','x-consequence','x-at-powerup','v-error')",
     "witness": {"class": "SelectType (test/unit/Test_RtlGeneration.py): self.imm_type = self.addOut('imm_typ', ...)", "signal": "imm_typ"},
     "what": "ports are referenced in the body by ATTRIBUTE name but declared in the header by PORT name: SelectType drives the undeclared "
             "identifier `imm_type` and its port `imm_typ` is never assigned"},
    {"id": "C02-name-clash", "property": "C02", "status": "fixed", "fixed_by": "5f87e48", "anchor": "py4hw/transpilation/python2verilog_transpilation.py:568",
     "class_expr": "'name-clash' in r.get('reasons', []) and r.get('kind') in ('mismatch','x-after-write','x-state','x-consequence','unparseable','v-error')",
     "witness": {"src": "s0 = self.a.get() + 1; self.r.prepare(s0 + self.s0)", "history": [{"a": 1}], "signal": "s0"},
     "what": "a local variable and `self.<same name>` (state attribute, port or constructor constant) become the SAME Verilog identifier"},
    {"id": "C02-float-const-accepted", "property": "C02", "status": "fixed", "fixed_by": "61df158", "anchor": "py4hw/transpilation/python2verilog_transpilation.py:605",
     "class_expr": "r.get('kind')=='accepted-unsupported' and r.get('construct')=='float-const'",
     "witness": {"src": "self.r.prepare(self.a.get() + 1.5)"},
     "what": "a float constant in the method body is not refused: `r.prepare(a + 1.5)` is emitted as `r<=a+1.5;` (a Verilog real, rounded on assignment) "
             "while the Python method raises TypeError in Wire.prepare (float & int); only constructor constants are checked for int-ness"},
    {"id": "C02-guarded-wildcard", "property": "C02", "status": "fixed", "fixed_by": "23b4fbe", "anchor": "py4hw/transpilation/python2verilog_transpilation.py:381",
     "class_expr": "r.get('construct')=='match-guarded-wildcard' and r.get('kind') in ('mismatch','x-after-write','x-state','x-consequence','accepted-unsupported')",
     "witness": {"src": "match a & 3:\n case 0: r.prepare(7)\n case _ if a > 0: r.prepare(5)\n case _: r.prepare(2)", "history": [{"a": 1}], "signal": "r", "sim": 5, "verilog": 2},
     "what": "`case _ if guard:` is taken as the Verilog `default:` with the guard silently dropped (ReplaceMatch tests the wildcard before looking "
             "at c.guard), and a later `case _:` overwrites it: a=1 gives Python 5, Verilog 2"},
    {"id": "C02-nonint-const-accepted", "property": "C02", "status": "fixed", "fixed_by": "db0197f", "anchor": "py4hw/transpilation/python2verilog_transpilation.py:607",
     "class_expr": "r.get('kind')=='accepted-unsupported' and r.get('construct') in ('const-bytes','const-none','const-ellipsis','string-const')",
     "witness": {"src": "x = b\"a\"; self.r.prepare(self.a.get())"},
     "what": "constants that are neither int nor float are not refused in method bodies: `x = b\"a\"` is emitted as `x=b'a';` (not Verilog), "
             "`x = None` / `x = ...` / `x = \"abc\"` as `x=None;` / `x=Ellipsis;` / `x=abc;` (undeclared identifiers); candidate repair /tmp/C02_nonint_const.diff"},
    {"id": "C02-bare-expr-accepted", "property": "C02", "status": "fixed", "fixed_by": "5899f57", "anchor": "py4hw/transpilation/python2verilog_transpilation.py:545",
     "class_expr": "r.get('kind')=='accepted-unsupported' and r.get('construct')=='bare-expr-stmt'",
     "witness": {"src": "self.a.get() + 1\nself.r.prepare(self.a.get())"},
     "what": "a bare expression statement (`self.a.get() + 1` on its own line) is not refused: ReplaceExpr drops the ast.Expr wrapper and the "
             "expression text `a+1` is emitted in statement position (not Verilog); candidate repair /tmp/C02_bare_expr.diff"},
    {"id": "C02-wire-value-target", "property": "C02", "status": "fixed", "fixed_by": "f603896", "anchor": "py4hw/transpilation/python2verilog_transpilation.py:585",
     "class_expr": "r.get('construct')=='assign-to-wire-attr' and r.get('kind') in ('accepted-unsupported','mismatch','x-after-write','x-state','x-consequence')",
     "witness": {"src": "self.r.value = self.a.get()", "history": [{"a": 5}], "signal": "r", "sim": 5, "verilog": "x"},
     "what": "an attribute target deeper than self.<name> is not refused: ReplaceWiresAndVariables.visit_Attribute looks only at the LAST "
             "component, so `self.r.value = e` (direct write to a wire, bypassing put/prepare) is emitted as an assignment to a fresh integer "
             "`value` and the port is never driven (simulator r=5, Verilog x); likewise `self.sub.x`, `other.x` are taken for `x`; candidate "
             "repair /tmp/C02_value_target.diff"},
    {"id": "C02-prepare-in-propagate", "property": "C02", "status": "known", "anchor": "py4hw/transpilation/python2verilog_transpilation.py:480",
     "class_expr": "'prepare-in-propagate' in r.get('reasons', []) and r.get('kind') in ('mismatch','x-after-write','x-state','x-consequence','v-error')",
     "witness": {"src": "propagate(): self.r.prepare(self.a.get())", "history": [{"a": 1}, {"a": 2}], "signal": "r"},
     "what": "`prepare` inside propagate() is not refused: it is emitted as `<=` in `always @(*)` and takes effect at once, while the simulator "
             "applies it at the next Simulator.clk (Wire.settleAll); formerly part of C02-read-after-put"},
    {"id": "C02-comb-feedback", "property": "C02", "status": "known", "anchor": "py4hw/transpilation/python2verilog_transpilation.py:56",
     "class_expr": "'comb-feedback' in r.get('reasons', []) and r.get('kind') in ('mismatch','x-after-write','x-state','x-consequence','v-error')",
     "witness": {"src": "propagate(): self.r.put(self.r.get() + 1)", "history": [{"a": 1}], "signal": "r"},
     "what": "a propagate() that reads an output before it has put it in the same call (`r.put(r.get()+1)`) is a combinational feedback loop: "
             "it is not refused, the emitted `always @(*) r=r+1;` never settles, and the simulator's result depends on how often propagate() is called"},
    {"id": "C02-new-attr-uninit", "property": "C02", "status": "known", "anchor": "py4hw/transpilation/python2verilog_transpilation.py:596",
     "class_expr": "('new-attr' in r.get('reasons', []) or 'state-in-comb' in r.get('reasons', []) or 'port-as-value' in r.get('reasons', []) "
                   "or 'neg-const' in r.get('reasons', [])) and r.get('kind') in ('mismatch','x-after-write','x-state','x-consequence','unparseable','v-error')",
     "witness": {"src": "propagate(): self.cnt = self.cnt + 1"},
     "what": "state attributes used by propagate() (or first assigned inside the method) are declared `integer` without initial value; "
             "negative constructor constants / port attributes used as values are outside the proved fragment"},
    {"id": "C02-init-output-renamed", "property": "C02", "status": "fixed", "fixed_by": "19c507c", "anchor": "py4hw/transpilation/python2verilog_transpilation.py:86",
     "class_expr": "r.get('out_name_is_other_attr') and r.get('kind') in ('x-after-write','x-state','x-consequence','v-error')",
     "witness": {"src": "self.q = self.addIn('a', a); self.a = self.addOut('q', q); clock(): self.a.prepare(self.q.get() + 1)",
                 "text": "initial begin a=0; end", "signal": "q", "sim": 0, "verilog": "x"},
     "what": "the `initial` block names the output registers by PORT name, and ReplaceWiresAndVariables.visit_VerilogWire then applies the "
             "attribute->port lookup to them once more: when an output port's name is the attribute name of ANOTHER port "
             "(self.q = addIn('a'); self.a = addOut('q')) the block assigns 0 to that other port (`a=0;`, a procedural assignment to an input) "
             "and the output register is never initialised (x); repaired in /repo 19c507c (initialiser wires marked final)"},
    {"id": "C02-uninit-output-regs", "property": "C02", "status": "fixed", "fixed_by": "c2ba9bf", "anchor": "py4hw/rtl_generation.py:715",
     "class_expr": "r.get('kind')=='x-at-powerup' or (r.get('kind') in ('x-after-write','x-consequence','x-state') and r.get('reads_own_output') "
                   "and r.get('tainted') and not r.get('powerup_safe'))",
     "witness": {"class": "CounterBehavioural (test/unit/Test_RtlGeneration.py)", "history": [{"inc": 1}, {"inc": 1}], "signal": "q"},
     "what": "transpiled output ports are declared `output reg` without initial value: every output is x until first assigned while the "
             "simulator shows 0, and a block that reads its own output (CounterBehavioural: q <= q+1) stays x forever while the simulator counts 1,2,3"},
]


def fail(res, what, replay):
    """the property's oracle failed on the implementation.  Known-finding matching is done here over BOTH lists: an entry of
    PROPOSED_FINDINGS wins over a listed entry of the same id (newer class predicate / newer status); only status "known"
    suppresses - a failure in the class of a finding marked "fixed" here is a recurrence and therefore a VIOLATION, whatever
    known_findings.json still says about that id."""
    mine = {k['id']: k for k in PROPOSED_FINDINGS}
    for k in PROPOSED_FINDINGS:
        if k.get('status') == 'known' and common._matches(k, what, replay):
            res.known_hits.append((k, what))
            return True
    for k in load_known():
        if k.get('property') == 'C02' and k.get('status') == 'known' and k.get('id') not in mine and common._matches(k, what, replay):
            res.known_hits.append((k, what))
            return True
    res.failures.append({'what': what, 'replay': replay})
    return False


# ------------------------------------------------------------------------------------------------ repo classes
def _load_test_module():
    p = os.path.join(REPO, 'test', 'unit', 'Test_RtlGeneration.py')
    spec = importlib.util.spec_from_file_location('c02_repo_test_rtl', p)
    m = importlib.util.module_from_spec(spec)
    with contextlib.redirect_stdout(io.StringIO()):
        spec.loader.exec_module(m)
    return m


def repo_specs():
    """(label, class getter, [(ctor arg, width, dir)] in constructor order, extra kwargs)"""
    def uart():
        import py4hw.logic.protocol.uart.serdes as m
        return m

    def uclk():
        import py4hw.logic.protocol.uart.clock as m
        return m

    def hil():
        import py4hw.emulation.HILWrapperUART as m
        return m

    def vit():
        import py4hw.emulation.vitiswrapping as m
        return m

    def lclk():
        import py4hw.logic.clock as m
        return m

    def sto():
        import py4hw.logic.storage as m
        return m
    I, O = 'in', 'out'
    S = []
    S.append(('UARTSerializer', lambda: uart().UARTSerializer,
              [('ready', 1, O), ('valid', 1, I), ('v', 8, I), ('uart_clock_posedge', 1, I), ('tx', 1, O)]))
    S.append(('UARTDeserializer', lambda: uart().UARTDeserializer,
              [('rx', 1, I), ('rx_sample', 1, I), ('ready', 1, I), ('valid', 1, O), ('v', 8, O), ('clock_desync', 1, O)]))
    S.append(('ClockSyncFSM', lambda: uclk().ClockSyncFSM, [('start', 1, I), ('stop', 1, I), ('sync', 1, O), ('active', 1, O)]))
    for vw in (8, 32):
        S.append((f'CMDRequest/{vw}', lambda: hil().CMDRequest,
                  [('ready', 1, O), ('valid', 1, I), ('c', 8, I), ('index_in', 4, O), ('v_in', vw, O), ('index_out', 4, O),
                   ('set_index_in', 1, O), ('set_v_in', 1, O), ('set_index_out', 1, O), ('clk_pulse', 1, O), ('start_resp', 1, O)]))
    for vw, sw in ((16, 3), (32, 4), (64, 5)):
        S.append((f'CMDResponse/{vw}', lambda: hil().CMDResponse,
                  [('vin', vw, I), ('size', sw, I), ('start_resp', 1, I), ('ready', 1, I), ('valid', 1, O), ('v', 8, O)]))
    for tw in (4, 32, 64):
        S.append((f'Axi2ClkFSM/{tw}', lambda: vit().Axi2ClkFSM,
                  [('active_handshake', 1, I), ('clk_target', tw, I), ('reset_clk_count', 1, I), ('clk_count', tw, O),
                   ('clk_out', 1, O), ('load_outs', 1, O)]))
    S.append(('VitisKernelFSM', lambda: vit().VitisKernelFSM,
              [('ap_start', 1, I), ('ap_reset', 1, I), ('ap_done', 1, O), ('ap_idle', 1, O), ('ap_ready', 1, O),
               ('load_outs', 1, I), ('all_sent', 1, I)]))
    S.append(('AutoReset', lambda: lclk().AutoReset, [('reset', 1, O)]))
    for w in (1, 8):
        S.append((f'Latch/{w}', lambda: sto().Latch, [('d', w, I), ('q', w, O), ('enable', 1, I)]))
    for w in (3, 8):
        S.append((f'CounterBehavioural/{w}', lambda: _load_test_module().CounterBehavioural, [('inc', 1, I), ('q', w, O)]))
    S.append(('SelectType', lambda: _load_test_module().SelectType, [('opcode', 7, I), ('imm_typ', 3, O)]))
    return S


# ------------------------------------------------------------------------------------------------ one device under test
class Dut:
    """a live behavioural block inside its own HWSystem"""

    def __init__(self, label, cls, wires, extra=(), src=None, tags=(), profile='repo'):
        import py4hw
        self.label, self.src, self.tags, self.profile = label, src, list(tags), profile
        self.hw = py4hw.HWSystem()
        self.wires = {}
        args = []
        self.ins, self.outs = [], []     # (ctor arg name, width)
        for n, w, d in wires:
            wire = self.hw.wire(n, w)
            self.wires[n] = wire
            args.append(wire)
            (self.ins if d == 'in' else self.outs).append((n, w))
        with contextlib.redirect_stdout(io.StringIO()):
            self.obj = cls(self.hw, 'dut', *args, *extra)
        # port name <-> wire
        self.in_ports = {p.name: p.wire for p in self.obj.inPorts}
        self.out_ports = {p.name: p.wire for p in self.obj.outPorts}
        # which outputs has the Python method written so far (put/prepare wrapped on the wire INSTANCES of this test bench)
        self.written = set()
        for pn, w in self.out_ports.items():
            self._wrap(pn, w)
        self.syntax, self.syntax_err = None, None
        try:
            self.syntax = py2syntax.class_to_syntax(self.obj, modname=None)
        except py2syntax.NotInSubset as e:
            self.syntax_err = e.construct
        except Exception as e:
            self.syntax_err = 'front-end:' + type(e).__name__
        self.text, self.gen_err, self.tree, self.parse_err = None, None, None, None
        import py4hw
        try:
            g = py4hw.VerilogGenerator(self.obj)
            self.text = vsim.gen_text(g, self.obj)
        except Exception as e:
            self.gen_err = f'{type(e).__name__}: {str(e)[:80]}'
        if self.text is not None:
            try:
                self.tree = vparse.parse(self.text)
            except vparse.VParseError as e:
                self.parse_err = str(e)[:120]
        self.modname = self.tree[1][1] if self.tree else None
        self.seq = self.obj.isClockable()
        self.state_names = [k for k, _ in self.syntax['state']] if self.syntax else self._state_names_fallback()
        self.attr_of_port = {}
        if self.syntax:
            for p in self.syntax['ports']:
                self.attr_of_port[p['pyport']] = p['attr']
        self.features = set(self.tags)
        # class of finding C02-init-output-renamed: an OUTPUT port whose (Verilog) name is the attribute that holds a DIFFERENT port
        self.out_name_is_other_attr = bool(self.syntax) and any(
            p['isOut'] and any(q is not p and q['pyattr'] == p['port'] for q in self.syntax['ports']) for p in self.syntax['ports'])
        if self.syntax:
            outattrs = {p['attr'] for p in self.syntax['ports'] if p['isOut']}
            if any(f'(get {a})' in self.syntax['sexp'] for a in outattrs):
                self.features.add('reads-own-output')

    def _wrap(self, pn, w):
        put0, prep0 = w.put, w.prepare

        def put(v, _pn=pn):
            self.written.add(_pn)
            return put0(v)

        def prepare(v, _pn=pn):
            self.written.add(_pn)
            return prep0(v)
        w.put, w.prepare = put, prepare

    def outputs_read_fallback(self):
        """no PySyntax for this class: which output ports does the method source read with .get() (textual scan)"""
        import inspect
        try:
            src = inspect.getsource(getattr(type(self.obj), 'clock' if self.seq else 'propagate'))
        except Exception:
            return list(self.out_ports)
        out = []
        for pn, w in self.out_ports.items():
            attrs = [k for k, v in vars(self.obj).items() if v is w]
            if any(re.search(r'self\.' + re.escape(a) + r'\s*\.\s*get\s*\(', src) for a in attrs) or not attrs:
                out.append(pn)
        return out

    def _state_names_fallback(self):
        return [k for k, v in vars(self.obj).items() if isinstance(v, int) and not isinstance(v, bool)
                and k not in ('x', 'y') and not k.startswith('_')]

    def vitems(self):
        """names declared integer in the parsed module"""
        if not self.tree:
            return []
        return [it[1] for it in self.tree[1][4][1:] if it[0] in ('int', 'inti')]

    def run_real(self, history):
        """history: list of {port: value}. -> list of {'ports': {port: v}, 'state': {attr: v}} per cycle, error or None"""
        try:
            with contextlib.redirect_stdout(io.StringIO()):
                sim = self.hw.getSimulator()
        except Exception as e:
            # a propagate() that raises already in Simulator.__init__ (all wires 0): the Python method is outside its own domain
            return [], f'{type(e).__name__}: {str(e)[:60]} (in Simulator.__init__)'
        out, err = [], None
        for cyc in history:
            for n, v in cyc.items():
                self.in_ports[n].put(v)
            try:
                with contextlib.redirect_stdout(io.StringIO()):
                    sim.clk(1)
            except Exception as e:
                err = f'{type(e).__name__}: {str(e)[:60]}'
                break
            ports = {n: w.get() for n, w in list(self.in_ports.items()) + list(self.out_ports.items())}
            state = {k: (int(getattr(self.obj, k)) if isinstance(getattr(self.obj, k), bool) else getattr(self.obj, k))
                     for k in self.state_names if hasattr(self.obj, k)}
            out.append(dict(ports=ports, state=state, written=set(self.written)))
        return out, err


def canon_module(t):
    """parsed module with the integer declarations sorted (declaration order is immaterial)"""
    items = t[4][1:]
    ints = sorted([it for it in items if it[0] in ('int', 'inti')], key=lambda x: x[1])
    rest = [it for it in items if it[0] not in ('int', 'inti')]
    return vparse.sexp([t[0], t[1], t[2], t[3], ['items'] + ints + rest])


def known_status(fid):
    for k in PROPOSED_FINDINGS:
        if k['id'] == fid:
            return k.get('status')
    return None


def strip_init_targets(canon, d):
    """canonical module text with the targets of the `initial` block's `<port> = 0` assignments blanked (ports only)"""
    names = '|'.join(re.escape(p['port']) for p in d.syntax['ports'])
    m = re.search(r'\(initial .*?\(always ', canon)
    if not m or not names:
        return canon
    seg = re.sub(r'\(ba \(lid (?:' + names + r')\) \(num -1 1 0 1\)\)', '(ba (lid <port>) (num -1 1 0 1))', m.group(0))
    return canon[:m.start()] + seg + canon[m.end():]


def parse_sexp(s):
    toks = re.findall(r'\(|\)|[^\s()]+', s)
    pos = 0

    def rd():
        nonlocal pos
        t = toks[pos]
        pos += 1
        if t == '(':
            l = []
            while toks[pos] != ')':
                l.append(rd())
            pos += 1
            return l
        return t
    return rd()


def mk_history(rng, dut, n, mode):
    """mode: 'dom' values mostly small (inside [0,2^31)), 'edge' boundary patterns of the full port width"""
    h = []
    for _ in range(n):
        cyc = {}
        for p, w in dut.in_ports.items():
            width = w.getWidth()
            if mode == 'edge':
                cyc[p] = rng.bits(width)
            else:
                cyc[p] = rng.bits(min(width, rng.choice([1, 2, 4, 8, 16, 31])))
        h.append(cyc)
    return h


# ------------------------------------------------------------------------------------------------ the differential
class Batch:
    def __init__(self, res, tier):
        self.res, self.tier = res, tier
        self.jobs = []

    def add(self, dut, history, kind):
        self.jobs.append(dict(dut=dut, history=history, kind=kind))

    def run(self):
        res = self.res
        if not self.jobs:
            return
        t_run = time.time()
        # ---- Lean Python-side model
        lines, spans = [], []
        for jb in self.jobs:
            d = jb['dut']
            start = len(lines)
            if d.syntax:
                lines.append('class ' + d.syntax['sexp'])
                lines.append('model')
                if not d.seq:
                    # Simulator.__init__ runs propagateAll() once with every wire at its power-up value 0
                    lines.append('prop ' + ','.join(f'{d.attr_of_port.get(p, p)}=0' for p in d.in_ports))
                for cyc in jb['history']:
                    asg = ','.join(f'{d.attr_of_port.get(p, p)}={v}' for p, v in cyc.items())
                    lines.append(('clk ' if d.seq else 'prop ') + asg)
                    if not d.seq:
                        # Simulator.clk(1) = propagateAll(); clockAll (nothing); Wire.settleAll(); propagate() again
                        lines.append('settle')
                        lines.append('prop')
            spans.append((start, len(lines)))
        # ---- Verilog side (runs concurrently with the Python-side model)
        vb = VBatch0()
        vjobs = []
        for i, jb in enumerate(self.jobs):
            d = jb['dut']
            if d.tree is None:
                continue
            obs = [p for p in d.out_ports] + d.vitems()
            jb['vobs'] = obs
            clk = d.syntax['clk'] if d.syntax else 'clk'
            vb.add(d.text, d.modname, clk, jb['history'], obs, label=i, tree=d.tree)
            vjobs.append(i)
        box = {}

        def run_v():
            try:
                t0_ = time.time()
                box['v'] = vb.run() if vjobs else []
                res.hist('timing_s', 'verilog-driver', round(time.time() - t0_))
            except Exception as e:
                box['verr'] = e
        import threading
        th = threading.Thread(target=run_v)
        th.start()
        try:
            t0_ = time.time()
            out = run_driver(DRIVER, lines) if lines else []
            res.hist('timing_s', 'pysem-driver', round(time.time() - t0_))
        except ToolFailure as e:
            res.broken.append(('correspondence', 'pysem-driver', str(e)[:300]))
            out = None
        th.join()
        vres = box.get('v')
        if 'verr' in box:
            if isinstance(box['verr'], ToolFailure):
                res.broken.append(('correspondence', 'verilog-driver', str(box['verr'])[:300]))
            else:
                raise box['verr']
        vmap = {}
        if vres is not None:
            for r in vres:
                vmap[r['label']] = r
        t_drv = time.time()
        for i, jb in enumerate(self.jobs):
            lo = out[spans[i][0]:spans[i][1]] if out is not None else None
            try:
                self.judge(jb, lo, vmap.get(i))
            except Exception as e:
                d_ = jb['dut']
                if d_.profile in ('safe', 'wild', 'refuse', 'nest', 'reinst'):
                    # a generated class that cannot be simulated / judged is a generator fault: recorded and skipped
                    res.hist('generator_faults', f'{d_.profile}:{type(e).__name__}')
                    res.notes.append(f'generator fault on {d_.label}: {type(e).__name__}: {str(e)[:80]}') if len(res.notes) < 10 else None
                else:
                    res.broken.append(('correspondence', 'harness-exception', f'{d_.label}: {type(e).__name__}: {str(e)[:200]}'))
        res.hist('timing_s', 'drivers', round(t_drv - t_run))
        res.hist('timing_s', 'judge', round(time.time() - t_drv))
        self.jobs = []

    def judge(self, jb, lean_out, vr):
        res, d, hist = self.res, jb['dut'], jb['history']
        base = dict(design=d.label, profile=d.profile, tags=sorted(d.features), features=sorted(d.features), src=d.src,
                    reads_own_output='reads-own-output' in d.features, out_name_is_other_attr=d.out_name_is_other_attr,
                    construct=next((t[7:] for t in d.features if t.startswith('refuse:')), None))
        real, rerr = d.run_real(hist)
        supported, reasons = None, []
        dom = [True] * len(hist)
        pu = [None] * len(hist)      # power-up safe so far (no output read before written): Tp.initStU run alive; None = unknown
        # ---- Lean Python-side model vs real simulator
        if d.syntax and lean_out:
            head = lean_out[0].split('|')
            if head[0] != 'ok':
                res.disagree('py2syntax', dict(design=d.label, answer=lean_out[0], src=d.src))
            else:
                supported = head[1] == '1'
                reasons = [x for x in head[2].split(',') if x] if len(head) > 2 else []
                if supported != (not reasons):
                    res.disagree('reasons-vs-supported', dict(design=d.label, supported=supported, reasons=reasons))
                for r_ in reasons or ['supported']:
                    res.hist('class_reasons', r_)
                answers = lean_out[2:] if d.seq else lean_out[3:]
                if not d.seq:
                    # two propagate() calls per cycle: the state after the second, the domain flag of both
                    merged = []
                    for j in range(0, len(answers) - 2, 3):
                        a1, a2 = answers[j].split('|'), answers[j + 2].split('|')
                        if a1[0] == 'err' or a2[0] == 'err':
                            merged.append(answers[j] if a1[0] == 'err' else answers[j + 2])
                        else:
                            a2[1] = '1' if (a1[1] == '1' and a2[1] == '1') else '0'
                            merged.append('|'.join(a2))
                    answers = merged
                for k, ans in enumerate(answers):
                    f = ans.split('|')
                    if f[0] == 'err':
                        dom[k:] = [False] * (len(hist) - k)
                        if k < len(real):
                            res.disagree('pysem-vs-sim', dict(design=d.label, cycle=k, model='raises ' + f[1], sim='no exception', src=d.src))
                        elif rerr is None:
                            res.disagree('pysem-vs-sim', dict(design=d.label, cycle=k, model='raises ' + f[1], sim='?', src=d.src))
                        break
                    if k >= len(real):
                        res.disagree('pysem-vs-sim', dict(design=d.label, cycle=k, model='no exception', sim=rerr, src=d.src))
                        break
                    if f[1] != '1':
                        dom[k:] = [False] * (len(hist) - k)
                    if len(f) > 4:
                        pu[k] = f[4] == '1'
                    mw = dict(x.split('=') for x in f[2].split(',') if x)
                    ms = dict(x.split('=') for x in f[3].split(',') if x) if len(f) > 3 else {}
                    bad = None
                    for p_ in d.syntax['ports']:
                        if str(real[k]['ports'][p_['pyport']]) != mw.get(p_['attr']):
                            bad = (p_['pyport'], real[k]['ports'][p_['pyport']], mw.get(p_['attr']))
                    for sn, sv in real[k]['state'].items():
                        if sn in ms and str(sv) != ms[sn]:
                            bad = (sn, sv, ms[sn])
                    if bad:
                        res.disagree('pysem-vs-sim', dict(design=d.label, cycle=k, signal=bad[0], sim=bad[1], model=bad[2],
                                                          history=hist[:k + 1], src=d.src))
                        break
        else:
            # no Lean model of the Python side: observed values stand in for the domain
            for k, st in enumerate(real):
                if any(v >= (1 << 31) for v in list(st['ports'].values()) + list(st['state'].values())):
                    dom[k:] = [False] * (len(hist) - k)
                    break
        if rerr is not None:
            dom[len(real):] = [False] * (len(hist) - len(real))
        base.update(supported=supported, reasons=reasons)
        # ---- model translation vs real text (on the proved fragment)
        if supported and d.tree is not None and lean_out:
            mine = canon_module(parse_sexp(lean_out[1]))
            theirs = canon_module(d.tree[1])
            if mine != theirs and d.out_name_is_other_attr and known_status('C02-init-output-renamed') == 'known' and \
                    strip_init_targets(mine, d) == strip_init_targets(theirs, d):
                # finding C02-init-output-renamed: the two differ ONLY in which port the `initial` block's `<port>=0` names
                res.hist('model_vs_text', 'equal-but-initial-output-names (C02-init-output-renamed)')
            elif mine != theirs:
                res.disagree('model-vs-text', dict(design=d.label, model=mine[:400], text=theirs[:400], src=d.src))
            else:
                res.hist('model_vs_text', 'equal')
        # ---- refusal / acceptance
        acc = 'refused' if d.gen_err else ('unparseable' if d.parse_err else 'accepted')
        res.hist('transpiler_' + d.profile, acc + ('' if supported is None else ('/supported' if supported else '/unsupported')))
        if d.gen_err:
            res.hist('refusal_kinds', d.gen_err.split(':')[0])
            if supported:
                res.hist('refused_although_supported', d.gen_err[:70])
            return
        if d.parse_err:
            fail(res, f'{d.label}: the transpiler accepted the class but the emitted text is not in the Verilog subset ({d.parse_err})',
                 dict(base, kind='unparseable', parse_error=d.parse_err, text=d.text[-600:] if d.text else None))
            return
        if vr is None:
            return
        if vr['begin'] != 'ok' or vr['parse'] != 'ok':
            fail(res, f'{d.label}: emitted module does not elaborate: {vr["begin"][:120]}',
                 dict(base, kind='v-error', error=vr['begin'][:200], text=d.text[-600:]))
            return
        # ---- the oracle: simulator == known Verilog value on every in-domain cycle
        tr = vr['trace']          # tr[0] = power-up, tr[k+1] after cycle k
        reported = set()
        cmp_cycles = 0
        # signals whose value the body reads back: state integers and the outputs it get()s
        if d.syntax:
            feedback = [p_['pyport'] for p_ in d.syntax['ports'] if p_['isOut'] and f"(get {p_['attr']})" in d.syntax['sexp']]
        else:
            feedback = d.outputs_read_fallback()
        feedback += [n for n in d.state_names if n in jb['vobs']]
        stop = False
        for k in range(min(len(real), len(tr) - 1)):
            if not dom[k] or stop:
                break
            cmp_cycles += 1
            # x-taint: the Verilog entered this cycle with an unknown value in something the body reads
            tainted = any(tr[k].get(n) == 'x' for n in feedback)
            for name in jb['vobs']:
                if name in d.out_ports:
                    want = real[k]['ports'][name]
                    # has the Python method assigned this output yet (through put/prepare, or - bypassing them - by a direct
                    # write to the wire's .value, visible as a value other than the power-up 0)
                    seen_change = name in real[k]['written'] or any(real[j]['ports'][name] != 0 for j in range(k + 1))
                elif name in real[k]['state']:
                    want = real[k]['state'][name]
                    seen_change = True
                else:
                    continue      # fresh integer for a Python local: not observable on the Python side
                got = tr[k + 1][name]
                if got == want:
                    continue
                if got == 'x':
                    # since /repo c2ba9bf the output registers are initialised to 0: an unknown is never a power-up artefact
                    kind = 'x-state' if name not in d.out_ports else 'x-after-write'
                else:
                    kind = 'x-consequence' if tainted else 'mismatch'
                if tainted and (kind != 'x-at-powerup' or name in feedback):
                    stop = True       # the body read an unknown and the two sides now differ in something it reads / holds:
                                      # later differences are consequences of the same unknown
                if (name, kind) in reported:
                    continue
                reported.add((name, kind))
                res.hist('oracle_outcomes', kind)
                fail(res, f'{d.label}: cycle {k} signal {name}: simulator {want}, Verilog {got} ({kind})',
                     dict(base, kind=kind, cycle=k, signal=name, sim=want, verilog=got, history=hist[:k + 1], tainted=tainted,
                          powerup_safe=pu[k],
                          text=d.text[-500:] if kind == 'mismatch' else None))
        if 'did not settle' in (vr.get('errors') or '') and cmp_cycles:
            fail(res, f'{d.label}: emitted combinational block does not settle', dict(base, kind='v-error', error=vr['errors'][:100]))
        res.hist('compared_cycles', 'in-domain', cmp_cycles)
        res.hist('compared_cycles', 'in-domain-and-powerup-safe', sum(1 for k in range(cmp_cycles) if pu[k]))
        res.hist('compared_cycles', 'out-of-domain-or-raised', len(hist) - cmp_cycles)
        res.count((d.label, str(hist)[:200]), hist={'dut_profile': d.profile})


# ------------------------------------------------------------------------------------------------ witnesses of the findings
WITNESS_SRC = '''
import py4hw

class WTernary(py4hw.Logic):
    def __init__(self, parent, name, a, b, r):
        super().__init__(parent, name)
        self.a = self.addIn('a', a)
        self.b = self.addIn('b', b)
        self.r = self.addOut('r', r)
    def clock(self):
        y = 1 if self.a.get() > 2 else 2
        self.r.prepare(y)

class WGuard(py4hw.Logic):
    def __init__(self, parent, name, a, b, r):
        super().__init__(parent, name)
        self.a = self.addIn('a', a)
        self.b = self.addIn('b', b)
        self.r = self.addOut('r', r)
        self.st = 0
    def clock(self):
        match self.st:
            case 0 if self.a.get() == 1:
                self.st = 1
            case _:
                self.st = 2
        self.r.prepare(self.st)

class WNoDefault(py4hw.Logic):
    def __init__(self, parent, name, a, b, r):
        super().__init__(parent, name)
        self.a = self.addIn('a', a)
        self.b = self.addIn('b', b)
        self.r = self.addOut('r', r)
        self.st = 0
    def clock(self):
        match self.st:
            case 0:
                self.st = 1
            case 1:
                self.st = 0
        self.r.prepare(self.st)

class WTernaryInCall(py4hw.Logic):
    def __init__(self, parent, name, a, b, r):
        super().__init__(parent, name)
        self.a = self.addIn('a', a)
        self.b = self.addIn('b', b)
        self.r = self.addOut('r', r)
        self.s = 0
    def clock(self):
        self.s = (self.s + (2 if self.a.get() > self.b.get() else (1 if self.a.get() == self.b.get() else 0))) & 255
        self.r.prepare((self.a.get() if self.s > 3 else self.b.get()) + 1)

class WBoolInit(py4hw.Logic):
    def __init__(self, parent, name, a, b, r):
        super().__init__(parent, name)
        self.a = self.addIn('a', a)
        self.b = self.addIn('b', b)
        self.r = self.addOut('r', r)
        self.holding = False
        self.armed = True
    def clock(self):
        self.r.prepare(self.holding + self.armed * 16)
        self.holding = self.a.get()
        self.armed = (self.armed + self.a.get()) & 7

class WValueTarget(py4hw.Logic):
    def __init__(self, parent, name, a, b, r):
        super().__init__(parent, name)
        self.a = self.addIn('a', a)
        self.b = self.addIn('b', b)
        self.r = self.addOut('r', r)
    def clock(self):
        self.r.value = self.a.get()

class WFloatConst(py4hw.Logic):
    def __init__(self, parent, name, a, b, r):
        super().__init__(parent, name)
        self.a = self.addIn('a', a)
        self.b = self.addIn('b', b)
        self.r = self.addOut('r', r)
    def clock(self):
        self.r.prepare(self.a.get() + 1.5)

class WMultiInit(py4hw.Logic):
    def __init__(self, parent, name, a, b, r):
        super().__init__(parent, name)
        self.a = self.addIn('a', a)
        self.b = self.addIn('b', b)
        self.r = self.addOut('r', r)
        self.count = 0
        self.lim = 3
        self.count = 5
        self.lim = 9
        self.count = 6
    def clock(self):
        self.r.prepare(self.count + self.lim)
        if self.a.get() == 1:
            self.count = (self.count + 1) & 255

class WGuardLast(py4hw.Logic):
    def __init__(self, parent, name, a, b, r):
        super().__init__(parent, name)
        self.a = self.addIn('a', a)
        self.b = self.addIn('b', b)
        self.r = self.addOut('r', r)
        self.st = 0
    def clock(self):
        match self.st:
            case 0 if self.a.get() == 1:
                self.st = 1
            case 1:
                self.st = 0
        self.r.prepare(self.st + 4)

class WGuardedWildcard(py4hw.Logic):
    def __init__(self, parent, name, a, b, r):
        super().__init__(parent, name)
        self.a = self.addIn('a', a)
        self.b = self.addIn('b', b)
        self.r = self.addOut('r', r)
    def clock(self):
        match self.a.get() & 3:
            case 0:
                self.r.prepare(7)
            case _ if self.a.get() > 0:
                self.r.prepare(5)
            case _:
                self.r.prepare(2)

class WOrValue(py4hw.Logic):
    def __init__(self, parent, name, a, b, r):
        super().__init__(parent, name)
        self.a = self.addIn('a', a)
        self.b = self.addIn('b', b)
        self.r = self.addOut('r', r)
    def clock(self):
        x = self.a.get() or self.b.get()
        self.r.prepare(x)

class WCmpRhs(py4hw.Logic):
    def __init__(self, parent, name, a, b, r):
        super().__init__(parent, name)
        self.a = self.addIn('a', a)
        self.b = self.addIn('b', b)
        self.r = self.addOut('r', r)
    def clock(self):
        if self.a.get() == self.b.get() & 1:
            self.r.prepare(1)
        else:
            self.r.prepare(0)

class WNarrow(py4hw.Logic):
    def __init__(self, parent, name, a, b, r):
        super().__init__(parent, name)
        self.a = self.addIn('a', a)
        self.b = self.addIn('b', b)
        self.r = self.addOut('r', r)
    def clock(self):
        if (self.a.get() + self.b.get()) > self.b.get():
            self.r.prepare(1)
        else:
            self.r.prepare(0)

class WNarrowAssign(py4hw.Logic):
    def __init__(self, parent, name, a, b, r):
        super().__init__(parent, name)
        self.a = self.addIn('a', a)
        self.b = self.addIn('b', b)
        self.r = self.addOut('r', r)
    def clock(self):
        self.r.prepare((self.a.get() + self.b.get()) >> self.b.get())

class WDoublePut(py4hw.Logic):
    def __init__(self, parent, name, a, b, r):
        super().__init__(parent, name)
        self.a = self.addIn('a', a)
        self.b = self.addIn('b', b)
        self.r = self.addOut('r', r)
    def propagate(self):
        self.r.put(self.a.get())
        self.r.put(self.r.get() + self.b.get() + 0)

class WCombConst(py4hw.Logic):
    def __init__(self, parent, name, a, b, r):
        super().__init__(parent, name)
        self.a = self.addIn('a', a)
        self.b = self.addIn('b', b)
        self.r = self.addOut('r', r)
        self.offs = 3
        self.offs = 5
    def propagate(self):
        self.r.put(self.a.get() + self.offs)

class WCountUp(py4hw.Logic):
    def __init__(self, parent, name, a, b, r):
        super().__init__(parent, name)
        self.a = self.addIn('a', a)
        self.b = self.addIn('b', b)
        self.r = self.addOut('r', r)
    def clock(self):
        if self.a.get() == 1:
            self.r.prepare(self.r.get() + 1)

class WPutInClock(py4hw.Logic):
    def __init__(self, parent, name, a, b, r):
        super().__init__(parent, name)
        self.a = self.addIn('a', a)
        self.b = self.addOut('b', b)
        self.r = self.addOut('r', r)
    def clock(self):
        self.b.put(self.a.get())
        self.r.prepare(self.b.get() + 1)

class WSwapNames(py4hw.Logic):
    def __init__(self, parent, name, a, b, r):
        super().__init__(parent, name)
        self.r = self.addIn('a', a)
        self.b = self.addIn('b', b)
        self.a = self.addOut('r', r)
    def clock(self):
        if self.b.get() == 1:
            self.a.prepare(self.r.get() + self.a.get() + 0)

class WChainNames(py4hw.Logic):
    def __init__(self, parent, name, a, b, r):
        super().__init__(parent, name)
        self.b = self.addIn('a', a)
        self.bb = self.addIn('b', b)
        self.r = self.addOut('r', r)
    def clock(self):
        self.r.prepare(self.b.get() * 2 + self.bb.get())

class WClash(py4hw.Logic):
    def __init__(self, parent, name, a, b, r):
        super().__init__(parent, name)
        self.a = self.addIn('a', a)
        self.b = self.addIn('b', b)
        self.r = self.addOut('r', r)
        self.s0 = 7
    def clock(self):
        s0 = self.a.get() + 1
        self.r.prepare(s0 + self.s0)
'''
WITNESSES = [  # (class, history, expected finding id)
    # regression (fixed 760fbc8): a ternary must be emitted `((c) ? a : b)`, be Tp.supported and agree
    ('WTernary', [{'a': 5, 'b': 0}, {'a': 1, 'b': 0}, {'a': 3, 'b': 0}, {'a': 2, 'b': 0}], 'regression:agree'),
    ('WTernaryInCall', [{'a': 5, 'b': 3}, {'a': 1, 'b': 0}, {'a': 200, 'b': 100}, {'a': 2, 'b': 9}], 'regression:agree'),
    # regression (fixed 61df158): a float constant in the method body must be refused
    ('WFloatConst', [{'a': 1, 'b': 0}], 'regression:refuse'),
    # regression (fixed f603896): a direct write to a wire's .value (attribute chain deeper than self.<name>) must be refused
    ('WValueTarget', [{'a': 5, 'b': 0}, {'a': 7, 'b': 0}], 'regression:refuse'),
    # a state attribute initialised with the literal False / True that later holds multi-bit values: must stay an `integer`
    ('WBoolInit', [{'a': 2, 'b': 0}, {'a': 5, 'b': 0}, {'a': 0, 'b': 0}, {'a': 255, 'b': 0}], 'regression:agree'),
    # the constructor assigns a state attribute several times: the `initial` block must leave the LAST constant
    ('WMultiInit', [{'a': 1, 'b': 0}, {'a': 0, 'b': 0}, {'a': 1, 'b': 0}, {'a': 1, 'b': 0}], 'regression:agree'),
    # regression (fixed edb114b): a guarded case followed by a case that could still match (here `case _`) must be refused ...
    ('WGuard', [{'a': 0, 'b': 0}, {'a': 0, 'b': 0}], 'regression:refuse'),
    # ... and a guarded case after which nothing can match stays accepted, is Tp.supported (C02.later_noop) and must agree
    ('WGuardLast', [{'a': 0, 'b': 0}, {'a': 1, 'b': 0}, {'a': 0, 'b': 0}, {'a': 1, 'b': 0}, {'a': 1, 'b': 0}], 'regression:agree'),
    # regression (fixed b2612d8): a match without `case _` must now parse (`default:;`), be Tp.supported and agree cycle by cycle
    ('WNoDefault', [{'a': 0, 'b': 0}, {'a': 0, 'b': 0}, {'a': 1, 'b': 0}, {'a': 0, 'b': 0}], 'regression:agree'),
    # regression (fixed 23b4fbe): `case _ if g:` must be refused by the real transpiler
    ('WGuardedWildcard', [{'a': 1, 'b': 0}, {'a': 0, 'b': 0}, {'a': 3, 'b': 0}], 'regression:refuse'),
    ('WOrValue', [{'a': 5, 'b': 0}, {'a': 5, 'b': 0}], 'C02-bool-value'),
    # regression (fixed 72c6814): `a == b & 1` must be emitted `a==(b&1)`, be Tp.supported and agree
    ('WCmpRhs', [{'a': 3, 'b': 3}, {'a': 3, 'b': 3}, {'a': 1, 'b': 3}, {'a': 0, 'b': 2}, {'a': 1, 'b': 1}], 'regression:agree'),
    ('WNarrow', [{'a': 200, 'b': 100}, {'a': 200, 'b': 100}], 'C02-narrow-context'),
    ('WNarrowAssign', [{'a': 200, 'b': 1}, {'a': 255, 'b': 1}], 'C02-narrow-context'),
    # regression (fixed b298f20): put is a blocking assignment - reading back a wire just put, and put inside clock(), must agree
    ('WDoublePut', [{'a': 1, 'b': 2}, {'a': 7, 'b': 9}, {'a': 0, 'b': 0}], 'regression:agree'),
    ('WPutInClock', [{'a': 1}, {'a': 5}, {'a': 7}], 'regression:agree'),
    # regression (fixed 01f85a2): a propagate() reading a constructor constant needs it in the `initial` block
    ('WCombConst', [{'a': 1, 'b': 2}, {'a': 7, 'b': 9}], 'regression:agree'),
    # regression (fixed c2ba9bf): an output read before it was ever written starts at 0 on both sides
    ('WCountUp', [{'a': 1, 'b': 0}, {'a': 1, 'b': 0}, {'a': 0, 'b': 0}, {'a': 1, 'b': 0}], 'regression:agree'),
    # an output port named like the attribute that holds another port: the `initial` block initialises the wrong port
    ('WSwapNames', [{'a': 1, 'b': 1}, {'a': 2, 'b': 1}, {'a': 2, 'b': 0}], 'C02-init-output-renamed'),
    # an INPUT port named like the attribute that holds another port: every get() must still name its own port
    ('WChainNames', [{'a': 1, 'b': 1}, {'a': 2, 'b': 5}, {'a': 7, 'b': 0}], 'regression:agree'),
    # regression (fixed 5f87e48): a local named like a self attribute must be refused
    ('WClash', [{'a': 1, 'b': 0}, {'a': 1, 'b': 0}], 'regression:refuse'),
]


# ------------------------------------------------------------------------------------------------ main
def static_scan(res, covered):
    """behavioural classes of the library (clock()/propagate() without verilogBody, not an inlinable/provided primitive):
    which ones does this check instantiate"""
    import py4hw
    gen = py4hw.VerilogGenerator(None)
    special = {c.__name__ for c in list(gen.inlinablePrimitives) + list(gen.providingBody)}
    found = []
    for root, _, files in os.walk(os.path.join(REPO, 'py4hw')):
        for f in files:
            if not f.endswith('.py'):
                continue
            try:
                tree = ast.parse(open(os.path.join(root, f), encoding='utf-8', errors='replace').read())
            except SyntaxError:
                continue
            for nd in tree.body:
                if isinstance(nd, ast.ClassDef):
                    ms = {m.name for m in nd.body if isinstance(m, ast.FunctionDef)}
                    if ms & {'clock', 'propagate'} and 'verilogBody' not in ms and nd.name not in special:
                        found.append(nd.name)
    res.cov['behavioural_classes_in_repo'] = len(found)
    res.cov['behavioural_classes_instantiated'] = sorted(set(found) & covered)
    res.hist('static_scan', 'behavioural_classes', len(found))
    res.hist('static_scan', 'instantiated_here', len(set(found) & covered))


def main(res, tier, rng, replay):
    T0 = time.time()
    ok, metas, errors, changed = regenerate()
    for e in errors:
        res.broken.append(('translator', 'py2lean', e))
    # S0': T3 import of the real operator / assignment / parenthesisation tables -> Gen/TranspileOps.lean
    try:
        lk = common._lock()
        try:
            ch, tab = py2syntax.gen_ops_table(os.path.join(LEAN, 'Py4hwV', 'Gen'))
        finally:
            lk.close()
        res.cov['ops_table'] = tab
        bad = [k for k, v in tab['refused'].items() if not v.startswith('raise:')]
        for k in bad:
            fail(res, f'operator {k} is outside the subset but VerilogOperator.getOp accepts it as {tab["refused"][k]!r}',
                 dict(kind='accepted-unsupported', construct=k, supported=None, reasons=[]))
    except Exception as e:
        res.broken.append(('translator', 'py2syntax.gen_ops_table', f'{type(e).__name__}: {e}'))
    res.proof_stage('Py4hwV.Props.C02', OBLIGATIONS)
    res.cov['t_proof_stage_s'] = round(time.time() - T0, 1)
    quick = tier == 'quick'
    tmpdir = tempfile.mkdtemp(prefix='c02_gen_')
    try:
        run_all(res, tier, rng, tmpdir, quick)
    finally:
        shutil.rmtree(tmpdir, ignore_errors=True)
        if tmpdir in sys.path:
            sys.path.remove(tmpdir)
    res.cov['rule'] = ('per class instance: real Simulator.clk(1) trace = Tp.exec on the method-as-data = Lean Verilog semantics of the REAL '
                       'emitted text, every port and state variable on every in-domain cycle (domain flag = Tp.execD); model translation '
                       '== parse(real text) on Tp.supported; classes: every transpilable behavioural class of the repo at several widths + '
                       'seeded generated classes (safe / wild / refuse profiles) + fixed witnesses of the findings; exhaustive input '
                       'enumeration for blocks with <= 6 input bits; distinct = (instance, history)')
    res.assumptions += [
        'Verilog semantics = lean/Py4hwV/Verilog (IEEE 1364-2005 sizing/signedness, one known/unknown flag per value, two-half-step cycle)',
        'domain of the property read as: every value Python computes during the call lies in [0, 2^31) (Tp.evalD); a 32-bit value '
        'with bit 31 set is negative as a Verilog integer (C02.bit31_counterexample)',
        'statement-level theorem (C02.trS_sound) is over an abstract store satisfying get/set laws, not over Run.lean\'s HashMap store; '
        'the whole-module cycle (initial block, always block scheduling) is tied by the differential only',
        'parameters (getParameterValue) are modelled in syntax and semantics but only library use is inlined primitives; not instantiated here',
    ]


def run_all(res, tier, rng, tmpdir, quick):
    bt = Batch(res, tier)
    # ---- (1) witnesses of the known findings first (corpus)
    open(os.path.join(tmpdir, 'c02_witness.py'), 'w').write(WITNESS_SRC)
    wm = c02_gen.load_module(tmpdir, 'c02_witness')
    for cname, hist, fid in WITNESSES:
        try:
            d = Dut('witness/' + cname, getattr(wm, cname), [('a', 8, 'in'), ('b', 8, 'out' if cname == 'WPutInClock' else 'in'), ('r', 8, 'out')],
                    src=cname, tags={'WGuardedWildcard': ['refuse:match-guarded-wildcard'], 'WFloatConst': ['refuse:float-const'],
                          'WValueTarget': ['refuse:assign-to-wire-attr'], 'WGuard': ['refuse:guard-with-later-match'],
                          'WClash': ['refuse:local-named-like-attr']}.get(cname, []),
                    profile='witness')
        except Exception as e:
            res.broken.append(('correspondence', 'witness-build', f'{cname}: {type(e).__name__}: {e}'))
            continue
        if fid == 'regression:refuse':
            res.hist('regression', cname + (':refused' if d.gen_err else ':ACCEPTED'))
            if not d.gen_err:
                cons_ = next((t[7:] for t in d.features if t.startswith('refuse:')), cname)
                fail(res, f'witness/{cname}: `{cons_}` is outside the subset but the transpiler accepted it again (regression)',
                     dict(kind='accepted-unsupported', construct=cons_, design='witness/' + cname, supported=None, reasons=[],
                          text=(d.text or '')[-400:]))
        if fid == 'regression:agree':
            res.hist('regression', cname + (':parses' if d.tree is not None else ':REFUSED-OR-UNPARSEABLE'))
            if d.gen_err:
                fail(res, f'witness/{cname}: the class is in the subset but the transpiler refuses it ({d.gen_err})',
                     dict(kind='refused-supported', design='witness/' + cname, supported=True, reasons=[]))
        bt.add(d, hist, 'witness')
    # ---- (2) repo classes
    covered = set()
    n_hist = 3 if quick else 60
    n_cyc = 70 if quick else 400
    for label, getter, wires in repo_specs():
        r = rng.fork(('repo', label))
        for hi in range(n_hist):
            try:
                d = Dut(label, getter(), wires, profile='repo')
            except Exception as e:
                res.broken.append(('correspondence', 'repo-build', f'{label}: {type(e).__name__}: {str(e)[:200]}'))
                break
            covered.add(type(d.obj).__name__)
            if d.syntax is None:
                res.disagree('py2syntax', dict(design=label, error=d.syntax_err, what='repo class outside PySyntax'))
            if d.gen_err:
                res.disagree('repo-class-refused', dict(design=label, error=d.gen_err))
            mode = 'edge' if hi % 4 == 3 else 'dom'
            hist = protocol_history(r, d, n_cyc, mode)
            bt.add(d, hist, 'repo')
    static_scan(res, covered)
    # ---- (3) exhaustive small blocks (all input vectors, in sequence) -- SelectType-like combinational and 1-bit FSMs
    for label, getter, wires in repo_specs():
        nbits = sum(w for _, w, dr in wires if dr == 'in')
        if nbits > (7 if quick else 10) or nbits == 0:
            continue
        d = Dut(label + '/exh', getter(), wires, profile='repo')
        names = [(n, w) for n, w, dr in wires if dr == 'in']
        portname = {a: p for p, a in d.attr_of_port.items()} if False else None
        hist = []
        order = rng.fork(('exh', label)).shuffle(range(1 << nbits)) * (2 if d.seq else 1)
        for code in order:
            cyc, sh = {}, 0
            for (n, w), pn in zip(names, list(d.in_ports)):
                cyc[pn] = (code >> sh) & ((1 << w) - 1)
                sh += w
            hist.append(cyc)
        bt.add(d, hist, 'exhaustive')
        res.hist('exhaustive_blocks', label, len(hist))
    bt.run()
    for cname, hist, fid in WITNESSES:
        if fid.startswith('regression:'):
            continue          # any difference on these is a VIOLATION through the ordinary oracle (no finding covers them any more)
        hit = any(k['id'] == fid and what.startswith('witness/' + cname + ':') for k, what in res.known_hits)
        res.hist('witness_reproduced', fid, 1 if hit else 0)
        if not hit:
            res.notes.append(f'witness {cname} no longer reproduces {fid} (defect fixed or behaviour changed)')
    # ---- (3b) the refusal stream is exhaustive over the node kinds of the running Python's `ast`
    unclassified, gone, missing = c02_gen.ast_kind_audit()
    for k in unclassified:
        res.broken.append(('correspondence', 'refusal-stream', f'ast node kind {k} is neither in the subset nor covered by a refusal case'))
    for k in missing:
        res.broken.append(('correspondence', 'refusal-stream', f'refusal kind {k} named in AST_KINDS has no snippet'))
    for kind_name, (st_, v_) in c02_gen.AST_KINDS.items():
        res.hist('ast_node_kinds', st_)
        if st_ == 'refuse':
            for rk_ in v_:
                src_ = c02_gen.gen_class(rng.fork(('astchk', rk_)), 0, 'safe', refuse_kind=rk_)['src']
                try:
                    names_ = {type(n_).__name__ for n_ in ast.walk(ast.parse(src_))}
                except SyntaxError as e_:
                    res.broken.append(('correspondence', 'refusal-stream', f'snippet {rk_} is not valid Python: {e_}'))
                    continue
                if kind_name not in names_:
                    res.broken.append(('correspondence', 'refusal-stream', f'snippet {rk_} does not contain an ast.{kind_name} node'))
    # ---- (4) generated classes
    n_gen = dict(safe=90, wild=70, refuse=len(c02_gen.REFUSE_KINDS)) if quick else dict(safe=4000, wild=2500, refuse=5 * len(c02_gen.REFUSE_KINDS))
    chunk = 40
    idx = 0
    for profile in ('safe', 'wild', 'refuse'):
        todo = n_gen[profile]
        ci = 0
        while todo > 0:
            classes = []
            for j in range(min(chunk, todo)):
                r = rng.fork(('gen', profile, idx))
                rk = c02_gen.REFUSE_KINDS[idx % len(c02_gen.REFUSE_KINDS)] if profile == 'refuse' else None
                classes.append(c02_gen.gen_class(r, idx, profile if profile != 'refuse' else 'safe', refuse_kind=rk))
                classes[-1]['profile'] = profile
                idx += 1
            todo -= len(classes)
            modname = f'c02_gen_{profile}_{ci}'
            ci += 1
            c02_gen.write_module(tmpdir, modname, classes)
            try:
                mod = c02_gen.load_module(tmpdir, modname)
            except SyntaxError as e:
                res.broken.append(('correspondence', 'generator', f'generated module does not compile: {e}'))
                continue
            for c in classes:
                r = rng.fork(('hist', c['name']))
                wires = [(n, w, 'in') for n, w in c['ins']] + [(n, w, 'out') for n, w in c['outs']]
                for hi in range(2 if quick else 3):
                    # every further instance of the class gets OTHER constructor constants (same process: the text emitted for an
                    # instance must not depend on which instances of its class were transpiled before)
                    consts_ = c['consts'] if hi == 0 else c02_gen.alt_consts(r.fork(('alt', hi)), c['consts'])
                    try:
                        d = Dut(f'gen/{profile}/{c["name"]}' + (f'#{hi}' if hi and c['consts'] else ''), getattr(mod, c['name']), wires,
                                extra=[v for _, v in consts_],
                                src=c['src'], tags=c['tags'], profile=profile)
                    except Exception as e:
                        res.hist('generator_build_errors', type(e).__name__)
                        break
                    if profile == 'refuse':
                        judge_refusal(res, d, c)
                        if d.gen_err or d.parse_err or hi > 0:
                            break
                    elif d.syntax is None:
                        res.disagree('py2syntax', dict(design=d.label, error=d.syntax_err, src=c['src']))
                    for t in (d.syntax['constructs'] if d.syntax else {}):
                        res.hist('constructs', t, d.syntax['constructs'][t])
                    nb = sum(w for _, w in c['ins'])
                    if hi == 0 and nb <= 6:
                        hist = [dict(zip([n for n, _ in c['ins']], split_bits(code, [w for _, w in c['ins']])))
                                for code in r.shuffle(range(1 << nb))] * (2 if c['seq'] else 1)
                        res.hist('exhaustive_blocks', 'generated', 1)
                    else:
                        hist = mk_history(r, d, 16 if quick else 40, 'edge' if hi == 1 else 'dom')
                    bt.add(d, hist, 'gen')
            if len(bt.jobs) >= 1500:
                bt.run()
        bt.run()
    # ---- (4b) transpilation HISTORY stream: several instances of the same class, constructed with different constructor constants and
    #           different port widths, transpiled one after the other in the same process (A, B, A again, C): each emitted module must
    #           follow ITS instance (no memoisation per class / per name / per source)
    n_re = 10 if quick else 150
    rcl = [c02_gen.gen_class(rng.fork(('reinst', i)), 900000 + i, 'safe', force_consts=True) for i in range(n_re)]
    c02_gen.write_module(tmpdir, 'c02_gen_reinst', rcl)
    try:
        rmod = c02_gen.load_module(tmpdir, 'c02_gen_reinst')
    except SyntaxError as e:
        res.broken.append(('correspondence', 'generator', f'reinst module does not compile: {e}'))
        rmod = None
    if rmod is not None:
        for c in rcl:
            r = rng.fork(('reinst-h', c['name']))
            wires0 = [(n, w, 'in') for n, w in c['ins']] + [(n, w, 'out') for n, w in c['outs']]
            cB = c02_gen.alt_consts(r.fork('B'), c['consts'])
            cC = c02_gen.alt_consts(r.fork('C'), cB)
            variants = [('A', c['consts'], wires0), ('B', cB, wires0), ('A2', c['consts'], wires0),
                        ('C', cC, c02_gen.alt_widths(r.fork('W'), wires0))]
            for vn, consts_, wires in variants:
                try:
                    d = Dut(f'gen/reinst/{c["name"]}#{vn}', getattr(rmod, c['name']), wires, extra=[v for _, v in consts_],
                            src=c['src'] + f'# constructor constants {consts_}, widths {[(n, w) for n, w, _ in wires]}\n',
                            tags=c['tags'] + ['reinst:' + vn], profile='reinst')
                except Exception as e:
                    res.hist('generator_build_errors', type(e).__name__)
                    break
                if d.syntax is None:
                    res.disagree('py2syntax', dict(design=d.label, error=d.syntax_err, src=c['src']))
                res.hist('reinst_instances', vn)
                nb = sum(w for _, w, dr in wires if dr == 'in')
                if nb <= 6:
                    hist = [dict(zip([n for n, _, dr in wires if dr == 'in'], split_bits(code, [w for _, w, dr in wires if dr == 'in'])))
                            for code in r.shuffle(range(1 << nb))] * (2 if c['seq'] else 1)
                else:
                    hist = mk_history(r.fork(vn), d, 16 if quick else 40, 'dom')
                bt.add(d, hist, 'gen')
        bt.run()
    # ---- (5) nesting / precedence stream: every ordered pair of operators, nested left and right, operand triples on which the
    #          two groupings differ (inside the domain)
    ncl = c02_gen.gen_nest_classes(rng.fork('nest'), *((2, 1) if quick else (3, 2)))
    c02_gen.write_module(tmpdir, 'c02_gen_nest', ncl)
    try:
        nmod = c02_gen.load_module(tmpdir, 'c02_gen_nest')
    except SyntaxError as e:
        res.broken.append(('correspondence', 'generator', f'nest module does not compile: {e}'))
        nmod = None
    if nmod is not None:
        for c in ncl:
            wires = [(n, w, 'in') for n, w in c['ins']] + [(n, w, 'out') for n, w in c['outs']]
            try:
                d = Dut(f'gen/nest/{c["name"]}', getattr(nmod, c['name']), wires, src=c['src'], tags=c['tags'], profile='nest')
            except Exception as e:
                res.broken.append(('correspondence', 'nest-build', f'{c["name"]}: {type(e).__name__}: {e}'))
                continue
            if d.syntax is None:
                res.disagree('py2syntax', dict(design=d.label, error=d.syntax_err))
            res.hist('nest_expressions', 'total', len(c['exprs']))
            res.hist('nest_expressions', 'with-distinguishing-vectors', sum(1 for e in c['exprs'] if e['n_diff']))
            hist = c['history'] if quick else c['history'] * 2 + mk_history(rng.fork(('nesth', c['name'])), d, 200, 'dom')
            bt.add(d, hist, 'nest')
        bt.run()
    # ---- (5b) the same with CONSTANT operands (literals, ord('c'), constructor constants): constant folding / collapsing
    #      (5c) conditional idioms whose condition is a multi-bit value
    kcl = c02_gen.gen_constnest_classes(rng.fork('constnest'), c02_gen.CONST_PATTERNS_2[:3] if quick else
                                        c02_gen.CONST_PATTERNS_2 + c02_gen.CONST_PATTERNS_1, *((1, 0) if quick else (2, 1)))
    icl = c02_gen.gen_idiom_classes(rng.fork('idiom'))
    c02_gen.write_module(tmpdir, 'c02_gen_constnest', kcl + icl)
    try:
        kmod = c02_gen.load_module(tmpdir, 'c02_gen_constnest')
    except SyntaxError as e:
        res.broken.append(('correspondence', 'generator', f'constnest module does not compile: {e}'))
        kmod = None
    if kmod is not None:
        for c in kcl + icl:
            wires = [(n, w, 'in') for n, w in c['ins']] + [(n, w, 'out') for n, w in c['outs']]
            stream = 'idiom' if 'idiom' in c['tags'] else 'constnest'
            try:
                d = Dut(f'gen/{stream}/{c["name"]}', getattr(kmod, c['name']), wires, extra=[v for _, v in c['consts']],
                        src=c['src'], tags=c['tags'], profile='nest')
            except Exception as e:
                res.broken.append(('correspondence', stream + '-build', f'{c["name"]}: {type(e).__name__}: {e}'))
                continue
            if d.syntax is None:
                res.disagree('py2syntax', dict(design=d.label, error=d.syntax_err))
            if d.gen_err:
                res.hist(stream + '_refused', d.gen_err[:60])
            res.hist(stream + '_expressions', 'total', len(c['exprs']))
            if stream == 'constnest':
                res.hist('constnest_expressions', 'with-distinguishing-vectors', sum(1 for e in c['exprs'] if e['n_diff']))
                for e in c['exprs']:
                    res.hist('constnest_patterns', e['pattern'])
            bt.add(d, c['history'], 'nest')
        bt.run()


def split_bits(code, widths):
    out = []
    for w in widths:
        out.append(code & ((1 << w) - 1))
        code >>= w
    return out


def judge_refusal(res, d, c):
    kind = [t for t in c['tags'] if t.startswith('refuse:')][0][7:]
    if d.syntax is not None:
        res.disagree('py2syntax-accepts-refused-form', dict(kind=kind, src=c['src']))
    if d.gen_err:
        res.hist('refusal_stream', kind + ':raised')
    elif d.parse_err:
        res.hist('refusal_stream', kind + ':accepted-unparseable')
        fail(res, f'construct `{kind}` is outside the subset but the transpiler emitted text instead of raising ({d.parse_err})',
             dict(kind='accepted-unsupported', construct=kind, src=c['src'], text=d.text[-400:], supported=None, reasons=[]))
    else:
        res.hist('refusal_stream', kind + ':accepted-parseable')
        # behaviour is then compared by the differential (no Lean model of the Python side)
    res.count(('refuse', kind, c['name']), hist={'dut_profile': 'refuse'})


def protocol_history(rng, d, n, mode):
    """input sequences with protocol-shaped bias (held valid/ready, command characters) so that every FSM branch is reached"""
    h = []
    hold = {}
    chars = [ord(x) for x in 'IOK=!?;0123456789ABCDEFxz']
    for _ in range(n):
        cyc = {}
        for p, w in d.in_ports.items():
            width = w.getWidth()
            if p in hold and hold[p][1] > 0:
                cyc[p] = hold[p][0]
                hold[p] = (hold[p][0], hold[p][1] - 1)
                continue
            if width == 1:
                v = 1 if rng.chance(1, 2) else 0
                if rng.chance(1, 4):
                    hold[p] = (v, rng.randint(1, 6))
            elif p == 'c':
                v = rng.choice(chars) if rng.chance(9, 10) else rng.bits(width)
            elif mode == 'edge':
                v = rng.bits(width)
            else:
                v = rng.bits(min(width, rng.choice([2, 4, 8, 16, 31])))
            cyc[p] = v
        h.append(cyc)
    return h


if __name__ == '__main__':
    main_wrapper('C02', main)
