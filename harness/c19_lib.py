"""C19 support: object-graph export for lean/Drv/C19.lean (Emit.Cache), deep snapshots of the live object graph,
Canon on real text, parsers for the model's answers, design builders (twins from one seed)."""
import io, contextlib, ast, os, re
from common import *
import vparse

HDR = '// This file was automatically created by py4hw Verilog generator\n'
WARN = '// WARNING: inlined out of scope\n'


class Unsupported(Exception):
    pass


def quiet():
    return contextlib.redirect_stdout(io.StringIO())


def keywords():
    """the reserved-word lists of isReservedVerilogKeyword, read from the SOURCE (so a changed list changes the model's input)"""
    src = open(os.path.join(REPO, 'py4hw', 'rtl_generation.py')).read()
    for nd in ast.walk(ast.parse(src)):
        if isinstance(nd, ast.FunctionDef) and nd.name == 'isReservedVerilogKeyword':
            kws = []
            for a in ast.walk(nd):
                if isinstance(a, ast.List):
                    kws += [e.value for e in a.elts if isinstance(e, ast.Constant) and isinstance(e.value, str)]
            return kws
    raise ToolFailure('isReservedVerilogKeyword not found')


_SAFE = re.compile(r'^[A-Za-z0-9_$\[\]\.\-]+$')


def safe(s):
    s = str(s)
    if not _SAFE.match(s):
        raise Unsupported(f'name {s!r} not transportable')
    return s


# ------------------------------------------------------------------------------------------------
class Graph:
    """persistent numbering of every Logic object and wire reachable from the registered roots"""

    def __init__(self):
        import py4hw
        self.py4hw = py4hw
        self.objs, self.oid, self.wires, self.wid, self.roots = [], {}, [], {}, []
        self.pred = None   # a VerilogGenerator used only for its isInlinable / isProvidingBody predicates

    def add_root(self, root):
        self.roots.append(root)
        if self.pred is None:
            self.pred = self.py4hw.VerilogGenerator(root)
        self.refresh()

    def _w(self, w):
        if w is not None and id(w) not in self.wid:
            self.wid[id(w)] = len(self.wires)
            self.wires.append(w)

    def refresh(self):
        def walk(o):
            if id(o) not in self.oid:
                self.oid[id(o)] = len(self.objs)
                self.objs.append(o)
            for w in list(o._wires.values()):
                self._w(w)
            for p in o.inPorts + o.outPorts + o.inOutPorts:
                self._w(p.wire)
            cd = o.clockDriver
            if cd is not None:
                self._w(cd.wire)
                self._w(cd.enable)
            if hasattr(o, 'drv') and o.drv is not None:
                self._w(getattr(o.drv, 'wire', None))
            for c in list(o.children.values()):
                walk(c)
        for r in self.roots:
            walk(r)

    # -- ids
    def O(self, o):
        return '_' if o is None else str(self.oid[id(o)])

    def W(self, w):
        return '_' if w is None else str(self.wid[id(w)])

    def hexid(self, o):
        return hex(id(o))[2:]

    def norm_ids(self, text):
        """instance suffixes hex(id(obj)) -> ID<index>"""
        for i, o in enumerate(self.objs):
            text = text.replace(self.hexid(o), f'ID{i}')
        return text

    # -- table for the driver
    def table_lines(self, kws):
        py4hw = self.py4hw
        from py4hw.logic.clock import GatedClock
        L = ['cleartab', 'kw ' + ','.join(kws)]
        for w in self.wires:
            fake = 0 if isinstance(w, py4hw.Wire) else 1
            L.append(f'wire {safe(w.name)}|{w.getWidth()}|{fake}')

        def cd(c):
            if c is None:
                return '_'
            base = '_' if c.base is None else safe(c.base.name)
            return f'{safe(c.name)}:{self.W(c.wire)}:{base}'

        def ports(ps):
            return ','.join(f'{safe(p.name)}:{self.W(p.wire)}' for p in ps) or '-'
        for i, o in enumerate(self.objs):
            sn = safe(o.structureName()) if py4hw.base.has_method(o, 'structureName') else '_'
            pn = o.getParameterNames()
            if pn is None:
                params = '_'
            else:
                kv = []
                for k in pn:
                    v = o.getParameterInstantiationValue(k)
                    if isinstance(v, py4hw.Parameter):
                        v = v.name
                    kv.append(f'{safe(k)}={safe(v)}')
                params = ','.join(kv) or '-'
            flags = ('p' if o.isPropagatable() else '') + ('c' if o.isClockable() else '') + ('r' if o.isRunnable() else '') + \
                    ('i' if self.pred.isInlinable(o) else '') + ('b' if self.pred.isProvidingBody(o) else '')
            gated = cd(o.drv) if isinstance(o, GatedClock) else '_'
            ch = ','.join(self.O(c) for c in o.children.values()) or '-'
            L.append('obj ' + '|'.join([self.O(o.parent) if (o.parent is None or id(o.parent) in self.oid) else '_',
                                        safe(type(o).__name__), safe(o.name), str(i), sn, params, ch,
                                        ports(o.inPorts), ports(o.outPorts), ports(o.inOutPorts), cd(o.clockDriver),
                                        flags or '-', gated, f'L{i}']))
        return L


# ------------------------------------------------------------------------------------------------
def snapshot(g, with_values=True):
    """deep, identity-free snapshot of everything reachable from the roots: structure, names, widths, connectivity,
    wire values, every instance attribute of every object, Wire.prepared, simulator schedule.
    Comparable with == ; objects/wires are named by their Graph index (unknown ones show up as new indices)."""
    py4hw = g.py4hw
    g.refresh()

    def pref(p):
        return None if p is None else ('P', g.O(p.parent) if id(p.parent) in g.oid else '?', type(p).__name__, p.name)

    def enc(v, depth=0):
        if isinstance(v, bool):
            return ('bool', v)          # True == 1 in python: keep the TYPE observable
        if v is None or isinstance(v, (int, str, float)):
            return v
        if isinstance(v, (py4hw.Wire, py4hw.FakeWire)):
            return ('W', g.wid.get(id(v), '?'))
        if isinstance(v, py4hw.Logic):
            return ('O', g.oid.get(id(v), '?'))
        if isinstance(v, (py4hw.InPort, py4hw.OutPort, py4hw.InOutPort)):
            return pref(v)
        if isinstance(v, py4hw.ClockDriver):
            return ('CD', v.name, g.W(v.wire) if v.wire is None or id(v.wire) in g.wid else '?',
                    g.W(v.enable) if v.enable is None or id(v.enable) in g.wid else '?',
                    None if v.base is None else v.base.name, v.freq, v.phaseOffset)
        if depth > 4:
            return ('deep', type(v).__name__)
        if isinstance(v, (list, tuple)):
            return [enc(x, depth + 1) for x in v]
        if isinstance(v, dict):
            return [(enc(k, depth + 1), enc(x, depth + 1)) for k, x in v.items()]
        if isinstance(v, py4hw.Parameter):
            return ('Param', g.oid.get(id(v.obj), '?'), v.name)
        if isinstance(v, (py4hw.InterfaceSource, py4hw.InterfaceSink)):
            return (type(v).__name__, v.name)
        if type(v).__name__ == 'Simulator':
            return 'Simulator'
        if hasattr(v, '__dict__') and depth <= 2:
            return (type(v).__name__, [(k, enc(x, depth + 1)) for k, x in sorted(vars(v).items()) if not k.startswith('__')])
        return ('?', type(v).__name__)
    S = {'objs': [], 'wires': [], 'prepared': [g.wid.get(id(w), '?') for w in py4hw.Wire.prepared], 'sims': []}
    for o in g.objs:
        S['objs'].append((type(o).__name__, [(k, enc(v)) for k, v in vars(o).items()]))
    for w in g.wires:
        d = [(k, enc(v)) for k, v in vars(w).items() if with_values or k not in ('value', 'next')]
        S['wires'].append((type(w).__name__, d))
    for r in g.roots:
        sim = getattr(r, 'simulator', None)
        if sim is not None:
            S['sims'].append(dict(prop=[g.oid.get(id(o), '?') for o in sim.propagatables],
                                  drivers=[(dr.name, [g.oid.get(id(o), '?') for o in ds.clockables])
                                           for dr, ds in sim.clockDrivers.items()],
                                  total_clks=sim.total_clks, listeners=len(sim.listeners)))
    return S


def snap_diff(a, b):
    """first few differences between two snapshots (human readable)"""
    out = []
    for key in ('objs', 'wires'):
        if len(a[key]) != len(b[key]):
            out.append(f'{key}: {len(a[key])} -> {len(b[key])} entries')
        for i, (x, y) in enumerate(zip(a[key], b[key])):
            if x != y:
                dx, dy = dict((k, v) for k, v in x[1]), dict((k, v) for k, v in y[1])
                for k in sorted(set(dx) | set(dy)):
                    if dx.get(k, '<absent>') != dy.get(k, '<absent>'):
                        out.append(f'{key}[{i}] {x[0]}.{k}: {str(dx.get(k, "<absent>"))[:80]} -> {str(dy.get(k, "<absent>"))[:80]}')
            if len(out) > 6:
                return out
    if a['prepared'] != b['prepared']:
        out.append(f'Wire.prepared: {a["prepared"]} -> {b["prepared"]}')
    if a['sims'] != b['sims']:
        out.append(f'simulator: {str(a["sims"])[:150]} -> {str(b["sims"])[:150]}')
    return out


# ------------------------------------------------------------------------------------------------
def chunks(text):
    """generated text -> list of module texts (one per emitted structure); '' -> []"""
    parts = [p for p in text.split(HDR)]
    out = []
    for p in parts:
        if p.strip() == '':
            continue
        out.append(p.strip('\n') + '\n')
    return out


def canon_text(text, ids):
    """Canon (python): per module — wire declarations sorted, instance suffixes renumbered by first occurrence over the
    whole text; whitespace runs collapsed.  ids: hex suffix strings that denote object identities."""
    order = []
    for m in re.finditer('|'.join(sorted((re.escape(i) for i in ids), key=len, reverse=True)) or r'(?!x)x', text):
        if m.group(0) not in order:
            order.append(m.group(0))
    for k, i in enumerate(order):
        text = text.replace(i, f'N{k}')
    mods = []
    for ch in chunks(text):
        lines = ch.split('\n')
        wl = sorted(l for l in lines if re.match(r'^wire (\[\d+:0\] )?\w+;$', l))
        rest = [l for l in lines if not re.match(r'^wire (\[\d+:0\] )?\w+;$', l)]
        # declarations directly follow the header: put them back, sorted, after the line that closes the port list
        try:
            k = next(i for i, l in enumerate(rest) if l.rstrip().endswith(');'))
        except StopIteration:
            k = 0
        mods.append('\n'.join(rest[:k + 1] + wl + rest[k + 1:]))
    return '\n'.join(re.sub(r'[ \t]+', ' ', m) for m in mods)


# ------------------------------------------------------------------------------------------------
def parse_model(s):
    """answer of Drv/C19.lean for a getVerilog/getHier op -> ('err', kind) | ('ok', [out])"""
    if s.startswith('err '):
        return ('err', s[4:])
    if not s.startswith('ok'):
        raise ToolFailure('model answer: ' + s[:200])
    body = s[2:].strip()
    outs = []
    if body:
        for o in body.split(' || '):
            outs.append(parse_out(o.strip()))
    return ('ok', outs)


def _lst(s):
    return [x for x in s.split(',') if x != ''] if s else []


def parse_frag(f):
    m = re.match(r'^inl (\d+) (\S+) \[(.*)\]$', f)
    if m:
        return dict(k='inl', c=int(m.group(1)), cls=m.group(2), names=_lst(m.group(3)))
    m = re.match(r'^inst (\S+) #\[(.*?)\] (\S+) \[(.*)\]$', f)
    if m:
        return dict(k='inst', mod=m.group(1), params=[tuple(x.split('=')) for x in _lst(m.group(2))], iname=m.group(3),
                    conns=[tuple(x.split('=')) for x in _lst(m.group(4))])
    raise ToolFailure('model fragment: ' + f[:200])


def parse_out(o):
    if o == 'empty':
        return dict(k='empty')
    if o.startswith('inlined-out-of-scope '):
        return dict(k='ioos', frag=parse_frag(o[len('inlined-out-of-scope '):]))
    m = re.match(r'^mod@(\d+) (\S+) params=(\S+) ports=\[(.*?)\] wires=\[(.*?)\] (leaf|struct)(.*)$', o)
    if not m:
        raise ToolFailure('model module: ' + o[:200])
    ps = m.group(3)
    d = dict(k='mod', src=int(m.group(1)), name=m.group(2), params=None if ps == '_' else _lst(ps[1:-1]),
             ports=[(a, int(b), int(c), e) for a, b, c, e in (x.split(':') for x in _lst(m.group(4)))],
             wires=[(a, int(b)) for a, b in (x.split(':') for x in _lst(m.group(5)))])
    if m.group(6) == 'leaf':
        how, o_ = m.group(7).split()
        d['body'] = ('leaf', how, int(o_))
    else:
        rest = m.group(7).strip()
        d['body'] = ('struct', [parse_frag(f.strip()) for f in rest.split(' ; ')] if rest else [])
    return d


def expr_ids(e, acc=None):
    acc = acc if acc is not None else set()
    if isinstance(e, list) and e:
        if e[0] in ('id',):
            acc.add(e[1])
        elif e[0] in ('idx', 'rng', 'lid', 'lidx', 'lrng'):
            acc.add(e[1])
            for x in e[2:]:
                expr_ids(x, acc)
        else:
            for x in e[1:]:
                expr_ids(x, acc)
    return acc


def compare_module(mo, chunk_norm, frag_items):
    """model module `mo` (parse_out) vs the real module text (ids normalised).  frag_items: child index -> number of
    module items the real Inline* function emits for that child.  returns list of differences ([] = agree) or None when
    the text is outside the parser's subset"""
    try:
        tree = vparse.parse(chunk_norm)
    except vparse.VParseError as e:
        return None
    if len(tree) != 2:
        return [f'{len(tree) - 1} modules in one chunk']
    _, name, params, ports, items = tree[1]
    diffs = []
    if name != mo['name']:
        diffs.append(f'name {name} / model {mo["name"]}')
    if list(params[1:]) != list(mo['params'] or []):
        diffs.append(f'params {params[1:]} / model {mo["params"]}')
    rp = [({'in': 'input', 'out': 'output', 'inout': 'inout'}[p[1]], p[2], p[3], p[4]) for p in ports[1:]]
    if rp != mo['ports']:
        diffs.append(f'ports {rp} / model {mo["ports"]}')
    its = items[1:]
    if mo['body'][0] == 'struct':
        rw = sorted((i[1], i[2]) for i in its if i[0] == 'wire')
        if rw != sorted(mo['wires']):
            diffs.append(f'wires {rw} / model {sorted(mo["wires"])}')
        rest = [i for i in its if i[0] != 'wire']
        k = 0
        for f in mo['body'][1]:
            if f['k'] == 'inl':
                n = frag_items.get(f['c'], 1)
                seg = rest[k:k + n]
                k += n
                if any(s[0] != 'assign' for s in seg) or len(seg) != n:
                    diffs.append(f'inline child {f["c"]}: expected {n} assigns, found {[s[0] for s in seg]}')
                    break
                ids = set()
                for s in seg:
                    expr_ids(s[1], ids)
                    expr_ids(s[2], ids)
                if n > 0 and ids != set(f['names']):
                    diffs.append(f'inline child {f["c"]} ({f["cls"]}): names {sorted(ids)} / model {sorted(set(f["names"]))}')
            else:
                if k >= len(rest) or rest[k][0] != 'inst':
                    diffs.append(f'instance {f["iname"]}: found {rest[k][0] if k < len(rest) else "nothing"}')
                    break
                it = rest[k]
                k += 1
                conns = []
                for c in it[4][1:]:
                    conns.append((c[1], c[2][1] if c[2][0] == 'id' else vparse.pp_expr(c[2])))
                prm = [(p[1], vparse.pp_expr(p[2])) for p in it[3][1:]]
                if (it[1], it[2], conns) != (f['mod'], f['iname'], [tuple(c) for c in f['conns']]):
                    diffs.append(f'instance {it[1]} {it[2]} {conns} / model {f["mod"]} {f["iname"]} {f["conns"]}')
                if [(p[0], str(p[1])) for p in prm] != [(p[0], str(p[1])) for p in f['params']]:
                    diffs.append(f'instance params {prm} / model {f["params"]}')
        if not diffs and k != len(rest):
            diffs.append(f'{len(rest) - k} extra items after the children')
    return diffs


def count_items(frag_text):
    """number of module items in an Inline* fragment"""
    try:
        t = vparse.parse('module m();\n' + frag_text + 'endmodule\n')
        return len(t[1][4]) - 1
    except vparse.VParseError:
        return frag_text.count('assign ')
