"""C01 — Generated Verilog behaves exactly like the simulated structural design.
DESIGN.md §5 C01; lean/Py4hwV/Verilog/* (formal reading of IEEE 1364 for the emitted subset), lean/Py4hwV/Props/C01.lean
(per-primitive inline soundness, register body bisimulation, negative witnesses).

Per run: every explored design's REAL emitted text is parsed (vparse), executed by the Lean Verilog semantics and compared
cycle by cycle, from power-up, with the real py4hw simulator (translation validation); the Lean netlist model (Net.Sim with
the generated leaves) is compared on the same histories as a third leg."""
import re
import copy
from common import *
import vparse, vsim, gen_vdesigns as GV, dump_ir as D
import c01_mem

OBLIGATIONS = ['C01.inline_and2', 'C01.inline_or2', 'C01.inline_xor2', 'C01.inline_not', 'C01.inline_buf', 'C01.inline_nand2',
               'C01.inline_nor2', 'C01.inline_add', 'C01.inline_sub', 'C01.inline_mul', 'C01.inline_shl', 'C01.inline_shr',
               'C01.inline_mux2', 'C01.inline_mux2_bit', 'C01.inline_mux2_wide_counterexample', 'C01.inline_range', 'C01.inline_bit',
               'C01.inline_div', 'C01.inline_mod', 'C01.inline_const', 'C01.inline_equalconst',
               'C01.reg_body_step', 'C01.gen_reg_rule', 'C01.reg_body_wide_enable_counterexample', 'C01.reg_powerup_counterexample']

# design-level theorems for FLAT designs (lean/Py4hwV/Props/C01Flat.lean, notes/C01deep.md): from the per-primitive theorems
# above to whole designs, all widths, all input histories from power-up
OBLIGATIONS_FLAT = ['C01Flat.settled_exists', 'C01Flat.settled_unique', 'C01Flat.settle_reaches', 'C01Flat.shipped_settle',
                    'C01Flat.shipped_sim_settle', 'C01Flat.flat_settle', 'C01Flat.flat_settle_comb', 'C01Flat.flat_cycle',
                    'C01Flat.flat_powerup', 'C01Flat.flat_run_corr', 'C01Flat.flat_run', 'C01Flat.shipped_cycle',
                    'C01Flat.shipped_run', 'C01Flat.shipped_powerup', 'C01Flat.shipped_state_exists', 'C01Flat.store0_powerup',
                    'C01Flat.exF_wf', 'FlatM.eval_congr', 'FlatM.kind_eval', 'FlatM.reg_body_exec', 'FlatM.comb_corr',
                    'FlatM.cycle_corr', 'FlatM.run_corr', 'FlatM.FlatDesign.seqCorr', 'FlatM.settlePass_rd', 'FlatM.settleLoop_rd',
                    'FlatM.exec_nba', 'FlatM.cycle_rd', 'FlatM.FlatDesign.cycOK', 'FlatM.FlatDesign.ship_run',
                    'FlatM.kind_inst_prop', 'FlatM.reg_inst_clock',
                    'C01Flat.mkSim_shipInv', 'C01Flat.check_wf', 'C01Flat.text_run', 'C01Flat.text_powerup', 'C01Flat.exS_text',
                    'C01Flat.exS_check', 'FlatM.FlatSrc.flatten_emit', 'FlatM.FlatSrc.flatS_perm', 'FlatM.FlatSrc.check_sound',
                    'C01Flat.exS2_text', 'C01Flat.exS2_check', 'C01.inline_concat', 'C01.inline_repeat', 'C01.inline_sext',
                    'C01.inline_smul', 'C01.gen_concatMSBF']

# third proof stage (lean/Py4hwV/Props/C01Hier.lean): certified flattened texts, children with several leaves / assigns,
# structural hierarchy of any depth, Div / Mod under the side condition `divisor ≠ 0 at every settle`
OBLIGATIONS_HIER = ['C01Hier.cert_run', 'C01Hier.cert_powerup', 'C01Hier.hier_elab', 'C01Hier.hier_text_run',
                    'C01Hier.hier_text_powerup', 'C01Hier.hier_text_run_divfree', 'C01Hier.hier_text_powerup_divfree',
                    'C01Hier.exH_text', 'C01Hier.exH_check', 'C01Hier.exH_o2', 'C01Hier.exG_text', 'C01Hier.exG_check',
                    'C01Hier.exG_outputs', 'C01Hier.exG_good',
                    'FlatM.CertSrc.ok_of_check', 'FlatM.CertSrc.OK.seqCorr', 'FlatM.CertSrc.OK.cycOK', 'FlatM.CertSrc.certSim_inv',
                    'FlatM.CertSrc.good_of_divFree', 'FlatM.gkind_just', 'FlatM.gate_val', 'FlatM.equal_val', 'FlatM.eqc_val',
                    'FlatM.evalAssign_chain', 'FlatM.evalAssign_notchain', 'FlatM.inline_equal',
                    'FlatM.HierSrc.flatten_mod', 'FlatM.HierSrc.step_sub', 'FlatM.HierSrc.up_ok', 'FlatM.HierSrc.lowN_ok',
                    'FlatM.HierSrc.flatten_emitH', 'FlatM.goodRun_of_all', 'FlatM.bitsL_inst_prop', 'FlatM.bitsM_inst_prop',
                    'FlatM.dm_inst_prop']

# ---- flat-text stream: the elaboration theorem `C01Flat.text_run` is tied to the REAL text per design -------------------------------
# For a design whose top block has only covered primitives and Regs as children the exporter below imports the description
# (`FlatM.FlatSrc`) from the live object graph; lean/Drv/C01Flat.lean then decides (i) parsed real text == `FlatSrc.emit` of it
# (decidable equality on V.Design) and (ii) `FlatSrc.check` (sound for the hypotheses of `text_run`: `FlatSrc.check_sound`).
FLAT_KINDS = ['And2', 'Or2', 'Not', 'Buf', 'Mux2', 'Sub', 'Mul', 'AddCarryIn', 'Constant', 'ShiftLeftConstant', 'ShiftRightConstant',
              'Bit', 'Range', 'ZeroExtend', 'Repeat', 'ConcatenateLSBF', 'ConcatenateMSBF', 'SignExtend', 'SignedMul', 'Reg']


class NotFlat(Exception):
    pass


def export_flat(top):
    """-> dict(widths, names, inputs, outputs, children, kinds_idx); raises NotFlat(reason) when a child is not covered"""
    from py4hw.rtl_generation import getWireNames, getInstanceName, getVerilogModuleName
    from py4hw.base import Wire
    if not top.children:
        raise NotFlat('no children')
    names_of = getWireNames(top)
    ids, widths, names = {}, [], []

    def nid(w):
        if w is None:
            return 0
        if not isinstance(w, Wire):
            raise NotFlat('fake wire')
        if w not in ids:
            if w not in names_of:
                raise NotFlat('wire outside scope')
            ids[w] = len(widths)
            widths.append(w.getWidth())
            names.append(names_of[w])
        return ids[w]

    def nat(v, what):
        if isinstance(v, bool) or not isinstance(v, int) or v < 0:
            raise NotFlat(what + ' not a natural')
        return v
    if top.inOutPorts:
        raise NotFlat('inout port')
    inputs = [nid(p.wire) for p in top.inPorts]
    outputs = [nid(p.wire) for p in top.outPorts]
    children, kinds_idx = [], {}
    g = lambda *ws: ' '.join(str(nid(w)) for w in ws)
    for ch in top.children.values():
        k = type(ch).__name__
        if k == 'And2': c = f'(prim and2 {g(ch.a, ch.b, ch.r)})'
        elif k == 'Or2': c = f'(prim or2 {g(ch.a, ch.b, ch.r)})'
        elif k == 'Not': c = f'(prim not1 {g(ch.a, ch.r)})'
        elif k == 'Buf': c = f'(prim buf {g(ch.a, ch.r)})'
        elif k == 'ZeroExtend': c = f'(prim zext {g(ch.a, ch.r)})'
        elif k == 'Bit': c = f"(prim bit {nid(ch.a)} {nat(ch.bit, 'bit')} {nid(ch.r)})"
        elif k == 'Mux2': c = f'(prim mux2 {g(ch.sel, ch.sel0, ch.sel1, ch.r)})'
        elif k == 'Constant': c = f"(prim const {nat(ch.value, 'constant')} {nid(ch.r)})"
        elif k == 'ShiftLeftConstant': c = f"(prim shl {nid(ch.a)} {nat(ch.getParameterValue('n'), 'shift')} {nid(ch.r)})"
        elif k == 'ShiftRightConstant': c = f"(prim shr {nid(ch.a)} {nat(ch.getParameterValue('n'), 'shift')} {nid(ch.r)})"
        elif k == 'AddCarryIn': c = f'(prim addc {g(ch.a, ch.b, ch.ci, ch.r)})'
        elif k == 'Sub': c = f'(prim sub {g(ch.a, ch.b, ch.r)})'
        elif k == 'Mul': c = f'(prim mul {g(ch.a, ch.b, ch.r)})'
        elif k == 'Range': c = f"(prim range {nid(ch.a)} {nat(ch.high, 'range')} {nat(ch.low, 'range')} {nid(ch.r)})"
        elif k == 'ConcatenateMSBF': c = f"(prim catm {nid(ch.r)} ({g(*ch.ins)}))"
        elif k == 'ConcatenateLSBF': c = f"(prim catl {nid(ch.r)} ({g(*ch.ins)}))"
        elif k == 'Repeat': c = f'(prim rept {g(ch.i, ch.r)})'
        elif k == 'SignExtend': c = f'(prim sext {g(ch.a, ch.r)})'
        elif k == 'SignedMul': c = f'(prim smul {g(ch.a, ch.b, ch.r)})'
        elif k == 'Reg':
            c = (f"(reg {getInstanceName(ch)} {getVerilogModuleName(ch)} {int(ch.r is not None)} {int(ch.e is not None)} "
                 f"{nat(ch.reset_value, 'reset value')} {nid(ch.d)} {nid(ch.e)} {nid(ch.r)} {nid(ch.q)})")
        else:
            raise NotFlat('kind ' + k)
        if k != 'Reg':
            kinds_idx[ch] = len(kinds_idx)
        children.append(c)
    return dict(widths=widths, names=names, inputs=inputs, outputs=outputs, children=children, kinds_idx=kinds_idx)


def flat_src(d, tree):
    """S-expression of the imported description, or raises NotFlat"""
    from py4hw.rtl_generation import getVerilogModuleName
    top = d['top']
    exp = export_flat(top)
    topmod = tree[1]
    name_to_id = {n: i for i, n in enumerate(exp['names'])}
    try:
        locals_ = [name_to_id[it[1]] for it in topmod[4][1:] if it[0] == 'wire']
    except KeyError:
        raise NotFlat('declared wire unknown to the children')
    sim = d['hw'].getSimulator()
    order = [exp['kinds_idx'][l] for l in sim.propagatables if l in exp['kinds_idx']]
    if any(' ' in n or '(' in n or ')' in n for n in exp['names']):
        raise NotFlat('name not an atom')
    L = lambda xs: ' '.join(str(x) for x in xs)
    return (f"(src {getVerilogModuleName(top, noInstanceNumber=True)} {d['hw'].clockDriver.name} (widths {L(exp['widths'])}) "
            f"(names {L(exp['names'])}) (inputs {L(exp['inputs'])}) (outputs {L(exp['outputs'])}) (locals {L(locals_)}) "
            f"(children {' '.join(exp['children'])}) (order {L(order)}))")


class FlatBatch:
    """(parsed real text, imported description) pairs for lean/Drv/C01Flat.lean"""

    def __init__(self, res):
        self.res, self.lines, self.meta = res, [], []

    def add(self, d, tree, text, stream):
        try:
            src = flat_src(d, tree)
        except NotFlat as e:
            self.res.hist('flat_text_' + stream, 'not-covered:' + str(e))
            return
        except Exception as e:
            self.res.hist('flat_text_' + stream, 'export-error:' + type(e).__name__)
            return
        self.lines += ['design ' + vparse.sexp(tree), 'src ' + src, 'check']
        self.meta.append(dict(stream=stream, kind=d['kind'], desc=d['desc'], text=text, src=src))

    def run(self):
        if not self.lines:
            return
        try:
            out = run_driver('Drv/C01Flat.lean', self.lines)
        except ToolFailure as e:
            self.res.broken.append(('correspondence', 'flat-text-driver', str(e)[:400]))
            return
        for m, o in zip(self.meta, out[2::3]):
            if o == 'ok':
                self.res.hist('flat_text_' + m['stream'], 'covered: text == FlatSrc.emit and FlatSrc.check')
                self.res.count(('flat-text', m['src']), hist={})
            elif o.startswith('fails '):
                # outside the hypotheses of the theorem (a literal >= 2^31, a bit index outside its operand, two drivers, …)
                self.res.hist('flat_text_' + m['stream'], 'not-covered:check ' + o[6:])
            else:
                # the real emitter wrote something else than the model of the theorem for a design the model covers
                self.res.hist('flat_text_' + m['stream'], 'TEXT-DIFFERS')
                self.res.disagree('flat-text', dict(kind=m['kind'], desc=m['desc'], driver=o[:1500], text=m['text'][:2000], src=m['src'][:1500]))


# ---- hier-text stream: `C01Hier.hier_text_run` (several leaves / assigns per child, structural hierarchy of any depth) ----------
class NotCovered(Exception):
    pass

class HierExporter:
    """imports the description `FlatM.HierSrc` (lean/Py4hwV/Emit/Hier.lean) of a live design: a structural top block whose children are
    inlinable children (one or several simulator leaves, one or several assigns), Regs, or structural blocks of the same shape, to
    any depth.  Net ids are global (one per Wire object); `leaf_objs` lists the simulator leaves in the order of `GKind.leaves`."""

    def __init__(self, d, tree):
        self.d, self.tree = d, tree
        self.ids, self.widths = {}, []
        self.leaf_objs = []

    def nid(self, w):
        from py4hw.base import Wire
        if w is None:
            return 0
        if not isinstance(w, Wire):
            raise NotCovered('fake wire')
        if w not in self.ids:
            self.ids[w] = len(self.widths)
            self.widths.append(w.getWidth())
        return self.ids[w]

    def nat(self, v, what):
        if isinstance(v, bool) or not isinstance(v, int) or v < 0:
            raise NotCovered(what + ' not a natural')
        return v

    def gchild(self, ch):
        from py4hw.rtl_generation import getInstanceName, getVerilogModuleName
        k = type(ch).__name__
        g = lambda *ws: ' '.join(str(self.nid(w)) for w in ws)
        nid, nat = self.nid, self.nat
        leaves = [ch]
        if k == 'And2': c = f'(prim and2 {g(ch.a, ch.b, ch.r)})'
        elif k == 'Or2': c = f'(prim or2 {g(ch.a, ch.b, ch.r)})'
        elif k == 'Not': c = f'(prim not1 {g(ch.a, ch.r)})'
        elif k == 'Buf': c = f'(prim buf {g(ch.a, ch.r)})'
        elif k == 'ZeroExtend': c = f'(prim zext {g(ch.a, ch.r)})'
        elif k == 'Bit': c = f"(prim bit {nid(ch.a)} {nat(ch.bit, 'bit')} {nid(ch.r)})"
        elif k == 'Mux2': c = f'(prim mux2 {g(ch.sel, ch.sel0, ch.sel1, ch.r)})'
        elif k == 'Constant': c = f"(prim const {nat(ch.value, 'constant')} {nid(ch.r)})"
        elif k == 'ShiftLeftConstant': c = f"(prim shl {nid(ch.a)} {nat(ch.getParameterValue('n'), 'shift')} {nid(ch.r)})"
        elif k == 'ShiftRightConstant': c = f"(prim shr {nid(ch.a)} {nat(ch.getParameterValue('n'), 'shift')} {nid(ch.r)})"
        elif k == 'AddCarryIn': c = f'(prim addc {g(ch.a, ch.b, ch.ci, ch.r)})'
        elif k == 'Sub': c = f'(prim sub {g(ch.a, ch.b, ch.r)})'
        elif k == 'Mul': c = f'(prim mul {g(ch.a, ch.b, ch.r)})'
        elif k == 'Range': c = f"(prim range {nid(ch.a)} {nat(ch.high, 'range')} {nat(ch.low, 'range')} {nid(ch.r)})"
        elif k == 'ConcatenateMSBF': c = f"(prim catm {nid(ch.r)} ({g(*ch.ins)}))"
        elif k == 'ConcatenateLSBF': c = f"(prim catl {nid(ch.r)} ({g(*ch.ins)}))"
        elif k == 'Repeat': c = f'(prim rept {g(ch.i, ch.r)})'
        elif k == 'SignExtend': c = f'(prim sext {g(ch.a, ch.r)})'
        elif k == 'SignedMul': c = f'(prim smul {g(ch.a, ch.b, ch.r)})'
        elif k == 'BitsLSBF': c = f"(gk bitsL {nid(ch.a)} ({g(*ch.bits)}))"
        elif k == 'BitsMSBF': c = f"(gk bitsM {nid(ch.a)} ({g(*ch.bits)}))"
        elif k == 'Div': c = f'(gk dm 0 {g(ch.a, ch.b, ch.r)})'
        elif k == 'Mod': c = f'(gk dm 1 {g(ch.a, ch.b, ch.r)})'
        elif k in ('And', 'Or'):
            kids = list(ch.children.values())            # one Buf, or the ladder of And2 / Or2 in construction order
            c = f"(gk nary {k.lower()} ({g(*ch.ins)}) {nid(ch.r)} ({g(*[x.r for x in kids[:-1]])}) 0)"
            leaves = kids
        elif k == 'Nor':
            orb = ch.children['Or']
            kids = list(orb.children.values())
            c = f"(gk nary nor ({g(*ch.ins)}) {nid(ch.r)} ({g(*[x.r for x in kids[:-1]])}) {nid(orb.r)})"
            leaves = kids + [ch.children['Not']]
        elif k == 'Nand2':
            c = f'(gk nand2 {g(ch.a, ch.b, ch.r, ch.mid)})'
            leaves = [ch.children['And'], ch.children['Not']]
        elif k == 'Nor2':
            c = f'(gk nor2 {g(ch.a, ch.b, ch.r, ch.mid)})'
            leaves = [ch.children['Or'], ch.children['Not']]
        elif k == 'Xor2':
            n = [ch.children[x] for x in ('NandMid', 'NandX', 'NandY', 'NandR')]
            c = f'(gk xor2 {g(ch.a, ch.b, ch.r, n[0].r, n[1].r, n[2].r, n[0].mid, n[1].mid, n[2].mid, n[3].mid)})'
            leaves = [x for m in n for x in (m.children['And'], m.children['Not'])]
        elif k == 'Equal':
            x = ch.children['xor']
            n = [x.children[q] for q in ('NandMid', 'NandX', 'NandY', 'NandR')]
            leaves = [y for m in n for y in (m.children['And'], m.children['Not'])]
            if 'not' in ch.children:                      # one-bit operands: Xor2 + Not
                bits, ts, nmid = [], [], None
                leaves.append(ch.children['not'])
            else:                                         # Xor2 + BitsLSBF + Nor
                bl, nr = ch.children['bits'], ch.children['nor']
                orb = nr.children['Or']
                kids = list(orb.children.values())
                bits, ts, nmid = list(bl.bits), [q.r for q in kids[:-1]], orb.r
                leaves += [bl] + kids + [nr.children['Not']]
            c = (f"(gk equal {g(ch.a, ch.b, ch.r, x.r, n[0].r, n[1].r, n[2].r, n[0].mid, n[1].mid, n[2].mid, n[3].mid)} "
                 f"({g(*bits)}) ({g(*ts)}) {nid(nmid)})")
        elif k == 'EqualConstant':
            v = nat(ch.v, 'constant')
            kids = list(ch.children.values())
            if len(kids) == 1:                            # one-bit operand: a Not (v == 0) or a Buf
                bits, ns, ts = [], [], []
                leaves = kids
            else:                                         # BitsLSBF + Minterm (a Not per 0 bit of v, then And)
                bl, mt = kids
                w = len(bl.bits)
                nots = {i: mt.children[f'n{i}'] for i in range(w) if (v >> i) & 1 == 0}
                akids = list(mt.children['prod'].children.values())
                bits, ts = list(bl.bits), [q.r for q in akids[:-1]]
                ns = [nots[i].r if i in nots else None for i in range(w)]
                leaves = [bl] + [nots[i] for i in sorted(nots)] + akids
            c = f"(gk eqc {nid(ch.a)} {v} {nid(ch.r)} ({g(*bits)}) ({g(*ns)}) ({g(*ts)}))"
        elif k == 'Reg':
            c = (f"(reg {getInstanceName(ch)} {getVerilogModuleName(ch)} {int(ch.r is not None)} {int(ch.e is not None)} "
                 f"{nat(ch.reset_value, 'reset value')} {nid(ch.d)} {nid(ch.e)} {nid(ch.r)} {nid(ch.q)})")
            leaves = []
        else:
            raise NotCovered('kind ' + k)
        self.leaf_objs += leaves
        return c

    def mod(self, m, mname):
        """-> (s-expression of the module, nesting depth of its children)"""
        from py4hw.rtl_generation import getWireNames, getPortName
        from py4hw.base import Wire
        if m.inOutPorts:
            raise NotCovered('inout port')
        names_of = getWireNames(m)
        names = []
        for w, n in names_of.items():
            if isinstance(w, Wire):
                if any(ch in n for ch in ' ()'):
                    raise NotCovered('name not an atom')
                names.append((self.nid(w), n))
        ins = [(getPortName(p), self.nid(p.wire)) for p in m.inPorts]
        outs = [(getPortName(p), self.nid(p.wire)) for p in m.outPorts]
        pn = [n for n, _ in ins + outs]
        if len(set(pn)) != len(pn):
            # two ports of one block carry the same name (the module header declares it twice): outside `HierSrc.modsOKb`
            raise NotCovered('duplicate port name in a module header')
        tmod = [x for x in self.tree[1:] if x[1] == mname]
        if not tmod:
            raise NotCovered('module not in text')
        n2i = {n: i for i, n in names}
        try:
            locals_ = [n2i[it[1]] for it in tmod[0][4][1:] if it[0] == 'wire']
        except KeyError:
            raise NotCovered('declared wire unknown')
        children = [self.hchild(ch) for ch in m.children.values()]
        L = lambda xs: ' '.join(str(x) for x in xs)
        return (f"(mod {mname} (names {' '.join(f'({i} {n})' for i, n in names)}) (inputs {' '.join(f'({n} {i})' for n, i in ins)}) "
                f"(outputs {' '.join(f'({n} {i})' for n, i in outs)}) (locals {L(locals_)}) (children {' '.join(c for c, _ in children)}))",
                max([dp for _, dp in children], default=0))

    def hchild(self, ch):
        from py4hw.rtl_generation import getInstanceName, getVerilogModuleName
        try:
            return self.gchild(ch), 0
        except NotCovered as e:
            if not str(e).startswith('kind '):
                raise
            if ch.isPrimitive() or not ch.children:
                raise
            try:
                body, dp = self.mod(ch, getVerilogModuleName(ch))
            except NotCovered as e2:
                raise NotCovered(str(e) + ' / inside: ' + str(e2))
            return f'(sub {getInstanceName(ch)} {body})', dp + 1

    def export(self):
        from py4hw.rtl_generation import getVerilogModuleName
        top = self.d['top']
        if not top.children:
            raise NotCovered('no children')
        topm, self.depth = self.mod(top, getVerilogModuleName(top, noInstanceNumber=True))
        sim = self.d['hw'].getSimulator()
        pos = {id(l): i for i, l in enumerate(self.leaf_objs)}
        order = []
        for l in sim.propagatables:
            if id(l) not in pos:
                raise NotCovered('propagatable outside the design: ' + type(l).__name__)
            order.append(pos[id(l)])
        L = lambda xs: ' '.join(str(x) for x in xs)
        return f"(hsrc {self.depth} {self.d['hw'].clockDriver.name} (widths {L(self.widths)}) {topm} (order {L(order)}))"


class HierBatch:
    """(parsed real text, imported hierarchical description) pairs for lean/Drv/C01Hier.lean"""

    def __init__(self, res):
        self.res, self.lines, self.meta = res, [], []

    def add(self, d, tree, text, stream):
        try:
            src = HierExporter(d, tree).export()
        except NotCovered as e:
            self.res.hist('hier_text_' + stream, 'not-covered:' + str(e)[:80])
            return
        except Exception as e:
            self.res.hist('hier_text_' + stream, 'export-error:' + type(e).__name__)
            return
        self.lines += ['design ' + vparse.sexp(tree), 'hsrc ' + src, 'check']
        self.meta.append(dict(stream=stream, kind=d['kind'], desc=d['desc'], text=text, src=src, levels=int(src.split()[1]) + 1))

    def run(self):
        if not self.lines:
            return
        try:
            out = run_driver('Drv/C01Hier.lean', self.lines)
        except ToolFailure as e:
            self.res.broken.append(('correspondence', 'hier-text-driver', str(e)[:400]))
            return
        for m, o in zip(self.meta, out[2::3]):
            if o == 'ok':
                self.res.hist('hier_text_' + m['stream'], f"covered ({m['levels']} level{'s' if m['levels'] > 1 else ''}): text == HierSrc.emit and HierSrc.check")
                self.res.count(('hier-text', m['src']), hist={})
            elif o.startswith('fails '):
                # outside the hypotheses of the theorem (a literal >= 2^31, a bit index outside its operand, two drivers, ...)
                self.res.hist('hier_text_' + m['stream'], 'not-covered:check ' + o[6:])
            else:
                # the real emitter wrote something else than the model of the theorem for a design the model covers
                self.res.hist('hier_text_' + m['stream'], 'TEXT-DIFFERS')
                self.res.disagree('hier-text', dict(kind=m['kind'], desc=m['desc'], driver=o[:1500], text=m['text'][:2000], src=m['src'][:1500]))


def widths_of(mod):
    """module s-expr tree -> {name: width}"""
    w = {}
    for p in mod[3][1:]:
        w[p[4]] = p[3]
    for it in mod[4][1:]:
        if it[0] in ('wire', 'reg', 'regi', 'mem'):
            w[it[1]] = it[2]
        elif it[0] in ('int', 'inti'):
            w[it[1]] = 32
    return w


def patch_tree(tree, tags):
    """apply the repairs that correspond to the known findings in `tags` to the parsed text.
    returns (patched tree, set of tags whose patch changed something)"""
    t = copy.deepcopy(tree)
    used = set()

    def walk_stmt(s, w):
        if not isinstance(s, list):
            return
        if s[0] == 'ife' and 'reg-wide-enable' in tags:
            c = s[1]
            if c[0] == 'bin' and c[1] == 'eq' and c[2][0] == 'id' and c[2][1] == 'e' and w.get('e', 1) > 1 \
                    and c[3][0] == 'num' and c[3][3] == 1:
                s[1] = ['bin', 'ne', c[2], ['num', -1, 1, 0, 1]]
                used.add('reg-wide-enable')
        for x in s[1:]:
            walk_stmt(x, w)
    def size_literals(x):
        # repair for 'literal-over-31-bits': give every unsized decimal literal >= 2**31 an explicit unsigned size
        if isinstance(x, list):
            if len(x) == 5 and x[0] == 'num' and x[1] == -1 and isinstance(x[3], int) and x[3] >= (1 << 31):
                x[1] = max(33, x[3].bit_length())
                x[2] = 0
                used.add('literal-over-31-bits')
                return
            for y in x:
                size_literals(y)
    if 'literal-over-31-bits' in tags:
        size_literals(t)
    for mod in t[1:]:
        w = widths_of(mod)
        for it in mod[4][1:]:
            if it[0] == 'assign' and 'mux2-wide-sel' in tags:
                e = it[2]
                if e[0] == 'tern' and e[1][0] == 'id' and w.get(e[1][1], 1) > 1:
                    it[2] = ['tern', ['bin', 'and', e[1], ['num', -1, 1, 1, 1]], e[2], e[3]]
                    used.add('mux2-wide-sel')
            if it[0] == 'assign' and 'equalconst-oversized' in tags:
                e = it[2]
                if e[0] == 'tern' and e[1][0] == 'bin' and e[1][1] == 'eq' and e[1][2][0] == 'id' and e[1][3][0] == 'num':
                    wa = w.get(e[1][2][1], 1)
                    v = e[1][3][3]
                    if v >= (1 << wa):
                        e[1][3][3] = (1 if v != 0 else 0) if wa == 1 else v % (1 << wa)
                        used.add('equalconst-oversized')
                elif e[0] == 'tern' and e[1][0] == 'bin' and e[1][1] == 'eq' and e[1][2][0] == 'id' and e[1][3][0] == 'un' \
                        and e[1][3][1] == 'neg' and e[1][3][2][0] == 'num':
                    # a NEGATIVE constant (emitted `a == -v`): does not fit the operand width either
                    wa = w.get(e[1][2][1], 1)
                    v = -e[1][3][2][3]
                    e[1][3] = ['num', -1, 1, (1 if v != 0 else 0) if wa == 1 else v % (1 << wa), 1]
                    used.add('equalconst-oversized')
            if it[0] == 'assign' and 'equal-wide-result' in tags:
                e = it[2]
                tgt = it[1][1]
                if e[0] == 'tern' and e[1][0] == 'bin' and e[1][1] == 'eq' and e[1][2][0] == 'id' and e[1][3][0] == 'id' \
                        and e[2][0] == 'num' and e[2][3] == 1 and w.get(tgt, 1) > 1:
                    e[2] = ['num', w[tgt], 0, (1 << w[tgt]) - 1, 1]
                    used.add('equal-wide-result')
            if it[0] == 'always':
                walk_stmt(it[2], w)
    return t, used


def features(d):
    """known-finding features present in the live design (class predicates of the known findings)"""
    tags = set()
    for lf in d['hw'].allLeaves():
        k = type(lf).__name__
        if k == 'Mux2' and lf.sel.getWidth() > 1:
            tags.add('mux2-wide-sel')
        if k == 'Reg':
            if lf.e is not None and lf.e.getWidth() > 1:
                tags.add('reg-wide-enable')
            if lf.reset_value != 0:
                tags.add('reg-powerup')
    def walk(o):
        if type(o).__name__ == 'EqualConstant' and (o.v >= (1 << o.a.getWidth()) or o.v < 0):
            tags.add('equalconst-oversized')
        if type(o).__name__ == 'Equal' and (o.r.getWidth() > 1 or o.a.getWidth() != o.b.getWidth()):
            tags.add('equal-irregular')
        if o.clockDriver is not None and o.clockDriver.wire is not None and o.clockDriver.wire.getSource() is not None:
            tags.add('derived-clock')
        for c in o.children.values():
            walk(c)
    walk(d['hw'])
    return tags


def has_wide_literal(x):
    """the emitted text contains an unsized decimal literal >= 2**31 (IEEE 1364-2005 3.5.1 only guarantees 32 bits for it)"""
    if isinstance(x, list):
        if len(x) == 5 and x[0] == 'num' and x[1] == -1 and isinstance(x[3], int) and x[3] >= (1 << 31):
            return True
        return any(has_wide_literal(y) for y in x)
    return False


def zero_width_wires(d):
    """names of wires of width 0 anywhere in the live design"""
    out = []
    def walk(o):
        for c in o.children.values():
            for pt in list(c.inPorts) + list(c.outPorts):
                if pt.wire is not None and pt.wire.getWidth() == 0:
                    out.append(pt.wire.getFullPath())
            walk(c)
    walk(d['hw'])
    return sorted(set(out))


def run_design(d, hist):
    """real simulator trace from power-up: [{out: value}] (index 0 = before the first clk)"""
    sim = d['hw'].getSimulator()
    tr = [{n: w.get() for n, w in d['outputs'].items()}]
    for cyc in hist:
        for n, v in cyc.items():
            d['inputs'][n].put(v)
        sim.clk(1)
        tr.append({n: w.get() for n, w in d['outputs'].items()})
    return tr


def first_diff(a, b, skip0=False):
    for j in range(len(a)):
        if skip0 and j == 0:
            continue
        if j >= len(b) or a[j] != b[j]:
            names = [n for n in a[j] if j >= len(b) or b[j].get(n) != a[j][n]]
            return j, names
    return None


def main(res, tier, rng, replay):
    import py4hw
    res.level = 'translation_validation'
    ok, metas, errors, changed = regenerate()
    for e in errors:
        res.broken.append(('translator', 'py2lean', e))
    res.proof_stage('Py4hwV.Props.C01', OBLIGATIONS)
    # additive second proof stage: the design-level theorems (counts are summed into the evidence of the first stage)
    c0 = (res.cov.get('obligations', 0), res.cov.get('discharged', 0), list(res.cov.get('axioms_seen', [])))
    res.proof_stage('Py4hwV.Props.C01Flat', OBLIGATIONS_FLAT)
    res.cov['obligations'] = res.cov.get('obligations', 0) + c0[0]
    res.cov['discharged'] = res.cov.get('discharged', 0) + c0[1]
    res.cov['axioms_seen'] = sorted(set(res.cov.get('axioms_seen', [])) | set(c0[2]))
    c1 = (res.cov.get('obligations', 0), res.cov.get('discharged', 0), list(res.cov.get('axioms_seen', [])))
    res.proof_stage('Py4hwV.Props.C01Hier', OBLIGATIONS_HIER)
    res.cov['obligations'] = res.cov.get('obligations', 0) + c1[0]
    res.cov['discharged'] = res.cov.get('discharged', 0) + c1[1]
    res.cov['axioms_seen'] = sorted(set(res.cov.get('axioms_seen', [])) | set(c1[2]))
    # fourth proof stage + stream: the hand-written bodies of the three memories (harness/c01_mem.py, notes/C01mem.md)
    c2 = (res.cov.get('obligations', 0), res.cov.get('discharged', 0), list(res.cov.get('axioms_seen', [])))
    res.proof_stage('Py4hwV.Props.C01Mem', c01_mem.OBLIGATIONS_MEM)
    res.cov['obligations'] = res.cov.get('obligations', 0) + c2[0]
    res.cov['discharged'] = res.cov.get('discharged', 0) + c2[1]
    res.cov['axioms_seen'] = sorted(set(res.cov.get('axioms_seen', [])) | set(c2[2]))
    res.cov['checker_cmd'] = ('cd lean && lake build Py4hwV.Props.C01 Py4hwV.Props.C01Flat Py4hwV.Props.C01Hier Py4hwV.Props.C01Mem && '
                              '#print axioms on every obligation')
    c01_mem.stream(res, tier, rng.fork('mem-stream'))
    n = 400 if tier == 'quick' else 8000
    vb = vsim.VBatch()
    jobs = []
    nb = D.NetBatch(res, 'net-sim')
    fb = FlatBatch(res)
    hb = HierBatch(res)
    try:
        forced_twins = GV.signature_collisions(16 if tier == 'quick' else 200)
    except Exception as e:
        forced_twins = []
        res.hist('build_errors', f'signature_collisions:{str(e)[:40]}')
    res.cov['same_name_different_signature_pairs'] = len(forced_twins)
    for i in range(n + 2 * len(forced_twins)):
        r = rng.fork(('d', i))
        kind = ['plan', 'lib', 'hier', 'c07', 'c08'][i % 5]
        forced = None
        if i >= n:
            # instances that share a structureName() but not a port signature: both orders of every such pair (none on the unchanged tree)
            kind, forced = 'twin', tuple(forced_twins[(i - n) // 2]) + ((i - n) % 2,)
        if i % 40 == 39:
            kind = 'derived'
        if i % 20 == 7:
            kind = 'wide'
        if i % 20 == 13:
            kind = 'twin'
        try:
            if kind == 'plan':
                d = GV.plan_design(r, wmax=r.choice([1, 3, 8, 16, 33]))
            elif kind == 'lib':
                d = GV.lib_design(r)
            elif kind == 'c07':
                d = GV.c07_design(r)
            elif kind == 'c08':
                d = GV.c08_design(r)
            elif kind == 'derived':
                d = GV.derived_clock_design(r)
            elif kind == 'wide':
                d = GV.wide_design(r)
            elif kind == 'twin':
                d = GV.twin_design(r, forced)
            else:
                d = GV.hier_design(r)
        except Exception as e:
            res.hist('build_errors', f'{kind}:{str(e)[:40]}')
            continue
        try:
            text = vsim.gen_text(py4hw.VerilogGenerator(d['top']), d['top'])
        except Exception as e:
            res.hist('generation_errors', f"{d['kind']}:{type(e).__name__}:{str(e)[:60]}")
            continue
        desc = dict(kind=d['kind'], desc=d['desc'])
        try:
            tree = vparse.parse(text)
        except vparse.VParseError as e:
            detail = dict(desc, text=text[:3000])
            zw = zero_width_wires(d)
            squeezed = re.sub(r'\s+', '', text)
            if zw and ('=};' in squeezed or '={};' in squeezed or '[-1:0]' in squeezed):
                # a wire of width 0 (and the empty concatenation that drives it) has no Verilog form
                detail.update(zero_width_wires=zw[:6], known_class=True, explained_by=['zero-width-wire'])
            res.fail(f'emitted Verilog does not parse: {e}', detail)
            continue
        hist = GV.random_history(r, d['inputs'], r.randint(4, 12) if tier == 'quick' else r.randint(6, 30))
        if d.get('nondet_div'):
            # the only excluded inputs: division / modulo by zero (simulator documented as nondeterministic)
            for cyc in hist:
                for k_ in list(cyc):
                    # i1 of a single block, l<n>_i1 of the lanes of a twin design
                    if (k_ == 'i1' or k_.endswith('_i1')) and cyc[k_] == 0:
                        cyc[k_] = 1
        tags = features(d)
        if has_wide_literal(tree):
            tags.add('literal-over-31-bits')
        try:
            tr = run_design(d, hist)
        except Exception as e:
            res.hist('simulation_errors', str(e)[:60])
            continue
        top = tree[1][1]
        clk = d['hw'].clockDriver.name
        if kind in ('plan', 'lib'):
            fb.add(d, tree, text, kind)
        if kind in ('plan', 'lib', 'hier', 'c07', 'c08'):
            hb.add(d, tree, text, kind)
        vb.add(text, top, clk, hist, list(d['outputs']), label=len(jobs), tree=tree)
        # power-up drives every input with 0: for Div/Mod/SignedDiv that is a division by zero (excluded by the property)
        job = dict(desc=desc, hist=hist, trace=tr, tags=tags, text=text, patched=None, nondet0=d.get('nondet_div'))
        if tags:
            pt, used = patch_tree(tree, tags)
            job['patched'] = len(vb.jobs)
            job['patch_used'] = used
            vb.add(text, top, clk, hist, list(d['outputs']), label=('patched', len(jobs)), tree=pt)
        jobs.append(job)
        res.count(('design', str(desc), str(hist)), hist={'design_kind': d['kind'].split(':')[0]})
        for k_, c_ in vparse.count_constructs(tree).items():
            res.hist('verilog_constructs', k_, c_)
        if i < 3:
            res.sample(dict(design=desc, inputs_per_cycle=hist[:3], verilog=text[:600]))
    # dedicated stream: netlists of covered kinds only (text tie + hypotheses of `C01Flat.text_run`; not simulated again)
    for i in range(60 if tier == 'quick' else 1500):
        r = rng.fork(('flat', i))
        try:
            d = GV.plan_design(r, wmax=r.choice([1, 2, 3, 8, 16, 33]), kinds=FLAT_KINDS)
            text = vsim.gen_text(py4hw.VerilogGenerator(d['top']), d['top'])
            tree = vparse.parse(text)
        except Exception as e:
            res.hist('flat_text_flatplan', 'build-error:' + type(e).__name__)
            continue
        fb.add(d, tree, text, 'flatplan')
    fb.run()
    hp = res.cov['histograms'].get('flat_text_plan', {})
    tot = sum(hp.values())
    cov_n = sum(v for k, v in hp.items() if k.startswith('covered'))
    res.cov['flat_theorem_coverage_of_plan_stream'] = (f'{cov_n}/{tot} plan designs are covered by C01Flat.text_run (children all in Kind ∪ Reg, '
                                                       f'parsed text == FlatSrc.emit, FlatSrc.check); reasons of the others: histogram flat_text_plan')
    hb.run()
    for stream in ('plan', 'lib', 'hier', 'c07', 'c08'):
        hh = res.cov['histograms'].get('hier_text_' + stream, {})
        tot = sum(hh.values())
        cov_n = sum(v for k, v in hh.items() if k.startswith('covered'))
        res.cov[f'hier_theorem_coverage_of_{stream}_stream'] = (
            f'{cov_n}/{tot} {stream} designs whose text was generated and parsed are covered by C01Hier.hier_text_run (structural hierarchy of '
            f'any depth; leaves: every inlinable primitive incl. Bits*/And/Or/Nor/Nand2/Nor2/Xor2/Equal/EqualConstant/Div/Mod, and Reg; '
            f'parsed text == HierSrc.emit, HierSrc.check); reasons of the others: histogram hier_text_{stream}')
    try:
        results = vb.run()
    except ToolFailure as e:
        res.broken.append(('correspondence', 'verilog-interpreter', str(e)[:400]))
        results = []
    by_label = {}
    for r_ in results:
        by_label[str(r_['label'])] = r_
    checked = 0
    for idx, job in enumerate(jobs):
        r0 = by_label.get(str(idx))
        if r0 is None:
            continue
        checked += 1
        if r0['begin'] != 'ok':
            res.fail(f"emitted Verilog does not elaborate: {r0['begin'][:300]}", dict(job['desc'], text=job['text'][:3000]))
            continue
        skip0 = bool(job.get('nondet0'))
        diff = first_diff(job['trace'], r0['trace'], skip0=skip0)
        if diff is None:
            continue
        res.cov['disagreements_checked'] += 1
        j, names = diff
        detail = dict(job['desc'], inputs_per_cycle=job['hist'], cycle=j, outputs=names,
                      simulator={n: job['trace'][j][n] for n in names},
                      verilog={n: (r0['trace'][j].get(n) if j < len(r0['trace']) else None) for n in names},
                      text=job['text'][:3000], features=sorted(job['tags']))
        explained = False
        if job['patched'] is not None:
            rp = by_label.get(str(('patched', idx)))
            if rp is not None and rp['begin'] == 'ok':
                d2 = first_diff(job['trace'], rp['trace'], skip0=('reg-powerup' in job['tags']) or skip0)
                if d2 is None:
                    explained = True
                    detail['explained_by'] = sorted(job['patch_used'] | ({'reg-powerup'} if ('reg-powerup' in job['tags'] and j == 0) else set()))
        if not explained and 'derived-clock' in job['tags'] and job['desc'].get('kind') == 'derived' and set(names) <= {'cnt'}:
            # only outputs of the derived-clock domain differ (they appear one base cycle earlier in Verilog)
            explained = True
            detail['explained_by'] = ['derived-clock']
        if not explained and 'equal-irregular' in job['tags'] and job['desc'].get('kind') == 'c08:Equal':
            # a design consisting of exactly one irregular Equal block: nothing else can be responsible
            explained = True
            detail['explained_by'] = ['equal-irregular']
        if explained:
            detail['known_class'] = True
        res.fail('Verilog and simulator disagree on a top-level output', detail)
    res.cov['programs'] = checked
    res.cov['rule'] = ('designs: random netlists of every inlinable primitive + Reg inside a structural Top (plan), library blocks at sampled legal '
                       'parameters (lib), 2-3 level hierarchies with reused structural blocks (hier); the REAL emitted text is parsed and executed by the '
                       'Lean Verilog semantics on a seeded input history from power-up and compared on every top-level output at every cycle with the real '
                       'simulator; a mismatch on a design that carries a known-finding feature is attributed to the finding only if the text repaired for '
                       'exactly that feature matches the simulator; flat-text stream: for every plan/lib design and a dedicated stream of netlists of '
                       'covered primitives + Reg, the description imported from the live design is checked by lean/Drv/C01Flat.lean: parsed real text == '
                       'FlatSrc.emit (decidable equality) and FlatSrc.check, which are exactly the hypotheses of the design-level theorem C01Flat.text_run '
                       '(all widths, all input histories from power-up); a covered design whose text differs from the model is a correspondence failure; '
                       'hier-text stream: the same tie for C01Hier.hier_text_run on every plan/lib/hier design (lean/Drv/C01Hier.lean: parsed real text '
                       '== HierSrc.emit, HierSrc.modsOKb and CertSrc.check of the certificate of the flattened text)')
    res.assumptions += ['formal reading of IEEE 1364-2005 in lean/Py4hwV/Verilog (no external Verilog simulator available to cross-check it)',
                        'value-level x (one unknown flag per value)', 'unsized decimal literals are 32-bit signed',
                        'one simulator cycle = falling then rising edge of the base clock; derived/gated clocks not explored by this check',
                        'division/modulo by zero excluded (simulator documented as nondeterministic)']


if __name__ == '__main__':
    main_wrapper('C01', main, level='translation_validation')
