"""C17 — The UART link delivers every byte once, unchanged and in order.
See DESIGN.md §5 C17, lean/Py4hwV/Proto/Uart.lean (model), lean/Py4hwV/Props/C17.lean (theorems), notes/C17.md.

S2 streams
  T1            generated UARTSerializer / UARTDeserializer / ClockSyncFSM steps vs the real unbound methods
  div           real ClockDivider (with and without reset input) vs Uart.Div.step, every cycle
  edge          real EdgeDetector pos/neg/both vs Uart.edge*, every cycle
  net           flattened EdgeDetector / ClockDivider netlists vs Net.Sim (when all leaves are translated)
  link          real ClockGenerationAndRecovery + UARTSerializer + UARTDeserializer wired in a loop vs Uart.Link.step,
                24 observables every cycle, reactive producers / consumers
  oracle        on the REAL run: delivered == accepted (Uart.deliveredOk) and softRx(2n, tx trace) == accepted (Uart.lineOk),
                both evaluated by the Lean driver on the observed lists
"""
import os, json, io, contextlib
from common import *
import common
import t1

OBLIGATIONS = [
    # bridges to the generated definitions (stop checking when serdes.py / clock.py change semantically)
    'C17.ser_step_eq', 'C17.des_step_eq', 'C17.fsm_step_eq', 'C17.tx_step_eq',
    # divider / baud pulse
    'C17.ph_step', 'C17.ph_pulse', 'C17.div_free_closed', 'C17.divider_pulse_period',
    # serializer position invariant, frame waveform
    'C17.tx_inv_step', 'C17.fpos_step', 'C17.ser_ready_iff', 'C17.ser_idle_high', 'C17.ser_frame',
    # software receiver / line clause
    'C17.soft_step', 'C17.pend_step', 'C17.run_inv', 'C17.line_8n1_inv', 'C17.line_8n1_prefix', 'C17.line_8n1_tx',
    'C17.link_tx', 'C17.line_8n1', 'C17.line_8n1_link_prefix',
    # delivery clause: negative witness; hand-off half proved for all consumers that keep up
    'C17.slow_consumer_counterexample', 'C17.des_handoff', 'C17.handoff_inv', 'C17.delivered_eq_hs', 'C17.rx_handoff_partial',
    # receive side: mirror bridge, phase step, schedule relative to the transmitter, closed-loop invariant
    'C17.rx_step_eq', 'C17.rx_step', 'C17.J_step', 'C17.pendRx_step', 'C17.link_step_inv', 'C17.link_run_inv',
    'C17.rx_sampling_inv', 'C17.rx_sampling', 'C17.link_delivers', 'C17.link_delivers_drained',
    # liveness
    'C17.rank_step', 'C17.live_pos', 'C17.ser_live', 'C17.ready_after_drain', 'C17.line_8n1_drained',
]

PROPOSED_FINDINGS = [{
    "id": "C17-slow-consumer", "property": "C17", "status": "known",
    "anchor": "py4hw/logic/protocol/uart/serdes.py:98",
    "class_expr": "r.get('keeps_up') is False",
    "witness": {"n": 2, "bytes": [1, 2, 3, 4, 5, 6], "producer": {"kind": "hold", "gaps": [0, 0, 0, 0, 0, 0]},
                "consumer": {"kind": "period", "k": 30, "phase": 0}},
    "what": "UARTDeserializer overwrites v / restarts its hand-off FSM when the consumer's ready was high in fewer than two "
            "cycles since the previous frame end (a ready in the very clock of the next frame end still counts: exactly the "
            "complement of Uart.keepsUp): bytes are lost and duplicated ([1..6] arrives as [2,2,4,4,5,6] at n=2, "
            "ready every 30th cycle then always); a UART has no back-pressure",
}]

OBS = ['s_ready', 'tx', 'pulse', 'uart_clk', 'sync_uart_clk', 'pre_rx_sample', 'rx_neg', 'start', 'sync', 'active', 'rx_sample',
       'desync', 'd_valid', 'd_v', 'ser.state', 'ser.count', 'ser.txv', 'des.state', 'des.count', 'des.state_v', 'des.temp',
       'fsm.state', 'txq', 'rxq']


# ------------------------------------------------------------------------------------------------ real blocks
def freqs_for(n, r):
    """(sysFreq, uartFreq) with int(sysFreq / (2*uartFreq)) == n, exact and inexact ratios"""
    k = r.choice([0, 0, 1, 2])
    if k == 0:
        return (2 * n * 100, 100)
    if k == 1:
        return (2 * n * 9600, 9600)
    return ((2 * n + 1) * 100, 100)        # n + 0.5 -> int() floors (prints a WARNING)


class RealLink:
    def __init__(self, n, fr):
        import py4hw
        from py4hw.logic.protocol.uart.serdes import UARTSerializer, UARTDeserializer
        from py4hw.logic.protocol.uart.clock import ClockGenerationAndRecovery
        hw = py4hw.HWSystem()
        w = hw.wire
        self.s_ready, self.s_valid, self.s_v = w('s_ready'), w('s_valid'), w('s_v', 8)
        self.tx, self.pulse, self.sample, self.desync = w('tx'), w('pulse'), w('sample'), w('desync')
        self.d_ready, self.d_valid, self.d_v = w('d_ready'), w('d_valid'), w('d_v', 8)
        with contextlib.redirect_stdout(io.StringIO()):
            self.cg = ClockGenerationAndRecovery(hw, 'cg', self.tx, self.desync, self.pulse, self.sample, fr[0], fr[1])
            self.ser = UARTSerializer(hw, 'ser', self.s_ready, self.s_valid, self.s_v, self.pulse, self.tx)
            self.des = UARTDeserializer(hw, 'des', self.tx, self.sample, self.d_ready, self.d_valid, self.d_v, self.desync)
            self.hw = hw
            self.sim = hw.getSimulator()
        cw = self.cg._wires
        self.cw = [cw[k] for k in ('uart_clk', 'sync_uart_clk', 'pre_rx_sample', 'rx_neg', 'start', 'sync', 'active')]
        self.fsm = self.cg.children['clk_sync']
        self.txq = self.cg.children['uart_clk']._wires['q']
        self.rxq = self.cg.children['sync_uart_clk']._wires['q']

    def obs(self):
        c = [x.value for x in self.cw]
        return [self.s_ready.value, self.tx.value, self.pulse.value, c[0], c[1], c[2], c[3], c[4], c[5], c[6],
                self.sample.value, self.desync.value, self.d_valid.value, self.d_v.value,
                self.ser.state, self.ser.count, self.ser.txv, self.des.state, self.des.count, self.des.state_v,
                self.des.temp, self.fsm.state, self.txq.value, self.rxq.value]


def consumer_ready(c, t, r):
    k = c['kind']
    if k == 'always':
        return 1
    if k == 'period':
        return 1 if (t % c['k']) == c['phase'] % c['k'] else 0
    if k == 'burst2':                                   # exactly two consecutive ready cycles every k
        return 1 if (t % c['k']) in (c['phase'] % c['k'], (c['phase'] + 1) % c['k']) else 0
    if k == 'at':                                       # ready exactly in the listed clocks, and always from `after` on
        return 1 if (t in c['_set'] or t >= c['after']) else 0
    if k == 'window':                                   # `width` consecutive ready cycles every `k` clocks (a polling consumer)
        return 1 if ((t + c['phase']) % c['k']) < c['width'] else 0
    if k == 'random':
        return 1 if r.chance(c['num'], c['den']) else 0
    if k == 'never':
        return 0
    raise ValueError(k)


def run_real(sc):
    """runs scenario `sc` on the REAL blocks. returns dict(ins, obs, accepted, delivered, line, keeps_up, frames)"""
    n = sc['n']
    P = 2 * n
    L = RealLink(n, tuple(sc.get('freq', (2 * n * 100, 100))))
    r = Rng(sc.get('seed', 0))
    prod, cons = sc['producer'], sc['consumer']
    if cons['kind'] == 'at':
        cons = dict(cons, _set=set(cons['cycles']))
    bts = list(sc['bytes'])
    ins, obs, acc, dl, line = [], [], [], [], []
    ready_hist, desync_t = [], []
    k, gapleft = 0, (prod['gaps'][0] if prod['kind'] == 'hold' and bts else 0)
    t = 0
    drain = None
    limit = sc.get('limit', (len(bts) + 2) * 14 * P + sum(prod.get('gaps', [])) + 200)
    while True:
        # ---- producer
        if drain is None:
            if prod['kind'] == 'hold':
                if k >= len(bts):
                    valid, v = 0, 0
                elif gapleft > 0:
                    valid, v, gapleft = 0, r.randint(0, 255), gapleft - 1
                else:
                    valid, v = 1, bts[k]
            else:   # 'random': valid with probability num/den, value from the list in order (changes every cycle it is not taken)
                if k >= len(bts):
                    valid, v = 0, 0
                else:
                    valid = 1 if r.chance(prod['num'], prod['den']) else 0
                    v = bts[k] if valid else r.randint(0, 255)
            rdy = consumer_ready(cons, t, r)
        else:
            valid, v, rdy = 0, 0, 1
        L.s_valid.put(valid); L.s_v.put(v); L.d_ready.put(rdy)
        # ---- port events of this cycle (wire values before the edge)
        if L.s_ready.value == 1 and valid:
            acc.append(L.s_v.value)
            if drain is None and k < len(bts):
                k += 1
                if prod['kind'] == 'hold' and k < len(bts):
                    gapleft = prod['gaps'][k]
        if L.d_valid.value == 1 and rdy:
            dl.append(L.d_v.value)
        ins.append((valid, v, rdy))
        ready_hist.append(rdy)
        L.sim.clk(1)
        o = L.obs()
        obs.append(o)
        line.append(o[1])
        if o[11] == 1:
            desync_t.append(t)          # frame end: the clock of cycle t made desync visible
        t += 1
        if drain is None and (k >= len(bts) or t >= limit):
            drain = sc.get('drain', 13 * P + 12)
        elif drain is not None:
            drain -= 1
            if drain <= 0:
                break
    # provisional keeps_up from the implementation's own desync pulses (only used when the Lean driver is unavailable);
    # the authoritative value is computed from the LINE (spec level) in LinkBatch.finish -> keeps_up_from_line
    ku = windows_ok(ready_hist, desync_t)
    return dict(ins=ins, obs=obs, accepted=acc, delivered=dl, line=line, keeps_up=ku, keeps_up_desync=ku, frames=len(desync_t),
                sent_all=(k >= len(bts)), ready_hist=ready_hist)


def windows_ok(ready_hist, ends):
    """transcription of Uart.keepsUp 2: c = ready cycles since the last frame end (incl. the frame-end cycle), saturating at 2;
    at a frame end c == 2, or c == 1 with ready high in that very cycle (old byte taken at the last possible moment); c == 2 at the
    end.  (Compared with the Lean function evaluated on the model run for every scenario.)"""
    es = set(e for e in ends if 0 <= e < len(ready_hist))
    c = 2
    for t, r in enumerate(ready_hist):
        if t in es:
            if not (c == 2 or (c == 1 and r)):
                return False
            c = 1 if r else 0
        elif r:
            c = min(2, c + 1)
    return c == 2


def keeps_up_from_line(ready_hist, emit_idx):
    """the consumer-keeps-up hypothesis evaluated at SPEC level: frame ends are taken from the line (the sample index at which
    Uart.softRx emits the byte, mid stop bit; the deserializer of the unchanged code latches two clock indices later), not from
    any signal of the deserializer under test -- a change inside the deserializer cannot move a failure into the known class"""
    return windows_ok(ready_hist, [t + 2 for t in emit_idx])


def enc_ins(ins):
    return ';'.join(f'{a},{b},{c}' for a, b, c in ins)


def scen_summary(sc):
    d = {k: sc[k] for k in ('n', 'freq', 'producer', 'consumer', 'seed') if k in sc}
    d['bytes'] = sc['bytes'] if len(sc['bytes']) <= 24 else sc['bytes'][:24] + ['...%d' % len(sc['bytes'])]
    return d


class DrvBatch:
    """all requests to Drv/C17.lean of one check run go through ONE driver session (driver start-up dominates under load)"""

    def __init__(self, res):
        self.res, self.reqs, self.cbs = res, [], []

    def add(self, reqs, cb, stream):
        self.cbs.append((len(self.reqs), len(reqs), cb, stream))
        self.reqs += reqs

    def run(self):
        if not self.reqs:
            return
        try:
            out = run_driver('Drv/C17.lean', self.reqs)
        except ToolFailure as e:
            out = None
            for st in sorted(set(c[3] for c in self.cbs)):
                self.res.broken.append(('correspondence', st, f'model driver does not run: {str(e)[:300]}'))
        for i0, k, cb, stream in self.cbs:
            cb(None if out is None else out[i0:i0 + k])
        self.reqs, self.cbs = [], []


class LinkBatch:
    """real runs now, one Lean driver session for model comparison + oracle evaluation"""

    def __init__(self, res, drv):
        self.res, self.reqs, self.jobs, self.drv = res, [], [], drv

    def add(self, sc, full=True):
        full = sc.get('full', full)
        rr = run_real(sc)
        n = sc['n']
        i0 = len(self.reqs)
        model = sc.get('model', True)
        self.reqs.append(f"link | {1 if full else 0} | {n} | {enc_ins(rr['ins'])}" if model else "softrx | 4 | ")
        self.reqs.append(f"ok | {','.join(map(str, rr['accepted']))} | {','.join(map(str, rr['delivered']))}")
        self.reqs.append(f"lineok | {2 * n} | {','.join(map(str, rr['accepted']))} | {','.join(map(str, rr['line']))}")
        self.reqs.append(f"softrxt | {2 * n} | {','.join(map(str, rr['line']))}")
        self.jobs.append((sc, rr, i0, full))
        return rr

    def run(self):
        if self.reqs:
            jobs = self.jobs
            self.drv.add(self.reqs, lambda out: self.finish(out, jobs), 'link')
        self.reqs, self.jobs = [], []

    def finish(self, out, jobs):
        res = self.res
        for sc, rr, i0, full in jobs:
            summ = scen_summary(sc)
            if out is not None:
                try:
                    emit = [int(x) for x in out[i0 + 3].split(',') if x.strip() != '']
                    rr['keeps_up'] = keeps_up_from_line(rr['ready_hist'], emit)
                except ValueError:
                    pass
            if rr['keeps_up'] != rr['keeps_up_desync']:
                res.hist('keeps_up_line_vs_desync', 'differ')
            key = ('link', json.dumps(summ, sort_keys=True, default=str))
            res.count(key, hist={'link_n': sc['n'], 'link_consumer': sc['consumer']['kind'], 'link_producer': sc['producer']['kind'],
                                 'keeps_up': rr['keeps_up']})
            res.hist('link_cycles', 'total', len(rr['ins']))
            res.hist('link_bytes', 'accepted', len(rr['accepted']))
            ok_py = rr['delivered'] == rr['accepted']
            # ---------------- oracle on the implementation (Lean spec functions through the driver; python fallback = same equality)
            if out is not None:
                ok_del = out[i0 + 1].strip() == '1'
                ok_line = out[i0 + 2].strip() == '1'
            else:
                ok_del, ok_line = ok_py, None
            replay = dict(summ, keeps_up=rr['keeps_up'], accepted=rr['accepted'][:40], delivered=rr['delivered'][:40],
                          cycles=len(rr['ins']), rerun='harness/c17.py --replay <this file>')
            if not rr['sent_all']:
                self.res.fail(f"serializer stopped accepting: only {len(rr['accepted'])} of {len(sc['bytes'])} bytes taken within {len(rr['ins'])} cycles",
                              dict(replay, clause='progress'))
            res.hist('keeps_up_vs_delivery', f"keeps_up={rr['keeps_up']},delivered_ok={bool(ok_del)}")
            if not ok_del:
                self.fail_or_known(f"delivered {rr['delivered'][:12]} != accepted {rr['accepted'][:12]} (n={sc['n']}, consumer {sc['consumer']})",
                                   dict(replay, clause='delivery'))
            if ok_line is False:
                # the line clause does not depend on the consumer: never a known finding
                dk = dict(replay, clause='line')
                dk['keeps_up'] = True if rr['keeps_up'] is False else rr['keeps_up']
                self.res.fail(f"software 8N1 receiver at P={2 * sc['n']} does not recover the accepted bytes {rr['accepted'][:12]} from the tx trace", dk)
            # ---------------- model vs implementation
            if out is None or not sc.get('model', True):
                res.hist('link_model_compared', 'oracle-only')
                continue
            res.hist('link_model_compared', 'model+oracle')
            parts = [p.strip() for p in out[i0].split('|')]
            if len(parts) != 6:
                res.disagree('link', dict(scenario=summ, lean=out[i0][:200]))
                continue
            mobs = [[int(x) for x in c.split(',')] for c in parts[0].split(';')] if parts[0] else []
            robs = rr['obs'] if full else [[o[0], o[1], o[12], o[13]] for o in rr['obs']]
            names = OBS if full else ['s_ready', 'tx', 'd_valid', 'd_v']
            bad = None
            if len(mobs) != len(robs):
                bad = dict(what='length', lean=len(mobs), python=len(robs))
            else:
                for t, (a, b) in enumerate(zip(mobs, robs)):
                    if a != b:
                        diff = {names[j]: dict(lean=a[j], python=b[j]) for j in range(len(a)) if a[j] != b[j]}
                        bad = dict(cycle=t, diff=diff, ins=rr['ins'][max(0, t - 3):t + 1])
                        break
            toL = lambda s: [int(x) for x in s.split(',') if x.strip() != '']
            if bad is None and toL(parts[1]) != rr['accepted']:
                bad = dict(what='accepted', lean=toL(parts[1])[:20], python=rr['accepted'][:20])
            if bad is None and toL(parts[2]) != rr['delivered']:
                bad = dict(what='delivered', lean=toL(parts[2])[:20], python=rr['delivered'][:20])
            if bad is None and (parts[4] == '1') != rr['keeps_up']:
                bad = dict(what='keepsUp (Uart.keepsUp on the model run vs ready counts between observed desync pulses)',
                           lean=parts[4], python=rr['keeps_up'])
            if bad is not None:
                res.disagree('link', dict(scenario=summ, **bad))

    def fail_or_known(self, what, replay):
        listed = any(k.get('id') == PROPOSED_FINDINGS[0]['id'] for k in load_known())
        if not listed and common._matches(PROPOSED_FINDINGS[0], what, replay):
            # proposed entry (notes/C17.md) not merged into known_findings.json yet: same class predicate, applied locally
            self.res.known_hits.append((PROPOSED_FINDINGS[0], what))
            if 'C17-slow-consumer pending' not in ' '.join(self.res.notes):
                self.res.notes.append('C17-slow-consumer pending merge into known_findings.json; class predicate applied from harness/c17.py')
            return
        self.res.fail(what, replay)


# ------------------------------------------------------------------------------------------------ small blocks
def div_stream(res, rng, tier, drv):
    import py4hw
    from py4hw.logic.clock import ClockDivider
    ns = list(range(1, 18)) + [31, 32, 33, 63, 64, 65, 100] if tier == 'quick' else list(range(1, 70)) + [127, 128, 129, 255, 256, 257, 1000]
    reqs, exp, info = [], [], []
    for n in ns:
        for mode in ('free', 'reset'):
            r = rng.fork(('div', n, mode))
            hw = py4hw.HWSystem()
            clkout = hw.wire('clkout')
            rst = hw.wire('rst') if mode == 'reset' else None
            fr = freqs_for(n, r)
            with contextlib.redirect_stdout(io.StringIO()):
                d = ClockDivider(hw, 'd', fr[0], fr[1], clkout, reset=rst)
                sim = hw.getSimulator()
            q = d._wires['q']
            T = 6 * n + 12 if tier == 'quick' else 10 * n + 40
            rs, tr = [], []
            for t in range(T):
                x = 0
                if mode == 'reset':
                    x = 1 if r.chance(1, max(2, n)) else 0
                    rst.put(x)
                rs.append(x)
                sim.clk(1)
                tr.append((q.value, clkout.value))
            reqs.append(f"div | {n} | {','.join(map(str, rs))}")
            exp.append(tr)
            info.append((n, mode, fr, q.getWidth()))
            res.count(('div', n, mode, tuple(rs)), hist={'div_n': n if n < 20 else '>=20', 'div_mode': mode})
    def cb(out):
        for rq, o, e, inf in zip(reqs, out or [], exp, info):
            got = [tuple(int(x) for x in c.split(',')) for c in o.split(';')] if o else []
            if got != e:
                t = next((i for i, (a, b) in enumerate(zip(got, e)) if a != b), min(len(got), len(e)))
                res.disagree('div', dict(n=inf[0], mode=inf[1], freq=inf[2], qwidth=inf[3], cycle=t, lean=got[t:t + 3], python=e[t:t + 3]))
    drv.add(reqs, cb, 'div')
    for rq, e, inf in zip(reqs, exp, info):
        # spec oracle on the implementation: free-running divider toggles exactly every n cycles (period 2n)
        if inf[1] == 'free':
            n = inf[0]
            for k, (qq, cc) in enumerate(e, 1):
                if cc != (k // n) % 2:
                    res.fail(f'ClockDivider n={n}: clkout after {k} clocks is {cc}, expected {(k // n) % 2} (period 2n)',
                             dict(block='ClockDivider', n=n, freq=inf[2], clocks=k, keeps_up=True))
                    break


def edge_stream(res, rng, tier, drv):
    import py4hw
    from py4hw.logic.clock import EdgeDetector
    reqs, exp = [], []
    pats = []
    L = 5 if tier == 'quick' else 8
    for m in range(1 << L):
        pats.append([(m >> i) & 1 for i in range(L)])
    for j in range(20 if tier == 'quick' else 200):
        r = rng.fork(('edge', j))
        pats.append([r.randint(0, 1) for _ in range(r.randint(1, 60))])
    for di, dname in enumerate(('pos', 'neg', 'both')):
        for p in pats:
            hw = py4hw.HWSystem()
            a, rr = hw.wire('a'), hw.wire('r')
            EdgeDetector(hw, 'e', a, rr, dname)
            sim = hw.getSimulator()
            tr = []
            for x in p:
                a.put(x)
                tr.append(_settled(sim, rr))      # combinational output of this cycle
                sim.clk(1)
            reqs.append(f"edge | {di} | {','.join(map(str, p))}")
            exp.append(tr)
            res.count(('edge', dname, tuple(p)), hist={'edge_dir': dname})
            # spec oracle
            z = 0
            for t, x in enumerate(p):
                want = {'pos': int(x == 1 and z == 0), 'neg': int(x == 0 and z == 1), 'both': int(x != z)}[dname]
                if tr[t] != want:
                    res.fail(f'EdgeDetector {dname}: output {tr[t]} at cycle {t} of {p[:t + 1]}, expected {want}',
                             dict(block='EdgeDetector', direction=dname, a=p[:t + 1], keeps_up=True))
                    break
                z = x
    def cb(out):
        for rq, o, e in zip(reqs, out or [], exp):
            got = [int(x) for x in o.split(',')] if o else []
            if got != e:
                res.disagree('edge', dict(request=rq[:120], lean=got[:20], python=e[:20]))
    drv.add(reqs, cb, 'edge')


def _settled(sim, w):
    """value of a combinational wire in the current cycle after the inputs were put (the simulator settles in clk();
    here the propagate pass is run explicitly like Simulator.clk does before the edge)"""
    for p in sim.propagatables:
        p.propagate()
    return w.value


def net_stream(res, rng, tier, drv=None):
    """flattened netlists of the structural blocks against Net.Sim (only when every leaf is translated)"""
    import py4hw
    import dump_ir as D
    from py4hw.logic.clock import EdgeDetector, ClockDivider
    nb = D.NetBatch(res, 'net')
    for j, dname in enumerate(('pos', 'neg', 'both')):
        hw = py4hw.HWSystem()
        a, rr = hw.wire('a'), hw.wire('r')
        EdgeDetector(hw, 'e', a, rr, dname)
        r = rng.fork(('net', dname))
        ops = []
        for t in range(40):
            ops += [('poke', a, r.randint(0, 1)), ('clk', 1)]
        try:
            nb.add(hw, ops, label=f'EdgeDetector-{dname}')
            res.hist('net', 'EdgeDetector')
        except D.NotDumpable as e:
            res.hist('net_not_dumpable', str(e))
    for n in (1, 2, 3, 5, 8):
        hw = py4hw.HWSystem()
        c, rst = hw.wire('c'), hw.wire('rst')
        with contextlib.redirect_stdout(io.StringIO()):
            ClockDivider(hw, 'd', 2 * n * 100, 100, c, reset=rst)
        r = rng.fork(('netdiv', n))
        ops = []
        for t in range(8 * n + 10):
            ops += [('poke', rst, 1 if r.chance(1, 7) else 0), ('clk', 1)]
        try:
            nb.add(hw, ops, label=f'ClockDivider-{n}')
            res.hist('net', 'ClockDivider')
        except D.NotDumpable as e:
            res.hist('net_not_dumpable', str(e))
        except Exception as e:
            res.hist('net_not_dumpable', type(e).__name__)
    try:
        nb.run()
    except ToolFailure as e:
        res.broken.append(('correspondence', 'net', str(e)[:300]))


# ------------------------------------------------------------------------------------------------ scenarios
def scenarios(rng, tier):
    quick = tier == 'quick'
    out = []
    ns = [2, 3, 4, 5, 6] if quick else list(range(2, 41))
    allb = list(range(256))
    # (c) exhaustive small: n=2, every single byte alone is covered by (a); every phase of the accept w.r.t. the baud pulse
    for n in (ns[:3] if quick else ns[:8]):
        for g0 in range(0, 2 * (2 * n) + 3):
            out.append(dict(n=n, freq=(2 * n * 100, 100), bytes=[0x53, 0x00, 0xFF], producer=dict(kind='hold', gaps=[g0, 0, g0 % 5]),
                            consumer=dict(kind='period', k=3, phase=g0), seed=g0))
    # (d) polling consumers whose period is a multiple of the bit period: the previous byte is still pending (stall of 1.5 .. 6 bit
    #     periods) when the next start bit falls, frames back-to-back or a few bit periods apart -- every ratio
    demo = [0x55, 0xA3, 0x00, 0xFF, 0x01, 0x80, 0x7E, 0x42, 0x0F, 0xC3]
    for n in (ns if quick else ns[:10] + [20, 40]):
        P = 2 * n
        r = rng.fork(('d', n))
        combos = [(3, 2, 0), (5, 2, 0), (3, 2, 3), (5, 2, 3 * P), (2, 1, 0), (4, 2, 6 * P)] if quick else \
                 [(kp, w, g) for kp in (2, 3, 4, 5) for w in (1, 2) for g in (0, 3, 3 * P, 6 * P)]
        for kp, w, g in combos:
            m = 6 if quick else 10
            out.append(dict(n=n, freq=freqs_for(n, r), bytes=demo[:m], producer=dict(kind='hold', gaps=[g] * m),
                            consumer=dict(kind='window', k=kp * P, width=w, phase=r.randint(0, kp * P - 1)), seed=n))
    # (f) LARGE ratios (the theorems are for all n >= 2; real UARTs run at hundreds to thousands of clocks per bit, e.g.
    #     50 MHz / 115200 = 434): 19n+2 clocks of lock per frame exceed 2^12 from n = 216, 2^16 from n = 3450
    big = [216, 217] if quick else [216, 217, 1000, 2604, 3500]
    for n in big:
        P = 2 * n
        r = rng.fork(('f', n))
        m = 2 if (quick or n > 1000) else 3
        bts = [r.choice([0xA5, 0x53, 0xC3]), 0x00, 0xFF][:m]
        heavy = n > 1000
        out.append(dict(n=n, freq=(2 * n * 100, 100) if n != 217 else (50000000, 115200), bytes=bts, producer=dict(kind='hold', gaps=[0] * m),
                        consumer=dict(kind='always'), seed=n, full=False, model=not ((quick and n != 216) or n > 2604)))
        out.append(dict(n=n, freq=(2 * n * 100, 100), bytes=bts, producer=dict(kind='hold', gaps=[r.randint(0, P)] * m),
                        consumer=dict(kind='window', k=3 * P, width=2, phase=r.randint(0, 3 * P - 1)), seed=n, full=False,
                        model=not (quick or heavy)))
    # (b) gap patterns x consumer timings that keep up
    nb = 40 if quick else 300
    for j in range(nb):
        r = rng.fork(('b', j))
        n = r.choice(ns if quick else ns + [2, 3, 2])
        P = 2 * n
        m = r.randint(1, 12 if quick else 40)
        bts = [r.choice([0, 255, 0x55, 0xAA, 1, 128, r.randint(0, 255), r.randint(0, 255)]) for _ in range(m)]
        gk = r.choice(['zero', 'small', 'bit', 'frame', 'mixed'])
        gaps = [dict(zero=0, small=r.randint(0, 7), bit=r.randint(0, 2 * P), frame=r.randint(0, 12 * P),
                     mixed=r.choice([0, 0, 1, r.randint(0, 3 * P)]))[gk] for _ in range(m)]
        ck = r.choice(['always', 'period', 'burst2', 'random', 'period', 'window'])
        if ck == 'period':
            cons = dict(kind='period', k=r.randint(1, 5 * P - 1), phase=r.randint(0, 50))       # >= 2 per 10P+ window
        elif ck == 'burst2':
            cons = dict(kind='burst2', k=r.randint(2, 10 * P), phase=r.randint(0, 50))
        elif ck == 'random':
            cons = dict(kind='random', num=r.randint(1, 4), den=r.randint(4, 8))
        elif ck == 'window':
            kk = r.randint(1, 5) * P + r.choice([0, 0, 1, -1, n])
            cons = dict(kind='window', k=kk, width=r.randint(1, 3), phase=r.randint(0, kk))
        else:
            cons = dict(kind='always')
        prod = dict(kind='hold', gaps=gaps) if r.chance(3, 4) else dict(kind='random', num=r.randint(1, 3), den=r.randint(3, 9))
        out.append(dict(n=n, freq=freqs_for(n, r), bytes=bts, producer=prod, consumer=cons, seed=r.randint(0, 1 << 30)))
    # (a) all 256 byte values, back-to-back, consumer always ready, every n (quick: 2..6)
    for n in ns:
        r = rng.fork(('a', n))
        bts = r.shuffle(allb)
        if n <= (3 if quick else 8):
            out.append(dict(n=n, freq=freqs_for(n, r), bytes=bts, producer=dict(kind='hold', gaps=[0] * 256), consumer=dict(kind='always'), seed=n))
        else:   # model comparison on a prefix, the oracle on the real code still sees all 256 values
            k = 48 if quick else 32
            out.append(dict(n=n, freq=freqs_for(n, r), bytes=bts[:k], producer=dict(kind='hold', gaps=[0] * k), consumer=dict(kind='always'), seed=n))
            out.append(dict(n=n, freq=freqs_for(n, r), bytes=bts, producer=dict(kind='hold', gaps=[0] * 256), consumer=dict(kind='always'), seed=n,
                            model=False))
    return out


def sweep_scenarios(rng, tier):
    """(e) hand-shake delay sweep relative to the SPEC-level frame-end clock: the consumer is ready for one cycle when frame k
    completes (valid rises) and for one more cycle d clocks later (the transfer), d = 1 .. frame spacing INCLUSIVE -- d = spacing is
    the transfer of byte k in exactly the clock in which frame k+1 completes, the last moment at which `valid` and the old value are
    still on the port (inside keepsUp; the unchanged code delivers).  Frame-end clocks come from a calibration run with an always-ready
    consumer (the transmit side does not depend on the consumer) through Uart.softRx on its line (driver `softrxt`, + 2)."""
    quick = tier == 'quick'
    cal = []
    data = [0x41, 0x00, 0xFF, 0x5A, 0xA5, 0x80, 0x01, 0x7E]
    for n in ([2, 3, 5] if quick else [2, 3, 4, 5, 6, 8, 13, 20]):
        for gaps in ([0], [3]) if quick else ([0], [3], [2 * n], [0, 7, 0, 4 * n]):
            m = 4 if quick else 6
            sc0 = dict(n=n, freq=(2 * n * 100, 100), bytes=data[:m], producer=dict(kind='hold', gaps=[gaps[j % len(gaps)] for j in range(m)]),
                       consumer=dict(kind='always'), seed=0)
            cal.append((sc0, run_real(sc0)))
    outs = run_driver('Drv/C17.lean', [f"softrxt | {2 * sc0['n']} | {','.join(map(str, rr['line']))}" for sc0, rr in cal])
    out = []
    for (sc0, rr), o in zip(cal, outs):
        n = sc0['n']
        E = [int(x) + 2 for x in o.split(',') if x.strip() != '']
        if len(E) < 2:
            continue
        spacing = min(E[i + 1] - E[i] for i in range(len(E) - 1))
        full = (n == 2) if quick else (n <= 4)
        ds = list(range(1, spacing + 1)) if full else sorted(set([1, 2, 3, spacing // 2, spacing - 2, spacing - 1, spacing]))
        for d in ds:
            cyc = sorted(set(E + [e + d for e in E]))
            out.append(dict(sc0, consumer=dict(kind='at', cycles=cyc, after=E[-1] + spacing + 1, d=d, spacing=spacing)))
        # every hand-shake exactly on the NEXT frame end, whatever the (varying) spacing: ready only in the frame-end clocks
        out.append(dict(sc0, consumer=dict(kind='at', cycles=list(E), after=E[-1] + spacing + 1, d='next', spacing=spacing)))
        # one clock too late (outside keepsUp: the known finding's class)
        out.append(dict(sc0, consumer=dict(kind='at', cycles=sorted(set([E[0]] + [e + 1 for e in E[1:]])), after=E[-1] + 3 * spacing,
                                           d=spacing + 1, spacing=spacing)))
    return out


def slow_scenarios(rng, tier):
    """consumers that do NOT keep up (outside the hypothesis of the partial theorem): the known finding's class"""
    out = [dict(PROPOSED_FINDINGS[0]['witness'], freq=(400, 100), seed=0)]
    for j in range(6 if tier == 'quick' else 60):
        r = rng.fork(('slow', j))
        n = r.randint(2, 6)
        P = 2 * n
        m = r.randint(2, 8)
        out.append(dict(n=n, freq=freqs_for(n, r), bytes=[r.randint(0, 255) for _ in range(m)], producer=dict(kind='hold', gaps=[r.choice([0, 0, P]) for _ in range(m)]),
                        consumer=r.choice([dict(kind='period', k=r.randint(11 * P, 40 * P), phase=r.randint(0, 99)), dict(kind='never'),
                                           dict(kind='random', num=1, den=r.randint(8 * P, 30 * P))]), seed=r.randint(0, 1 << 30)))
    return out


def main(res, tier, rng, replay):
    ok, metas, errors, changed = regenerate()
    for e in errors:
        res.broken.append(('translator', 'py2lean', e))
    res.proof_stage('Py4hwV.Props.C17', OBLIGATIONS)
    quick = tier == 'quick'
    # ---- T1: the three generated FSM steps against the real methods
    if ok:
        try:
            t1.validate_generated(res, rng.fork('t1'), 150 if quick else 2000,
                                  classes=['UARTSerializer', 'UARTDeserializer', 'ClockSyncFSM'])
        except ToolFailure as e:
            res.broken.append(('correspondence', 'T1', f'generated definitions do not run: {e}'))
    # ---- hand-modelled structural blocks
    drv = DrvBatch(res)
    for fn, nm in ((div_stream, 'div'), (edge_stream, 'edge'), (net_stream, 'net')):
        try:
            fn(res, rng.fork(nm), tier, drv)
        except ToolFailure as e:
            res.broken.append(('correspondence', nm, str(e)[:300]))
    # ---- corpus / replay first
    lb = LinkBatch(res, drv)
    cdir = os.path.join(VERIF, 'corpus', 'C17')
    files = sorted(os.listdir(cdir)) if os.path.isdir(cdir) else []
    if replay:
        files = [replay]
    for f in files:
        p = f if os.path.isabs(f) or os.path.exists(f) else os.path.join(cdir, f)
        try:
            body = json.load(open(p))
        except Exception:
            continue
        scs = body if isinstance(body, list) else [x.get('replay', x) for x in body.get('failing_inputs', [body])]
        for sc in scs:
            if isinstance(sc, dict) and all(k in sc for k in ('n', 'bytes', 'producer', 'consumer')):
                sc = dict(sc)
                sc['bytes'] = [b for b in sc['bytes'] if isinstance(b, int)]
                lb.add(sc)
    lb.run()
    # ---- seeded scenarios
    scs = scenarios(rng.fork('sc'), tier)
    for i, sc in enumerate(scs):
        rr = lb.add(sc, full=True)
        if i < 4:
            res.sample(dict(scenario=scen_summary(sc), cycles=len(rr['ins']), accepted=rr['accepted'][:8], delivered=rr['delivered'][:8],
                            keeps_up=rr['keeps_up']))
        _branch_hist(res, rr)
        if len(lb.reqs) >= 3000:
            lb.run()
            drv.run()
    try:
        for sc in sweep_scenarios(rng.fork('sweep'), tier):
            rr = lb.add(sc, full=True)
            res.hist('sweep_d', 'd=spacing' if sc['consumer']['d'] == sc['consumer']['spacing'] else
                     ('d=next' if sc['consumer']['d'] == 'next' else ('d>spacing' if sc['consumer']['d'] > sc['consumer']['spacing'] else 'd<spacing')))
            _branch_hist(res, rr)
    except ToolFailure as e:
        res.broken.append(('correspondence', 'link', f'sweep calibration: {str(e)[:200]}'))
    lb.run()
    # ---- the known finding's class: consumers that do not keep up (re-derived on the real code every run)
    for sc in slow_scenarios(rng.fork('slow'), tier):
        rr = lb.add(sc, full=True)
        _branch_hist(res, rr)
    lb.run()
    drv.run()
    res.cov['rule'] = ('T1: generated serializer/deserializer/ClockSyncFSM steps vs real methods on seeded states; div/edge: real ClockDivider '
                       '(free and with random reset) and EdgeDetector (all 2^L input patterns + random) vs hand model every cycle; link: real '
                       'ClockGenerationAndRecovery+UARTSerializer+UARTDeserializer in a loop vs Uart.Link.step, 24 observables every cycle, '
                       'for n in range x all 256 bytes back-to-back x gap patterns x consumer timings; distinct = distinct scenario; oracle '
                       '(Uart.deliveredOk, Uart.lineOk through the Lean driver) evaluated on the real run of every scenario')
    res.assumptions += ['n = int(sysFreq/(2*uartFreq)) computed in floats by ClockDivider; model is parametric in n (exact and n+0.5 ratios exercised)',
                        'delivery clause proved/claimed under keeps_up (>= 2 ready cycles between consecutive frame ends); outside it the known '
                        'finding C17-slow-consumer applies',
                        'power-up: tx wire is 0 for the first cycle (Wire initial value) before the serializer drives it high; the software '
                        'receiver requires a high level before a falling edge counts']


def _branch_hist(res, rr):
    h = res.cov['histograms']
    a, b, c = h.setdefault('ser_state', {}), h.setdefault('des_state_v', {}), h.setdefault('des_state', {})
    for o in rr['obs']:
        a[str(o[14])] = a.get(str(o[14]), 0) + 1
        b[str(o[19])] = b.get(str(o[19]), 0) + 1
        c[str(o[17])] = c.get(str(o[17]), 0) + 1


if __name__ == '__main__':
    main_wrapper('C17', main)
