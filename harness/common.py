"""
Shared plumbing for the per-property harnesses (run with /venv/bin/python, PYTHONPATH=/repo).

  Rng                 splitmix64; every random choice of a run derives from VERIF_SEED
  lean_build/audit    S1: `lake build` of the property's modules + `#print axioms` audit
  run_driver          line protocol: feed request lines to `lake env lean --run Drv/<X>.lean`
  Result              accumulates coverage / disagreements / oracle failures, writes evidence, prints the verdict
  known findings      /verif/known_findings.json (never written at run time)
"""
import os, sys, json, subprocess, time, re, hashlib, fcntl, traceback, warnings
warnings.simplefilter("ignore")

VERIF = os.path.abspath(os.path.join(os.path.dirname(__file__), '..'))
LEAN = os.path.join(VERIF, 'lean')
REPO = os.environ.get('PY4HW_REPO', '/repo')
if REPO not in sys.path:
    sys.path.insert(0, REPO)
os.environ.setdefault('MPLBACKEND', 'Agg')
ALLOWED_AXIOMS = {'propext', 'Classical.choice', 'Quot.sound'}
TRUSTED_BASE = [
    'Lean 4.33.0 kernel (and leanchecker in the thorough tier)',
    'axioms: subset of {propext, Classical.choice, Quot.sound}, audited by #print axioms on every run; '
    'no sorry/admit/native_decide/bv_decide/implemented_by/unsafe/axiom (grep on every run)',
    'harness/py2lean.py (Python->Lean translator), validated on every run by executing generated definitions '
    'against the real methods',
    'line-protocol drivers under lean/Drv and the Python harness that compares model and implementation',
    'CPython integer semantics and the ast module',
]


# ------------------------------------------------------------------------------------------------
class Rng:
    """splitmix64"""
    M = (1 << 64) - 1

    def __init__(self, seed):
        self.s = (seed * 0x9E3779B97F4A7C15 + 0x1234567) & self.M

    def next(self):
        self.s = (self.s + 0x9E3779B97F4A7C15) & self.M
        z = self.s
        z = ((z ^ (z >> 30)) * 0xBF58476D1CE4E5B9) & self.M
        z = ((z ^ (z >> 27)) * 0x94D049BB133111EB) & self.M
        return z ^ (z >> 31)

    def randint(self, a, b):
        """inclusive"""
        if b <= a:
            return a
        n = b - a + 1
        if n > (1 << 62):
            k = (n.bit_length() + 63) // 64
            v = 0
            for _ in range(k + 1):
                v = (v << 64) | self.next()
            return a + v % n
        return a + self.next() % n

    def bits(self, w):
        """a w-bit value biased towards boundary patterns"""
        if w <= 0:
            return 0
        m = (1 << w) - 1
        k = self.next() % 10
        if k == 0:
            return 0
        if k == 1:
            return m
        if k == 2:
            return 1 << (w - 1)
        if k == 3:
            return (1 << (w - 1)) - 1 if w > 1 else 0
        if k == 4:
            return 1
        if k == 5:
            return (1 << self.randint(0, w - 1))
        return self.randint(0, m)

    def choice(self, xs):
        return xs[self.next() % len(xs)]

    def chance(self, num, den):
        return self.next() % den < num

    def shuffle(self, xs):
        xs = list(xs)
        for i in range(len(xs) - 1, 0, -1):
            j = self.next() % (i + 1)
            xs[i], xs[j] = xs[j], xs[i]
        return xs

    def fork(self, tag):
        h = int.from_bytes(hashlib.sha256(f'{self.s}:{tag}'.encode()).digest()[:8], 'big')
        return Rng(h)


def seed_from_env():
    try:
        return int(os.environ.get('VERIF_SEED', '0'))
    except ValueError:
        return 0


# ------------------------------------------------------------------------------------------------
class ToolFailure(Exception):
    pass


def _lock():
    os.makedirs(os.path.join(LEAN, '.lake'), exist_ok=True)
    f = open(os.path.join(LEAN, '.lake', 'verif.lock'), 'w')
    fcntl.flock(f, fcntl.LOCK_EX)
    return f


def regenerate():
    """S0: regenerate lean/Py4hwV/Gen from /repo's working tree. returns (ok, metas, errors, changed)"""
    sys.path.insert(0, os.path.join(VERIF, 'harness'))
    import py2lean
    lk = _lock()
    try:
        return py2lean.generate(os.path.join(LEAN, 'Py4hwV', 'Gen'))
    finally:
        lk.close()


def lean_build(targets, timeout=3000):
    """returns (ok, output). lake build is serialised across concurrent checks."""
    lk = _lock()
    try:
        p = subprocess.run(['lake', 'build'] + list(targets), cwd=LEAN, capture_output=True, text=True, timeout=timeout)
        return p.returncode == 0, p.stdout + p.stderr
    finally:
        lk.close()


FORBIDDEN = re.compile(r'\b(sorry|admit|native_decide|bv_decide|implemented_by|unsafe)\b|^\s*axiom\s|maxHeartbeats\s+0')


def grep_forbidden(files):
    hits = []
    for f in files:
        p = os.path.join(LEAN, f)
        if not os.path.exists(p):
            continue
        txt = open(p).read()
        # strip block comments and line comments
        txt2 = re.sub(r'/-.*?-/', lambda m: '\n' * m.group(0).count('\n'), txt, flags=re.S)
        for n, line in enumerate(txt2.split('\n'), 1):
            line = line.split('--')[0]
            if FORBIDDEN.search(line):
                hits.append(f'{f}:{n}: {line.strip()}')
    return hits


def lean_sources_of(modules):
    """transitive closure of Py4hwV.* imports, as file paths relative to lean/"""
    seen, todo = [], list(modules)
    while todo:
        m = todo.pop()
        f = m.replace('.', '/') + '.lean'
        if f in seen or not os.path.exists(os.path.join(LEAN, f)):
            continue
        seen.append(f)
        for line in open(os.path.join(LEAN, f)):
            mm = re.match(r'\s*import\s+(Py4hwV\.[\w\.]+)', line)
            if mm:
                todo.append(mm.group(1))
    return seen


def audit(prop_module, obligations):
    """`#print axioms` for every obligation. returns dict name -> set(axioms) | None (missing)"""
    src = f'import {prop_module}\n' + '\n'.join(f'#print axioms {o}' for o in obligations) + '\n'
    tmp = os.path.join(LEAN, '.lake', f'audit_{prop_module.replace(".", "_")}_{os.getpid()}.lean')
    open(tmp, 'w').write(src)
    try:
        p = subprocess.run(['lake', 'env', 'lean', tmp], cwd=LEAN, capture_output=True, text=True, timeout=1800)
    finally:
        os.unlink(tmp)
    out = p.stdout + p.stderr
    res = {o: None for o in obligations}
    for m in re.finditer(r"'([^']+)' depends on axioms: \[([^\]]*)\]", out, flags=re.S):
        res[m.group(1)] = set(a.strip() for a in m.group(2).replace('\n', ' ').split(',') if a.strip())
    for m in re.finditer(r"'([^']+)' does not depend on any axioms", out):
        res[m.group(1)] = set()
    return res, out


_DRIVER_BUILT = set()


def ensure_driver_built(driver):
    """the driver is interpreted (`lean --run`) but its imports must be compiled: build them (no-op when up to date)"""
    if driver in _DRIVER_BUILT:
        return
    mods = []
    for line in open(os.path.join(LEAN, driver)):
        m = re.match(r'\s*import\s+(Py4hwV\.[\w\.]+)', line)
        if m:
            mods.append(m.group(1))
    if mods:
        ok, out = lean_build(mods)
        if not ok:
            errs = [l for l in out.split('\n') if 'error' in l][:6]
            raise ToolFailure(f'model modules of {driver} do not build: ' + ' // '.join(errs))
    _DRIVER_BUILT.add(driver)


def run_driver(driver, lines, timeout=3000):
    """driver: path relative to lean/ (e.g. 'Drv/Leaf.lean'); lines: list[str] -> list[str]"""
    if not lines:
        return []
    ensure_driver_built(driver)
    data = '\n'.join(lines) + '\n'
    p = subprocess.run(['lake', 'env', 'lean', '--run', driver], cwd=LEAN, input=data, capture_output=True,
                       text=True, timeout=timeout)
    if p.returncode != 0:
        raise ToolFailure(f'driver {driver} failed rc={p.returncode}: {(p.stdout + p.stderr)[-2000:]}')
    out = p.stdout.split('\n')
    if out and out[-1] == '':
        out.pop()
    if len(out) != len(lines):
        raise ToolFailure(f'driver {driver}: {len(lines)} requests, {len(out)} answers; stderr={p.stderr[-1000:]}')
    return out


# ------------------------------------------------------------------------------------------------
def load_known():
    p = os.path.join(VERIF, 'known_findings.json')
    if not os.path.exists(p):
        return []
    return json.load(open(p)).get('findings', [])


class Result:
    """one per check run"""

    def __init__(self, prop, tier, seed, level='proof'):
        self.prop, self.tier, self.seed, self.level = prop, tier, seed, level
        self.t0 = time.time()
        self.cov = {'evaluations': 0, 'distinct_nontrivial': 0, 'rule': '', 'samples': [],
                    'obligations': 0, 'discharged': 0, 'checker_cmd': '', 'trusted_base': list(TRUSTED_BASE),
                    'disagreements_checked': 0, 'histograms': {}, 'axioms_seen': []}
        self.assumptions = []
        self.broken = []        # (kind, name, detail): proof / bridge / correspondence that no longer checks
        self.failures = []      # concrete failing inputs on the implementation: dict(what=..., replay=...)
        self.known_hits = []    # (finding, detail)
        self._distinct = set()
        self.notes = []

    # -- coverage bookkeeping
    def count(self, case_key, nontrivial=True, hist=None):
        self.cov['evaluations'] += 1
        if nontrivial:
            h = hash(case_key)
            if h not in self._distinct:
                self._distinct.add(h)
        if hist:
            for k, v in hist.items():
                d = self.cov['histograms'].setdefault(k, {})
                d[str(v)] = d.get(str(v), 0) + 1

    def sample(self, s, limit=12):
        if len(self.cov['samples']) < limit:
            self.cov['samples'].append(s)

    def hist(self, k, v, n=1):
        d = self.cov['histograms'].setdefault(k, {})
        d[str(v)] = d.get(str(v), 0) + n

    # -- S1
    def proof_stage(self, prop_module, obligations, extra_modules=()):
        """build + audit. records broken obligations. returns True when everything checks."""
        ok, out = lean_build([prop_module] + list(extra_modules))
        self.cov['checker_cmd'] = f'cd lean && lake build {prop_module} && #print axioms on {len(obligations)} obligations'
        self.cov['obligations'] = len(obligations)
        if not ok:
            errs = [l for l in out.split('\n') if 'error' in l][:8]
            self.broken.append(('proof', prop_module, 'lake build failed: ' + ' // '.join(errs)))
            self.cov['discharged'] = 0
            self.build_log = out
            return False
        res, aout = audit(prop_module, obligations)
        good = 0
        seen = set()
        for o, ax in res.items():
            if ax is None:
                self.broken.append(('proof', o, 'obligation missing or does not elaborate'))
            elif 'sorryAx' in ax or not ax <= ALLOWED_AXIOMS:
                self.broken.append(('proof', o, f'depends on axioms {sorted(ax)}'))
            else:
                good += 1
                seen |= ax
        self.cov['discharged'] = good
        self.cov['axioms_seen'] = sorted(seen)
        hits = grep_forbidden(lean_sources_of([prop_module]))
        if hits:
            self.broken.append(('proof', prop_module, 'forbidden construct: ' + '; '.join(hits[:5])))
        return not self.broken

    # -- S2
    def disagree(self, stream, detail):
        """model and implementation differ on `detail` (not yet a violation)"""
        self.broken.append(('correspondence', stream, detail))

    def fail(self, what, replay):
        """the property's oracle fails on the implementation for a concrete input"""
        for k in load_known():
            if k.get('property') == self.prop and k.get('status') == 'known' and _matches(k, what, replay):
                self.known_hits.append((k, what))
                return
        self.failures.append({'what': what, 'replay': replay})

    # -- S3
    def finish(self):
        self.cov['distinct_nontrivial'] = len(self._distinct)
        if self.level == 'translation_validation' and not self.cov.get('programs'):
            self.cov['programs'] = self.cov['distinct_nontrivial']      # designs / programs whose translation was validated
        wall = time.time() - self.t0
        ev = {'property_id': self.prop, 'tier': self.tier, 'seed': self.seed, 'level': self.level,
              'coverage': self.cov, 'assumptions': self.assumptions, 'wall_s': round(wall, 2),
              'violations': len(self.failures) + (1 if (self.broken and not self.failures) else 0),
              'broken': [list(b) for b in self.broken[:20]], 'known_findings_reproduced': len(self.known_hits),
              'notes': self.notes}
        if not self.cov['samples']:
            self.cov['samples'] = ['(no case reached)']
        os.makedirs(os.path.join(VERIF, 'evidence'), exist_ok=True)
        with open(os.path.join(VERIF, 'evidence', f'{self.prop}.json'), 'w') as f:
            json.dump(ev, f, indent=1, default=str)
        seen = set()
        for k, what in self.known_hits:
            if k['id'] not in seen:
                seen.add(k['id'])
                print(f"KNOWN-FINDING: property={self.prop} {k['what']}")
        if self.failures or self.broken:
            os.makedirs(os.path.join(VERIF, 'replays'), exist_ok=True)
            rp = os.path.join('replays', f'{self.prop}-{self.seed}.json')
            body = {'property': self.prop, 'seed': self.seed, 'tier': self.tier,
                    'failing_inputs': self.failures[:20],
                    'no_longer_checks': [dict(kind=k, name=n, detail=d) for k, n, d in self.broken[:20]],
                    'rerun': f'VERIF_SEED={self.seed} ./check {self.prop} --tier {self.tier}'}
            with open(os.path.join(VERIF, rp), 'w') as f:
                json.dump(body, f, indent=1, default=str)
            if self.failures:
                print(f'VIOLATION property={self.prop} replay={rp}')
                print('  failing input:', json.dumps(self.failures[0], default=str)[:600])
            else:
                print(f'VIOLATION property={self.prop} replay={rp} no-failing-input-found')
            for k, n, d in self.broken[:6]:
                print(f'  no longer checks [{k}] {n}: {str(d)[:400]}')
            return 1
        print(f'OK property={self.prop} tier={self.tier} seed={self.seed} obligations={self.cov["discharged"]}/'
              f'{self.cov["obligations"]} evaluations={self.cov["evaluations"]} wall={wall:.1f}s')
        return 0


def _matches(k, what, replay):
    """a known finding matches a failure when its class predicate (a small python expression over the replay
    dict, mirroring the complement of the `_partial` theorem's hypothesis) holds"""
    cls = k.get('class_expr')
    if not cls:
        return False
    try:
        return bool(eval(cls, {'__builtins__': {'len': len, 'abs': abs, 'any': any, 'all': all, 'min': min,
                                                'max': max, 'str': str, 'int': int, 'isinstance': isinstance,
                                                'dict': dict, 'list': list, 'set': set, 'sorted': sorted}},
                         {'r': replay, 'what': what}))
    except Exception:
        return False


def main_wrapper(prop, fn, level='proof'):
    """fn(res: Result, tier, rng) does S0-S2; wrapper handles verdict and tool failures (exit 2)."""
    import argparse
    ap = argparse.ArgumentParser()
    ap.add_argument('--tier', default=os.environ.get('VERIF_TIER', 'quick'))
    ap.add_argument('--replay', default=None)
    a = ap.parse_args()
    seed = seed_from_env()
    res = Result(prop, a.tier, seed, level)
    try:
        fn(res, a.tier, Rng(seed), a.replay)
    except (ToolFailure, subprocess.TimeoutExpired) as e:
        print(f'TOOL-FAILURE property={prop}: {e}')
        sys.exit(2)
    except Exception:
        traceback.print_exc()
        print(f'TOOL-FAILURE property={prop}: harness exception')
        sys.exit(2)
    sys.exit(res.finish())
