"""
T1 validation: execute every generated Lean definition (through Drv/Leaf.lean) and the *real* Python
method on the same seeded states/inputs and compare.  The real method is called unbound on a stand-in
`self` whose wires are real py4hw Wires, so `.get()/.put()/.prepare()/.getWidth()` are the repo's own.
"""
import os, sys, json, importlib, contextlib, io
from common import *


class _Self:
    def __init__(self):
        self.parameters = {}

    def getParameterValue(self, n):
        return self.parameters[n]


def _mod(file):
    return importlib.import_module(file[:-3].replace('/', '.'))


def gen_case(meta, rng, small=False):
    """returns dict(cfg={}, st={}, ins={}, inls={}, widths={}) of python values for class `meta`"""
    cls = meta['cls']
    wmax = 3 if small else rng.choice([1, 2, 4, 8, 9, 16, 31, 32, 33, 64, 65])
    W = lambda: rng.randint(1, wmax)
    widths = {}
    for n in set(meta['ins']) | set(meta['outs']):
        widths[n] = W()
    cfg, st, ins, inls = {}, {}, {}, {}
    # class specific shapes (legal constructor parameters)
    if cls in ('SynchronousMemory', 'AsynchronousMemory'):
        aw = rng.randint(1, 4)
        widths['read_address'] = widths['write_address'] = aw
        dw = widths['readdata'] = widths['writedata'] = W()
        st['data'] = [rng.bits(dw) for _ in range(1 << aw)]
    if cls == 'Sequence':
        n = rng.randint(1, 6)
        cfg['l_values'] = [rng.randint(-5, 1 << (widths['r'] + 1)) for _ in range(n)]
        cfg['a_n'] = n
        cfg['a_once'] = rng.randint(0, 1)
        st['i'] = rng.randint(0, n - 1)
    if cls == 'MsgSequencer':
        n = rng.randint(1, 6)
        cfg['l_msg'] = [rng.randint(32, 126) for _ in range(n)]
        st['count'] = rng.randint(0, n - 1)
        st['state'] = rng.randint(0, 2)
    for k, t in meta['cfg']:
        if k in cfg:
            continue
        if k.startswith('w_'):
            widths.setdefault(k[2:], W())
            cfg[k] = widths[k[2:]]
        elif k.startswith('has_'):
            cfg[k] = rng.randint(0, 1)
        elif k.startswith('p_') or k.startswith('a_'):
            cfg[k] = rng.randint(0, wmax + 2)
        elif t == 'ilist':
            cfg[k] = [rng.randint(0, 255) for _ in range(rng.randint(1, 5))]
    if cls == 'Bit':
        cfg['a_bit'] = rng.randint(0, widths['a'] - 1)
    if cls == 'Range':
        cfg['a_low'] = rng.randint(0, widths['a'] - 1)
        cfg['a_high'] = rng.randint(cfg['a_low'], widths['a'] - 1)
    if cls in ('RotateLeftConstant', 'RotateRightConstant'):
        cfg['a_n'] = rng.randint(0, widths['a'])
    if cls == 'Constant':
        cfg['a_value'] = rng.randint(-(1 << widths['r']), 1 << (widths['r'] + 1))
    if cls == 'SignExtend' and cfg['w_r'] < cfg['w_a']:
        cfg['w_r'], widths['r'] = cfg['w_a'] + rng.randint(0, 3), 0
        widths['r'] = cfg['w_r']
    if cls == 'Reg':
        cfg['a_reset_value'] = rng.randint(0, (1 << widths['q']) - 1)
    for k, t in meta['st']:
        if k in st:
            continue
        if t == 'ilist':
            st[k] = [rng.randint(0, 255) for _ in range(rng.randint(1, 5))]
        elif k in ('state', 'state_v', 'cur_type'):
            st[k] = rng.randint(0, 11)
        elif k in ('new_c',):
            st[k] = rng.choice([ord(c) for c in 'I=OK!?;0123456789ABCDEFxg@ '])
        elif k == 'count':
            st[k] = rng.randint(0, 9)
        else:
            st[k] = rng.bits(rng.randint(1, 40))
    for n in meta['ins']:
        w = widths[n]
        ins[n] = rng.bits(w)
        if n in ('c',) and cls == 'CMDRequest':
            ins[n] = rng.choice([ord(c) for c in 'I=OK!?;0123456789ABCDEFxg@ ']) & ((1 << w) - 1)
    for n in meta['inls']:
        k = rng.randint(1, 5)
        inls[n] = [(W(), 0) for _ in range(k)]
        inls[n] = [(w, rng.bits(w)) for (w, _) in inls[n]]
    for n in meta['outls']:
        pass
    return dict(cfg=cfg, st=st, ins=ins, inls=inls, widths=widths)


def run_python(meta, case, sys_obj, uid):
    """calls the real method. returns (st', outs, outls) or ('error', kind)"""
    import py4hw
    mod = _mod(meta['file'])
    K = getattr(mod, meta['cls'])
    me = _Self()
    wires = {}

    def wire(n, w):
        nm = f'{uid}_{n}'
        wires[n] = py4hw.Wire(sys_obj, nm, w)
        return wires[n]
    for n in set(meta['ins']) | set(meta['outs']):
        wr = wire(n, case['widths'][n])
        if n in case['ins']:
            wr.value = case['ins'][n]
        setattr(me, n, wr)
    for k, t in meta['cfg']:
        v = case['cfg'][k]
        if k.startswith('w_'):
            n = k[2:]
            if n not in wires:
                setattr(me, n, wire(n, v))
        elif k.startswith('has_'):
            n = k[4:]
            if not v:
                setattr(me, n, None)
        elif k.startswith('p_'):
            me.parameters[k[2:]] = v
        elif k.startswith('a_'):
            setattr(me, k[2:], bool(v) if k == 'a_once' else v)
        elif k.startswith('l_'):
            setattr(me, k[2:], ''.join(chr(c) for c in v) if meta['cls'] == 'MsgSequencer' else list(v))
    for k, t in meta['st']:
        setattr(me, k, list(case['st'][k]) if t == 'ilist' else case['st'][k])
    for n in meta['inls']:
        lst = []
        for j, (w, v) in enumerate(case['inls'][n]):
            wr = wire(f'{n}{j}', w)
            wr.value = v
            lst.append(wr)
        setattr(me, n, lst)
    outl_w = {}
    for n in meta['outls']:
        # list of 1-bit output wires, as many as the width of the (single) input `a`
        cnt = case['widths'].get('a', 1)
        lst = [wire(f'{n}{j}', 1) for j in range(cnt)]
        for wr in lst:
            wr.value = None
        setattr(me, n, lst)
        outl_w[n] = lst
    for n in meta['outs']:
        wires[n].value = None if n not in case['ins'] else wires[n].value
        if hasattr(wires[n], 'next'):
            del wires[n].next
    py4hw.Wire.prepared = []
    try:
        import contextlib, io
        with contextlib.redirect_stdout(io.StringIO()):
            getattr(K, meta['method'])(me)
    except Exception as e:
        py4hw.Wire.prepared = []
        return ('error', type(e).__name__)
    prepared = list(py4hw.Wire.prepared)
    py4hw.Wire.prepared = []
    st2 = {k: (list(getattr(me, k)) if t == 'ilist' else getattr(me, k)) for k, t in meta['st']}
    outs = {}
    for n in meta['outs']:
        wr = wires[n]
        if wr in prepared:
            outs[n] = wr.next
        elif n in case['ins']:
            outs[n] = wr.value if wr.value != case['ins'][n] else '?'   # put on a wire that is also read
        else:
            outs[n] = wr.value  # None when never put
    outls = {n: [wr.value for wr in lst] for n, lst in outl_w.items()}
    return (st2, outs, outls)


def enc_case(meta, case):
    cfg = ';'.join((','.join(str(int(x)) for x in case['cfg'][k]) if t == 'ilist' else str(int(case['cfg'][k])))
                   for k, t in meta['cfg'])
    st = ';'.join((','.join(str(x) for x in case['st'][k]) if t == 'ilist' else str(case['st'][k]))
                  for k, t in meta['st'])
    ins = ','.join(str(case['ins'][n]) for n in meta['ins'])
    inl = ';'.join(','.join(f'{w}:{v}' for w, v in case['inls'][n]) for n in meta['inls'])
    return f"leaf {meta['lean']} | {cfg} | {st} | {ins} | {inl}"


def validate_generated(res, rng, n_per_class, classes=None, stream='T1'):
    """returns number of compared cases. disagreements are recorded on `res`."""
    import py4hw
    metas = json.load(open(os.path.join(LEAN, 'Py4hwV', 'Gen', 'meta.json')))
    sysobj = py4hw.HWSystem()
    reqs, infos = [], []
    uid = 0
    for meta in metas['classes']:
        if classes and meta['cls'] not in classes:
            continue
        r = rng.fork('t1' + meta['cls'])
        for j in range(n_per_class):
            case = gen_case(meta, r, small=(j % 3 == 0))
            uid += 1
            py = run_python(meta, case, sysobj, f'u{uid}')
            if py[0] == 'error':
                res.hist(stream + '_python_errors', f"{meta['cls']}:{py[1]}")
                continue
            if meta['nondet'] and case['ins'].get('b') == 0:
                res.hist(stream + '_skipped_nondet', meta['cls'])
                continue
            reqs.append(enc_case(meta, case))
            infos.append((meta, case, py))
    outs = run_driver('Drv/Leaf.lean', reqs)
    n = 0
    for (meta, case, py), ans, rq in zip(infos, outs, reqs):
        n += 1
        res.count(('t1', rq), hist={stream + '_class': meta['cls']})
        parts = [p.strip() for p in ans.split('|')]
        if len(parts) != 3:
            res.disagree(stream, dict(cls=meta['cls'], request=rq, lean=ans, python=str(py)))
            continue
        st2, outs_py, outls_py = py
        # state
        lst = parts[0].split(';') if meta['st'] else []
        ok = True
        for (k, t), s in zip(meta['st'], lst):
            v = [int(x) for x in s.split(',') if x.strip() != ''] if t == 'ilist' else int(s)
            if v != st2[k]:
                ok = False
        # outputs: compare after the real wire mask (the wire applied it on the python side)
        lo = parts[1].split(',') if meta['outs'] else []
        for nme, s in zip(meta['outs'], lo):
            pv = outs_py[nme]
            if pv == '?':
                continue
            w = case['widths'][nme]
            if s.strip() == '_':
                if pv is not None and not (nme in case['ins'] and pv == case['ins'][nme]):
                    ok = False
            else:
                if pv is None or (int(s) & ((1 << w) - 1)) != pv:
                    ok = False
        ll = parts[2].split(';') if meta['outls'] else []
        for nme, s in zip(meta['outls'], ll):
            pv = outls_py[nme]
            lv = None if s.strip() == '_' else [int(x) & 1 for x in s.split(',') if x.strip() != '']
            if lv != pv:
                ok = False
        if not ok:
            res.disagree(stream, dict(cls=meta['cls'], request=rq, lean=ans, python=str(py)))
        elif n % 97 == 0:
            res.sample(dict(stream=stream, request=rq, answer=ans))
    # functions
    fr = rng.fork('t1fn')
    from py4hw.helper import IntegerHelper, signExtend
    import py4hw.base as base
    reqs, exp = [], []
    for j in range(n_per_class * 4):
        w = fr.randint(1, 70)
        v = fr.randint(-(1 << (w + 1)), 1 << (w + 1))
        nw = w + fr.randint(0, 10)
        reqs += [f'fn signed_to_c2 | {v},{w}', f'fn c2_to_signed | {v},{w}', f'fn signExtend | {v},{w},{nw}',
                 f'fn Wire.put | {w},{v}', f'fn Wire.prepare | {w},0,{v}', f'fn Wire.prepare | {w},1,{v}', f'put | {w},{v}',
                 f'fn BidirWire.put | {w},{v}', f'fn BidirWire.prepare | {w},{v}']
        wr = base.Wire(sysobj, f'fw{j}', w)
        wr.put(v)
        pv = wr.value
        wr.prepare(v)
        first = wr.next
        with contextlib.redirect_stdout(io.StringIO()):
            wr.prepare(v + 1)            # second prepare in the same cycle: the "already prepared" branch
        second_ok = (wr.next == ((v + 1) & ((1 << w) - 1)))
        wr.prepare(v) if False else None
        base.Wire.prepared = []
        bw = base.BidirWire(sysobj, f'bw{j}', w)
        bw.put(v)
        bv = bw.value
        bw.prepare(v)
        base.Wire.prepared = []
        exp += [IntegerHelper.signed_to_c2(v, w), IntegerHelper.c2_to_signed(v, w), signExtend(v, w, nw), pv, first,
                (first if second_ok else 'second prepare in a cycle stores ' + str(wr.next) + ' for ' + str(v + 1)),
                pv, bv, bw.next]
    outs = run_driver('Drv/Leaf.lean', reqs)
    for rq, a, e in zip(reqs, outs, exp):
        n += 1
        res.count(('t1', rq), hist={stream + '_class': rq.split('|')[0].strip()})
        if a.strip() != str(e):
            res.disagree(stream, dict(request=rq, lean=a, python=e))
    return n
