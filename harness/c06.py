"""C06 — Wire values always fit their declared width.  See DESIGN.md §5 C06 and lean/Py4hwV/Props/C06.lean."""
import ast, os
from common import *
import t1, gen_designs as G, dump_ir as D

OBLIGATIONS = ['C06.gen_wire_put_eq', 'C06.gen_wire_prepare_eq', 'C06.gen_bidir_put_eq', 'C06.gen_bidir_prepare_eq',
               'C06.gen_wire_put_lt', 'C06.gen_wire_prepare_lt', 'C06.inv_putW', 'C06.inv_prepW', 'C06.inv_propLeaf',
               'C06.inv_propagateAll', 'C06.inv_clockLeaf', 'C06.inv_clockDrivers', 'C06.inv_settleAll',
               'C06.inv_atListeners', 'C06.inv_clkCycle', 'C06.inv_clk', 'C06.inv_power_up', 'C06.inv_power_upC', 'C06.wire_values_fitC', 'C06.inv_applyOp',
               'C06.wire_values_fit', 'C06.wire_values_fit_at_listeners', 'Bits.land_mask', 'Bits.put_lt']


def static_scan(res):
    """the model assumes wires are written only through put/prepare/settle: no assignment to `.value`/`.next`
    of a wire outside base.py, in the library"""
    n = 0
    for root, _, files in os.walk(os.path.join(REPO, 'py4hw', 'logic')):
        for f in files:
            if not f.endswith('.py'):
                continue
            p = os.path.join(root, f)
            try:
                tree = ast.parse(open(p).read())
            except SyntaxError:
                continue
            for nd in ast.walk(tree):
                if isinstance(nd, (ast.Assign, ast.AugAssign)):
                    tgts = nd.targets if isinstance(nd, ast.Assign) else [nd.target]
                    for t in tgts:
                        n += 1
                        if isinstance(t, ast.Attribute) and t.attr in ('value', 'next') and \
                                isinstance(t.value, ast.Attribute) and isinstance(t.value.value, ast.Name) and \
                                t.value.value.id == 'self':
                            res.disagree('static-scan', dict(file=os.path.relpath(p, REPO), line=nd.lineno,
                                                             what='direct assignment to a wire attribute bypasses put/prepare'))
    res.hist('static_scan', 'assignments_scanned', n)


def range_oracle(res, label, plan_summary):
    def chk(d, sim):
        for w in d.wires:
            v = w.value
            if not (isinstance(v, int) and 0 <= v < (1 << w.getWidth())):
                res.fail(f'wire {w.getFullPath()} width {w.getWidth()} holds {v}',
                         dict(design=label, plan=plan_summary, wire=w.getFullPath(), width=w.getWidth(), value=v))
    return chk


class Listener:
    def __init__(self, d, chk, sim):
        self.d, self.chk, self.sim, self.calls = d, chk, sim, 0

    def simulatorUpdated(self):
        self.calls += 1
        self.chk(self.d, self.sim)


def user_blocks(res, rng, n):
    """user-defined behavioural leaves (the property is about whatever the driving blocks compute): leaves that put/prepare
    negative, oversized and repeated (twice in one cycle) values; oracle = range check on every wire, also in a listener"""
    import py4hw

    class Wild(py4hw.Logic):
        def __init__(self, parent, name, a, q, p, mode, k, bus=None):
            super().__init__(parent, name)
            self.a = self.addIn('a', a)
            self.q = self.addOut('q', q)
            self.p = self.addOut('p', p)
            # a shared bidirectional bus driven from clock() (registered pad driver): BidirWire has its own put/prepare/settle
            self.bus = None if bus is None else self.addInOut('bus', bus)
            self.mode, self.k, self.count = mode, k, 0

        def clock(self):
            self.count += 1
            v = self.count * self.k - 3 * self.a.get()
            if self.bus is not None:
                self.bus.prepare(-v if self.count % 3 == 0 else v + (1 << (self.bus.getWidth() + 1)))
            if self.mode == 0:
                self.q.prepare(v)
            elif self.mode == 1:
                self.q.prepare(0)
                if self.a.get() & 1:
                    self.q.prepare(v)          # second prepare in the same cycle
            else:
                self.q.prepare(v)
                self.q.prepare(-v - (1 << (self.q.getWidth() + 2)))

        def propagate(self):
            self.p.put(-(self.a.get() << 3) - self.count)

    import contextlib, io
    for i in range(n):
        r = rng.fork(i)
        hw = py4hw.HWSystem()
        a = hw.wire('a', r.randint(1, 9))
        ws = []
        rb = r.fork('bus')
        bus = hw.bidir_wire('bus', rb.randint(1, 9)) if rb.chance(1, 2) else None
        for j in range(r.randint(1, 3)):
            q = hw.wire(f'q{j}', r.randint(1, 9))
            pw = hw.wire(f'p{j}', r.randint(1, 9))
            Wild(hw, f'w{j}', a if j == 0 else ws[-1], q, pw, r.randint(0, 2), r.choice([1, 7, 100, -5, 1 << 12]),
                 bus=bus if j == 0 else None)
            ws.append(q)
        if bus is not None and rb.chance(1, 2):
            # a listening BidirBuf copies the bus into an ordinary wire (combinational put path of the bidir wire)
            bw = bus.getWidth()
            pin, pout, poe = hw.wire('pin', bw), hw.wire('pout', bw), hw.wire('poe', 1)
            py4hw.Constant(hw, 'pout', 0, pout)
            py4hw.Constant(hw, 'poe', 0, poe)
            py4hw.BidirBuf(hw, 'pad', pin, pout, poe, bus)
        sim = hw.getSimulator()
        wires = D.all_wires(hw)
        desc = dict(design='user-defined Wild leaves', n=len(ws), widths=[w.getWidth() for w in wires])

        def chk(_d=None, _s=None):
            for w in wires:
                v = w.value
                if not (isinstance(v, int) and 0 <= v < (1 << w.getWidth())):
                    res.fail(f'wire {w.getFullPath()} width {w.getWidth()} holds {v}',
                             dict(desc, wire=w.getFullPath(), width=w.getWidth(), value=v, clks=sim.total_clks))
        lst = Listener(None, chk, sim)
        sim.addListener(lst)
        with contextlib.redirect_stdout(io.StringIO()):
            for t in range(r.randint(5, 40)):
                a.put(r.randint(-3, 1 << 10))
                sim.clk(r.choice([1, 1, 2]))
                chk()
        res.count(('user', i), hist={'user_designs': 'wild'})


def constant_reassign_stream(res, rng, n):
    """the repo's own tests drive circuits by reassigning `Constant.value` between clock calls; the new value may be negative or
    oversized: whatever it is, every wire must stay in range after the next clk() (and inside listeners); adders with a MULTI-BIT
    carry-in and a result wider than both operands sit downstream"""
    import py4hw, contextlib, io
    for i in range(n):
        r = rng.fork(i)
        hw = py4hw.HWSystem()
        wa, wb, wc = r.randint(1, 9), r.randint(1, 9), r.randint(1, 4)
        a, b, ci = hw.wire('a', wa), hw.wire('b', wb), hw.wire('ci', wc)
        wr = max(wa, wb) + r.choice([0, 1, 1, 2])
        s_, q = hw.wire('s', wr), hw.wire('q', wr)
        ca = py4hw.Constant(hw, 'ca', r.randint(0, (1 << wa) - 1), a)
        cb = py4hw.Constant(hw, 'cb', r.randint(0, (1 << wb) - 1), b)
        cc = py4hw.Constant(hw, 'cc', r.randint(0, (1 << wc) - 1), ci)
        from py4hw.logic.arithmetic import AddCarryIn
        AddCarryIn(hw, 'add', a, b, s_, ci)
        py4hw.Reg(hw, 'r', s_, q)
        with contextlib.redirect_stdout(io.StringIO()):
            sim = hw.getSimulator()
        wires = D.all_wires(hw)
        cur = {}
        desc = dict(design='Constant a, b, ci (multi-bit) -> AddCarryIn -> Reg; Constant.value reassigned between clock calls',
                    widths=dict(a=wa, b=wb, ci=wc, s=wr))

        def chk(_d=None, _s=None):
            for w in wires:
                v = w.value
                if not (isinstance(v, int) and 0 <= v < (1 << w.getWidth())):
                    res.fail(f'wire {w.getFullPath()} width {w.getWidth()} holds {v}',
                             dict(desc, wire=w.getFullPath(), width=w.getWidth(), value=v, constants=dict(cur), clks=sim.total_clks))
                    return
        chk()
        sim.addListener(Listener(None, chk, sim))
        for t in range(r.randint(3, 10)):
            for c_, w_ in ((ca, wa), (cb, wb), (cc, wc)):
                m = (1 << w_) - 1
                c_.value = r.choice([m, m, m - 1 if m else 0, -1, -m - 1, m + 1, m + 7, 1 << (w_ + 3), r.randint(0, m), 0])
                cur[c_.name] = c_.value
            with contextlib.redirect_stdout(io.StringIO()):
                sim.clk(r.choice([1, 1, 2]))
            chk()
        res.count(('const-reassign', i, wa, wb, wc, wr), hist={'const_reassign_designs': 1})


def memory_width_stream(res, rng, n):
    """memories whose write-data wire is wider than their read-data wire (and the other way round): a stored word is in range for the
    write port only; whatever was written -- in the same cycle or earlier -- the read-data wire must stay in range"""
    import py4hw, contextlib, io
    from py4hw.logic.storage import AsynchronousMemory, SynchronousMemory
    for i in range(n):
        r = rng.fork(i)
        hw = py4hw.HWSystem()
        aw = r.randint(1, 3)
        wdw, rdw = r.randint(1, 12), r.randint(1, 12)
        ra, wa, we = hw.wire('ra', aw), hw.wire('wa', aw), hw.wire('we')
        wd, rd, q = hw.wire('wd', wdw), hw.wire('rd', rdw), hw.wire('q', rdw)
        kind = r.choice(['AsynchronousMemory', 'AsynchronousMemory', 'SynchronousMemory'])
        with contextlib.redirect_stdout(io.StringIO()):
            (AsynchronousMemory if kind == 'AsynchronousMemory' else SynchronousMemory)(hw, 'm', ra, wa, we, rd, wd)
            py4hw.Reg(hw, 'r', rd, q)
            sim = hw.getSimulator()
        wires = D.all_wires(hw)
        hist = []
        desc = dict(design=f'{kind}(writedata {wdw} bits, readdata {rdw} bits) -> Reg', aw=aw, history=hist)

        def chk(_d=None, _s=None):
            for w in wires:
                v = w.value
                if not (isinstance(v, int) and 0 <= v < (1 << w.getWidth())):
                    res.fail(f'wire {w.getFullPath()} width {w.getWidth()} holds {v}',
                             dict(desc, wire=w.getFullPath(), width=w.getWidth(), value=v, clks=sim.total_clks))
                    return
        sim.addListener(Listener(None, chk, sim))
        few = [r.randint(0, (1 << aw) - 1) for _ in range(2)]
        for t in range(r.randint(3, 12)):
            st = dict(ra=r.choice(few), wa=r.choice(few), we=r.randint(0, 1), wd=r.choice([(1 << wdw) - 1, r.bits(wdw), 1 << (wdw - 1)]))
            ra.put(st['ra']); wa.put(st['wa']); we.put(st['we']); wd.put(st['wd'])
            hist.append(st)
            with contextlib.redirect_stdout(io.StringIO()):
                sim.clk(1)
            chk()
        res.count(('memwidth', i, kind, wdw, rdw), hist={'memory_width_designs': kind})


_C07_FAM = None


def single_block_stream(res, rng, n):
    """every library arithmetic / logic / selection / comparison block on its own at sampled legal MIXED port widths (the generators of
    the C07 / C08 checks: results narrower and wider than the natural width included), driven with boundary patterns; oracle = range
    check on every wire of the block (internal ones included) after creation, after every clk and inside a listener"""
    import py4hw, contextlib, io
    import c07, c08
    for i in range(n):
        r = rng.fork(i)
        class _Case:
            pass
        case = _Case()
        try:
            if i % 3 == 0:
                global _C07_FAM
                if _C07_FAM is None:
                    _C07_FAM = [(b, p) for b, p, _ in c07.param_families('quick', Rng(12345))]
                blk, prm = r.choice(_C07_FAM)
                case.inw, case.outw, ctor7 = c07.block_def(blk, prm)
                case.real, case.desc = blk, dict(block=blk, params=list(prm), input_widths=case.inw, output_widths=case.outw)
                case.build = lambda hw_, i_, o_: ctor7(hw_, i_, o_)
            elif i % 3 == 1:
                c8 = c08.random_case(r, r.choice([4, 8, 16]))
                case.inw, case.outw, case.real, case.desc = c8.inw, c8.outw, c8.real, c8.summary()
                case.build = lambda hw_, i_, o_, _c=c8: _c.ctor(py4hw, hw_, i_, o_)
            else:
                # bit-field primitives with a result wire of ANY width (narrower than the field included)
                aw = r.randint(1, 24)
                lo = r.randint(0, aw - 1)
                hi = r.randint(lo, aw - 1)
                rw = r.randint(1, 24)
                kind = r.choice(['Range', 'Range', 'Bit', 'ZeroExtend', 'SignExtend', 'Buf', 'Not', 'ShiftLeftConstant', 'ShiftRightConstant', 'Mul', 'Mul', 'Mux2w'])
                if kind == 'Mul':
                    # results just below / at / above the full product width
                    aw, bw = r.randint(2, 8), r.randint(2, 8)
                    rw = aw + bw + r.choice([-2, -1, -1, 0, 1])
                    case.inw, case.outw, case.real = [aw, bw], [rw], 'Mul'
                    case.desc = dict(block='Mul', aw=aw, bw=bw, rw=rw)
                    case.build = lambda hw_, i_, o_: py4hw.Mul(hw_, 'dut', i_[0], i_[1], o_[0])
                elif kind == 'Mux2w':
                    # data inputs of different widths, one of them wider than the result
                    sw, w0, w1 = r.randint(1, 2), r.randint(1, 12), r.randint(1, 12)
                    rw = r.randint(1, 12)
                    case.inw, case.outw, case.real = [sw, w0, w1], [rw], 'Mux2'
                    case.desc = dict(block='Mux2', sel=sw, sel0=w0, sel1=w1, rw=rw)
                    case.build = lambda hw_, i_, o_: py4hw.Mux2(hw_, 'dut', i_[0], i_[1], i_[2], o_[0])
                if kind not in ('Mul', 'Mux2w'):
                    case.inw, case.outw, case.real = [aw], [rw], kind
                    case.desc = dict(block=kind, aw=aw, rw=rw, high=hi, low=lo)
                def build(hw_, i_, o_, _k=kind, _hi=hi, _lo=lo):
                    if _k == 'Range':
                        py4hw.Range(hw_, 'dut', i_[0], _hi, _lo, o_[0])
                    elif _k == 'Bit':
                        py4hw.Bit(hw_, 'dut', i_[0], _lo, o_[0])
                    elif _k in ('ShiftLeftConstant', 'ShiftRightConstant'):
                        getattr(py4hw, _k)(hw_, 'dut', i_[0], _lo, o_[0])
                    else:
                        getattr(py4hw, _k)(hw_, 'dut', i_[0], o_[0])
                if kind not in ('Mul', 'Mux2w'):
                    case.build = build
        except Exception as e:
            res.hist('build_errors', 'case:' + str(e)[:40])
            continue
        hw = py4hw.HWSystem()
        ins = [hw.wire(f'i{k}', w) for k, w in enumerate(case.inw)]
        outs = [hw.wire(f'o{k}', w) for k, w in enumerate(case.outw)]
        try:
            with contextlib.redirect_stdout(io.StringIO()):
                case.build(hw, ins, outs)
                sim = hw.getSimulator()
        except Exception as e:
            res.hist('build_errors', f'{case.real}:{str(e)[:40]}')
            continue
        wires = D.all_wires(hw)
        desc = dict(design='single library block', block=case.real, summary=case.desc)
        cur = {}

        def chk(_d=None, _s=None):
            for w in wires:
                v = w.value
                if not (isinstance(v, int) and 0 <= v < (1 << w.getWidth())):
                    res.fail(f'wire {w.getFullPath()} width {w.getWidth()} holds {v}',
                             dict(desc, wire=w.getFullPath(), width=w.getWidth(), value=v, inputs=dict(cur), clks=sim.total_clks))
                    return
        chk()
        sim.addListener(Listener(None, chk, sim))
        try:
            with contextlib.redirect_stdout(io.StringIO()):
                for t in range(10):
                    for k, w in enumerate(ins):
                        m = (1 << w.getWidth()) - 1
                        v = r.choice([m, m, 0, 1, m >> 1, (m >> 1) + 1, r.randint(0, m), 0x5555555555555555 & m, 0xAAAAAAAAAAAAAAAA & m, -1, m + 7])
                        cur[f'i{k}'] = v
                        w.put(v)
                    sim.clk(1)
                    chk()
        except Exception as e:
            n0 = len(res.failures) + len(res.known_hits)
            chk()
            if len(res.failures) + len(res.known_hits) == n0:
                res.hist('simulation_errors', f'{case.real}:{type(e).__name__}:{str(e)[:30]}')
        res.count(('single', i, case.real, str(case.desc)), hist={'single_blocks': case.real})


def main(res, tier, rng, replay):
    ok, metas, errors, changed = regenerate()
    for e in errors:
        res.broken.append(('translator', 'py2lean', e))
    res.proof_stage('Py4hwV.Props.C06', OBLIGATIONS)
    static_scan(res)
    n_t1 = 40 if tier == 'quick' else 400
    if ok:
        try:
            t1.validate_generated(res, rng.fork('t1'), n_t1)
        except ToolFailure as e:
            res.broken.append(('correspondence', 'T1', f'generated definitions do not run: {e}'))
    # random designs with extreme stimuli: oracle = range check on the IMPLEMENTATION after creation, after every
    # op and inside listeners; plus model comparison
    n_designs = 150 if tier == 'quick' else 3000
    nb = D.NetBatch(res, 'net-sim')
    built = 0
    for i in range(n_designs):
        r = rng.fork(('d', i))
        plan = G.random_plan(r, r.randint(1, 30 if tier == 'quick' else 60), wmax=r.choice([3, 8, 17, 33, 64]), extreme=True)
        try:
            sysobj, ins, W, leaves = G.build(plan, inst_order=r.shuffle(range(len(plan['nodes']))))
            sim = sysobj.getSimulator()
        except Exception as e:
            res.hist('build_errors', str(e)[:50])
            continue
        built += 1
        ps = G.plan_summary(plan)
        chk = range_oracle(res, i, ps)
        ops = G.random_ops(r, ins, r.randint(3, 20), extreme=True)
        try:
            d0 = D.Dump(sysobj, sim)
            chk(d0, sim)
            sim.addListener(Listener(d0, chk, sim))
            nb.add(sysobj, ops, label=i, extra_check=chk)
        except D.NotDumpable:
            continue
        except ToolFailure:
            raise
        except Exception as e:
            # the simulator itself crashed (e.g. an out-of-range value used as a memory address): look at the wires
            n0 = len(res.failures) + len(res.known_hits)
            chk(d0, sim)
            if len(res.failures) + len(res.known_hits) == n0:
                res.hist('simulation_errors', f'{type(e).__name__}:{str(e)[:40]}')
            continue
        res.count(('design', i, str(ps)), hist={'design_nodes': len(plan['nodes']) // 10 * 10})
        for nd in plan['nodes']:
            res.hist('leaf_kinds', nd['kind'])
        if i < 3:
            res.sample(dict(design=ps, ops=[(o[0], o[1].name if o[0] == 'poke' else o[1], o[2] if o[0] == 'poke' else None) for o in ops]))
        if len(nb.jobs) >= 200:
            try:
                nb.run()
            except ToolFailure as e:
                res.broken.append(('correspondence', 'net-sim', str(e)[:300]))
                nb = D.NetBatch(res, 'net-sim')
    try:
        nb.run()
    except ToolFailure as e:
        res.broken.append(('correspondence', 'net-sim', str(e)[:300]))
    user_blocks(res, rng.fork('user'), 40 if tier == 'quick' else 600)
    single_block_stream(res, rng.fork('single'), 300 if tier == 'quick' else 6000)
    constant_reassign_stream(res, rng.fork('const-reassign'), 80 if tier == 'quick' else 1500)
    memory_width_stream(res, rng.fork('memwidth'), 60 if tier == 'quick' else 1200)
    res.cov['rule'] = ('T1: every generated leaf/FSM/Wire definition vs the real method on seeded states (distinct = distinct request '
                       'line); designs: seeded random netlists of primitive leaves with registers/feedback/memories, built in random '
                       'instantiation order, driven by extreme pokes (negative, oversized) and clk(n); every wire range-checked on the '
                       'implementation after construction, after every op and inside a simulator listener; all values compared with the Lean model')
    res.cov['designs_built'] = built
    res.assumptions += ['leaf methods touch wires only through get/put/prepare (static scan of py4hw/logic for direct .value/.next assignments)',
                        'BidirWire / InOut resolution not modelled beyond the generated put/prepare mask lemmas']


if __name__ == '__main__':
    main_wrapper('C06', main)
