"""C06 — Wire values always fit their declared width.  See DESIGN.md §5 C06 and lean/Py4hwV/Props/C06.lean."""
import ast, os
from common import *
import t1, gen_designs as G, dump_ir as D

OBLIGATIONS = ['C06.gen_wire_put_eq', 'C06.gen_wire_prepare_eq', 'C06.gen_bidir_put_eq', 'C06.gen_bidir_prepare_eq',
               'C06.gen_wire_put_lt', 'C06.gen_wire_prepare_lt', 'C06.inv_putW', 'C06.inv_prepW', 'C06.inv_propLeaf',
               'C06.inv_propagateAll', 'C06.inv_clockLeaf', 'C06.inv_clockDrivers', 'C06.inv_settleAll',
               'C06.inv_atListeners', 'C06.inv_clkCycle', 'C06.inv_clk', 'C06.inv_power_up', 'C06.inv_power_upC', 'C06.wire_values_fitC', 'C06.inv_applyOp',
               'C06.wire_values_fit', 'C06.wire_values_fit_at_listeners', 'Bits.land_mask', 'Bits.put_lt']


def static_scan(res):
    """the model assumes wires are written only through put/prepare/settle: no assignment to `.value`/`.next`
    of a wire outside base.py, in the library"""
    n = 0
    for root, _, files in os.walk(os.path.join(REPO, 'py4hw', 'logic')):
        for f in files:
            if not f.endswith('.py'):
                continue
            p = os.path.join(root, f)
            try:
                tree = ast.parse(open(p).read())
            except SyntaxError:
                continue
            for nd in ast.walk(tree):
                if isinstance(nd, (ast.Assign, ast.AugAssign)):
                    tgts = nd.targets if isinstance(nd, ast.Assign) else [nd.target]
                    for t in tgts:
                        n += 1
                        if isinstance(t, ast.Attribute) and t.attr in ('value', 'next') and \
                                isinstance(t.value, ast.Attribute) and isinstance(t.value.value, ast.Name) and \
                                t.value.value.id == 'self':
                            res.disagree('static-scan', dict(file=os.path.relpath(p, REPO), line=nd.lineno,
                                                             what='direct assignment to a wire attribute bypasses put/prepare'))
    res.hist('static_scan', 'assignments_scanned', n)


def range_oracle(res, label, plan_summary):
    def chk(d, sim):
        for w in d.wires:
            v = w.value
            if not (isinstance(v, int) and 0 <= v < (1 << w.getWidth())):
                res.fail(f'wire {w.getFullPath()} width {w.getWidth()} holds {v}',
                         dict(design=label, plan=plan_summary, wire=w.getFullPath(), width=w.getWidth(), value=v))
    return chk


class Listener:
    def __init__(self, d, chk, sim):
        self.d, self.chk, self.sim, self.calls = d, chk, sim, 0

    def simulatorUpdated(self):
        self.calls += 1
        self.chk(self.d, self.sim)


def user_blocks(res, rng, n):
    """user-defined behavioural leaves (the property is about whatever the driving blocks compute): leaves that put/prepare
    negative, oversized and repeated (twice in one cycle) values; oracle = range check on every wire, also in a listener"""
    import py4hw

    class Wild(py4hw.Logic):
        def __init__(self, parent, name, a, q, p, mode, k, bus=None):
            super().__init__(parent, name)
            self.a = self.addIn('a', a)
            self.q = self.addOut('q', q)
            self.p = self.addOut('p', p)
            # a shared bidirectional bus driven from clock() (registered pad driver): BidirWire has its own put/prepare/settle
            self.bus = None if bus is None else self.addInOut('bus', bus)
            self.mode, self.k, self.count = mode, k, 0

        def clock(self):
            self.count += 1
            v = self.count * self.k - 3 * self.a.get()
            if self.bus is not None:
                self.bus.prepare(-v if self.count % 3 == 0 else v + (1 << (self.bus.getWidth() + 1)))
            if self.mode == 0:
                self.q.prepare(v)
            elif self.mode == 1:
                self.q.prepare(0)
                if self.a.get() & 1:
                    self.q.prepare(v)          # second prepare in the same cycle
            else:
                self.q.prepare(v)
                self.q.prepare(-v - (1 << (self.q.getWidth() + 2)))

        def propagate(self):
            self.p.put(-(self.a.get() << 3) - self.count)

    import contextlib, io
    for i in range(n):
        r = rng.fork(i)
        hw = py4hw.HWSystem()
        a = hw.wire('a', r.randint(1, 9))
        ws = []
        rb = r.fork('bus')
        bus = hw.bidir_wire('bus', rb.randint(1, 9)) if rb.chance(1, 2) else None
        for j in range(r.randint(1, 3)):
            q = hw.wire(f'q{j}', r.randint(1, 9))
            pw = hw.wire(f'p{j}', r.randint(1, 9))
            Wild(hw, f'w{j}', a if j == 0 else ws[-1], q, pw, r.randint(0, 2), r.choice([1, 7, 100, -5, 1 << 12]),
                 bus=bus if j == 0 else None)
            ws.append(q)
        if bus is not None and rb.chance(1, 2):
            # a listening BidirBuf copies the bus into an ordinary wire (combinational put path of the bidir wire)
            bw = bus.getWidth()
            pin, pout, poe = hw.wire('pin', bw), hw.wire('pout', bw), hw.wire('poe', 1)
            py4hw.Constant(hw, 'pout', 0, pout)
            py4hw.Constant(hw, 'poe', 0, poe)
            py4hw.BidirBuf(hw, 'pad', pin, pout, poe, bus)
        sim = hw.getSimulator()
        wires = D.all_wires(hw)
        desc = dict(design='user-defined Wild leaves', n=len(ws), widths=[w.getWidth() for w in wires])

        def chk(_d=None, _s=None):
            for w in wires:
                v = w.value
                if not (isinstance(v, int) and 0 <= v < (1 << w.getWidth())):
                    res.fail(f'wire {w.getFullPath()} width {w.getWidth()} holds {v}',
                             dict(desc, wire=w.getFullPath(), width=w.getWidth(), value=v, clks=sim.total_clks))
        lst = Listener(None, chk, sim)
        sim.addListener(lst)
        with contextlib.redirect_stdout(io.StringIO()):
            for t in range(r.randint(5, 40)):
                a.put(r.randint(-3, 1 << 10))
                sim.clk(r.choice([1, 1, 2]))
                chk()
        res.count(('user', i), hist={'user_designs': 'wild'})


def constant_reassign_stream(res, rng, n):
    """the repo's own tests drive circuits by reassigning `Constant.value` between clock calls; the new value may be negative or
    oversized: whatever it is, every wire must stay in range after the next clk() (and inside listeners); adders with a MULTI-BIT
    carry-in and a result wider than both operands sit downstream"""
    import py4hw, contextlib, io
    for i in range(n):
        r = rng.fork(i)
        hw = py4hw.HWSystem()
        wa, wb, wc = r.randint(1, 9), r.randint(1, 9), r.randint(1, 4)
        a, b, ci = hw.wire('a', wa), hw.wire('b', wb), hw.wire('ci', wc)
        wr = max(wa, wb) + r.choice([0, 1, 1, 2])
        s_, q = hw.wire('s', wr), hw.wire('q', wr)
        ca = py4hw.Constant(hw, 'ca', r.randint(0, (1 << wa) - 1), a)
        cb = py4hw.Constant(hw, 'cb', r.randint(0, (1 << wb) - 1), b)
        cc = py4hw.Constant(hw, 'cc', r.randint(0, (1 << wc) - 1), ci)
        from py4hw.logic.arithmetic import AddCarryIn
        AddCarryIn(hw, 'add', a, b, s_, ci)
        py4hw.Reg(hw, 'r', s_, q)
        with contextlib.redirect_stdout(io.StringIO()):
            sim = hw.getSimulator()
        wires = D.all_wires(hw)
        cur = {}
        desc = dict(design='Constant a, b, ci (multi-bit) -> AddCarryIn -> Reg; Constant.value reassigned between clock calls',
                    widths=dict(a=wa, b=wb, ci=wc, s=wr))

        def chk(_d=None, _s=None):
            for w in wires:
                v = w.value
                if not (isinstance(v, int) and 0 <= v < (1 << w.getWidth())):
                    res.fail(f'wire {w.getFullPath()} width {w.getWidth()} holds {v}',
                             dict(desc, wire=w.getFullPath(), width=w.getWidth(), value=v, constants=dict(cur), clks=sim.total_clks))
                    return
        chk()
        sim.addListener(Listener(None, chk, sim))
        for t in range(r.randint(3, 10)):
            for c_, w_ in ((ca, wa), (cb, wb), (cc, wc)):
                m = (1 << w_) - 1
                c_.value = r.choice([m, m, m - 1 if m else 0, -1, -m - 1, m + 1, m + 7, 1 << (w_ + 3), r.randint(0, m), 0])
                cur[c_.name] = c_.value
            with contextlib.redirect_stdout(io.StringIO()):
                sim.clk(r.choice([1, 1, 2]))
            chk()
        res.count(('const-reassign', i, wa, wb, wc, wr), hist={'const_reassign_designs': 1})


def memory_width_stream(res, rng, n):
    """memories whose write-data wire is wider than their read-data wire (and the other way round): a stored word is in range for the
    write port only; whatever was written -- in the same cycle or earlier -- the read-data wire must stay in range"""
    import py4hw, contextlib, io
    from py4hw.logic.storage import AsynchronousMemory, SynchronousMemory
    for i in range(n):
        r = rng.fork(i)
        hw = py4hw.HWSystem()
        aw = r.randint(1, 3)
        wdw, rdw = r.randint(1, 12), r.randint(1, 12)
        ra, wa, we = hw.wire('ra', aw), hw.wire('wa', aw), hw.wire('we')
        wd, rd, q = hw.wire('wd', wdw), hw.wire('rd', rdw), hw.wire('q', rdw)
        kind = r.choice(['AsynchronousMemory', 'AsynchronousMemory', 'SynchronousMemory'])
        with contextlib.redirect_stdout(io.StringIO()):
            (AsynchronousMemory if kind == 'AsynchronousMemory' else SynchronousMemory)(hw, 'm', ra, wa, we, rd, wd)
            py4hw.Reg(hw, 'r', rd, q)
            sim = hw.getSimulator()
        wires = D.all_wires(hw)
        hist = []
        desc = dict(design=f'{kind}(writedata {wdw} bits, readdata {rdw} bits) -> Reg', aw=aw, history=hist)

        def chk(_d=None, _s=None):
            for w in wires:
                v = w.value
                if not (isinstance(v, int) and 0 <= v < (1 << w.getWidth())):
                    res.fail(f'wire {w.getFullPath()} width {w.getWidth()} holds {v}',
                             dict(desc, wire=w.getFullPath(), width=w.getWidth(), value=v, clks=sim.total_clks))
                    return
        sim.addListener(Listener(None, chk, sim))
        few = [r.randint(0, (1 << aw) - 1) for _ in range(2)]
        for t in range(r.randint(3, 12)):
            st = dict(ra=r.choice(few), wa=r.choice(few), we=r.randint(0, 1), wd=r.choice([(1 << wdw) - 1, r.bits(wdw), 1 << (wdw - 1)]))
            ra.put(st['ra']); wa.put(st['wa']); we.put(st['we']); wd.put(st['wd'])
            hist.append(st)
            with contextlib.redirect_stdout(io.StringIO()):
                sim.clk(1)
            chk()
        res.count(('memwidth', i, kind, wdw, rdw), hist={'memory_width_designs': kind})


# ---- value profiles for every constant-carrying leaf (Sequence sample lists, Constant values, Reg reset values) -----------------
# a block may treat a whole LIST by the class of its members (e.g. "every sample fits, nothing to truncate"), so lists are drawn
# per class as well as mixed: all in range; in range + negatives of small magnitude (|v| < 2**w, incl. -1, -2**(w-1), -(2**w - 1))
# and NOTHING oversized; oversized only (2**w, -2**w, far beyond); mixed
VALUE_CLASSES = ['in_range', 'small_neg', 'min_signed', 'minus_one', 'neg_max_mag', 'pow2', 'neg_pow2', 'far_pos', 'far_neg']
LIST_PROFILES = ['in_range', 'small_neg_only', 'small_neg_and_in_range', 'oversized_only', 'mixed']


def profile_value(r, w, cls):
    m = (1 << w) - 1
    if cls == 'in_range':
        return r.choice([0, m, m >> 1, r.randint(0, m)])
    if cls == 'small_neg':
        return -r.randint(1, max(1, m))
    if cls == 'min_signed':
        return -(1 << (w - 1))
    if cls == 'minus_one':
        return -1
    if cls == 'neg_max_mag':
        return -max(1, m)
    if cls == 'pow2':
        return 1 << w
    if cls == 'neg_pow2':
        return -(1 << w)
    if cls == 'far_pos':
        return (1 << (w + r.randint(1, 40))) + r.randint(0, m)
    if cls == 'far_neg':
        return -((1 << (w + r.randint(1, 40))) + r.randint(0, m))
    raise Exception(cls)


SMALL_NEG = ['small_neg', 'min_signed', 'minus_one', 'neg_max_mag']
OVERSIZED = ['pow2', 'neg_pow2', 'far_pos', 'far_neg']


def profile_list(r, w, n, prof):
    if prof == 'in_range':
        return [profile_value(r, w, 'in_range') for _ in range(n)]
    if prof == 'small_neg_only':
        return [profile_value(r, w, r.choice(SMALL_NEG)) for _ in range(n)]
    if prof == 'small_neg_and_in_range':
        vs = [profile_value(r, w, r.choice(SMALL_NEG + ['in_range', 'in_range'])) for _ in range(n)]
        vs[r.randint(0, n - 1)] = profile_value(r, w, r.choice(SMALL_NEG))
        return vs
    if prof == 'oversized_only':
        return [profile_value(r, w, r.choice(OVERSIZED)) for _ in range(n)]
    return [profile_value(r, w, r.choice(VALUE_CLASSES)) for _ in range(n)]


def reprofile(plan, r):
    """rewrites the literal values of every constant-carrying node of a gen_designs plan by profile (the plan's structure, widths
    and list lengths are kept)"""
    used = []
    for j, nd in enumerate(plan['nodes']):
        rj = r.fork(('reprofile', j))
        w = nd['outw'][0] if nd['outw'] else 1
        if nd['kind'] == 'Sequence':
            prof = rj.choice(LIST_PROFILES)
            nd['params']['values'] = profile_list(rj, w, len(nd['params']['values']), prof)
            used.append('Sequence:' + prof)
        elif nd['kind'] == 'Constant':
            cls = rj.choice(VALUE_CLASSES)
            nd['params']['value'] = profile_value(rj, w, cls)
            used.append('Constant:' + cls)
        elif nd['kind'] == 'Reg' and nd['params'].get('reset_value') is not None:
            cls = rj.choice(VALUE_CLASSES)
            nd['params']['reset_value'] = profile_value(rj, w, cls)
            used.append('Reg.reset_value:' + cls)
    return used


def stimulus_profile_stream(res, rng, n):
    """stimulus / constant leaves on their own with downstream logic: Sequence (direct, and behind LogicHelper.sim_sequence;
    once / cyclic) whose sample list is drawn per LIST profile, a second 1-bit Sequence as reset, a Constant and a Reg reset value
    drawn per VALUE class; every profile x every small width is visited round-robin (not sampled).  Oracle = range check on every
    wire after creation, after every clk, inside a listener, and on every sample a Waveform captured"""
    import py4hw, contextlib, io
    from py4hw.logic.simulation import Sequence
    widths = [1, 2, 3, 4, 5, 7, 8, 9, 16, 31, 32, 33, 64]
    for i in range(n):
        r = rng.fork(i)
        prof = LIST_PROFILES[i % len(LIST_PROFILES)]
        w = widths[(i // len(LIST_PROFILES)) % len(widths)]
        ccls = VALUE_CLASSES[(i // 3) % len(VALUE_CLASSES)]
        rcls = VALUE_CLASSES[(i // 7) % len(VALUE_CLASSES)]
        vals = profile_list(r, w, r.randint(1, 6), prof)
        rvals = profile_list(r, 1, r.randint(1, 4), r.choice(LIST_PROFILES))
        once, via_helper = bool(r.randint(0, 1)), r.chance(1, 3)
        cw, dw, qw = r.choice([w, r.randint(1, 12)]), r.choice([w, w + 1, r.randint(1, 12)]), r.choice([w, r.randint(1, 12)])
        cval, rval = profile_value(r, cw, ccls), profile_value(r, qw, rcls)
        desc = dict(design='Sequence s (+ 1-bit Sequence rst) ; Constant c ; Not(s)->ns ; Sub(s,c)->d ; Reg(d, reset=rst, reset_value)->q ; Waveform',
                    width=w, samples=vals, profile=prof, once=once, via_sim_sequence=via_helper, rst_samples=rvals,
                    constant=dict(width=cw, value=cval, cls=ccls), reg=dict(width=qw, reset_value=rval, cls=rcls), d_width=dw)
        hw = py4hw.HWSystem()
        try:
            with contextlib.redirect_stdout(io.StringIO()):
                if via_helper:
                    s = py4hw.LogicHelper(hw).sim_sequence(w, list(vals))
                    once = desc['once'] = False
                else:
                    s = hw.wire('s', w)
                    Sequence(hw, 'seq', list(vals), s, once=once)
                rst = hw.wire('rst', 1)
                Sequence(hw, 'rseq', list(rvals), rst)
                c, ns, d, q = hw.wire('c', cw), hw.wire('ns', w), hw.wire('d', dw), hw.wire('q', qw)
                py4hw.Constant(hw, 'c', cval, c)
                py4hw.Not(hw, 'not', s, ns)
                py4hw.Sub(hw, 'sub', s, c, d)
                py4hw.Reg(hw, 'r', d, q, reset=rst, reset_value=rval)
                wvf = py4hw.Waveform(hw, 'wvf', [s, rst, c, ns, d, q])
                sim = hw.getSimulator()
        except Exception as e:
            res.hist('build_errors', f'stimulus:{type(e).__name__}:{str(e)[:40]}')
            continue
        wires = D.all_wires(hw)
        where = ['after creation']

        def chk(_d=None, _s=None):
            for x in wires:
                v = x.value
                if not (isinstance(v, int) and not isinstance(v, bool) and 0 <= v < (1 << x.getWidth())):
                    res.fail(f'wire {x.getFullPath()} width {x.getWidth()} holds {v}',
                             dict(desc, wire=x.getFullPath(), value=v, clks=sim.total_clks, observed=where[0]))
                    return False
            return True
        good = chk()
        lst = Listener(None, lambda _d, _s: (where.__setitem__(0, 'inside listener'), chk()), sim)
        sim.addListener(lst)
        try:
            with contextlib.redirect_stdout(io.StringIO()):
                for t in range(2 * len(vals) + 3):
                    if not good:
                        break
                    sim.clk(r.choice([1, 1, 2]))
                    where[0] = 'after clk'
                    good = chk()
        except Exception as e:
            res.hist('simulation_errors', f'stimulus:{type(e).__name__}:{str(e)[:30]}')
        if good:
            for x, data in wvf.data.items():
                for t, v in enumerate(data):
                    if not (isinstance(v, int) and 0 <= v < (1 << x.getWidth())):
                        res.fail(f'waveform sample of wire {x.getFullPath()} width {x.getWidth()} is {v}',
                                 dict(desc, wire=x.getFullPath(), value=v, sample_index=t, observed='Waveform capture'))
                        good = False
                        break
                if not good:
                    break
        res.count(('stimulus', i, w, prof, str(vals), cval, rval, once, via_helper),
                  hist={'stimulus_list_profile': prof, 'stimulus_width': w, 'constant_value_class': ccls, 'reset_value_class': rcls})


_C07_FAM = None


def single_block_stream(res, rng, n):
    """every library arithmetic / logic / selection / comparison block on its own at sampled legal MIXED port widths (the generators of
    the C07 / C08 checks: results narrower and wider than the natural width included), driven with boundary patterns; oracle = range
    check on every wire of the block (internal ones included) after creation, after every clk and inside a listener"""
    import py4hw, contextlib, io
    import c07, c08
    for i in range(n):
        r = rng.fork(i)
        class _Case:
            pass
        case = _Case()
        try:
            if i % 3 == 0:
                global _C07_FAM
                if _C07_FAM is None:
                    _C07_FAM = [(b, p) for b, p, _ in c07.param_families('quick', Rng(12345))]
                blk, prm = r.choice(_C07_FAM)
                case.inw, case.outw, ctor7 = c07.block_def(blk, prm)
                case.real, case.desc = blk, dict(block=blk, params=list(prm), input_widths=case.inw, output_widths=case.outw)
                case.build = lambda hw_, i_, o_: ctor7(hw_, i_, o_)
            elif i % 3 == 1:
                c8 = c08.random_case(r, r.choice([4, 8, 16]))
                case.inw, case.outw, case.real, case.desc = c8.inw, c8.outw, c8.real, c8.summary()
                case.build = lambda hw_, i_, o_, _c=c8: _c.ctor(py4hw, hw_, i_, o_)
            else:
                # bit-field primitives with a result wire of ANY width (narrower than the field included)
                aw = r.randint(1, 24)
                lo = r.randint(0, aw - 1)
                hi = r.randint(lo, aw - 1)
                rw = r.randint(1, 24)
                kind = r.choice(['Range', 'Range', 'Bit', 'ZeroExtend', 'SignExtend', 'Buf', 'Not', 'ShiftLeftConstant', 'ShiftRightConstant', 'Mul', 'Mul', 'Mux2w'])
                if kind == 'Mul':
                    # results just below / at / above the full product width
                    aw, bw = r.randint(2, 8), r.randint(2, 8)
                    rw = aw + bw + r.choice([-2, -1, -1, 0, 1])
                    case.inw, case.outw, case.real = [aw, bw], [rw], 'Mul'
                    case.desc = dict(block='Mul', aw=aw, bw=bw, rw=rw)
                    case.build = lambda hw_, i_, o_: py4hw.Mul(hw_, 'dut', i_[0], i_[1], o_[0])
                elif kind == 'Mux2w':
                    # data inputs of different widths, one of them wider than the result
                    sw, w0, w1 = r.randint(1, 2), r.randint(1, 12), r.randint(1, 12)
                    rw = r.randint(1, 12)
                    case.inw, case.outw, case.real = [sw, w0, w1], [rw], 'Mux2'
                    case.desc = dict(block='Mux2', sel=sw, sel0=w0, sel1=w1, rw=rw)
                    case.build = lambda hw_, i_, o_: py4hw.Mux2(hw_, 'dut', i_[0], i_[1], i_[2], o_[0])
                if kind not in ('Mul', 'Mux2w'):
                    case.inw, case.outw, case.real = [aw], [rw], kind
                    case.desc = dict(block=kind, aw=aw, rw=rw, high=hi, low=lo)
                def build(hw_, i_, o_, _k=kind, _hi=hi, _lo=lo):
                    if _k == 'Range':
                        py4hw.Range(hw_, 'dut', i_[0], _hi, _lo, o_[0])
                    elif _k == 'Bit':
                        py4hw.Bit(hw_, 'dut', i_[0], _lo, o_[0])
                    elif _k in ('ShiftLeftConstant', 'ShiftRightConstant'):
                        getattr(py4hw, _k)(hw_, 'dut', i_[0], _lo, o_[0])
                    else:
                        getattr(py4hw, _k)(hw_, 'dut', i_[0], o_[0])
                if kind not in ('Mul', 'Mux2w'):
                    case.build = build
        except Exception as e:
            res.hist('build_errors', 'case:' + str(e)[:40])
            continue
        hw = py4hw.HWSystem()
        ins = [hw.wire(f'i{k}', w) for k, w in enumerate(case.inw)]
        outs = [hw.wire(f'o{k}', w) for k, w in enumerate(case.outw)]
        try:
            with contextlib.redirect_stdout(io.StringIO()):
                case.build(hw, ins, outs)
                sim = hw.getSimulator()
        except Exception as e:
            res.hist('build_errors', f'{case.real}:{str(e)[:40]}')
            continue
        wires = D.all_wires(hw)
        desc = dict(design='single library block', block=case.real, summary=case.desc)
        cur = {}

        def chk(_d=None, _s=None):
            for w in wires:
                v = w.value
                if not (isinstance(v, int) and 0 <= v < (1 << w.getWidth())):
                    res.fail(f'wire {w.getFullPath()} width {w.getWidth()} holds {v}',
                             dict(desc, wire=w.getFullPath(), width=w.getWidth(), value=v, inputs=dict(cur), clks=sim.total_clks))
                    return
        chk()
        sim.addListener(Listener(None, chk, sim))
        try:
            with contextlib.redirect_stdout(io.StringIO()):
                for t in range(10):
                    for k, w in enumerate(ins):
                        m = (1 << w.getWidth()) - 1
                        v = r.choice([m, m, 0, 1, m >> 1, (m >> 1) + 1, r.randint(0, m), 0x5555555555555555 & m, 0xAAAAAAAAAAAAAAAA & m, -1, m + 7])
                        cur[f'i{k}'] = v
                        w.put(v)
                    sim.clk(1)
                    chk()
        except Exception as e:
            n0 = len(res.failures) + len(res.known_hits)
            chk()
            if len(res.failures) + len(res.known_hits) == n0:
                res.hist('simulation_errors', f'{case.real}:{type(e).__name__}:{str(e)[:30]}')
        res.count(('single', i, case.real, str(case.desc)), hist={'single_blocks': case.real})


def main(res, tier, rng, replay):
    ok, metas, errors, changed = regenerate()
    for e in errors:
        res.broken.append(('translator', 'py2lean', e))
    res.proof_stage('Py4hwV.Props.C06', OBLIGATIONS)
    static_scan(res)
    n_t1 = 40 if tier == 'quick' else 400
    if ok:
        try:
            t1.validate_generated(res, rng.fork('t1'), n_t1)
        except ToolFailure as e:
            res.broken.append(('correspondence', 'T1', f'generated definitions do not run: {e}'))
    # random designs with extreme stimuli: oracle = range check on the IMPLEMENTATION after creation, after every
    # op and inside listeners; plus model comparison
    n_designs = 150 if tier == 'quick' else 3000
    nb = D.NetBatch(res, 'net-sim')
    built = 0
    for i in range(n_designs):
        r = rng.fork(('d', i))
        plan = G.random_plan(r, r.randint(1, 30 if tier == 'quick' else 60), wmax=r.choice([3, 8, 17, 33, 64]), extreme=True)
        if i % 2 == 1:
            # every other design: the literal values of Sequence / Constant / Reg.reset_value nodes are redrawn per profile
            for u in reprofile(plan, r.fork('profiles')):
                res.hist('design_value_profiles', u)
        try:
            sysobj, ins, W, leaves = G.build(plan, inst_order=r.shuffle(range(len(plan['nodes']))))
            sim = sysobj.getSimulator()
        except Exception as e:
            res.hist('build_errors', str(e)[:50])
            continue
        built += 1
        ps = G.plan_summary(plan)
        chk = range_oracle(res, i, ps)
        ops = G.random_ops(r, ins, r.randint(3, 20), extreme=True)
        try:
            try:
                d0 = D.Dump(sysobj, sim)
            except D.NotDumpable as e:
                # a leaf class the translator does not (or no longer) cover: no model leg for this design, but the IMPLEMENTATION
                # is still built, driven and range-checked (nb.add falls back to the oracle-only path)
                res.hist('oracle_only_designs', str(e)[:40])
                d0 = D.Dump(sysobj, sim, allow_unknown=True)
            chk(d0, sim)
            sim.addListener(Listener(d0, chk, sim))
            nb.add(sysobj, ops, label=i, extra_check=chk)
        except D.NotDumpable:
            continue
        except ToolFailure:
            raise
        except Exception as e:
            # the simulator itself crashed (e.g. an out-of-range value used as a memory address): look at the wires
            n0 = len(res.failures) + len(res.known_hits)
            chk(d0, sim)
            if len(res.failures) + len(res.known_hits) == n0:
                res.hist('simulation_errors', f'{type(e).__name__}:{str(e)[:40]}')
            continue
        res.count(('design', i, str(ps)), hist={'design_nodes': len(plan['nodes']) // 10 * 10})
        for nd in plan['nodes']:
            res.hist('leaf_kinds', nd['kind'])
        if i < 3:
            res.sample(dict(design=ps, ops=[(o[0], o[1].name if o[0] == 'poke' else o[1], o[2] if o[0] == 'poke' else None) for o in ops]))
        if len(nb.jobs) >= 200:
            try:
                nb.run()
            except ToolFailure as e:
                res.broken.append(('correspondence', 'net-sim', str(e)[:300]))
                nb = D.NetBatch(res, 'net-sim')
    try:
        nb.run()
    except ToolFailure as e:
        res.broken.append(('correspondence', 'net-sim', str(e)[:300]))
    user_blocks(res, rng.fork('user'), 40 if tier == 'quick' else 600)
    stimulus_profile_stream(res, rng.fork('stimulus'), 260 if tier == 'quick' else 5200)
    single_block_stream(res, rng.fork('single'), 300 if tier == 'quick' else 6000)
    constant_reassign_stream(res, rng.fork('const-reassign'), 80 if tier == 'quick' else 1500)
    memory_width_stream(res, rng.fork('memwidth'), 60 if tier == 'quick' else 1200)
    res.cov['rule'] = ('T1: every generated leaf/FSM/Wire definition vs the real method on seeded states (distinct = distinct request '
                       'line); designs: seeded random netlists of primitive leaves with registers/feedback/memories, built in random '
                       'instantiation order, driven by extreme pokes (negative, oversized) and clk(n); every wire range-checked on the '
                       'implementation after construction, after every op and inside a simulator listener; all values compared with the Lean model '
                       '(designs with a leaf the translator does not cover run oracle-only); Sequence / Constant / Reg.reset_value literals '
                       'drawn per value profile (in range, small negatives only, oversized only, mixed) in every other design and, '
                       'round-robin over profiles x widths, in the stimulus stream (with Waveform capture)')
    res.cov['designs_built'] = built
    res.assumptions += ['leaf methods touch wires only through get/put/prepare (static scan of py4hw/logic for direct .value/.next assignments)',
                        'BidirWire / InOut resolution not modelled beyond the generated put/prepare mask lemmas']


if __name__ == '__main__':
    main_wrapper('C06', main)
