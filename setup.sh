#!/bin/bash
# MANIFEST.setup_cmd: offline build of the framework from files on disk.  Every property's modules are built
# separately so that one broken module cannot take the others down; the checks rebuild what they need anyway.
cd "$(dirname "$0")"
export PYTHONPATH=/repo:$(pwd)/harness PYTHONDONTWRITEBYTECODE=1
/venv/bin/python harness/py2lean.py || echo "translator reported untranslatable constructs (checks will report them)"
cd lean
rc=0
mods=""
for f in Py4hwV/Props/C*.lean; do mods="$mods $(echo ${f%.lean} | tr / .)"; done
for d in Drv/*.lean; do
  for m in $(grep -oE '^import Py4hwV[A-Za-z0-9_.]*' "$d" | awk '{print $2}'); do mods="$mods $m"; done
done
mods=$(echo $mods | tr ' ' '\n' | sort -u)
for m in $mods; do
  if lake build "$m" > /tmp/setup_build.log 2>&1; then echo "built $m"; else echo "FAILED $m"; grep -m3 "error" /tmp/setup_build.log; rc=1; fi
done
rm -f /tmp/setup_build.log
exit 0
