import Py4hwV.Core.PyInt
/-
  C12 — exact model of the Python `float` values that `py4hw/helper.py` computes with.

  A finite IEEE double is a dyadic rational; every float operation the helpers perform on the domain of the
  property (×2, ÷2, −1, scaling by a power of two, comparison with 1 and 2, `round`, `int`) is exact on doubles
  (recorded assumption, exercised on every run by the correspondence against the real code), so the model computes
  with exact dyadics `n · 2^k`.  Core Lean only (this file is run by `Drv/C12.lean`).
-/
namespace Helper

/-- a signed dyadic rational `n · 2^k` (intermediate float values such as `m`, `m-1`, `m*(1<<23)`) -/
structure Dy where
  n : Int
  k : Int
deriving Repr, DecidableEq, Inhabited

namespace Dy

def ofInt (i : Int) : Dy := ⟨i, 0⟩
def isZero (d : Dy) : Bool := d.n == 0
/-- `d * 2^j` (`m * 2`, `m * (1 << 23)`, `m / div` with `div = math.pow(2, j)`, …) -/
def scale (d : Dy) (j : Int) : Dy := ⟨d.n, d.k + j⟩
def neg (d : Dy) : Dy := ⟨-d.n, d.k⟩

/-- `d < c` for an integer `c` -/
def ltInt (d : Dy) (c : Int) : Bool :=
  if d.k ≥ 0 then decide (d.n * 2 ^ d.k.toNat < c) else decide (d.n < c * 2 ^ (-d.k).toNat)
def geInt (d : Dy) (c : Int) : Bool := !(d.ltInt c)
def gtZero (d : Dy) : Bool := decide (d.n > 0)
def ltZero (d : Dy) : Bool := decide (d.n < 0)

/-- `d - c` for an integer `c` (exact) -/
def subInt (d : Dy) (c : Int) : Dy :=
  if d.k ≥ 0 then ⟨d.n * 2 ^ d.k.toNat - c, 0⟩ else ⟨d.n - c * 2 ^ (-d.k).toNat, d.k⟩

/-- `math.floor` -/
def floor (d : Dy) : Int := if d.k ≥ 0 then d.n * 2 ^ d.k.toNat else d.n / 2 ^ (-d.k).toNat   -- Int `/` floors for a positive divisor

/-- Python `int(x)` on a float: truncation toward zero -/
def trunc (d : Dy) : Int := if d.n ≥ 0 then d.floor else - (d.neg).floor

/-- Python `round(x)` on a float (one argument): nearest integer, ties to even -/
def round (d : Dy) : Int :=
  if d.k ≥ 0 then d.n * 2 ^ d.k.toNat else
    let q := 2 ^ (-d.k).toNat
    let f := d.n / q
    let r := d.n % q            -- 0 ≤ r < q
    if 2 * r < q then f else if 2 * r > q then f + 1 else (if f % 2 == 0 then f else f + 1)

end Dy

/-- a Python float: finite (sign bit kept separately so that −0.0 exists), ±inf, nan -/
inductive PyFloat
  | fin (neg : Bool) (mag : Dy)      -- (−1)^neg · mag,  mag ≥ 0
  | inf (neg : Bool)
  | nan
deriving Repr, DecidableEq, Inhabited

end Helper
