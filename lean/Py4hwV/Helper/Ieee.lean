import Py4hwV.Helper.Dyadic
/-
  C12 — model of `FloatingPointHelper` (py4hw/helper.py:1137-1506), "reading like the code".
  `while` loops are structural recursions on an explicit fuel; running out of fuel is `none` (= the Python would not
  have terminated / the model's bound is wrong), never a silently wrong value.  Raised exceptions are `none`.
-/
namespace Helper
namespace FPH
open Dy

/-- `while (m >= 2): m = m / 2; e += 1` -/
def halveLoop : Nat → Dy → Int → Option (Dy × Int)
  | 0, _, _ => none
  | f+1, m, e => if m.geInt 2 then halveLoop f (m.scale (-1)) (e + 1) else some (m, e)

/-- `while (m < 1): m = m * 2; e -= 1` -/
def doubleLoop : Nat → Dy → Int → Option (Dy × Int)
  | 0, _, _ => none
  | f+1, m, e => if m.ltInt 1 then doubleLoop f (m.scale 1) (e - 1) else some (m, e)

/-- enough iterations for `n·2^k`: the loops run `|log2 n + k|` times -/
def fuelFor (m : Dy) : Nat := m.n.natAbs.log2 + m.k.natAbs + 2

/-- `FloatingPointHelper.fp_to_parts(v)` → `(s, e, m)`; raises on inf/nan -/
def fp_to_parts (v : PyFloat) : Option (Int × Int × Dy) :=
  match v with
  | .inf _ => none
  | .nan => none
  | .fin neg mag => do
    let mut e : Int := 0
    let mut s : Int := 0
    let mut m := mag
    -- `if (m < 0)`: false for −0.0, so the sign of a negative zero is dropped here
    if neg && !mag.isZero then
      s := 1
    if m.gtZero then
      let (m1, e1) ← halveLoop (fuelFor m) m e
      let (m2, e2) ← doubleLoop (fuelFor m) m1 e1
      m := m2
      e := e2
    return (s, e, m)

/-- the literal constants of `sp_to_ieee754_parts` / `dp_to_ieee754_parts` -/
structure EncCfg where
  eInf : Int          -- 255 / 2047
  nanM : Int          -- (1<<23)-1 / (1<<51)-1
  eOver : Int         -- 128 / 1024       `if (e >= 128)`
  eSub : Int          -- -127 / -1023     `if (e <= -127)`, `math.pow(2, (-127-e))`
  subSh : Int         -- 22 / 51          `m * (1 << 22)`
  mSh : Int           -- 23 / 52          `(m-1) * (1<<23)`, `im >= (1<<23)`
  bias : Int          -- 127 / 1023       `re = 127 + e`
  zeroKeepsSign : Bool  -- `v = math.copysign(1, v); s = 0 if v > 0 else 1; return s,0,0` (both functions since repo commit 8e05c48; before it sp had `return 0,0,0`)

def spCfg : EncCfg := ⟨255, (Py.shl 1 23) - 1, 128, -127, 22, 23, 127, true⟩
def dpCfg : EncCfg := ⟨2047, (Py.shl 1 51) - 1, 1024, -1023, 51, 52, 1023, true⟩

def to_ieee754_parts (c : EncCfg) (v : PyFloat) : Option (Int × Int × Int) :=
  match v with
  | .inf neg => some (if neg then 1 else 0, c.eInf, 0)
  | .nan => some (0, c.eInf, c.nanM)
  | .fin neg _ => do
    let (s, e, m) ← fp_to_parts v
    if m.isZero then
      if c.zeroKeepsSign then return (if neg then 1 else 0, 0, 0) else return (0, 0, 0)
    if e ≥ c.eOver then return (s, c.eInf, 0)
    if e ≤ c.eSub then
      -- denormalized values: div = math.pow(2, (-127-e)); m = m / div
      let m := m.scale (-(c.eSub - e))
      return (s, 0, (m.scale c.subSh).round)
    else
      let im := ((m.subInt 1).scale c.mSh).round
      let mut e := e
      let mut m := m
      if im ≥ Py.shlT 1 c.mSh then
        e := e + 1
        m := m.scale (-1)
      return (s, c.bias + e, ((m.subInt 1).scale c.mSh).round)

def sp_to_ieee754_parts (v : PyFloat) := to_ieee754_parts spCfg v
def dp_to_ieee754_parts (v : PyFloat) := to_ieee754_parts dpCfg v

/-- `r = s << 31; r = r | (e << 23); r = r | m` -/
def sp_to_ieee754 (v : PyFloat) : Option Int := do
  let (s, e, m) ← sp_to_ieee754_parts v
  return Py.lor (Py.lor (Py.shl s 31) (Py.shl e 23)) m

def dp_to_ieee754 (v : PyFloat) : Option Int := do
  let (s, e, m) ← dp_to_ieee754_parts v
  return Py.lor (Py.lor (Py.shl s 63) (Py.shl e 52)) m

/-- `unpack_ieee754_sp_parts`: note `s = v >> 31` is not masked -/
def unpack_ieee754_sp_parts (v : Int) : Int × Int × Int :=
  (Py.shr v 31, Py.land (Py.shr v 23) 0xFF, Py.land v (Py.shl 1 23 - 1))
def unpack_ieee754_dp_parts (v : Int) : Int × Int × Int :=
  (Py.shr v 63, Py.land (Py.shr v 52) 0x7FF, Py.land v (Py.shl 1 52 - 1))

/-- `parts_to_fp(s, e, m) = math.pow(-1, s) * math.pow(2, e) * m`, `m = num / (1 << sh)` -/
def parts_to_fp (s : Int) (e : Int) (num : Int) (sh : Int) : PyFloat :=
  .fin (s % 2 != 0) ⟨num, e - sh⟩

def ieee754_parts_to_sp (s e m : Int) : PyFloat :=
  if e == 0 && m == 0 then (if s == 1 then .fin true ⟨0, 0⟩ else .fin false ⟨0, 0⟩)
  else if e == 0 then parts_to_fp s (-126) m 23
  else parts_to_fp s (e - 127) (Py.lor (Py.shl 1 23) m) 23

def ieee754_parts_to_dp (s e m : Int) : PyFloat :=
  if e == 0 && m == 0 then (if s == 1 then .fin true ⟨0, 0⟩ else .fin false ⟨0, 0⟩)
  else if e == 0 then parts_to_fp s (-1022) m 52
  else parts_to_fp s (e - 1023) (Py.lor (Py.shl 1 52) m) 52

def ieee754_to_sp (v : Int) : PyFloat :=
  if v == 0 then .fin false ⟨0, 0⟩ else
  let (s, e, m) := unpack_ieee754_sp_parts v
  if e == 255 then (if m == 0 then (if s == 1 then .inf true else .inf false) else .nan)
  else ieee754_parts_to_sp s e m

def ieee754_to_dp (v : Int) : PyFloat :=
  if v == 0 then .fin false ⟨0, 0⟩ else
  let (s, e, m) := unpack_ieee754_dp_parts v
  if e == 0x7FF then (if m == 0 then (if s == 1 then .inf true else .inf false) else .nan)
  else ieee754_parts_to_dp s e m

end FPH
end Helper
