import Py4hwV.Helper.FPNum
import Py4hwV.Helper.Ieee
import Py4hwV.Helper.FixedPoint
/-
  C12 — the specification side: the rational an FPNum denotes, the IEEE-754 value function, two's complement.
  Core Lean only (`Rat` is in core), so the driver evaluates these on the implementation's observed values.
-/
namespace Helper

/-- the rational denoted by a finite FPNum:  s · m / p · 2^e -/
def FPNum.value (x : FPNum) : Rat := (x.s : Rat) * (x.m : Rat) / (x.p : Rat) * (2 : Rat) ^ x.e

/-- a finite, well-formed FPNum as the constructors produce it -/
structure FPNum.Finite (x : FPNum) : Prop where
  sign : x.s = 1 ∨ x.s = -1
  mant : 0 ≤ x.m
  prec : 0 < x.p
  notInf : x.infinity = false
  notNan : x.nan = false

instance (x : FPNum) : Decidable x.Finite :=
  if h : (x.s = 1 ∨ x.s = -1) ∧ 0 ≤ x.m ∧ 0 < x.p ∧ x.infinity = false ∧ x.nan = false
  then isTrue ⟨h.1, h.2.1, h.2.2.1, h.2.2.2.1, h.2.2.2.2⟩
  else isFalse (fun f => h ⟨f.sign, f.mant, f.prec, f.notInf, f.notNan⟩)

/-- three-way comparison of rationals as −1/0/1 -/
def ratCmp (a b : Rat) : Int := if a < b then -1 else if a = b then 0 else 1

/-- value of a dyadic / of a finite float -/
def Dy.toRat (d : Dy) : Rat := (d.n : Rat) * (2 : Rat) ^ d.k

/-- the rational denoted by a finite float (0 for the non-finite ones, which the theorems exclude) -/
def PyFloat.toRat : PyFloat → Rat
  | .fin neg d => (if neg then -1 else 1) * d.toRat
  | _ => 0

namespace IEEE

/-- an interchange format: exponent bits, trailing-significand bits -/
structure Format where
  ebits : Nat
  mbits : Nat
deriving Repr, DecidableEq

def half : Format := ⟨5, 10⟩
def single : Format := ⟨8, 23⟩
def double : Format := ⟨11, 52⟩

def Format.width (f : Format) : Nat := 1 + f.ebits + f.mbits
def Format.bias (f : Format) : Int := 2 ^ (f.ebits - 1) - 1

def signOf (f : Format) (b : Nat) : Nat := b / 2 ^ (f.ebits + f.mbits) % 2
def expOf (f : Format) (b : Nat) : Nat := b / 2 ^ f.mbits % 2 ^ f.ebits
def manOf (f : Format) (b : Nat) : Nat := b % 2 ^ f.mbits

def isNaN (f : Format) (b : Nat) : Bool := expOf f b == 2 ^ f.ebits - 1 && manOf f b != 0

/-- IEEE 754-2008 §3.4: the value denoted by the bit pattern `b` -/
def decode (f : Format) (b : Nat) : PyFloat :=
  let s := signOf f b == 1
  let e := expOf f b
  let m := manOf f b
  if e == 2 ^ f.ebits - 1 then (if m == 0 then .inf s else .nan)
  else if e == 0 then (if m == 0 then .fin s ⟨0, 0⟩ else .fin s ⟨m, 1 - f.bias - f.mbits⟩)
  else .fin s ⟨2 ^ f.mbits + m, (e : Int) - f.bias - f.mbits⟩

end IEEE

/-- two's complement of width `w`: the signed reading of an unsigned `w`-bit value -/
def c2Signed (w : Nat) (x : Int) : Int := if x % 2 ^ w < 2 ^ (w - 1) then x % 2 ^ w else x % 2 ^ w - 2 ^ w

end Helper
