import Py4hwV.Helper.FPNum
import Py4hwV.Helper.Ieee
import Py4hwV.Helper.FixedPoint
/-
  C12 — the specification side: the rational an FPNum denotes, the IEEE-754 value function, two's complement.
  Core Lean only (`Rat` is in core), so the driver evaluates these on the implementation's observed values.
-/
namespace Helper

/-- the rational denoted by a finite FPNum:  s · m / p · 2^e -/
def FPNum.value (x : FPNum) : Rat := (x.s : Rat) * (x.m : Rat) / (x.p : Rat) * (2 : Rat) ^ x.e

/-- a finite, well-formed FPNum as the constructors produce it -/
structure FPNum.Finite (x : FPNum) : Prop where
  sign : x.s = 1 ∨ x.s = -1
  mant : 0 ≤ x.m
  prec : 0 < x.p
  notInf : x.infinity = false
  notNan : x.nan = false

instance (x : FPNum) : Decidable x.Finite :=
  if h : (x.s = 1 ∨ x.s = -1) ∧ 0 ≤ x.m ∧ 0 < x.p ∧ x.infinity = false ∧ x.nan = false
  then isTrue ⟨h.1, h.2.1, h.2.2.1, h.2.2.2.1, h.2.2.2.2⟩
  else isFalse (fun f => h ⟨f.sign, f.mant, f.prec, f.notInf, f.notNan⟩)

/-- three-way comparison of rationals as −1/0/1 -/
def ratCmp (a b : Rat) : Int := if a < b then -1 else if a = b then 0 else 1

/-- value of a dyadic / of a finite float -/
def Dy.toRat (d : Dy) : Rat := (d.n : Rat) * (2 : Rat) ^ d.k

/-- the rational denoted by a finite float (0 for the non-finite ones, which the theorems exclude) -/
def PyFloat.toRat : PyFloat → Rat
  | .fin neg d => (if neg then -1 else 1) * d.toRat
  | _ => 0

/-- SPECIFICATION of `FPNum.convert` on a normalised finite non-zero magnitude `m / 2^a · 2^e` (`2^a ≤ m < 2^(a+1)`), for a
    format with exponent bias `bias`, all-ones exponent field `emask` and `mb` trailing significand bits  ↦ (exponent
    field, mantissa field).  The magnitude is ROUNDED TOWARD ZERO (bits below the target's last place are dropped):
    normal range: significand `⌊m·2^mb / 2^a⌋`; below the smallest normal: `⌊|x| / 2^(1−bias−mb)⌋` (subnormal, possibly 0);
    at or above `2^(emask−bias)`: infinity. -/
def FPNum.truncFields (bias emask : Int) (mb a : Nat) (e m : Int) : Int × Int :=
  if e + bias ≥ emask then (emask, 0)
  else if 1 ≤ e + bias then (e + bias, m * (2:Int)^mb / (2:Int)^a - (2:Int)^mb)
  else (0, m * (2:Int)^mb / (2:Int)^(a + (1 - bias - e).toNat))

/-- the magnitude denoted by the fields (E, M) of a `(bias, mb)` format, E below the all-ones exponent -/
def IEEE.fieldsDy (bias : Int) (mb : Nat) (E M : Int) : Dy :=
  if E == 0 then ⟨M, 1 - bias - mb⟩ else ⟨(2:Int)^mb + M, E - bias - mb⟩

namespace IEEE

/-- an interchange format: exponent bits, trailing-significand bits -/
structure Format where
  ebits : Nat
  mbits : Nat
deriving Repr, DecidableEq

def half : Format := ⟨5, 10⟩
def single : Format := ⟨8, 23⟩
def double : Format := ⟨11, 52⟩

def Format.width (f : Format) : Nat := 1 + f.ebits + f.mbits
def Format.bias (f : Format) : Int := 2 ^ (f.ebits - 1) - 1

def signOf (f : Format) (b : Nat) : Nat := b / 2 ^ (f.ebits + f.mbits) % 2
def expOf (f : Format) (b : Nat) : Nat := b / 2 ^ f.mbits % 2 ^ f.ebits
def manOf (f : Format) (b : Nat) : Nat := b % 2 ^ f.mbits

def isNaN (f : Format) (b : Nat) : Bool := expOf f b == 2 ^ f.ebits - 1 && manOf f b != 0

/-- IEEE 754-2008 §3.4: the value denoted by the bit pattern `b` -/
def decode (f : Format) (b : Nat) : PyFloat :=
  let s := signOf f b == 1
  let e := expOf f b
  let m := manOf f b
  if e == 2 ^ f.ebits - 1 then (if m == 0 then .inf s else .nan)
  else if e == 0 then (if m == 0 then .fin s ⟨0, 0⟩ else .fin s ⟨m, 1 - f.bias - f.mbits⟩)
  else .fin s ⟨2 ^ f.mbits + m, (e : Int) - f.bias - f.mbits⟩

end IEEE

/-- the interchange format a format name of `FPNum.convert` / `FPNum(v, fmt)` stands for -/
def Fmt.ieee : Fmt → IEEE.Format
  | .hp => IEEE.half
  | .sp => IEEE.single
  | .dp => IEEE.double

/-- the truncation specification as a bit pattern of `fmt`, for a normalised finite FPNum (`p` a power of two) -/
def FPNum.truncBits (fmt : Fmt) (x : FPNum) : Int :=
  let c := FPNum.fmtConsts fmt
  let f := fmt.ieee
  let s : Int := if x.s > 0 then 0 else 1
  let em : Int × Int := if x.m == 0 then (0, 0) else FPNum.truncFields c.1 c.2.1 f.mbits x.p.toNat.log2 x.e x.m
  s * (2:Int)^(f.ebits + f.mbits) + em.1 * (2:Int)^f.mbits + em.2

/-- the class invariant, decidable form (for the driver) -/
def FPNum.isNormalised (x : FPNum) : Bool :=
  decide x.Finite && x.p == (2:Int)^x.p.toNat.log2 && (x.m == 0 || (decide (x.p ≤ x.m) && decide (x.m < 2 * x.p)))

/-- two's complement of width `w`: the signed reading of an unsigned `w`-bit value -/
def c2Signed (w : Nat) (x : Int) : Int := if x % 2 ^ w < 2 ^ (w - 1) then x % 2 ^ w else x % 2 ^ w - 2 ^ w

end Helper
