import Py4hwV.Helper.Dyadic
import Py4hwV.Gen.C12
/-
  C12 — model of class `FPNum` (py4hw/helper.py:565-1134), "reading like the code".
  An FPNum denotes  s · (m / p) · 2^e ;  `p == 0` marks the special values (m == 0: infinity, else NaN).
  `while` loops: structural recursion on explicit fuel, `none` when the fuel runs out (the Python loop would not
  terminate: negative mantissa / non-positive precision) and when Python raises (failed `assert`, unbound local).
  Loops whose trip count is a closed form of their arguments (`increase_exponent`) iterate exactly that many times.
-/
namespace Helper

structure FPNum where
  s : Int := 0
  e : Int := 0
  m : Int := 0
  p : Int := 0
  infinity : Bool := false
  nan : Bool := false
  inexact : Bool := false
deriving Repr, DecidableEq, Inhabited

inductive Fmt | hp | sp | dp
deriving Repr, DecidableEq

namespace FPNum

def IEEE754_HP_INF_MANTISA : Int := 0x0
def IEEE754_SP_INF_MANTISA : Int := 0x0
def IEEE754_DP_INF_MANTISA : Int := 0x0
def IEEE754_HP_NAN_MANTISA : Int := 0x200
def IEEE754_SP_NAN_MANTISA : Int := 0x400000
def IEEE754_DP_NAN_MANTISA : Int := 0x8000000000000

/-- the object right after `self.inexact = self.infinity = self.nan = False` -/
def fresh : FPNum := {}

def set_semp (x : FPNum) (s e m p : Int) : FPNum :=
  let x := { x with s := s, e := e, m := m, p := p }
  if p == 0 then (if m == 0 then { x with infinity := true } else { x with nan := true }) else x

/-- `while ((self.m & 1)==0) and ((self.p & 1) == 0): m >>= 1; p >>= 1` -/
def reduceLoop : Nat → Int → Int → Option (Int × Int)
  | 0, _, _ => none
  | f+1, m, p =>
    if Py.land m 1 == 0 && Py.land p 1 == 0 then reduceLoop f (Py.shr m 1) (Py.shr p 1) else some (m, p)

/-- `while (self.m >= p2): self.p = self.p << 1; p2 = self.p << 1; self.e += 1`  ↦ (p, e) -/
def expUpLoop : Nat → Int → Int → Int → Option (Int × Int)
  | 0, _, _, _ => none
  | f+1, m, p, e => if m ≥ Py.shl p 1 then expUpLoop f m (Py.shl p 1) (e + 1) else some (p, e)

/-- `while (self.m < self.p): self.m <<= 1; self.e -= 1; if (self.m == 0): return`  ↦ (m, e) -/
def expDownLoop : Nat → Int → Int → Int → Option (Int × Int)
  | 0, _, _, _ => none
  | f+1, m, p, e =>
    if m < p then
      let m := Py.shl m 1
      let e := e - 1
      if m == 0 then some (m, e) else expDownLoop f m p e
    else some (m, e)

def adjust_semp (x : FPNum) : Option FPNum := do
  if x.p == 0 then return x          -- ignore it for special cases
  let (m, p) ← reduceLoop (x.p.natAbs + 1) x.m x.p
  let p2 := Py.shl p 1
  if m ≥ p2 then
    let (p', e') ← expUpLoop (m.toNat + 1) m p x.e
    return { x with m := m, p := p', e := e' }
  else if m < p then
    let (m', e') ← expDownLoop (p.toNat + 1) m p x.e
    return { x with m := m', p := p, e := e' }
  else
    return { x with m := m, p := p }

/-- `FPNum(s, e, m, p)` -/
def mk4 (s e m p : Int) : Option FPNum := adjust_semp (set_semp fresh s e m p)

def components (x : FPNum) : Int × Int × Int × Int := (x.s, x.e, x.m, x.p)

/-- `copy()`: `r.set_semp(s,e,m,p)` then the three flags are overwritten with the source's -/
def copy (x : FPNum) : FPNum :=
  { set_semp fresh x.s x.e x.m x.p with infinity := x.infinity, nan := x.nan, inexact := x.inexact }

/-- `while (self.e < ne): self.e += 1; self.p = self.p << 1` — runs exactly `max 0 (ne − e)` times -/
def increase_exponent (x : FPNum) (ne : Int) : FPNum := go (ne - x.e).toNat x
where go : Nat → FPNum → FPNum
  | 0, x => x
  | n+1, x => go n { x with e := x.e + 1, p := Py.shl x.p 1 }

/-- `while (self.p < np): self.p <<= 1; self.m <<= 1` -/
def precLoop : Nat → Int → Int → Int → Option (Int × Int)
  | 0, _, _, _ => none
  | f+1, np, m, p => if p < np then precLoop f np (Py.shl m 1) (Py.shl p 1) else some (m, p)

def increase_precision (x : FPNum) (np : Int) : Option FPNum := do
  let (m, p) ← precLoop (np.toNat + 1) np x.m x.p
  return { x with m := m, p := p }

/-- the block shared by `compare` and `add`: equal exponent … -/
def eqExp (a b : FPNum) : FPNum × FPNum :=
  if a.e > b.e then (a, increase_exponent b a.e)
  else if a.e < b.e then (increase_exponent a b.e, b)
  else (a, b)

/-- … then equal precision -/
def eqPrec (a b : FPNum) : Option (FPNum × FPNum) :=
  if a.p > b.p then (increase_precision b a.p).map (fun b' => (a, b'))
  else if a.p < b.p then (increase_precision a b.p).map (fun a' => (a', b))
  else some (a, b)

/-- … with the two `assert`s -/
def equalize (a b : FPNum) : Option (FPNum × FPNum) :=
  let ab := eqExp a b
  if ab.1.e != ab.2.e then none            -- assert(a.e == b.e)
  else match eqPrec ab.1 ab.2 with
    | none => none
    | some ab' => if ab'.1.p != ab'.2.p then none else some ab'    -- assert(a.p == b.p)

def compare (self bref : FPNum) : Option Int := do
  if self.nan || bref.nan then return 0
  if self.infinity && bref.infinity && self.s == bref.s then return 0
  if self.infinity && bref.infinity && self.s != bref.s then return 1
  if self.infinity || bref.infinity then
    if self.infinity then return self.s else return -bref.s
  let a ← mk4 self.s self.e self.m self.p
  let b ← mk4 bref.s bref.e bref.m bref.p
  let (a, b) ← equalize a b
  if a.m == 0 && b.m == 0 then return 0      -- +0 and -0 denote the same number (repo commit fc3735b)
  let abs_cmp : Int := if a.m == b.m then 0 else if a.m > b.m then 1 else -1
  if a.s == 1 && b.s == 1 then return abs_cmp
  else if a.s == -1 && b.s == -1 then return -abs_cmp
  else if a.s == -1 && b.s == 1 then return -1
  else if a.s == 1 && b.s == -1 then return 1
  else none                           -- raise Exception()

def add (self bref : FPNum) : Option FPNum := do
  if self.nan || bref.nan then return ← mk4 self.s self.e (-1) 0
  if self.infinity && bref.infinity && self.s * bref.s == -1 then return ← mk4 self.s self.e (-1) 0
  if self.infinity || bref.infinity then
    if self.infinity then return self.copy else return bref.copy
  let a ← mk4 self.s self.e self.m self.p
  let b ← mk4 bref.s bref.e bref.m bref.p
  let (a, b) ← equalize a b
  if (a.s == 1 && b.s == 1) || (a.s == -1 && b.s == -1) then
    mk4 a.s a.e (a.m + b.m) a.p
  else if a.s == 1 && b.s == -1 then
    if a.m > b.m then mk4 a.s a.e (a.m - b.m) a.p else mk4 b.s a.e (b.m - a.m) a.p
  else if a.s == -1 && b.s == 1 then
    if a.m > b.m then mk4 a.s a.e (a.m - b.m) a.p else mk4 b.s a.e (b.m - a.m) a.p
  else none                           -- UnboundLocalError: s

def sub (self bref : FPNum) : Option FPNum := do
  if self.nan || bref.nan then return ← mk4 self.s self.e (-1) 0
  if self.infinity && bref.infinity && self.s * bref.s == 1 then return ← mk4 self.s self.e (-1) 0
  if self.infinity || bref.infinity then
    if self.infinity then return self.copy
    if bref.infinity then return ← mk4 (bref.s * -1) bref.e 0 0
  let b ← mk4 (bref.s * -1) bref.e bref.m bref.p
  self.add b

def mul (self b : FPNum) : Option FPNum := do
  if self.nan || b.nan then return ← mk4 self.s self.e (-1) 0
  if self.infinity || b.infinity then return ← mk4 (self.s * b.s) self.e 0 0
  mk4 (self.s * b.s) (self.e + b.e) (self.m * b.m) (self.p * b.p)

def abs (x : FPNum) : Option FPNum := mk4 1 x.e x.m x.p
def neg (x : FPNum) : Option FPNum := mk4 (x.s * -1) x.e x.m x.p
def div2 (x : FPNum) (n : Int) : Option FPNum := mk4 x.s x.e x.m (Py.shlT x.p n)

/-- `reducePrecision(prec)`: `while (p < self.p): self.p >>= 1; self.m >>= 1` -/
def truncLoop : Nat → Int → Int → Int → Option (Int × Int)
  | 0, _, _, _ => none
  | f+1, p, m, sp => if p < sp then truncLoop f p (Py.shr m 1) (Py.shr sp 1) else some (m, sp)

def reducePrecision (x : FPNum) (prec : Int) : Option FPNum := do
  let p := Py.shlT 1 prec
  if p < x.p then
    let (m, sp) ← truncLoop (x.p.toNat + 1) p x.m x.p
    return { x with m := m, p := sp, inexact := true }
  else return x

def unpack_ieee754_hp_parts (v : Int) : Int × Int × Int :=
  (Py.land (Py.shr v 15) 1, Py.land (Py.shr v 10) 0x1F, Py.land v (Py.shl 1 10 - 1))
def unpack_ieee754_sp_parts (v : Int) : Int × Int × Int :=
  (Py.land (Py.shr v 31) 1, Py.land (Py.shr v 23) 0xFF, Py.land v (Py.shl 1 23 - 1))
def unpack_ieee754_dp_parts (v : Int) : Int × Int × Int :=
  (Py.land (Py.shr v 63) 1, Py.land (Py.shr v 52) 0x7FF, Py.land v (Py.shl 1 52 - 1))

/-- the `pack_ieee754_*_parts` are translated from the source (Gen/C12.lean) -/
def pack (fmt : Fmt) (s e m : Int) : Int :=
  match fmt with
  | .hp => Gen.C12.fpnum_pack_hp s e m
  | .sp => Gen.C12.fpnum_pack_sp s e m
  | .dp => Gen.C12.fpnum_pack_dp s e m

/-- the common body of the three `from_ieee754_*`; the literals of each copy are the arguments:
    `e_max` (0x1F / 0xFF / 0x7FF), `e_sub` (-14 / -126 / -1022), `e_bias` (15 / 127 / 1023), `mb` (10 / 23 / 52) -/
def from_parts (s e m : Int) (e_max e_sub e_bias : Int) (mb : Nat) : Option FPNum :=
  let s : Int := if s == 0 then 1 else -1
  if e == e_max then some (set_semp fresh s e m 0)          -- special cases are signaled with p = 0
  else
    let em : Int × Int := if e == 0 then (e_sub, m) else (e - e_bias, Py.lor (Py.shl 1 mb) m)
    adjust_semp (set_semp fresh s em.1 em.2 (Py.shl 1 mb))

def from_ieee754_hp (v : Int) : Option FPNum :=
  let (s, e, m) := unpack_ieee754_hp_parts v
  from_parts s e m 0x1F (-14) 15 10

def from_ieee754_sp (v : Int) : Option FPNum :=
  let (s, e, m) := unpack_ieee754_sp_parts v
  from_parts s e m 0xFF (-126) 127 23

def from_ieee754_dp (v : Int) : Option FPNum :=
  let (s, e, m) := unpack_ieee754_dp_parts v
  from_parts s e m 0x7FF (-1022) 1023 52

def from_ieee754 (fmt : Fmt) (v : Int) : Option FPNum :=
  match fmt with
  | .hp => from_ieee754_hp v
  | .sp => from_ieee754_sp v
  | .dp => from_ieee754_dp v

/-- `while (p > p_std): p >>= 1; m >>= 1` -/
def stdDownLoop : Nat → Int → Int → Int → Option (Int × Int)
  | 0, _, _, _ => none
  | f+1, pstd, m, p => if p > pstd then stdDownLoop f pstd (Py.shr m 1) (Py.shr p 1) else some (m, p)

/-- `while (p < p_std): p <<= 1; m <<= 1` -/
def stdUpLoop : Nat → Int → Int → Int → Option (Int × Int)
  | 0, _, _, _ => none
  | f+1, pstd, m, p => if p < pstd then stdUpLoop f pstd (Py.shl m 1) (Py.shl p 1) else some (m, p)

/-- "compute the standard precision": `while (p > p_std): …` then `while (p < p_std): …`  ↦ m -/
def stdPrec (p_std m p : Int) : Option Int := do
  let (m1, p1) ← stdDownLoop (p.toNat + 1) p_std m p
  let (m2, _) ← stdUpLoop (p_std.toNat + 1) p_std m1 p1
  return m2

/-- the format-independent part of `convert` for a finite non-zero number  ↦ (exponent field, mantissa field) -/
def convertFinite (e_bias e_mask p_std : Int) (e m p : Int) : Option (Int × Int) :=
  -- `if (e < -(e_bias-1)): while (e < -(e_bias-1)): e += 1; p = p << 1` (exactly −(e_bias−1) − e iterations) `; e = 0`
  -- `else: if (e == -(e_bias-1)) and (p > m): e = 0  else: e = e + e_bias`
  let ep : Int × Int :=
    if e < -(e_bias - 1) then (0, Py.shl p (-(e_bias - 1) - e).toNat)
    else if e == -(e_bias - 1) && p > m then (0, p)
    else (e + e_bias, p)
  if ep.1 < 0 then some (0, 0)                         -- very small number
  else if ep.1 ≥ e_mask then some (e_mask, 0)          -- infinity
  else if ep.1 == 0 then                               -- subnormal numbers do not need further mantisa processing
    (stdPrec p_std m ep.2).map (fun m' => (0, m'))
  else
    let me : Int × Int := if ep.2 > m then (Py.shl m 1, ep.1 - 1) else (m, ep.1)
    let pe : Int × Int := if me.1 ≥ Py.shl ep.2 1 then (Py.shl ep.2 1, me.2 + 1) else (ep.2, me.2)
    if Py.land me.1 pe.1 == 0 then none                -- assert(m & p)
    else (stdPrec p_std (Py.lxor me.1 pe.1) pe.1).map (fun m' => (pe.2, m'))

/-- per format: (e_bias, e_mask, p_std, NaN mantissa, infinity mantissa) -/
def fmtConsts (fmt : Fmt) : Int × Int × Int × Int × Int :=
  match fmt with
  | .hp => (15, 0x1F, Py.shl 1 10, IEEE754_HP_NAN_MANTISA, IEEE754_HP_INF_MANTISA)
  | .sp => (127, 0xFF, Py.shl 1 23, IEEE754_SP_NAN_MANTISA, IEEE754_SP_INF_MANTISA)
  | .dp => (1023, 0x7FF, Py.shl 1 52, IEEE754_DP_NAN_MANTISA, IEEE754_DP_INF_MANTISA)

/-- `convert` up to the final `pack_ieee754_<fmt>_parts(s, e, m)`  ↦ (s, e, m) -/
def convertParts (x : FPNum) (e_bias e_mask p_std nanM infM : Int) : Option (Int × Int × Int) :=
  let s : Int := if x.s > 0 then 0 else 1
  if x.infinity || x.nan then                           -- deal with special cases
    some (if x.nan then 0 else s, e_mask, if x.nan then nanM else infM)
  else if x.m == 0 then some (s, 0, 0)
  else (convertFinite e_bias e_mask p_std x.e x.m x.p).map (fun em => (s, em.1, em.2))

def convert (x : FPNum) (fmt : Fmt) : Option Int :=
  let c := fmtConsts fmt
  (convertParts x c.1 c.2.1 c.2.2.1 c.2.2.2.1 c.2.2.2.2).map (fun t => pack fmt t.1 t.2.1 t.2.2)

/-- `adjust_sem(s, e, m)` with a float `m` (exact dyadic), as called by `convert_float_to_semp` -/
def fracLoop : Nat → Dy → Int → Option (Dy × Int)
  | 0, _, _ => none
  | f+1, m, p => if (m.subInt m.trunc).gtZero then fracLoop f (m.scale 1) (p * 2) else some (m, p)

def halveLoop : Nat → Dy → Int → Option (Dy × Int)
  | 0, _, _ => none
  | f+1, m, e => if m.geInt 2 then halveLoop f (m.scale (-1)) (e + 1) else some (m, e)

def doubleLoop : Nat → Dy → Int → Option (Dy × Int)
  | 0, _, _ => none
  | f+1, m, e => if m.ltInt 1 then doubleLoop f (m.scale 1) (e - 1) else some (m, e)

def adjust_sem (x : FPNum) (s e : Int) (m : Dy) : Option FPNum := do
  let x := { x with s := s, e := e, p := 1 }
  if m.isZero then return { x with m := 0 }
  let fuel := m.n.natAbs.log2 + m.k.natAbs + 2
  let mut e := e
  let mut m := m
  if m.geInt 2 then
    let (m1, e1) ← halveLoop fuel m e
    m := m1; e := e1
  else if m.ltInt 1 then
    let (m1, e1) ← doubleLoop fuel m e     -- a negative m never leaves this loop (fuel runs out = diverges)
    m := m1; e := e1
  let (m2, p2) ← fracLoop (m.k.natAbs + 2) m 1
  return { x with e := e, m := m2.trunc, p := p2 }

/-- `FPNum(v)` for a Python float -/
def convert_float_to_semp (v : PyFloat) : Option FPNum :=
  match v with
  | .inf neg => some { fresh with s := if neg then -1 else 1, e := 0, m := 0, p := 0, infinity := true, nan := false }
  | .nan => some { fresh with s := 1, e := 0, m := -1, p := 0, infinity := false, nan := true }
  | .fin neg mag => do
    -- s, e, m, p = 1, 0, v, 1 ; −0.0 detected with copysign ; `elif (v < 0): s, m = -s, -m`
    let s : Int := if neg then -1 else 1
    let x ← adjust_sem fresh s 0 mag
    adjust_semp x

end FPNum
end Helper
