import Py4hwV.Helper.Dyadic
import Py4hwV.Gen.C12
/-
  C12 — model of class `FPNum` (py4hw/helper.py:565-1134), "reading like the code".
  An FPNum denotes  s · (m / p) · 2^e ;  `p == 0` marks the special values (m == 0: infinity, else NaN).
  `while` loops: structural recursion on explicit fuel, `none` when the fuel runs out (the Python loop would not
  terminate: negative mantissa / non-positive precision) and when Python raises (failed `assert`, unbound local).
  Loops whose trip count is a closed form of their arguments (`increase_exponent`) iterate exactly that many times.
-/
namespace Helper

structure FPNum where
  s : Int := 0
  e : Int := 0
  m : Int := 0
  p : Int := 0
  infinity : Bool := false
  nan : Bool := false
  inexact : Bool := false
deriving Repr, DecidableEq, Inhabited

inductive Fmt | hp | sp | dp
deriving Repr, DecidableEq

namespace FPNum

def IEEE754_HP_INF_MANTISA : Int := 0x0
def IEEE754_SP_INF_MANTISA : Int := 0x0
def IEEE754_DP_INF_MANTISA : Int := 0x0
def IEEE754_HP_NAN_MANTISA : Int := 0x200
def IEEE754_SP_NAN_MANTISA : Int := 0x400000
def IEEE754_DP_NAN_MANTISA : Int := 0x8000000000000

/-- the object right after `self.inexact = self.infinity = self.nan = False` -/
def fresh : FPNum := {}

def set_semp (x : FPNum) (s e m p : Int) : FPNum :=
  let x := { x with s := s, e := e, m := m, p := p }
  if p == 0 then (if m == 0 then { x with infinity := true } else { x with nan := true }) else x

/-- `while ((self.m & 1)==0) and ((self.p & 1) == 0): m >>= 1; p >>= 1` -/
def reduceLoop : Nat → Int → Int → Option (Int × Int)
  | 0, _, _ => none
  | f+1, m, p =>
    if Py.land m 1 == 0 && Py.land p 1 == 0 then reduceLoop f (Py.shr m 1) (Py.shr p 1) else some (m, p)

/-- `while (self.m >= p2): self.p = self.p << 1; p2 = self.p << 1; self.e += 1`  ↦ (p, e) -/
def expUpLoop : Nat → Int → Int → Int → Option (Int × Int)
  | 0, _, _, _ => none
  | f+1, m, p, e => if m ≥ Py.shl p 1 then expUpLoop f m (Py.shl p 1) (e + 1) else some (p, e)

/-- `while (self.m < self.p): self.m <<= 1; self.e -= 1; if (self.m == 0): return`  ↦ (m, e) -/
def expDownLoop : Nat → Int → Int → Int → Option (Int × Int)
  | 0, _, _, _ => none
  | f+1, m, p, e =>
    if m < p then
      let m := Py.shl m 1
      let e := e - 1
      if m == 0 then some (m, e) else expDownLoop f m p e
    else some (m, e)

def adjust_semp (x : FPNum) : Option FPNum := do
  if x.p == 0 then return x          -- ignore it for special cases
  let (m, p) ← reduceLoop (x.p.natAbs + 1) x.m x.p
  let p2 := Py.shl p 1
  if m ≥ p2 then
    let (p', e') ← expUpLoop (m.toNat + 1) m p x.e
    return { x with m := m, p := p', e := e' }
  else if m < p then
    let (m', e') ← expDownLoop (p.toNat + 1) m p x.e
    return { x with m := m', p := p, e := e' }
  else
    return { x with m := m, p := p }

/-- `FPNum(s, e, m, p)` -/
def mk4 (s e m p : Int) : Option FPNum := adjust_semp (set_semp fresh s e m p)

def components (x : FPNum) : Int × Int × Int × Int := (x.s, x.e, x.m, x.p)

/-- `copy()`: `r.set_semp(s,e,m,p)` then the three flags are overwritten with the source's -/
def copy (x : FPNum) : FPNum :=
  { set_semp fresh x.s x.e x.m x.p with infinity := x.infinity, nan := x.nan, inexact := x.inexact }

/-- `while (self.e < ne): self.e += 1; self.p = self.p << 1` — runs exactly `max 0 (ne − e)` times -/
def increase_exponent (x : FPNum) (ne : Int) : FPNum := go (ne - x.e).toNat x
where go : Nat → FPNum → FPNum
  | 0, x => x
  | n+1, x => go n { x with e := x.e + 1, p := Py.shl x.p 1 }

/-- `while (self.p < np): self.p <<= 1; self.m <<= 1` -/
def precLoop : Nat → Int → Int → Int → Option (Int × Int)
  | 0, _, _, _ => none
  | f+1, np, m, p => if p < np then precLoop f np (Py.shl m 1) (Py.shl p 1) else some (m, p)

def increase_precision (x : FPNum) (np : Int) : Option FPNum := do
  let (m, p) ← precLoop (np.toNat + 1) np x.m x.p
  return { x with m := m, p := p }

/-- the block shared by `compare` and `add`: equal exponent … -/
def eqExp (a b : FPNum) : FPNum × FPNum :=
  if a.e > b.e then (a, increase_exponent b a.e)
  else if a.e < b.e then (increase_exponent a b.e, b)
  else (a, b)

/-- … then equal precision -/
def eqPrec (a b : FPNum) : Option (FPNum × FPNum) :=
  if a.p > b.p then (increase_precision b a.p).map (fun b' => (a, b'))
  else if a.p < b.p then (increase_precision a b.p).map (fun a' => (a', b))
  else some (a, b)

/-- … with the two `assert`s -/
def equalize (a b : FPNum) : Option (FPNum × FPNum) :=
  let ab := eqExp a b
  if ab.1.e != ab.2.e then none            -- assert(a.e == b.e)
  else match eqPrec ab.1 ab.2 with
    | none => none
    | some ab' => if ab'.1.p != ab'.2.p then none else some ab'    -- assert(a.p == b.p)

def compare (self bref : FPNum) : Option Int := do
  if self.nan || bref.nan then return 0
  if self.infinity && bref.infinity && self.s == bref.s then return 0
  if self.infinity && bref.infinity && self.s != bref.s then return 1
  if self.infinity || bref.infinity then
    if self.infinity then return self.s else return -bref.s
  let a ← mk4 self.s self.e self.m self.p
  let b ← mk4 bref.s bref.e bref.m bref.p
  let (a, b) ← equalize a b
  if a.m == 0 && b.m == 0 then return 0      -- +0 and -0 denote the same number (repo commit fc3735b)
  let abs_cmp : Int := if a.m == b.m then 0 else if a.m > b.m then 1 else -1
  if a.s == 1 && b.s == 1 then return abs_cmp
  else if a.s == -1 && b.s == -1 then return -abs_cmp
  else if a.s == -1 && b.s == 1 then return -1
  else if a.s == 1 && b.s == -1 then return 1
  else none                           -- raise Exception()

def add (self bref : FPNum) : Option FPNum := do
  if self.nan || bref.nan then return ← mk4 self.s self.e (-1) 0
  if self.infinity && bref.infinity && self.s * bref.s == -1 then return ← mk4 self.s self.e (-1) 0
  if self.infinity || bref.infinity then
    if self.infinity then return self.copy else return bref.copy
  let a ← mk4 self.s self.e self.m self.p
  let b ← mk4 bref.s bref.e bref.m bref.p
  let (a, b) ← equalize a b
  if (a.s == 1 && b.s == 1) || (a.s == -1 && b.s == -1) then
    mk4 a.s a.e (a.m + b.m) a.p
  else if a.s == 1 && b.s == -1 then
    if a.m > b.m then mk4 a.s a.e (a.m - b.m) a.p else mk4 b.s a.e (b.m - a.m) a.p
  else if a.s == -1 && b.s == 1 then
    if a.m > b.m then mk4 a.s a.e (a.m - b.m) a.p else mk4 b.s a.e (b.m - a.m) a.p
  else none                           -- UnboundLocalError: s

def sub (self bref : FPNum) : Option FPNum := do
  if self.nan || bref.nan then return ← mk4 self.s self.e (-1) 0
  if self.infinity && bref.infinity && self.s * bref.s == 1 then return ← mk4 self.s self.e (-1) 0
  if self.infinity || bref.infinity then
    if self.infinity then return self.copy
    if bref.infinity then return ← mk4 (bref.s * -1) bref.e 0 0
  let b ← mk4 (bref.s * -1) bref.e bref.m bref.p
  self.add b

def mul (self b : FPNum) : Option FPNum := do
  if self.nan || b.nan then return ← mk4 self.s self.e (-1) 0
  if self.infinity || b.infinity then return ← mk4 (self.s * b.s) self.e 0 0
  mk4 (self.s * b.s) (self.e + b.e) (self.m * b.m) (self.p * b.p)

def abs (x : FPNum) : Option FPNum := mk4 1 x.e x.m x.p
def neg (x : FPNum) : Option FPNum := mk4 (x.s * -1) x.e x.m x.p
def div2 (x : FPNum) (n : Int) : Option FPNum := mk4 x.s x.e x.m (Py.shlT x.p n)

/-- `reducePrecision(prec)`: `while (p < self.p): self.p >>= 1; self.m >>= 1` -/
def truncLoop : Nat → Int → Int → Int → Option (Int × Int)
  | 0, _, _, _ => none
  | f+1, p, m, sp => if p < sp then truncLoop f p (Py.shr m 1) (Py.shr sp 1) else some (m, sp)

def reducePrecision (x : FPNum) (prec : Int) : Option FPNum := do
  let p := Py.shlT 1 prec
  if p < x.p then
    let (m, sp) ← truncLoop (x.p.toNat + 1) p x.m x.p
    return { x with m := m, p := sp, inexact := true }
  else return x

def unpack_ieee754_hp_parts (v : Int) : Int × Int × Int :=
  (Py.land (Py.shr v 15) 1, Py.land (Py.shr v 10) 0x1F, Py.land v (Py.shl 1 10 - 1))
def unpack_ieee754_sp_parts (v : Int) : Int × Int × Int :=
  (Py.land (Py.shr v 31) 1, Py.land (Py.shr v 23) 0xFF, Py.land v (Py.shl 1 23 - 1))
def unpack_ieee754_dp_parts (v : Int) : Int × Int × Int :=
  (Py.land (Py.shr v 63) 1, Py.land (Py.shr v 52) 0x7FF, Py.land v (Py.shl 1 52 - 1))

/-- the `pack_ieee754_*_parts` are translated from the source (Gen/C12.lean) -/
def pack (fmt : Fmt) (s e m : Int) : Int :=
  match fmt with
  | .hp => Gen.C12.fpnum_pack_hp s e m
  | .sp => Gen.C12.fpnum_pack_sp s e m
  | .dp => Gen.C12.fpnum_pack_dp s e m

def from_ieee754_hp (v : Int) : Option FPNum := do
  let (s, e, m) := unpack_ieee754_hp_parts v
  let s : Int := if s == 0 then 1 else -1
  if e == 0x1F then return set_semp fresh s e m 0
  let (e, m) : Int × Int := if e == 0 then (-14, m) else (e - 15, Py.lor (Py.shl 1 10) m)
  let p := Py.shl 1 10
  adjust_semp (set_semp fresh s e m p)

def from_ieee754_sp (v : Int) : Option FPNum := do
  let (s, e, m) := unpack_ieee754_sp_parts v
  let s : Int := if s == 0 then 1 else -1
  if e == 0xFF then return set_semp fresh s e m 0
  let (e, m) : Int × Int := if e == 0 then (-126, m) else (e - 127, Py.lor (Py.shl 1 23) m)
  let p := Py.shl 1 23
  adjust_semp (set_semp fresh s e m p)

def from_ieee754_dp (v : Int) : Option FPNum := do
  let (s, e, m) := unpack_ieee754_dp_parts v
  let s : Int := if s == 0 then 1 else -1
  if e == 0x7FF then return set_semp fresh s e m 0
  let (e, m) : Int × Int := if e == 0 then (-1022, m) else (e - 1023, Py.lor (Py.shl 1 52) m)
  let p := Py.shl 1 52
  adjust_semp (set_semp fresh s e m p)

def from_ieee754 (fmt : Fmt) (v : Int) : Option FPNum :=
  match fmt with
  | .hp => from_ieee754_hp v
  | .sp => from_ieee754_sp v
  | .dp => from_ieee754_dp v

/-- `while (p > p_std): p >>= 1; m >>= 1` -/
def stdDownLoop : Nat → Int → Int → Int → Option (Int × Int)
  | 0, _, _, _ => none
  | f+1, pstd, m, p => if p > pstd then stdDownLoop f pstd (Py.shr m 1) (Py.shr p 1) else some (m, p)

/-- `while (p < p_std): p <<= 1; m <<= 1` -/
def stdUpLoop : Nat → Int → Int → Int → Option (Int × Int)
  | 0, _, _, _ => none
  | f+1, pstd, m, p => if p < pstd then stdUpLoop f pstd (Py.shl m 1) (Py.shl p 1) else some (m, p)

def convert (x : FPNum) (fmt : Fmt) : Option Int := do
  let mut s := x.s
  let mut e := x.e
  let mut m := x.m
  let mut p := x.p
  s := if s > 0 then 0 else 1
  -- deal with special cases
  if x.infinity || x.nan then
    match fmt with
    | .hp => return pack .hp (if x.nan then 0 else s) 0x1F (if x.nan then IEEE754_HP_NAN_MANTISA else IEEE754_HP_INF_MANTISA)
    | .sp => return pack .sp (if x.nan then 0 else s) 0xFF (if x.nan then IEEE754_SP_NAN_MANTISA else IEEE754_SP_INF_MANTISA)
    | .dp => return pack .dp (if x.nan then 0 else s) 0x7FF (if x.nan then IEEE754_DP_NAN_MANTISA else IEEE754_DP_INF_MANTISA)
  if m == 0 then return pack fmt s 0 0
  let (e_bias, e_mask, p_std) : Int × Int × Int :=
    match fmt with
    | .hp => (15, 0x1F, Py.shl 1 10)
    | .sp => (127, 0xFF, Py.shl 1 23)
    | .dp => (1023, 0x7FF, Py.shl 1 52)
  if e < -(e_bias - 1) then
    -- subnormal: `while (e < -(e_bias-1)): e += 1; p = p << 1`, exactly (−(e_bias−1) − e) iterations
    p := Py.shl p (-(e_bias - 1) - e).toNat
    e := 0
  else
    if e == -(e_bias - 1) && p > m then e := 0
    else e := e + e_bias
  if e < 0 then
    e := 0
    m := 0
  else if e ≥ e_mask then
    e := e_mask
    m := 0
  else
    if e == 0 then pure ()
    else
      if p > m then
        m := Py.shl m 1
        e := e - 1
      if m ≥ Py.shl p 1 then
        p := Py.shl p 1
        e := e + 1
      if Py.land m p == 0 then none        -- assert(m & p)
      m := Py.lxor m p
    let (m1, p1) ← stdDownLoop (p.toNat + 1) p_std m p
    let (m2, p2) ← stdUpLoop (p_std.toNat + 1) p_std m1 p1
    m := m2
    p := p2
  return pack fmt s e m

/-- `adjust_sem(s, e, m)` with a float `m` (exact dyadic), as called by `convert_float_to_semp` -/
def fracLoop : Nat → Dy → Int → Option (Dy × Int)
  | 0, _, _ => none
  | f+1, m, p => if (m.subInt m.trunc).gtZero then fracLoop f (m.scale 1) (p * 2) else some (m, p)

def halveLoop : Nat → Dy → Int → Option (Dy × Int)
  | 0, _, _ => none
  | f+1, m, e => if m.geInt 2 then halveLoop f (m.scale (-1)) (e + 1) else some (m, e)

def doubleLoop : Nat → Dy → Int → Option (Dy × Int)
  | 0, _, _ => none
  | f+1, m, e => if m.ltInt 1 then doubleLoop f (m.scale 1) (e - 1) else some (m, e)

def adjust_sem (x : FPNum) (s e : Int) (m : Dy) : Option FPNum := do
  let x := { x with s := s, e := e, p := 1 }
  if m.isZero then return { x with m := 0 }
  let fuel := m.n.natAbs.log2 + m.k.natAbs + 2
  let mut e := e
  let mut m := m
  if m.geInt 2 then
    let (m1, e1) ← halveLoop fuel m e
    m := m1; e := e1
  else if m.ltInt 1 then
    let (m1, e1) ← doubleLoop fuel m e     -- a negative m never leaves this loop (fuel runs out = diverges)
    m := m1; e := e1
  let (m2, p2) ← fracLoop (m.k.natAbs + 2) m 1
  return { x with e := e, m := m2.trunc, p := p2 }

/-- `FPNum(v)` for a Python float -/
def convert_float_to_semp (v : PyFloat) : Option FPNum :=
  match v with
  | .inf neg => some { fresh with s := if neg then -1 else 1, e := 0, m := 0, p := 0, infinity := true, nan := false }
  | .nan => some { fresh with s := 1, e := 0, m := -1, p := 0, infinity := false, nan := true }
  | .fin neg mag => do
    -- s, e, m, p = 1, 0, v, 1 ; −0.0 detected with copysign ; `elif (v < 0): s, m = -s, -m`
    let s : Int := if neg then -1 else 1
    let x ← adjust_sem fresh s 0 mag
    adjust_semp x

end FPNum
end Helper
