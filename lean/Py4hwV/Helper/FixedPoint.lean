import Py4hwV.Helper.Dyadic
import Py4hwV.Gen.Helpers
/-
  C12 — model of class `FixedPoint` (py4hw/helper.py:461-560) on its raw encoding `v` and format `(sw, iw, fw)`.
  `signExtend` is the definition generated from the source (`Gen.Helper.signExtend`).
-/
namespace Helper
namespace FixedPoint

structure Fmt where
  sw : Int
  iw : Int
  fw : Int
deriving Repr, DecidableEq

def width (f : Fmt) : Int := f.sw + f.iw + f.fw
def mask (f : Fmt) : Int := Py.shlT 1 (width f) - 1

/-- `intToFixedPoint(v)`; `none` = raises -/
def intToFixedPoint (f : Fmt) (v : Int) : Option Int :=
  if v < 0 && f.sw == 0 then none
  else if f.iw < 0 then none                          -- 1 << iw: ValueError negative shift count
  else
    let maxv := Py.shrT (Py.shlT 1 f.iw) 1            -- (1 << iw) >> 1 = 2**(iw-1); 0 when there are no integer bits (repo commit b11b379;
                                                      --   before it: `1 << (iw-1)`, which raised for iw = 0)
    if v > maxv then none else some (Py.land (Py.shlT v f.fw) (mask f))

/-- `floatToFixedPoint(v)`: `int(v * (1 << fw)) & mask` -/
def floatToFixedPoint (f : Fmt) (v : PyFloat) : Option Int :=
  match v with
  | .fin neg mag =>
    if neg && !mag.isZero && f.sw == 0 then none
    else
      let t := (mag.scale f.fw).trunc
      some (Py.land (if neg then -t else t) (mask f))
  | _ => none                                          -- int(inf) / int(nan) raise

/-- `add`, `sub`, `mult` on raw encodings (`self.v`, `b.v`).  Each of them first builds the result object with
    `FixedPoint(sw, iw, fw, 0)`, i.e. runs `intToFixedPoint(0)` (which raised for `iw = 0` before repo commit b11b379). -/
def add (f : Fmt) (a b : Int) : Option Int := do
  let _ ← intToFixedPoint f 0
  return Py.land (a + b) (mask f)
def sub (f : Fmt) (a b : Int) : Option Int := do
  let _ ← intToFixedPoint f 0
  return Py.land (a - b) (mask f)
def mult (f : Fmt) (a b : Int) : Option Int := do
  let _ ← intToFixedPoint f 0
  let w := width f
  if w < 1 then none                                  -- signExtend(v, 0, 0): `v >> (w-1)` raises ValueError
  let av := Gen.Helper.signExtend a w (w * 2)
  let bv := Gen.Helper.signExtend b w (w * 2)
  return Py.land (Py.shrT (av * bv) f.fw) (mask f)

/-- `toFloatingPoint()` as an exact dyadic -/
def toFloatingPoint (f : Fmt) (v : Int) : PyFloat :=
  if Py.land (Py.shrT v (f.iw + f.fw)) 1 == 1 then
    let m := mask f
    let v' := Py.land (Py.lxor v m + 1) m
    .fin (v' != 0) ⟨v', -f.fw⟩                        -- `-v / (1<<fw)`: −0 / x = 0.0 (int zero has no sign)
  else .fin (decide (v < 0)) ⟨v.natAbs, -f.fw⟩

end FixedPoint
end Helper
