import Py4hwV.Verilog.Sem
/-
  C03 — static well-formedness of an emitted Verilog design (closed, legal, single-driver).

  `WF.check env : List Err` is the executable checker run on the parsed text of the real emitter;
  `WF.WellFormed env : Prop` states the same rules declaratively (membership / count / first-match lookup / inductive
  occurrence relations).  `Props/C03.lean` proves `check env = [] ↔ WellFormed env` rule by rule.

  An environment is the list of emitted modules plus the *declared external black boxes* (header only: name, parameters,
  ports); nothing else may be instantiated.

  Rules (per module `m`, `all = mods ++ ext`):
    R-mod      every module name occurs exactly once in `all` and is not a reserved word
    R-once     every name of `m`'s name space (ports, parameters, wire/reg/integer/memory declarations, instance names)
               is declared exactly once
    R-kw       no declared name and no identifier used in `m` is an IEEE 1364-2005 reserved word
    R-decl     every identifier used (expressions, lvalues, index expressions, event controls, port connections,
               parameter overrides, declaration initialisers) is declared in `m`
    R-inst     every instance binds (first match, as the tools and `Run.flatten` do) to a module of `all`; it connects by
               name only ports that module has, each at most once, every input port of the module is connected, the
               self-determined width (IEEE 1364-2005 §5.4, `V.selfW`) of the connected expression equals the port width,
               output/inout ports are connected to lvalues; parameter overrides name parameters of the module, once each
    R-pdef     every parameter is declared with a default value: a constant expression over the module's parameters
    R-drv      every net (wire, non-reg output) has exactly one driver and it is a continuous assign or an instance
               output; an input port and a parameter have no driver inside; a variable (reg, output reg, integer,
               memory) is only assigned procedurally (always / initial) and never by a continuous assign or an instance
               output; inout nets may have several net drivers but no procedural one
-/
namespace V.WF

/-- IEEE Std 1364-2005 Annex B, complete keyword list -/
def keywords : List String := [
  "always", "and", "assign", "automatic", "begin", "buf", "bufif0", "bufif1", "case", "casex", "casez", "cell", "cmos",
  "config", "deassign", "default", "defparam", "design", "disable", "edge", "else", "end", "endcase", "endconfig",
  "endfunction", "endgenerate", "endmodule", "endprimitive", "endspecify", "endtable", "endtask", "event", "for", "force",
  "forever", "fork", "function", "generate", "genvar", "highz0", "highz1", "if", "ifnone", "incdir", "include", "initial",
  "inout", "input", "instance", "integer", "join", "large", "liblist", "library", "localparam", "macromodule", "medium",
  "module", "nand", "negedge", "nmos", "nor", "noshowcancelled", "not", "notif0", "notif1", "or", "output", "parameter",
  "pmos", "posedge", "primitive", "pull0", "pull1", "pulldown", "pullup", "pulsestyle_onevent", "pulsestyle_ondetect",
  "rcmos", "real", "realtime", "reg", "release", "repeat", "rnmos", "rpmos", "rtran", "rtranif0", "rtranif1", "scalared",
  "showcancelled", "signed", "small", "specify", "specparam", "strong0", "strong1", "supply0", "supply1", "table", "task",
  "time", "tran", "tranif0", "tranif1", "tri", "tri0", "tri1", "triand", "trior", "trireg", "unsigned", "use", "uwire",
  "vectored", "wait", "wand", "weak0", "weak1", "while", "wire", "wor", "xnor", "xor"]

def isKeyword (n : String) : Bool := decide (n ∈ keywords)

/-! ### identifier occurrences (executable) -/
def exprIds : Expr → List String
  | .id n => [n]
  | .num _ _ _ _ => []
  | .un _ e => exprIds e
  | .bin _ a b => exprIds a ++ exprIds b
  | .tern c a b => exprIds c ++ (exprIds a ++ exprIds b)
  | .cat a b => exprIds a ++ exprIds b
  | .cat1 a => exprIds a
  | .rep _ e => exprIds e
  | .idx n i => n :: exprIds i
  | .rng n _ _ => [n]
  | .sgn e => exprIds e
  | .usg e => exprIds e

def lhsIds : LHS → List String
  | .lid n => [n]
  | .lidx n i => n :: exprIds i
  | .lrng n _ _ => [n]

/-- every identifier read or written by a statement -/
def stmtIds : Stmt → List String
  | .skip => []
  | .seq a b => stmtIds a ++ stmtIds b
  | .ife c t e => exprIds c ++ (stmtIds t ++ stmtIds e)
  | .nba l e => lhsIds l ++ exprIds e
  | .ba l e => lhsIds l ++ exprIds e
  | .case e ch => exprIds e ++ stmtIds ch
  | .arm v s r => exprIds v ++ (stmtIds s ++ stmtIds r)
  | .dflt s => stmtIds s

/-- names assigned by a statement (procedural drivers) -/
def stmtTargets : Stmt → List String
  | .skip => []
  | .seq a b => stmtTargets a ++ stmtTargets b
  | .ife _ t e => stmtTargets t ++ stmtTargets e
  | .nba l _ => [l.name]
  | .ba l _ => [l.name]
  | .case _ ch => stmtTargets ch
  | .arm _ s r => stmtTargets s ++ stmtTargets r
  | .dflt s => stmtTargets s

def eventIds : Event → List String
  | .pos c => [c] | .neg c => [c] | .star => []

def optIds : Option Expr → List String
  | some e => exprIds e | none => []

/-- identifiers an item uses in the scope of the module that contains it -/
def itemIds : Item → List String
  | .wire _ _ => []
  | .reg _ _ init => optIds init
  | .mem _ _ _ _ => []
  | .int _ init => optIds init
  | .assign l e => lhsIds l ++ exprIds e
  | .always ev s => eventIds ev ++ stmtIds s
  | .initial s => stmtIds s
  | .inst _ _ ps cs => ps.flatMap (fun p => exprIds p.2) ++ cs.flatMap (fun c => exprIds c.2)

def uses (m : Module) : List String := m.items.flatMap itemIds

/-! ### declarations -/
inductive Kind where
  | inp | outNet | outReg | inout | param | wire | reg | mem | int
deriving Repr, DecidableEq, Inhabited

structure Decl where
  name : String
  kind : Kind
  width : Nat
  memLen : Option Nat := none
deriving Repr, Inhabited

def portKind (p : Port) : Kind :=
  match p.dir with
  | .inp => .inp
  | .out => if p.isReg then .outReg else .outNet
  | .inout => .inout

def portDecl (p : Port) : Decl := { name := p.name, kind := portKind p, width := p.width }
def paramDecl (n : String) : Decl := { name := n, kind := .param, width := 32 }

def itemDecls : Item → List Decl
  | .wire n w => [{ name := n, kind := .wire, width := w }]
  | .reg n w _ => [{ name := n, kind := .reg, width := w }]
  | .mem n w lo hi => [{ name := n, kind := .mem, width := w, memLen := some (max lo hi + 1) }]
  | .int n _ => [{ name := n, kind := .int, width := 32 }]
  | _ => []

def decls (m : Module) : List Decl :=
  m.ports.map portDecl ++ (m.params.map paramDecl ++ m.items.flatMap itemDecls)

def declNames (m : Module) : List String := (decls m).map (·.name)

def itemInst : Item → List String
  | .inst _ i _ _ => [i]
  | _ => []

def instNames (m : Module) : List String := m.items.flatMap itemInst

/-- the module's name space: declared objects and instance names share it (IEEE 1364-2005 §4.11) -/
def names (m : Module) : List String := declNames m ++ instNames m

/-- static reader for `V.selfW` (only `info` matters for widths) -/
def declInfo (d : Decl) : SigInfo :=
  { width := d.width, signed := decide (d.kind = .int) || decide (d.kind = .param), memLen := d.memLen }

def rdOf (m : Module) : Rd :=
  { info := fun n => ((decls m).find? (fun d => d.name == n)).map declInfo,
    val := fun _ => BV.x 1, mem := fun _ _ => BV.x 1 }

/-! ### environment, signatures -/
structure Env where
  mods : Design
  ext : List Module := []      -- declared external black boxes: only the header is looked at
  /-- default values of the parameter declarations `parameter P = e` of the emitted modules, keyed by (module, parameter).
      (`V.Module.params` of the shared syntax keeps only the names; the defaults travel beside the design.) -/
  pdefs : List ((String × String) × Expr) := []

def Env.all (e : Env) : List Module := e.mods ++ e.ext

/-- first module with that name: "binding an instance to the first emitted body" -/
def lookup (all : List Module) (n : String) : Option Module := all.find? (fun m => m.name == n)

structure PSig where
  dir : Dir
  width : Nat
  name : String
deriving Repr, DecidableEq, Inhabited

/-- what an instantiating module can see of a module: parameter names and port names / directions / widths, in order -/
structure Sig where
  params : List String
  ports : List PSig
deriving Repr, DecidableEq, Inhabited

def psigOf (p : Port) : PSig := { dir := p.dir, width := p.width, name := p.name }
def sigOf (m : Module) : Sig := { params := m.params, ports := m.ports.map psigOf }

def Sig.port (s : Sig) (n : String) : Option PSig := s.ports.find? (fun p => p.name == n)

def asLvalue : Expr → Option LHS
  | .id n => some (.lid n)
  | .idx n i => some (.lidx n i)
  | .rng n hi lo => some (.lrng n hi lo)
  | _ => none

/-! ### errors -/
inductive Err where
  | dupModule (n : String)
  | reservedModule (n : String)
  | dupDecl (m n : String)
  | reserved (m n : String)
  | undeclared (m n : String)
  | noModule (m inst modName : String)
  | noPort (m inst port : String)
  | dupConn (m inst port : String)
  | unconnected (m inst port : String)
  | widthMismatch (m inst port : String) (have_ want : Nat)
  | notLvalue (m inst port : String)
  | noParam (m inst p : String)
  | dupParam (m inst p : String)
  | driverCount (m n : String) (k : Nat)          -- a net with k ≠ 1 drivers
  | driven (m n : String)                         -- an input port / parameter driven inside
  | procOnNet (m n : String)                      -- a net assigned in an always / initial block
  | netDriverOnVar (m n : String)                 -- a reg / integer / memory driven by assign or an instance output
  | paramNoDefault (m p : String)                 -- `parameter P` without `= constant_expression` (IEEE 1364-2005 A.2.1.1)
deriving Repr, DecidableEq, Inhabited

def Err.msg : Err → String
  | .dupModule n => s!"dupModule|{n}"
  | .reservedModule n => s!"reservedModule|{n}"
  | .dupDecl m n => s!"dupDecl|{m}|{n}"
  | .reserved m n => s!"reserved|{m}|{n}"
  | .undeclared m n => s!"undeclared|{m}|{n}"
  | .noModule m i mn => s!"noModule|{m}|{i}|{mn}"
  | .noPort m i p => s!"noPort|{m}|{i}|{p}"
  | .dupConn m i p => s!"dupConn|{m}|{i}|{p}"
  | .unconnected m i p => s!"unconnected|{m}|{i}|{p}"
  | .widthMismatch m i p h w => s!"widthMismatch|{m}|{i}|{p}|{h}|{w}"
  | .notLvalue m i p => s!"notLvalue|{m}|{i}|{p}"
  | .noParam m i p => s!"noParam|{m}|{i}|{p}"
  | .dupParam m i p => s!"dupParam|{m}|{i}|{p}"
  | .driverCount m n k => s!"driverCount|{m}|{n}|{k}"
  | .driven m n => s!"driven|{m}|{n}"
  | .procOnNet m n => s!"procOnNet|{m}|{n}"
  | .netDriverOnVar m n => s!"netDriverOnVar|{m}|{n}"
  | .paramNoDefault m p => s!"paramNoDefault|{m}|{p}"

/-- one error unless the condition holds -/
def need (c : Bool) (e : Err) : List Err := if c then [] else [e]

/-! ### R-mod -/
def modErrs (all : List Module) (m : Module) : List Err :=
  need (decide ((all.map (·.name)).count m.name = 1)) (.dupModule m.name) ++
  need (!isKeyword m.name) (.reservedModule m.name)

/-! ### R-once, R-kw, R-decl -/
def onceErrs (m : Module) : List Err :=
  (names m).flatMap fun n => need (decide ((names m).count n = 1)) (.dupDecl m.name n)

def kwErrs (m : Module) : List Err :=
  (names m ++ uses m).flatMap fun n => need (!isKeyword n) (.reserved m.name n)

def declErrs (m : Module) : List Err :=
  (uses m).flatMap fun n => need (decide (n ∈ declNames m)) (.undeclared m.name n)

/-! ### R-inst -/
def connErrs (mn : String) (rd : Rd) (iname : String) (sg : Sig) (c : String × Expr) : List Err :=
  match sg.port c.1 with
  | none => [.noPort mn iname c.1]
  | some pt =>
    need (decide (selfW rd c.2 = pt.width)) (.widthMismatch mn iname c.1 (selfW rd c.2) pt.width) ++
    need (decide (pt.dir = .inp) || (asLvalue c.2).isSome) (.notLvalue mn iname c.1)

/-- everything the instantiating side checks depends on the target module only through its signature -/
def instSigErrs (mn : String) (rd : Rd) (iname : String) (sg : Sig) (ps cs : List (String × Expr)) : List Err :=
  cs.flatMap (connErrs mn rd iname sg) ++
  ((cs.map (·.1)).flatMap fun pn => need (decide ((cs.map (·.1)).count pn = 1)) (.dupConn mn iname pn)) ++
  (sg.ports.flatMap fun pt => need (decide (pt.dir ≠ .inp) || decide (pt.name ∈ cs.map (·.1))) (.unconnected mn iname pt.name)) ++
  ((ps.map (·.1)).flatMap fun pn => need (decide (pn ∈ sg.params)) (.noParam mn iname pn)) ++
  ((ps.map (·.1)).flatMap fun pn => need (decide ((ps.map (·.1)).count pn = 1)) (.dupParam mn iname pn))

def instErrs (all : List Module) (m : Module) : Item → List Err
  | .inst mn iname ps cs =>
    match lookup all mn with
    | none => [.noModule m.name iname mn]
    | some cm => instSigErrs m.name (rdOf m) iname (sigOf cm) ps cs
  | _ => []

/-! ### R-drv -/
inductive DK where
  | cont | inst | proc
deriving Repr, DecidableEq, Inhabited

def connDrivers (sg : Sig) (c : String × Expr) : List (String × DK) :=
  match sg.port c.1, asLvalue c.2 with
  | some pt, some l => if pt.dir = .inp then [] else [(l.name, .inst)]
  | _, _ => []

def itemDrivers (all : List Module) : Item → List (String × DK)
  | .assign l _ => [(l.name, .cont)]
  | .always _ s => (stmtTargets s).map fun n => (n, .proc)
  | .initial s => (stmtTargets s).map fun n => (n, .proc)
  | .inst mn _ _ cs =>
    match lookup all mn with
    | none => []
    | some cm => cs.flatMap (connDrivers (sigOf cm))
  | _ => []

/-- the multiset of drivers of a module's objects -/
def drivers (all : List Module) (m : Module) : List (String × DK) := m.items.flatMap (itemDrivers all)

def drvOf (drv : List (String × DK)) (n : String) : List DK := (drv.filter fun d => d.1 == n).map (·.2)

def isNetDrv : DK → Bool
  | .cont => true | .inst => true | .proc => false

def driverErrs (mn : String) (drv : List (String × DK)) (d : Decl) : List Err :=
  let ks := drvOf drv d.name
  match d.kind with
  | .inp => need ks.isEmpty (.driven mn d.name)
  | .param => need ks.isEmpty (.driven mn d.name)
  | .wire => need (decide (ks.length = 1)) (.driverCount mn d.name ks.length) ++ need (ks.all isNetDrv) (.procOnNet mn d.name)
  | .outNet => need (decide (ks.length = 1)) (.driverCount mn d.name ks.length) ++ need (ks.all isNetDrv) (.procOnNet mn d.name)
  | .inout => need (ks.all isNetDrv) (.procOnNet mn d.name)
  | .outReg => need (ks.all fun k => !isNetDrv k) (.netDriverOnVar mn d.name)
  | .reg => need (ks.all fun k => !isNetDrv k) (.netDriverOnVar mn d.name)
  | .mem => need (ks.all fun k => !isNetDrv k) (.netDriverOnVar mn d.name)
  | .int => need (ks.all fun k => !isNetDrv k) (.netDriverOnVar mn d.name)

/-! ### the checker -/
/-- rules of a module header (also applied to the declared black boxes) -/
def headerErrs (all : List Module) (m : Module) : List Err :=
  modErrs all m ++ onceErrs m

/-- rules of a module body -/
def bodyErrs (all : List Module) (m : Module) : List Err :=
  kwErrs m ++ declErrs m ++ m.items.flatMap (instErrs all m) ++ (decls m).flatMap (driverErrs m.name (drivers all m))

/-! ### R-pdef: every parameter of an emitted module is declared with a default value, a constant expression over the
   module's parameters (a parameter chain `parameter A = 2, parameter B = A + 1` is fine) that uses no reserved word -/
def defaultOf (env : Env) (m p : String) : Option Expr :=
  (env.pdefs.find? fun d => d.1.1 == m && d.1.2 == p).map (·.2)

def pdefErrs (env : Env) (m : Module) : List Err :=
  m.params.flatMap fun p =>
    match defaultOf env m.name p with
    | none => [.paramNoDefault m.name p]
    | some e => (exprIds e).flatMap fun n =>
        need (decide (n ∈ m.params)) (.undeclared m.name n) ++ need (!isKeyword n) (.reserved m.name n)

def checkE (env : Env) : List Err :=
  env.all.flatMap (headerErrs env.all) ++ env.mods.flatMap (bodyErrs env.all) ++ env.mods.flatMap (pdefErrs env)

/-- `WF.check` of DESIGN.md: rendered error list of a closed design (no black boxes; a bare `V.Design` carries no parameter
    defaults, so a module with parameters is reported `paramNoDefault` here — the harness always uses `checkE` with `pdefs`) -/
def check (d : Design) : List String := (checkE { mods := d }).map Err.msg

/-! ### the same rules, declaratively -/

/-- `n` occurs in expression `e` -/
inductive ExprUses : Expr → String → Prop
  | id (n) : ExprUses (.id n) n
  | un {op e n} : ExprUses e n → ExprUses (.un op e) n
  | binL {op a b n} : ExprUses a n → ExprUses (.bin op a b) n
  | binR {op a b n} : ExprUses b n → ExprUses (.bin op a b) n
  | ternC {c a b n} : ExprUses c n → ExprUses (.tern c a b) n
  | ternA {c a b n} : ExprUses a n → ExprUses (.tern c a b) n
  | ternB {c a b n} : ExprUses b n → ExprUses (.tern c a b) n
  | catL {a b n} : ExprUses a n → ExprUses (.cat a b) n
  | catR {a b n} : ExprUses b n → ExprUses (.cat a b) n
  | cat1 {a n} : ExprUses a n → ExprUses (.cat1 a) n
  | rep {k e n} : ExprUses e n → ExprUses (.rep k e) n
  | idxN (n i) : ExprUses (.idx n i) n
  | idxI {m i n} : ExprUses i n → ExprUses (.idx m i) n
  | rng (n hi lo) : ExprUses (.rng n hi lo) n
  | sgn {e n} : ExprUses e n → ExprUses (.sgn e) n
  | usg {e n} : ExprUses e n → ExprUses (.usg e) n

inductive LhsUses : LHS → String → Prop
  | name (l : LHS) : LhsUses l l.name
  | idx {m i n} : ExprUses i n → LhsUses (.lidx m i) n

/-- `n` is read or written somewhere in statement `s` -/
inductive StmtUses : Stmt → String → Prop
  | seqL {a b n} : StmtUses a n → StmtUses (.seq a b) n
  | seqR {a b n} : StmtUses b n → StmtUses (.seq a b) n
  | ifC {c t e n} : ExprUses c n → StmtUses (.ife c t e) n
  | ifT {c t e n} : StmtUses t n → StmtUses (.ife c t e) n
  | ifE {c t e n} : StmtUses e n → StmtUses (.ife c t e) n
  | nbaL {l e n} : LhsUses l n → StmtUses (.nba l e) n
  | nbaR {l e n} : ExprUses e n → StmtUses (.nba l e) n
  | baL {l e n} : LhsUses l n → StmtUses (.ba l e) n
  | baR {l e n} : ExprUses e n → StmtUses (.ba l e) n
  | caseE {e ch n} : ExprUses e n → StmtUses (.case e ch) n
  | caseC {e ch n} : StmtUses ch n → StmtUses (.case e ch) n
  | armV {v s r n} : ExprUses v n → StmtUses (.arm v s r) n
  | armS {v s r n} : StmtUses s n → StmtUses (.arm v s r) n
  | armR {v s r n} : StmtUses r n → StmtUses (.arm v s r) n
  | dflt {s n} : StmtUses s n → StmtUses (.dflt s) n

/-- `n` is the target of an assignment somewhere in `s` -/
inductive StmtAssigns : Stmt → String → Prop
  | seqL {a b n} : StmtAssigns a n → StmtAssigns (.seq a b) n
  | seqR {a b n} : StmtAssigns b n → StmtAssigns (.seq a b) n
  | ifT {c t e n} : StmtAssigns t n → StmtAssigns (.ife c t e) n
  | ifE {c t e n} : StmtAssigns e n → StmtAssigns (.ife c t e) n
  | nba (l e) : StmtAssigns (.nba l e) l.name
  | ba (l e) : StmtAssigns (.ba l e) l.name
  | caseC {e ch n} : StmtAssigns ch n → StmtAssigns (.case e ch) n
  | armS {v s r n} : StmtAssigns s n → StmtAssigns (.arm v s r) n
  | armR {v s r n} : StmtAssigns r n → StmtAssigns (.arm v s r) n
  | dflt {s n} : StmtAssigns s n → StmtAssigns (.dflt s) n

/-- `n` is used by item `it` in the scope of the enclosing module -/
inductive ItemUses : Item → String → Prop
  | regInit {r w e n} : ExprUses e n → ItemUses (.reg r w (some e)) n
  | intInit {r e n} : ExprUses e n → ItemUses (.int r (some e)) n
  | assignL {l e n} : LhsUses l n → ItemUses (.assign l e) n
  | assignR {l e n} : ExprUses e n → ItemUses (.assign l e) n
  | event {ev s n} : n ∈ eventIds ev → ItemUses (.always ev s) n
  | always {ev s n} : StmtUses s n → ItemUses (.always ev s) n
  | initial {s n} : StmtUses s n → ItemUses (.initial s) n
  | param {mn i ps cs p n} : p ∈ ps → ExprUses p.2 n → ItemUses (.inst mn i ps cs) n
  | conn {mn i ps cs c n} : c ∈ cs → ExprUses c.2 n → ItemUses (.inst mn i ps cs) n

def Used (m : Module) (n : String) : Prop := ∃ it ∈ m.items, ItemUses it n

/-- one port connection `.pn(e)` against the signature of the bound module -/
def ConnWF (rd : Rd) (sg : Sig) (c : String × Expr) : Prop :=
  ∃ pt, sg.port c.1 = some pt ∧ selfW rd c.2 = pt.width ∧ (pt.dir ≠ .inp → ∃ l, asLvalue c.2 = some l)

structure InstSigWF (rd : Rd) (sg : Sig) (ps cs : List (String × Expr)) : Prop where
  conns : ∀ c ∈ cs, ConnWF rd sg c
  conn_once : ∀ pn ∈ cs.map (·.1), (cs.map (·.1)).count pn = 1
  inputs_connected : ∀ pt ∈ sg.ports, pt.dir = .inp → pt.name ∈ cs.map (·.1)
  params : ∀ pn ∈ ps.map (·.1), pn ∈ sg.params
  param_once : ∀ pn ∈ ps.map (·.1), (ps.map (·.1)).count pn = 1

def InstWF (all : List Module) (m : Module) : Item → Prop
  | .inst mn _ ps cs => ∃ cm, lookup all mn = some cm ∧ InstSigWF (rdOf m) (sigOf cm) ps cs
  | _ => True

/-- driver discipline of one declared object, `ks` = kinds of all its drivers -/
def DriverWF (ks : List DK) : Kind → Prop
  | .inp => ks = []
  | .param => ks = []
  | .wire => ks.length = 1 ∧ ∀ k ∈ ks, k ≠ .proc
  | .outNet => ks.length = 1 ∧ ∀ k ∈ ks, k ≠ .proc
  | .inout => ∀ k ∈ ks, k ≠ .proc
  | .outReg => ∀ k ∈ ks, k = .proc
  | .reg => ∀ k ∈ ks, k = .proc
  | .mem => ∀ k ∈ ks, k = .proc
  | .int => ∀ k ∈ ks, k = .proc

structure HeaderWF (all : List Module) (m : Module) : Prop where
  name_once : (all.map (·.name)).count m.name = 1
  name_not_reserved : m.name ∉ keywords
  declared_once : ∀ n ∈ names m, (names m).count n = 1

structure BodyWF (all : List Module) (m : Module) : Prop where
  not_reserved : ∀ n, (n ∈ names m ∨ Used m n) → n ∉ keywords
  used_declared : ∀ n, Used m n → ∃ d ∈ decls m, d.name = n
  insts : ∀ it ∈ m.items, InstWF all m it
  drivers : ∀ d ∈ decls m, DriverWF (drvOf (drivers all m) d.name) d.kind

/-- every parameter has a default, a constant expression over the module's own parameters without reserved words -/
def PDefWF (env : Env) (m : Module) : Prop :=
  ∀ p ∈ m.params, ∃ e, defaultOf env m.name p = some e ∧ ∀ n, ExprUses e n → n ∈ m.params ∧ n ∉ keywords

structure WellFormedE (env : Env) : Prop where
  headers : ∀ m ∈ env.all, HeaderWF env.all m
  bodies : ∀ m ∈ env.mods, BodyWF env.all m
  pdefs : ∀ m ∈ env.mods, PDefWF env m

/-- a closed design without black boxes -/
def WellFormed (d : Design) : Prop := WellFormedE { mods := d }

/-! ### second clause: modules emitted under one name are interchangeable -/
deriving instance BEq for Item
deriving instance BEq for Module

/-- differences between the interfaces of two modules (empty = same signature) -/
def sigDiff (a b : Module) : List String :=
  (if a.params = b.params then [] else [s!"params {a.params} vs {b.params}"]) ++
  ((sigOf a).ports.flatMap fun p =>
    match (sigOf b).port p.name with
    | none => [s!"port {p.name} only in first"]
    | some q => (if p.width = q.width then [] else [s!"port {p.name} width {p.width} vs {q.width}"]) ++
                (if p.dir = q.dir then [] else [s!"port {p.name} direction differs"])) ++
  ((sigOf b).ports.flatMap fun q =>
    match (sigOf a).port q.name with
    | none => [s!"port {q.name} only in second"]
    | some _ => []) ++
  (if (sigOf a).ports.map (·.name) = (sigOf b).ports.map (·.name) then [] else ["port order differs"])

def sameSig (a b : Module) : Bool := decide (sigOf a = sigOf b)

/-! ### model of the emitter's naming functions (rtl_generation.py:55-115, 157, 239-245, 52-53) -/
/-- HISTORICAL (before /repo commit a15e5f4): the two IEEE 1364-2005 keywords `isReservedVerilogKeyword` did not know.
    Only used by the labelled pre-fix counterexample in Props/C03.lean; the model of the current code is `isReservedRepo`. -/
def preFixMissing : List String := ["design", "uwire"]

/-- SystemVerilog-only words the emitter also prefixes (harmless for 1364-2005) -/
def repoSV : List String := [
  "accept_on","alias","always_comb","always_ff","always_latch","assert","assume","before","bind","bins","binsof","bit",
  "break","byte","chandle","checker","class","clocking","const","constraint","context","continue","cover","covergroup",
  "coverpoint","cross","dist","do","endclass","endchecker","endclocking","endgroup","endinterface","endpackage",
  "endprogram","endproperty","endsequence","enum","eventually","expect","export","extends","extern","final",
  "first_match","foreach","forkjoin","global","iff","inside","int","illegal_bins","ignore_bins","implies","import",
  "interface","intersect","join_any","join_none","let","local","logic","longint","matches","modport","new","nexttime",
  "null","package","packed","priority","program","property","protected","pure","rand","randc","randcase","randsequence",
  "ref","reject_on","restrict","return","s_always","s_eventually","s_nexttime","s_until","s_until_with","shortint",
  "shortreal","sequence","solve","static","string","strong","struct","super","sync_accept_on","sync_reject_on","tagged",
  "this","throughout","timeprecision","timeunit","type","typedef","union","unique","unique0","until","until_with",
  "untypted","var","virtual","void","wait_order","weak","wildcard","with","within"]

/-- `isReservedVerilogKeyword` as it is today: reserved95 ++ reserved2001 (= the 124 IEEE 1364-2005 words, checked against
    the source on every run by the harness) ++ reservedSV -/
def isReservedRepo (n : String) : Bool := isKeyword n || decide (n ∈ repoSV)

/-- the table before a15e5f4 (finding C03-keyword-table, fixed) -/
def isReservedRepoPreFix (n : String) : Bool := (isKeyword n && !decide (n ∈ preFixMissing)) || decide (n ∈ repoSV)
def getValidVerilogNamePreFix (n : String) : String := if isReservedRepoPreFix n then "reserved_" ++ n else n

def getValidVerilogName (n : String) : String := if isReservedRepo n then "reserved_" ++ n else n
def getPortName (n : String) : String := getValidVerilogName n
def localWireName (n : String) : String := "w_" ++ n
def getInstanceName (n : String) : String := "i_" ++ n

end V.WF
