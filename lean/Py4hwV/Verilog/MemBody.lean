/-
  C01 (memories) — a dedicated, self-contained reading of IEEE 1364-2005 for the hand-written "memory bodies" that
  py4hw/logic/storage.py returns from `verilogBody()` (AsynchronousMemory, SynchronousMemory, DualPortSynchronousMemory).
  The shared Verilog syntax/semantics (Verilog/Syntax|Sem|Run) has no reg ARRAYS; this file does not touch it.

  Fragment (what `harness/c01_mem.py` parses out of the REAL emitted module text):
    module header            input / output ports with widths, optional clock port
    (* attr *) reg [dw-1:0] mem [L:R];        ONE reg array (bounds as written)
    reg [w-1:0] name;                         scalar regs WITHOUT initial value
    always @(posedge clk) stmt                any number of blocks (source order)
    always @(*) stmt                          any number of blocks
    assign port = expr;
    stmt ::= lhs <= expr; | lhs = expr; | if (expr) stmt [else stmt] | begin stmt* end
    lhs  ::= name | mem[expr]
    expr ::= name | number | mem[expr] | !expr | expr == expr | expr + expr | expr % expr
    reg [w-1:0] name = value;                 scalar reg WITH initial value
    initial begin mem[i] = value; … end       power-up content of the array

  Semantics (cycle level, value-level x = `none`):
    * power-up: every cell of the array and every scalar reg is x (IEEE 1364-2005 §3.2.2/§6.2.1: a reg without initial value).
    * `if (c)`: the then-branch runs iff c is known and non-zero (§9.4: x/z is treated as false).
    * `mem[a]` with a unknown or outside the declared range reads x (§4.2.2? array word, out-of-range index: x); a write through
      such an address has no effect (§9.2.2 / §6.1.3: "if the index is out of bounds or x the assignment has no effect").
    * a BLOCKING assignment `=` updates its target at once; a NON-BLOCKING `<=` evaluates target address and right-hand side when it
      is executed and queues the update; at a positive clock edge every `always @(posedge clk)` block is executed (in the order given —
      IEEE leaves the order between blocks open, see `Body.swap`) on the settled pre-edge values, THEN all queued updates are
      applied in the order they were queued (§11.4 stratified queue: active events before NBA updates; §9.2.2).
    * `always @(*)` blocks are evaluated once per settle (the bodies in scope are idempotent: `Mem.async_pass_idem` in Props/C01Mem).
    * one simulator cycle (`poke inputs; clk(1)`): settle, positive edge, settle; the outputs are then observed with the inputs held.
    * every assignment truncates to the width of its target (reg width, word width `dw`, port width).
    * `a + b` is only in the fragment with an unsized decimal literal among its operands (the parser enforces it): the context is
      at least 32 bits wide, so with regs narrower than 32 bits the sum does not wrap; `a % b` is x for b = 0.
    * `reg … name = v;` and `initial begin mem[i] = v; … end` set the power-up content (IEEE 1364-2005 §6.2.1, §9.9.1).
-/
namespace Mem

abbrev Val := Option Nat

inductive Expr where
  | id (n : String)
  | num (v : Nat)
  | rd (a : Expr)
  | lnot (a : Expr)
  | eq (a b : Expr)
  | add (a b : Expr)   -- `a + b` with an unsized decimal literal among the operands (context width >= 32): no wrap below 2^32
  | mod (a b : Expr)   -- `a % b`, x when b is 0 or unknown
deriving DecidableEq, Repr, Inhabited

inductive Lhs where
  | reg (n : String)
  | cell (a : Expr)
deriving DecidableEq, Repr, Inhabited

inductive Stmt where
  | skip
  | nba (l : Lhs) (e : Expr)
  | ba (l : Lhs) (e : Expr)
  | ife (c : Expr) (t e : Stmt)
  | seq (a b : Stmt)
deriving DecidableEq, Repr, Inhabited

/-- a parsed memory module: header + body -/
structure Body where
  clk : Option String               -- clock port of the header, if any
  ins : List (String × Nat)         -- input ports (name, width), header order, clock excluded
  outs : List (String × Nat)        -- output ports (name, width)
  attr : Bool                       -- the array declaration carries a `(* … *)` attribute (no simulation semantics)
  dw : Nat                          -- word width of the array
  memL : Nat                        -- `mem [memL:memR]`, as written
  memR : Nat
  regs : List (String × Nat)        -- scalar regs (name, width)
  posedge : List (String × Stmt)    -- `always @(posedge <name>) <stmt>`, source order
  comb : List Stmt                  -- `always @(*) <stmt>`
  assigns : List (String × Expr)    -- `assign <port> = <expr>;`
  inits : List (String × Nat) := [] -- `reg … <name> = <value>;` (declaration initialisers)
  minit : List (Nat × Nat) := []    -- `initial begin mem[<i>] = <value>; … end` (cell index as written, value), in order
deriving DecidableEq, Repr, Inhabited

namespace Body
def lo (b : Body) : Nat := min b.memL b.memR
def hi (b : Body) : Nat := max b.memL b.memR
def size (b : Body) : Nat := b.hi - b.lo + 1
def isReg (b : Body) (n : String) : Bool := b.regs.any (·.1 == n)
def regW (b : Body) (n : String) : Nat := (b.regs.lookup n).getD 0
def outW (b : Body) (n : String) : Nat := (b.outs.lookup n).getD 0
/-- the other order of execution of the `always @(posedge)` blocks (IEEE 1364-2005 §11.4.2: not determined) -/
def swap (b : Body) : Body := { b with posedge := b.posedge.reverse }
end Body

abbrev Inp := List (String × Nat)

/-- storage of a body: scalar regs and the array -/
structure Sto where
  regs : String → Val
  mem : List Val

def trunc (w : Nat) (v : Val) : Val := v.map (· % 2 ^ w)

/-- power-up: a reg / cell without initial value is x; declaration initialisers and the `initial` block are applied -/
def power (b : Body) : Sto :=
  ⟨fun n => (b.inits.lookup n).map (· % 2 ^ b.regW n),
   b.minit.foldl (fun m iv => if b.lo ≤ iv.1 ∧ iv.1 ≤ b.hi then m.set (iv.1 - b.lo) (some (iv.2 % 2 ^ b.dw)) else m)
     (List.replicate b.size none)⟩

def eval (b : Body) (inp : Inp) (s : Sto) : Expr → Val
  | .id n => if b.isReg n then s.regs n else inp.lookup n
  | .num v => some v
  | .rd a =>
    match eval b inp s a with
    | some i => if b.lo ≤ i ∧ i ≤ b.hi then s.mem.getD (i - b.lo) none else none
    | none => none
  | .lnot a => (eval b inp s a).map fun v => if v = 0 then 1 else 0
  | .eq x y =>
    match eval b inp s x, eval b inp s y with
    | some u, some v => some (if u = v then 1 else 0)
    | _, _ => none
  | .add x y =>
    match eval b inp s x, eval b inp s y with
    | some u, some v => some (u + v)
    | _, _ => none
  | .mod x y =>
    match eval b inp s x, eval b inp s y with
    | some u, some v => if v = 0 then none else some (u % v)
    | _, _ => none

/-- resolved assignment target -/
inductive Tgt where
  | reg (n : String)
  | cell (i : Val)

def resolve (b : Body) (inp : Inp) (s : Sto) : Lhs → Tgt
  | .reg n => .reg n
  | .cell a => .cell (eval b inp s a)

def Sto.write (b : Body) (s : Sto) : Tgt → Val → Sto
  | .reg n, v => { s with regs := fun k => if k = n then trunc (b.regW n) v else s.regs k }
  | .cell (some i), v =>
    if b.lo ≤ i ∧ i ≤ b.hi then { s with mem := s.mem.set (i - b.lo) (trunc b.dw v) } else s
  | .cell none, _ => s

/-- pending non-blocking updates, oldest first -/
abbrev Q := List (Tgt × Val)

def exec (b : Body) (inp : Inp) : Stmt → Sto × Q → Sto × Q
  | .skip, x => x
  | .nba l e, x => (x.1, x.2 ++ [(resolve b inp x.1 l, eval b inp x.1 e)])
  | .ba l e, x => (x.1.write b (resolve b inp x.1 l) (eval b inp x.1 e), x.2)
  | .ife c t e, x =>
    match eval b inp x.1 c with
    | some v => if v ≠ 0 then exec b inp t x else exec b inp e x
    | none => exec b inp e x
  | .seq p q, x => exec b inp q (exec b inp p x)

def flush (b : Body) (s : Sto) (q : Q) : Sto := q.foldl (fun s tv => s.write b tv.1 tv.2) s

/-- positive clock edge: every block on the pre-edge values (blocking assignments visible to what follows), then the queue -/
def edge (b : Body) (inp : Inp) (s : Sto) : Sto :=
  let r := b.posedge.foldl (fun acc p => exec b inp p.2 acc) (s, [])
  flush b r.1 r.2

/-- one evaluation of every `always @(*)` block -/
def combPass (b : Body) (inp : Inp) (s : Sto) : Sto :=
  b.comb.foldl (fun s st => let r := exec b inp st (s, []); flush b r.1 r.2) s

/-- `poke inputs; clk(1)` -/
def cycle (b : Body) (inp : Inp) (s : Sto) : Sto := combPass b inp (edge b inp (combPass b inp s))

/-- the output ports, in header order of the assigns -/
def outs (b : Body) (inp : Inp) (s : Sto) : List (String × Val) :=
  b.assigns.map fun pe => (pe.1, trunc (b.outW pe.1) (eval b inp s pe.2))

/-- what a test bench sees after every cycle of the history (inputs of the cycle still applied) -/
def trace (b : Body) : Sto → List Inp → List (List (String × Val))
  | _, [] => []
  | s, i :: h => outs b i (cycle b i s) :: trace b (cycle b i s) h

/-- first observation: power-up, every input 0, settled (no edge yet) -/
def observe0 (b : Body) : List (String × Val) :=
  let z : Inp := b.ins.map fun p => (p.1, 0)
  outs b z (combPass b z (power b))

/-! ### well-formedness of a parsed body (decided by the driver; outside it the body is reported as not in the fragment) -/
def Expr.ids : Expr → List String
  | .id n => [n]
  | .num _ => []
  | .rd a => a.ids
  | .lnot a => a.ids
  | .eq x y | .add x y | .mod x y => x.ids ++ y.ids

def Stmt.ids : Stmt → List String
  | .skip => []
  | .nba l e | .ba l e => (match l with | .reg _ => [] | .cell a => a.ids) ++ e.ids
  | .ife c t e => c.ids ++ t.ids ++ e.ids
  | .seq p q => p.ids ++ q.ids

def Stmt.targets : Stmt → List String
  | .skip => []
  | .nba l _ | .ba l _ => (match l with | .reg n => [n] | .cell _ => [])
  | .ife _ t e => t.targets ++ e.targets
  | .seq p q => p.targets ++ q.targets

/-- every identifier read is an input port or a scalar reg, every scalar target a declared reg, every clocked block uses the
    clock port, every assign drives a distinct output port, names are unique -/
def Body.wf (b : Body) : Bool :=
  let known := fun n => b.isReg n || (b.ins.map (·.1)).contains n
  let stmts := b.posedge.map (·.2) ++ b.comb
  (stmts.all fun s => s.ids.all known && s.targets.all b.isReg) &&
  (b.assigns.all fun pe => pe.2.ids.all known && (b.outs.map (·.1)).contains pe.1) &&
  (b.posedge.all fun p => b.clk == some p.1) &&
  (b.assigns.map (·.1)).Nodup &&
  ((b.clk.toList ++ b.ins.map (·.1) ++ b.outs.map (·.1) ++ b.regs.map (·.1) ++ ["mem"]).Nodup)

/-! ### the bodies as storage.py writes them today (mirrors of the three `verilogBody()` methods + the module header that
    rtl_generation.createModuleHeader writes for their ports).  `aw` = width of the address wires (`numcells = 1 << aw`),
    `dw` = width of the read-data wire(s) (`w`), `ww` = width of the write wire(s), `wdw` = width of the write-data wire(s). -/

/-- storage.py:296-315 SynchronousMemory.verilogBody -/
def syncBody (aw dw ww wdw : Nat) : Body :=
  { clk := some "clk",
    ins := [("read_address", aw), ("write_address", aw), ("write", ww), ("writedata", wdw)],
    outs := [("readdata", dw)],
    attr := true, dw := dw, memL := 0, memR := 2 ^ aw - 1,
    regs := [("rreaddata", dw)],
    posedge := [("clk", .seq (.ife (.id "write") (.nba (.cell (.id "write_address")) (.id "writedata")) .skip)
                             (.nba (.reg "rreaddata") (.rd (.id "read_address"))))],
    comb := [],
    assigns := [("readdata", .id "rreaddata")] }

/-- storage.py:245-259 AsynchronousMemory.verilogBody -/
def asyncBody (aw dw ww wdw : Nat) : Body :=
  { clk := none,
    ins := [("read_address", aw), ("write_address", aw), ("write", ww), ("writedata", wdw)],
    outs := [("readdata", dw)],
    attr := false, dw := dw, memL := 2 ^ aw - 1, memR := 0,
    regs := [],
    posedge := [],
    comb := [.ife (.id "write") (.ba (.cell (.id "write_address")) (.id "writedata")) .skip],
    assigns := [("readdata", .rd (.id "read_address"))] }

/-- DualPortSynchronousMemory.verilogBody as it was BEFORE repo commit a7c9173 (asynchronous reads `assign readdata_a = mem[read_address_a]`):
    kept as the subject of `C01Mem.dual_body_counterexample` (history of the defect) -/
def dualBody (aw dw ww wdw : Nat) : Body :=
  { clk := some "clk",
    ins := [("read_address_a", aw), ("write_address_a", aw), ("write_a", ww), ("writedata_a", wdw),
            ("read_address_b", aw), ("write_address_b", aw), ("write_b", ww), ("writedata_b", wdw)],
    outs := [("readdata_a", dw), ("readdata_b", dw)],
    attr := false, dw := dw, memL := 2 ^ aw - 1, memR := 0,
    regs := [],
    posedge := [("clk", .ife (.id "write_a") (.nba (.cell (.id "write_address_a")) (.id "writedata_a")) .skip),
                ("clk", .ife (.id "write_b") (.nba (.cell (.id "write_address_b")) (.id "writedata_b")) .skip)],
    comb := [],
    assigns := [("readdata_a", .rd (.id "read_address_a")), ("readdata_b", .rd (.id "read_address_b"))] }

/-- storage.py:367-392 DualPortSynchronousMemory.verilogBody as emitted TODAY (repo commit a7c9173, = notes/C01mem_dualport_fix.diff):
    registered reads, what `DualPortSynchronousMemory.clock` simulates -/
def dualRegBody (aw dw ww wdw : Nat) : Body :=
  { dualBody aw dw ww wdw with
    regs := [("rreaddata_a", dw), ("rreaddata_b", dw)],
    posedge := [("clk", .seq (.ife (.id "write_a") (.nba (.cell (.id "write_address_a")) (.id "writedata_a")) .skip)
                             (.nba (.reg "rreaddata_a") (.rd (.id "read_address_a")))),
                ("clk", .seq (.ife (.id "write_b") (.nba (.cell (.id "write_address_b")) (.id "writedata_b")) .skip)
                             (.nba (.reg "rreaddata_b") (.rd (.id "read_address_b"))))],
    assigns := [("readdata_a", .id "rreaddata_a"), ("readdata_b", .id "rreaddata_b")] }

/-- sequencer.py:45-93 MsgSequencer.verilogBody: `msg` = the character codes, `wc` = width of `count` (`ceil(log2(len))`, computed with
    Python floats in the generator and read back from the text), `clk` = name of the clock driver; ports `ready` (1), `valid` (1), `v` (8).
    `rdy` = the value `ready` is compared with in the state-1 branch: `msgBody … 0` is the text of TODAY (repo commit 0f39eeb: waits while
    ready is 0, as `clock()`); `msgBody … 1` the text before it (waited while ready was 1: `C01Mem.msg_body_counterexample`). -/
def msgBody (clk : String) (msg : List Nat) (wc rdy : Nat) : Body :=
  { clk := some clk,
    ins := [("ready", 1)], outs := [("valid", 1), ("v", 8)],
    attr := false, dw := 8, memL := 0, memR := msg.length - 1,
    regs := [("state", 1), ("count", wc), ("rvalid", 1), ("rv", 8)],
    inits := [("state", 0), ("count", 0), ("rvalid", 0), ("rv", 0)],
    minit := (List.range msg.length).map fun i => (i, msg.getD i 0),
    posedge := [(clk,
      .ife (.eq (.id "state") (.num 0))
        (.ife (.eq (.id "ready") (.num 1))
          (.seq (.nba (.reg "state") (.num 1)) (.nba (.reg "rvalid") (.num 1)))
          (.nba (.reg "rvalid") (.num 0)))
        (.ife (.eq (.id "state") (.num 1))
          (.seq (.nba (.reg "rv") (.rd (.id "count")))
           (.seq (.nba (.reg "rvalid") (.num 1))
            (.ife (.eq (.id "ready") (.num rdy))
              (.nba (.reg "rvalid") (.num 1))
              (.seq (.nba (.reg "rvalid") (.num 0))
               (.seq (.nba (.reg "count") (.mod (.add (.id "count") (.num 1)) (.num msg.length)))
                     (.nba (.reg "state") (.num 0)))))))
          .skip))],
    comb := [],
    assigns := [("valid", .id "rvalid"), ("v", .id "rv")] }

end Mem
