import Py4hwV.Verilog.EmitMD
/-
  C03 — the conversion of C01's NESTED description (`FlatM.HierSrc`, lean/Py4hwV/Emit/Hier.lean) into the level-free module
  list `C03Emit.HSrc` (lean/Py4hwV/Verilog/EmitMD.lean).  It mirrors harness/c03.py `export_hs` (which it replaces): a module,
  then for each child its register module / its sub-module followed by that module's own children; an instance of a structural
  sub-module keeps what its instance line needs (instance name, module name, clock flag = the body contains a register at any
  depth, ports).  Proofs/C03EmitRel.lean proves `S.toHS.emit = S.emit` (`C03Emit.toHS_emit`), so C01's theorems (about
  `HierSrc.emit`) and C03's (`emit_wf_hier`, about `HSrc.emit`) speak about the same module list.
-/
namespace C03Emit
open V FlatM

/-- the child contains a register (python `has_clk` of export_hs, per child) -/
def hasRegN : (n : Nat) → ChildN n → Bool
  | 0, c => GChild.isReg c
  | _ + 1, .g c => GChild.isReg c
  | n + 1, .sub _ b => b.children.any (hasRegN n)

/-- the module contains a register at any depth: it has the clock port -/
def modHasRegN (n : Nat) (b : ModN n) : Bool := b.children.any (hasRegN n)

def convG : GChild → CI
  | .kind k => .kind k
  | .reg r => .reg r

/-- a child as its parent's body sees it -/
def convN : (n : Nat) → ChildN n → CI
  | 0, c => convG c
  | _ + 1, .g c => convG c
  | n + 1, .sub iname b =>
      .sub { iname := iname, mname := b.mname, hasClk := modHasRegN n b, inputs := b.inputs, outputs := b.outputs }

def mdOfN (n : Nat) (b : ModN n) : MD :=
  { mname := b.mname, names := b.names, inputs := b.inputs, outputs := b.outputs, locals := b.locals,
    children := b.children.map (convN n) }

def modsOfG : GChild → List ModD
  | .kind _ => []
  | .reg r => [.reg r]

/-- the module descriptions a child brings along, in emission order -/
def modsOfN : (n : Nat) → ChildN n → List ModD
  | 0, c => modsOfG c
  | _ + 1, .g c => modsOfG c
  | n + 1, .sub _ b => .str (mdOfN n b) :: b.children.flatMap (modsOfN n)

/-- `S.toHS`: the level-free list of a nested description (python `export_hs`) -/
def _root_.FlatM.HierSrc.toHS (S : HierSrc) : HSrc :=
  { clk := S.clk, widths := S.widths, mods := .str (mdOfN S.depth S.top) :: S.top.children.flatMap (modsOfN S.depth) }

end C03Emit
