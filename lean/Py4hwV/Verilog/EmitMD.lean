import Py4hwV.Emit.Hier
import Py4hwV.Verilog.WF
/-
  C03 — a level-free description of a HIERARCHICAL design and the module list the emitter writes for it.

  `HSrc` is a LIST of module descriptions in emission order (rtl_generation._getVerilogForHierarchy: the top module, then for
  every non-inlined child its module followed by the modules of its own children): a structural module (`MD`: ports, local
  wires, children in instantiation order — inlined children `GKind` of the C01 model, `Reg` instances, instances of structural
  sub-modules given by what the instance line needs: instance name, module name, clock flag, ports) or a register module.
  `HSrc.emit` writes every module name once (`FlatSrc.dedupMods`), exactly like `FlatM.HierSrc.emit`; the inline forms,
  register modules and connections are the C01 model's own functions (`GKind.assigns`, `HierSrc.regModuleH`, `regConnsH`).
  harness/c03.py exports this list from the live circuit (from the same walk as C01's `HierExporter`) and
  lean/Drv/C03Emit.lean decides `parsed real text = HSrc.emit` and `HSrc.okb`; Props/C03Emit.lean proves
  `HSrc.okb → WellFormed HSrc.emit`.
-/
namespace C03Emit
open V V.WF FlatM FlatM.FlatSrc

structure SubRef where
  iname : String
  mname : String
  hasClk : Bool
  inputs : List (String × Nat)
  outputs : List (String × Nat)
deriving Inhabited, Repr

inductive CI where
  | kind (k : GKind)
  | reg (r : RegSrc)
  | sub (s : SubRef)
deriving Inhabited, Repr

structure MD where
  mname : String
  names : List (Nat × String)       -- the name of each net inside this module
  inputs : List (String × Nat)
  outputs : List (String × Nat)
  locals : List Nat
  children : List CI
deriving Inhabited, Repr

inductive ModD where
  | str (m : MD)
  | reg (r : RegSrc)
deriving Inhabited, Repr

structure HSrc where
  clk : String
  widths : List Nat
  mods : List ModD                  -- emission order, the top module first
deriving Inhabited, Repr

namespace MD
def nm (m : MD) (k : Nat) : String := (m.names.lookup k).getD "?"
def nets (m : MD) : List Nat := m.inputs.map (·.2) ++ (m.outputs.map (·.2) ++ m.locals)
end MD

def CI.hasClk : CI → Bool
  | .kind _ => false
  | .reg _ => true
  | .sub s => s.hasClk

def MD.hasClk (m : MD) : Bool := m.children.any CI.hasClk

/-- nets a child drives in its parent -/
def CI.outs : CI → List Nat
  | .kind k => k.outs
  | .reg r => [r.leaf.q]
  | .sub s => s.outputs.map (·.2)

def CI.dk : CI → DK
  | .kind _ => .cont
  | _ => .inst

def CI.inames : CI → List String
  | .kind _ => []
  | .reg r => [r.iname]
  | .sub s => [s.iname]

def ModD.name : ModD → String
  | .str m => m.mname
  | .reg r => r.mname

namespace HSrc
variable (H : HSrc)

def wd (k : Nat) : Nat := H.widths.getD k 1

def portList (hasClk : Bool) (ins outs : List (String × Nat)) : List Port :=
  (if hasClk then [mkPort .inp 1 H.clk] else []) ++
  (ins.map fun pk => mkPort .inp (H.wd pk.2) pk.1) ++ (outs.map fun pk => mkPort .out (H.wd pk.2) pk.1)

def subConns (nm : Nat → String) (s : SubRef) : List (String × Expr) :=
  (if s.hasClk then [(H.clk, Expr.id H.clk)] else []) ++
  (s.inputs.map fun pk => (pk.1, Expr.id (nm pk.2))) ++ (s.outputs.map fun pk => (pk.1, Expr.id (nm pk.2)))

def ciItems (nm : Nat → String) : CI → List Item
  | .kind k => (k.assigns H.wd nm).map fun a => Item.assign a.1 a.2
  | .reg r => [.inst r.mname r.iname [] (HierSrc.regConnsH nm H.clk r)]
  | .sub s => [.inst s.mname s.iname [] (H.subConns nm s)]

def mdModule (m : MD) : Module :=
  { name := m.mname, params := [], ports := H.portList m.hasClk m.inputs m.outputs,
    items := (m.locals.map fun k => Item.wire (m.nm k) (H.wd k)) ++ m.children.flatMap (H.ciItems m.nm) }

def toModule : ModD → Module
  | .str m => H.mdModule m
  | .reg r => HierSrc.regModuleH H.wd r

/-- the module list, every module name once, in order of first use -/
def emit : Design := dedupMods (H.mods.map H.toModule)

/-! ### the decidable conditions on the description -/

def first (n : String) : Option ModD := H.mods.find? fun x => ModD.name x == n

def netsIn (c : CI) : List Nat :=
  match c with
  | .kind k => k.outs ++ k.ins H.wd
  | .reg r => [r.leaf.d, r.leaf.q] ++ (if r.leaf.hasE then [r.leaf.e] else []) ++ (if r.leaf.hasR then [r.leaf.r] else [])
  | .sub s => s.inputs.map (·.2) ++ s.outputs.map (·.2)

/-- the instance binds (first module of that name) to a module with the interface the instance line was written for -/
def refOK : CI → Bool
  | .kind _ => true
  | .reg r => match H.first r.mname with
      | some (.reg r') => decide (HierSrc.regModuleH H.wd r' = HierSrc.regModuleH H.wd r)
      | _ => false
  | .sub s => (match H.first s.mname with
      | some (.str m') =>
          -- same interface: clock flag, port names, directions and widths in order (net ids are per instance)
          decide ((H.portList m'.hasClk m'.inputs m'.outputs).map psigOf = (H.portList s.hasClk s.inputs s.outputs).map psigOf)
      | _ => false) &&
      decide (((if s.hasClk then [H.clk] else []) ++ (s.inputs.map (·.1) ++ s.outputs.map (·.1))).Nodup)

def driven (m : MD) : List Nat := m.children.flatMap CI.outs
def inames (m : MD) : List String := m.children.flatMap CI.inames

def mdOK (m : MD) : Bool :=
  decide m.nets.Nodup && decide ((m.nets.map m.nm).Nodup) &&
  ((m.inputs ++ m.outputs).all fun pk => m.nm pk.2 == pk.1) &&
  (!m.hasClk || (decide (H.clk ∉ m.nets.map m.nm) && !isKeyword H.clk)) &&
  (m.children.all fun c => (H.netsIn c).all fun k => decide (k ∈ m.nets)) &&
  decide (driven m).Nodup && ((m.outputs.map (·.2) ++ m.locals).all fun k => decide (k ∈ driven m)) &&
  (m.inputs.all fun pk => decide (pk.2 ∉ driven m)) &&
  decide (inames m).Nodup &&
  ((inames m).all fun i => !isKeyword i && decide (i ∉ m.nets.map m.nm) && (!m.hasClk || i != H.clk)) &&
  (m.nets.all fun k => !isKeyword (m.nm k)) && !isKeyword m.mname &&
  m.children.all H.refOK

def modOK : ModD → Bool
  | .str m => H.mdOK m
  | .reg r => !isKeyword r.mname

def okb : Bool := H.mods.all H.modOK

end HSrc

/-! ### flat descriptions (`FlatM.FlatSrc`): the name conditions `FlatSrc.check` does not contain -/

def nets (S : FlatSrc) : List Nat := S.inputs ++ (S.outputs ++ S.locals)

/-- what `emit_wf_flat` needs beyond `FlatSrc.check` (all about NAMES; evaluated per design by lean/Drv/C03Emit.lean): module,
    instance, net and clock names are not reserved words; instance names are pairwise different and differ from every net
    name and from the clock (instances share the module's name space) -/
def namesOKb (S : FlatSrc) : Bool :=
  !isKeyword S.top && S.regSrcs.all (fun r => !isKeyword r.mname && !isKeyword r.iname) &&
  (nets S).all (fun k => !isKeyword (S.nm k)) && (S.regSrcs.isEmpty || !isKeyword S.clk) &&
  decide ((S.regSrcs.map (·.iname)).Nodup) &&
  S.regSrcs.all (fun r => decide (r.iname ≠ S.clk) && decide (r.iname ∉ (nets S).map S.nm))


end C03Emit
