/-
  Abstract syntax of the Verilog subset emitted by py4hw (structural emitter, hand-written bodies, transpiler).
  All types are plain (non-nested) inductives so that the semantics is structurally recursive:
  concatenations and statement sequences are binary, a `case` is a chain of `arm`s ending in `dflt`.
-/
namespace V

inductive Expr where
  | id (n : String)
  | num (width : Option Nat) (signed : Bool) (val : Nat) (known : Bool)
  | un (op : String) (e : Expr)                 -- not neg lnot rand ror rxor
  | bin (op : String) (a b : Expr)              -- and or xor add sub mul div mod shl shr ashr eq ne lt le gt ge land lor
  | tern (c a b : Expr)
  | cat (a b : Expr)                            -- {a, b}
  | cat1 (a : Expr)                             -- {a}
  | rep (n : Nat) (e : Expr)                    -- {n{e}}
  | idx (n : String) (i : Expr)                 -- n[i]   (bit select, or memory word when n is a memory)
  | rng (n : String) (hi lo : Nat)              -- n[hi:lo]
  | sgn (e : Expr)                              -- $signed(e)
  | usg (e : Expr)                              -- $unsigned(e)
deriving Repr, Inhabited, BEq

inductive LHS where
  | lid (n : String)
  | lidx (n : String) (i : Expr)
  | lrng (n : String) (hi lo : Nat)
deriving Repr, Inhabited, BEq

def LHS.name : LHS → String
  | .lid n => n | .lidx n _ => n | .lrng n _ _ => n

inductive Stmt where
  | skip
  | seq (a b : Stmt)
  | ife (c : Expr) (t e : Stmt)
  | nba (l : LHS) (e : Expr)                    -- l <= e
  | ba (l : LHS) (e : Expr)                     -- l = e
  | case (e : Expr) (chain : Stmt)              -- chain is arm … arm dflt
  | arm (v : Expr) (s : Stmt) (rest : Stmt)
  | dflt (s : Stmt)
deriving Repr, Inhabited, BEq

inductive Event where
  | pos (clk : String) | neg (clk : String) | star
deriving Repr, Inhabited, BEq

inductive Dir where | inp | out | inout
deriving Repr, Inhabited, BEq, DecidableEq

structure Port where
  dir : Dir
  isReg : Bool
  width : Nat
  name : String
deriving Repr, Inhabited, BEq

inductive Item where
  | wire (n : String) (w : Nat)
  | reg (n : String) (w : Nat) (init : Option Expr)
  | mem (n : String) (w : Nat) (lo hi : Nat)
  | int (n : String) (init : Option Expr)
  | assign (l : LHS) (e : Expr)
  | always (ev : Event) (s : Stmt)
  | initial (s : Stmt)
  | inst (modName instName : String) (params : List (String × Expr)) (conns : List (String × Expr))
deriving Repr, Inhabited

structure Module where
  name : String
  params : List String
  ports : List Port
  items : List Item
deriving Repr, Inhabited

abbrev Design := List Module

end V
