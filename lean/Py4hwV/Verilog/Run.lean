import Py4hwV.Verilog.Sem
import Std.Data.HashMap
/-
  Elaboration (hierarchy flattening by name prefixing) and cycle semantics of the emitted subset.

  * continuous assigns and `always @(*)` blocks are evaluated to their fixpoint (bounded by fuel; not reaching it is an error);
  * one simulator cycle = falling edge then rising edge of the base clock (the base clock starts at 1); at each half step
    every `always @(posedge s)` / `@(negedge s)` whose signal `s` made that transition is executed on the values before
    any non-blocking update, blocking assignments update the block-local view immediately, all non-blocking updates are
    applied together afterwards, then assigns re-settle.  Derived (gated) clocks are ordinary signals computed by assigns.
  * regs/integers without initial value, and memory words, start x; `initial` blocks run once at time 0.
-/
namespace V
open Std

structure Store where
  info : HashMap String SigInfo := {}
  vals : HashMap String BV := {}
  mems : HashMap String (Array BV) := {}
  changed : Bool := false

def Store.rd (s : Store) : Rd :=
  { info := fun n => s.info[n]?,
    val := fun n => match s.vals[n]? with
                    | some v => v
                    | none => BV.x (match s.info[n]? with | some i => i.width | none => 1),
    mem := fun n i => match s.mems[n]? with
                      | some a => if h : i < a.size then a[i] else BV.x (match s.info[n]? with | some i => i.width | none => 1)
                      | none => BV.x 1 }

def Store.setVal (s : Store) (n : String) (v : BV) : Store :=
  let old := s.rd.val n
  if old == v then s else { s with vals := s.vals.insert n v, changed := true }

def Store.wr (s : Store) (t : Tgt) (v : BV) : Store :=
  match t with
  | .none => s
  | .whole n =>
      let w := widthOf s.rd n
      s.setVal n (if v.k then ⟨w, v.v % 2 ^ w, true⟩ else BV.x w)
  | .bit n i =>
      let old := s.rd.val n
      if i ≥ old.w then s
      else if !(old.k && v.k) then (if old.w = 1 then s.setVal n (if v.k then ⟨1, v.v % 2, true⟩ else BV.x 1) else s.setVal n (BV.x old.w))
      else s.setVal n ⟨old.w, (old.v - ((old.v >>> i) % 2) * 2 ^ i) + (v.v % 2) * 2 ^ i, true⟩
  | .part n hi lo =>
      let old := s.rd.val n
      let pw := hi - lo + 1
      if hi ≥ old.w then s
      else if !(old.k && v.k) then s.setVal n (BV.x old.w)
      else s.setVal n ⟨old.w, (old.v - ((old.v >>> lo) % 2 ^ pw) * 2 ^ lo) + (v.v % 2 ^ pw) * 2 ^ lo, true⟩
  | .word n i =>
      match s.mems[n]? with
      | some a => if i < a.size then { s with mems := s.mems.insert n (a.set! i v), changed := true } else s
      | none => s

/-! ### renaming with an instance-path prefix -/
def pfxE (p : String) : Expr → Expr
  | .id n => .id (p ++ n)
  | .num w s v k => .num w s v k
  | .un op e => .un op (pfxE p e)
  | .bin op a b => .bin op (pfxE p a) (pfxE p b)
  | .tern c a b => .tern (pfxE p c) (pfxE p a) (pfxE p b)
  | .cat a b => .cat (pfxE p a) (pfxE p b)
  | .cat1 a => .cat1 (pfxE p a)
  | .rep n e => .rep n (pfxE p e)
  | .idx n i => .idx (p ++ n) (pfxE p i)
  | .rng n hi lo => .rng (p ++ n) hi lo
  | .sgn e => .sgn (pfxE p e)
  | .usg e => .usg (pfxE p e)

def pfxL (p : String) : LHS → LHS
  | .lid n => .lid (p ++ n)
  | .lidx n i => .lidx (p ++ n) (pfxE p i)
  | .lrng n hi lo => .lrng (p ++ n) hi lo

def pfxS (p : String) : Stmt → Stmt
  | .skip => .skip
  | .seq a b => .seq (pfxS p a) (pfxS p b)
  | .ife c t e => .ife (pfxE p c) (pfxS p t) (pfxS p e)
  | .nba l e => .nba (pfxL p l) (pfxE p e)
  | .ba l e => .ba (pfxL p l) (pfxE p e)
  | .case e ch => .case (pfxE p e) (pfxS p ch)
  | .arm v s r => .arm (pfxE p v) (pfxS p s) (pfxS p r)
  | .dflt s => .dflt (pfxS p s)

def pfxEv (p : String) : Event → Event
  | .pos c => .pos (p ++ c) | .neg c => .neg (p ++ c) | .star => .star

structure Flat where
  sigs : List (String × SigInfo) := []
  inits : List (String × Expr) := []          -- declaration initialisers (constant expressions)
  assigns : List (LHS × Expr) := []
  procs : List (Event × Stmt) := []
  initials : List Stmt := []
  errors : List String := []

def exprToLHS : Expr → Option LHS
  | .id n => some (.lid n)
  | .idx n i => some (.lidx n i)
  | .rng n hi lo => some (.lrng n hi lo)
  | _ => none

def findModule (d : Design) (n : String) : Option Module := d.find? (·.name == n)

/-- flatten module `m` instantiated under prefix `p` -/
def flattenM (d : Design) : Nat → Module → String → Flat → Flat
  | 0, m, _, f => { f with errors := f.errors ++ [s!"instantiation too deep at {m.name}"] }
  | fuel + 1, m, p, f =>
    let f := m.ports.foldl (fun f pt => { f with sigs := f.sigs ++ [(p ++ pt.name, { width := pt.width })] }) f
    let f := m.params.foldl (fun f pn => { f with sigs := f.sigs ++ [(p ++ pn, { width := 32, signed := true })] }) f
    m.items.foldl (fun f it =>
      match it with
      | .wire n w => { f with sigs := f.sigs ++ [(p ++ n, { width := w })] }
      | .reg n w init =>
          let f := { f with sigs := f.sigs ++ [(p ++ n, { width := w })] }
          match init with
          | some e => { f with inits := f.inits ++ [(p ++ n, pfxE p e)] }
          | none => f
      | .mem n w lo hi => { f with sigs := f.sigs ++ [(p ++ n, { width := w, memLen := some (max lo hi + 1) })] }
      | .int n init =>
          let f := { f with sigs := f.sigs ++ [(p ++ n, { width := 32, signed := true })] }
          match init with
          | some e => { f with inits := f.inits ++ [(p ++ n, pfxE p e)] }
          | none => f
      | .assign l e => { f with assigns := f.assigns ++ [(pfxL p l, pfxE p e)] }
      | .always ev s => { f with procs := f.procs ++ [(pfxEv p ev, pfxS p s)] }
      | .initial s => { f with initials := f.initials ++ [pfxS p s] }
      | .inst mn iname params conns =>
          match findModule d mn with
          | none => { f with errors := f.errors ++ [s!"instance {p}{iname}: module {mn} is not defined"] }
          | some cm =>
            let cp := p ++ iname ++ "."
            let f := flattenM d fuel cm cp f
            let f := params.foldl (fun f (pn, pe) =>
              if cm.params.contains pn then { f with assigns := f.assigns ++ [(.lid (cp ++ pn), pfxE p pe)] }
              else { f with errors := f.errors ++ [s!"instance {p}{iname}: module {mn} has no parameter {pn}"] }) f
            conns.foldl (fun f (pn, pe) =>
              match cm.ports.find? (·.name == pn) with
              | none => { f with errors := f.errors ++ [s!"instance {p}{iname}: module {mn} has no port {pn}"] }
              | some pt =>
                match pt.dir with
                | .inp => { f with assigns := f.assigns ++ [(.lid (cp ++ pn), pfxE p pe)] }
                | .out =>
                    match exprToLHS pe with
                    | some l => { f with assigns := f.assigns ++ [(pfxL p l, .id (cp ++ pn))] }
                    | none => { f with errors := f.errors ++ [s!"instance {p}{iname}: output port {pn} connected to a non-lvalue"] }
                | .inout => { f with errors := f.errors ++ [s!"instance {p}{iname}: inout port {pn} not supported"] }) f
    ) f

def flatten (d : Design) (top : String) : Flat :=
  match findModule d top with
  | none => { errors := [s!"top module {top} not found"] }
  | some m => flattenM d (d.length + 2) m "" {}

/-! ### running -/
structure Sim where
  flat : Flat
  st : Store
  clk : String
  errors : List String := []

def applyNba (s : Store) (q : List (Tgt × BV)) : Store := q.foldl (fun s (t, v) => s.wr t v) s

def runProc (s : Store) (p : Stmt) : Store × List (Tgt × BV) :=
  let r := exec (σ := Store) Store.rd Store.wr none p { st := s, nba := [] }
  (r.st, r.nba)

/-- one pass over all continuous assigns and `always @(*)` blocks -/
def settlePass (f : Flat) (s : Store) : Store :=
  let s := f.assigns.foldl (fun s (l, e) =>
    let r := s.rd
    s.wr (resolve r l) (evalAssign r (lhsWidth r l) e)) s
  f.procs.foldl (fun s (ev, p) =>
    match ev with
    | .star => let (s', q) := runProc s p; applyNba s' q
    | _ => s) s

/-- did a pass leave every signal and memory as it was?  (decided on the stores, not per write: a block that writes a
    target twice on one path — last write wins — must not count as a change) -/
def sameStore (a b : Store) : Bool :=
  b.vals.fold (fun acc k v => acc && (a.rd.val k == v)) true &&
  b.mems.fold (fun acc k arr => acc && (match a.mems[k]? with | some x => x == arr | none => false)) true

def settleLoop (f : Flat) : Nat → Store → Store × Bool
  | 0, s => (s, false)
  | fuel + 1, s =>
    let s' := settlePass f s
    if sameStore s s' then (s', true) else settleLoop f fuel s'

def Sim.settle (m : Sim) : Sim :=
  let (s, ok) := settleLoop m.flat (m.flat.assigns.length + m.flat.procs.length + 3) m.st
  { m with st := s, errors := if ok then m.errors else m.errors ++ ["combinational logic did not settle"] }

def evSig : Event → Option String
  | .pos c => some c | .neg c => some c | .star => none

def bitOf (s : Store) (n : String) : Option Nat := let v := s.rd.val n; if v.k then some (v.v % 2) else none

/-- the blocks whose event signal went 0→1 (posedge) / 1→0 (negedge) between the snapshot `before` and store `st` -/
def firedProcs (f : Flat) (before : List (Option Nat)) (st : Store) : List Stmt :=
  ((f.procs.zip before).filter fun ((ev, _), b) =>
    match ev with
    | .pos c => b == some 0 && bitOf st c == some 1
    | .neg c => b == some 1 && bitOf st c == some 0
    | .star => false).map fun ((_, p), _) => p

def snapshotEv (f : Flat) (st : Store) : List (Option Nat) := f.procs.map fun (ev, _) => (evSig ev).bind (bitOf st)

/-- run the fired blocks on `st` (each sees the values before any non-blocking update), apply all non-blocking updates, settle;
    then the updates themselves may have produced edges on DERIVED clocks (a clock wire driven by a register or gate): those blocks
    fire in a further delta step, and so on (bounded by `fuel`) -/
def deltaLoop (m : Sim) : Nat → List Stmt → Sim
  | 0, _ => m
  | fuel + 1, fired =>
    if fired.isEmpty then m else
    let before := snapshotEv m.flat m.st
    let (st, q) := fired.foldl (fun (acc : Store × List (Tgt × BV)) p =>
      let (s', q') := runProc acc.1 p
      (s', acc.2 ++ q')) (m.st, [])
    let m2 := ({ m with st := applyNba st q } : Sim).settle
    deltaLoop m2 fuel (firedProcs m.flat before m2.st)

/-- half a clock period: drive the base clock to `lvl`, settle, fire the blocks whose event signal made the transition
    (and, in further delta steps, the blocks clocked by derived clocks that moved as a consequence) -/
def Sim.half (m : Sim) (lvl : Nat) : Sim :=
  let before := snapshotEv m.flat m.st
  let m1 := ({ m with st := m.st.setVal m.clk ⟨1, lvl, true⟩ } : Sim).settle
  deltaLoop m1 8 (firedProcs m.flat before m1.st)

def Sim.cycle (m : Sim) : Sim := (m.half 0).half 1

def constRd : Rd := { info := fun _ => none, val := fun _ => BV.x 1, mem := fun _ _ => BV.x 1 }

def mkSim (d : Design) (top clk : String) : Sim :=
  let f := flatten d top
  let st : Store := f.sigs.foldl (fun s (n, i) =>
    match i.memLen with
    | some len => { s with info := s.info.insert n i, mems := s.mems.insert n (Array.replicate len (BV.x i.width)) }
    | none => { s with info := s.info.insert n i }) {}
  -- duplicate declarations are WF errors; the later declaration wins here
  let st := f.inits.foldl (fun s (n, e) => s.wr (.whole n) (evalAssign s.rd (widthOf s.rd n) e)) st
  let st := st.setVal clk ⟨1, 1, true⟩
  let st := f.initials.foldl (fun s p => let (s', q) := runProc s p; applyNba s' q) st
  ({ flat := f, st := st, clk := clk, errors := f.errors } : Sim).settle

def showBV (v : BV) : String := if v.k then toString v.v else "x"

end V
