import Py4hwV.Verilog.Syntax
/-
  Expression and statement semantics of the subset, following IEEE 1364-2005 §5.4–5.5 (expression bit lengths and
  signedness) as written:
    * context-determined operands (+ - * / % & | ^ ~ unary-, both arms of ?:) are evaluated at the width
      W = max(self-determined width of the whole expression, width of the assignment target) and are sign-extended
      only if the whole expression is signed (every operand signed);
    * self-determined operands: shift amounts, operands of concatenation / replication, index expressions, the
      argument of $signed, the condition of ?:, operands of ! && ||; the two sides of a comparison are sized to the
      larger of the two and compared signed only if both are signed;
    * unsized decimal literals are 32-bit signed; sized literals unsigned unless 's';
    * division / modulo by zero give x.
  Values carry ONE known/unknown flag (any x bit makes the whole value unknown): coarser than per-bit x, sound for the
  question "does the Verilog drive the same KNOWN value as the simulator".
  The reader functions (signal values, memory words, declarations) are parameters, so theorems hold for every environment.
-/
namespace V

structure BV where
  w : Nat
  v : Nat
  k : Bool
deriving Repr, Inhabited, BEq, DecidableEq

def BV.x (w : Nat) : BV := ⟨w, 0, false⟩
def BV.mk' (w v : Nat) : BV := ⟨w, v % 2 ^ w, true⟩

/-- what a name denotes -/
structure SigInfo where
  width : Nat
  signed : Bool := false      -- `integer`, parameters
  memLen : Option Nat := none -- `reg [w-1:0] m [0:len-1]`
deriving Repr, Inhabited

structure Rd where
  info : String → Option SigInfo
  val  : String → BV
  mem  : String → Nat → BV

def widthOf (r : Rd) (n : String) : Nat := match r.info n with | some i => i.width | none => 1
def signedOf (r : Rd) (n : String) : Bool := match r.info n with | some i => i.signed | none => false
def isMem (r : Rd) (n : String) : Bool := match r.info n with | some i => i.memLen.isSome | none => false

def isRel (op : String) : Bool := op == "eq" || op == "ne" || op == "lt" || op == "le" || op == "gt" || op == "ge"
def isLog (op : String) : Bool := op == "land" || op == "lor"
def isShift (op : String) : Bool := op == "shl" || op == "shr" || op == "ashr"

/-- self-determined width -/
def selfW (r : Rd) : Expr → Nat
  | .id n => widthOf r n
  | .num (some w) _ _ _ => w
  | .num none _ _ _ => 32
  | .un op e => if op == "not" || op == "neg" then selfW r e else 1
  | .bin op a b => if isRel op || isLog op then 1 else if isShift op then selfW r a else max (selfW r a) (selfW r b)
  | .tern _ a b => max (selfW r a) (selfW r b)
  | .cat a b => selfW r a + selfW r b
  | .cat1 a => selfW r a
  | .rep n e => n * selfW r e
  | .idx n _ => if isMem r n then widthOf r n else 1
  | .rng _ hi lo => hi - lo + 1
  | .sgn e => selfW r e
  | .usg e => selfW r e

/-- signedness of the expression type -/
def isSg (r : Rd) : Expr → Bool
  | .id n => signedOf r n
  | .num _ s _ _ => s
  | .un op e => if op == "not" || op == "neg" then isSg r e else false
  | .bin op a b => if isRel op || isLog op then false else if isShift op then isSg r a else isSg r a && isSg r b
  | .tern _ a b => isSg r a && isSg r b
  | .cat _ _ => false
  | .cat1 _ => false
  | .rep _ _ => false
  | .idx _ _ => false
  | .rng _ _ _ => false
  | .sgn _ => true
  | .usg _ => false

/-- resize `x` to width `W` (sign-extend iff `sg`) -/
def ext (W : Nat) (sg : Bool) (x : BV) : BV :=
  if !x.k then BV.x W
  else if W ≤ x.w then ⟨W, x.v % 2 ^ W, true⟩
  else if sg && decide (0 < x.w) && decide (2 ^ (x.w - 1) ≤ x.v) then ⟨W, x.v + (2 ^ W - 2 ^ x.w), true⟩
  else ⟨W, x.v, true⟩

/-- two's complement reading -/
def toInt (x : BV) : Int := if decide (0 < x.w) && decide (2 ^ (x.w - 1) ≤ x.v) then (x.v : Int) - (2 ^ x.w : Nat) else x.v

def ofInt (W : Nat) (i : Int) : BV := ⟨W, (i % (2 ^ W : Nat)).toNat, true⟩

def truthy (x : BV) : Option Bool := if x.k then some (x.v != 0) else none

def b1 (b : Bool) : BV := ⟨1, if b then 1 else 0, true⟩

def arith (op : String) (W : Nat) (sg : Bool) (a b : BV) : BV :=
  if !(a.k && b.k) then BV.x W else
  match op with
  | "and" => ⟨W, a.v &&& b.v, true⟩
  | "or"  => ⟨W, a.v ||| b.v, true⟩
  | "xor" => ⟨W, a.v ^^^ b.v, true⟩
  | "add" => BV.mk' W (a.v + b.v)
  | "sub" => BV.mk' W (a.v + (2 ^ W - b.v % 2 ^ W))
  | "mul" => BV.mk' W (a.v * b.v)
  | "div" => if b.v = 0 then BV.x W else
             if sg then ofInt W (Int.tdiv (toInt a) (toInt b)) else BV.mk' W (a.v / b.v)
  | "mod" => if b.v = 0 then BV.x W else
             if sg then ofInt W (Int.tmod (toInt a) (toInt b)) else BV.mk' W (a.v % b.v)
  | _ => BV.x W

def rel (op : String) (sg : Bool) (a b : BV) : BV :=
  if !(a.k && b.k) then BV.x 1 else
  let (x, y) : Int × Int := if sg then (toInt a, toInt b) else ((a.v : Int), (b.v : Int))
  match op with
  | "eq" => b1 (x == y) | "ne" => b1 (x != y) | "lt" => b1 (decide (x < y)) | "le" => b1 (decide (x ≤ y))
  | "gt" => b1 (decide (x > y)) | "ge" => b1 (decide (x ≥ y))
  | _ => BV.x 1

/-- evaluate `e` in a context of width `W` and signedness `sg` -/
def eval (r : Rd) (W : Nat) (sg : Bool) : Expr → BV
  | .id n => ext W sg (r.val n)
  | .num w s v k =>
      let ww := match w with | some w => w | none => 32
      ext W sg (if k then BV.mk' ww v else BV.x ww)
  | .un op e =>
      if op == "not" then
        let a := eval r W sg e
        if a.k then ⟨W, 2 ^ W - 1 - a.v, true⟩ else BV.x W
      else if op == "neg" then
        let a := eval r W sg e
        if a.k then BV.mk' W (2 ^ W - a.v) else BV.x W
      else
        let a := eval r (selfW r e) (isSg r e) e
        let res : BV :=
          if !a.k then BV.x 1
          else if op == "lnot" then b1 (a.v == 0)
          else if op == "ror" then b1 (a.v != 0)
          else if op == "rand" then b1 (a.v == 2 ^ a.w - 1)
          else if op == "rxor" then b1 ((Nat.popCountAux a.w a.v) % 2 == 1)
          else BV.x 1
        ext W false res
  | .bin op a b =>
      if isRel op then
        let m := max (selfW r a) (selfW r b)
        let s := isSg r a && isSg r b
        ext W false (rel op s (eval r m s a) (eval r m s b))
      else if isLog op then
        let x := truthy (eval r (selfW r a) (isSg r a) a)
        let y := truthy (eval r (selfW r b) (isSg r b) b)
        let res : BV := match x, y with
          | some p, some q => b1 (if op == "land" then p && q else p || q)
          | some p, none => if op == "land" then (if p then BV.x 1 else b1 false) else (if p then b1 true else BV.x 1)
          | none, some q => if op == "land" then (if q then BV.x 1 else b1 false) else (if q then b1 true else BV.x 1)
          | none, none => BV.x 1
        ext W false res
      else if isShift op then
        let x := eval r W sg a
        let n := eval r (selfW r b) false b
        if !(x.k && n.k) then BV.x W
        else if op == "shl" then BV.mk' W (x.v <<< n.v)
        else if op == "ashr" && sg then ofInt W ((toInt x) >>> n.v)
        else ⟨W, x.v >>> n.v, true⟩
      else arith op W sg (eval r W sg a) (eval r W sg b)
  | .tern c a b =>
      match truthy (eval r (selfW r c) (isSg r c) c) with
      | some true => eval r W sg a
      | some false => eval r W sg b
      | none => BV.x W
  | .cat a b =>
      let x := eval r (selfW r a) false a
      let y := eval r (selfW r b) false b
      ext W false (if x.k && y.k then ⟨x.w + y.w, x.v <<< y.w ||| y.v, true⟩ else BV.x (x.w + y.w))
  | .cat1 a => ext W false (eval r (selfW r a) false a)
  | .rep n e =>
      let y := eval r (selfW r e) false e
      ext W false (if y.k then ⟨n * y.w, (List.range n).foldl (fun acc _ => acc <<< y.w ||| y.v) 0, true⟩ else BV.x (n * y.w))
  | .idx n i =>
      let iv := eval r (selfW r i) false i
      if !iv.k then BV.x W
      else if isMem r n then ext W false (r.mem n iv.v)
      else
        let x := r.val n
        ext W false (if !x.k || iv.v ≥ x.w then BV.x 1 else ⟨1, (x.v >>> iv.v) % 2, true⟩)
  | .rng n hi lo =>
      let x := r.val n
      ext W false (if !x.k || hi ≥ x.w || hi < lo then BV.x (hi - lo + 1) else ⟨hi - lo + 1, (x.v >>> lo) % 2 ^ (hi - lo + 1), true⟩)
  | .sgn e => ext W sg (eval r (selfW r e) (isSg r e) e)
  | .usg e => ext W false (eval r (selfW r e) (isSg r e) e)
where
  /-- number of set bits among the low `w` bits -/
  Nat.popCountAux (w v : Nat) : Nat := (List.range w).foldl (fun acc i => acc + (v >>> i) % 2) 0

/-- value of `rhs` as assigned to a target of width `lw` -/
def evalAssign (r : Rd) (lw : Nat) (rhs : Expr) : BV :=
  let W := max lw (selfW r rhs)
  let v := eval r W (isSg r rhs) rhs
  if v.k then ⟨lw, v.v % 2 ^ lw, true⟩ else BV.x lw

/-- fully resolved assignment target -/
inductive Tgt where
  | whole (n : String)
  | bit (n : String) (i : Nat)
  | part (n : String) (hi lo : Nat)
  | word (n : String) (i : Nat)
  | none                                  -- unknown index: write is dropped
deriving Repr, Inhabited, BEq

def lhsWidth (r : Rd) : LHS → Nat
  | .lid n => widthOf r n
  | .lidx n _ => if isMem r n then widthOf r n else 1
  | .lrng _ hi lo => hi - lo + 1

def resolve (r : Rd) : LHS → Tgt
  | .lid n => .whole n
  | .lidx n i =>
      let iv := eval r (selfW r i) false i
      if !iv.k then .none else if isMem r n then .word n iv.v else .bit n iv.v
  | .lrng n hi lo => if lo = 0 && hi + 1 = widthOf r n then .whole n else .part n hi lo

/-- procedural execution state: blocking assignments update `wr` immediately, non-blocking ones are queued -/
structure Ex (σ : Type) where
  st  : σ
  nba : List (Tgt × BV)

/-- statement execution, parametric in how the store is read (`rd`) and written (`wr`) -/
def exec {σ : Type} (rd : σ → Rd) (wr : σ → Tgt → BV → σ) (subj : Option BV) : Stmt → Ex σ → Ex σ
  | .skip, x => x
  | .seq a b, x => exec rd wr subj b (exec rd wr subj a x)
  | .ife c t e, x =>
      let r := rd x.st
      match truthy (eval r (selfW r c) (isSg r c) c) with
      | some true => exec rd wr subj t x
      | _ => exec rd wr subj e x          -- unknown condition takes the else branch
  | .nba l e, x =>
      let r := rd x.st
      { x with nba := x.nba ++ [(resolve r l, evalAssign r (lhsWidth r l) e)] }
  | .ba l e, x =>
      let r := rd x.st
      { x with st := wr x.st (resolve r l) (evalAssign r (lhsWidth r l) e) }
  | .case e ch, x =>
      let r := rd x.st
      exec rd wr (some (eval r (selfW r e) (isSg r e) e)) ch x
  | .arm v s rest, x =>
      let r := rd x.st
      match subj with
      | some sv =>
        let m := max sv.w (selfW r v)
        let vv := eval r m false v
        let svv := ext m false sv
        if svv.k && vv.k && svv.v == vv.v then exec rd wr none s x else exec rd wr subj rest x
      | none => x
  | .dflt s, x => exec rd wr none s x

end V
