import Py4hwV.Verilog.Syntax
/- S-expression transport of parsed Verilog (written by harness/vparse.py) -/
namespace V

inductive SExp where
  | atom (s : String)
  | list (l : List SExp)
deriving Repr, Inhabited

partial def tokenizeS (s : String) : List String :=
  let rec go (cs : List Char) (cur : String) (acc : List String) : List String :=
    match cs with
    | [] => (if cur.isEmpty then acc else cur :: acc).reverse
    | c :: rest =>
      if c = '(' || c = ')' then
        go rest "" ((String.singleton c) :: (if cur.isEmpty then acc else cur :: acc))
      else if c = ' ' || c = '\n' || c = '\t' || c = '\r' then
        go rest "" (if cur.isEmpty then acc else cur :: acc)
      else go rest (cur.push c) acc
  go s.toList "" []

/-- returns (parsed, remaining tokens) -/
partial def parseS : List String → Option (SExp × List String)
  | [] => none
  | "(" :: rest =>
    let rec items (ts : List String) (acc : List SExp) : Option (SExp × List String) :=
      match ts with
      | [] => none
      | ")" :: r => some (.list acc.reverse, r)
      | _ => match parseS ts with
             | some (e, r) => items r (e :: acc)
             | none => none
    items rest []
  | ")" :: _ => none
  | a :: rest => some (.atom a, rest)

def readS (s : String) : Option SExp := (parseS (tokenizeS s)).map (·.1)

def nat? : SExp → Option Nat
  | .atom s => s.toNat?
  | _ => none

def int? : SExp → Option Int
  | .atom s => s.toInt?
  | _ => none

partial def toExpr : SExp → Option Expr
  | .list [.atom "id", .atom n] => some (.id n)
  | .list [.atom "num", w, s, v, k] => do
      let wi ← int? w; let si ← nat? s; let vi ← nat? v; let ki ← nat? k
      some (.num (if wi < 0 then none else some wi.toNat) (si != 0) vi (ki != 0))
  | .list [.atom "un", .atom op, e] => do some (.un op (← toExpr e))
  | .list [.atom "bin", .atom op, a, b] => do some (.bin op (← toExpr a) (← toExpr b))
  | .list [.atom "tern", c, a, b] => do some (.tern (← toExpr c) (← toExpr a) (← toExpr b))
  | .list [.atom "cat", a, b] => do some (.cat (← toExpr a) (← toExpr b))
  | .list [.atom "cat1", a] => do some (.cat1 (← toExpr a))
  | .list [.atom "rep", n, e] => do some (.rep (← nat? n) (← toExpr e))
  | .list [.atom "idx", .atom n, e] => do some (.idx n (← toExpr e))
  | .list [.atom "rng", .atom n, h, l] => do some (.rng n (← nat? h) (← nat? l))
  | .list [.atom "sgn", e] => do some (.sgn (← toExpr e))
  | .list [.atom "usg", e] => do some (.usg (← toExpr e))
  | _ => none

def toLHS : SExp → Option LHS
  | .list [.atom "lid", .atom n] => some (.lid n)
  | .list [.atom "lidx", .atom n, e] => do some (.lidx n (← toExpr e))
  | .list [.atom "lrng", .atom n, h, l] => do some (.lrng n (← nat? h) (← nat? l))
  | _ => none

partial def toStmt : SExp → Option Stmt
  | .list [.atom "skip"] => some .skip
  | .list [.atom "seq", a, b] => do some (.seq (← toStmt a) (← toStmt b))
  | .list [.atom "ife", c, t, e] => do some (.ife (← toExpr c) (← toStmt t) (← toStmt e))
  | .list [.atom "nba", l, e] => do some (.nba (← toLHS l) (← toExpr e))
  | .list [.atom "ba", l, e] => do some (.ba (← toLHS l) (← toExpr e))
  | .list [.atom "case", e, ch] => do some (.case (← toExpr e) (← toStmt ch))
  | .list [.atom "arm", v, s, r] => do some (.arm (← toExpr v) (← toStmt s) (← toStmt r))
  | .list [.atom "dflt", s] => do some (.dflt (← toStmt s))
  | _ => none

def toEvent : SExp → Option Event
  | .list [.atom "pos", .atom c] => some (.pos c)
  | .list [.atom "neg", .atom c] => some (.neg c)
  | .list [.atom "star"] => some .star
  | _ => none

def toPairs (tag : String) : List SExp → Option (List (String × Expr))
  | [] => some []
  | .list [.atom t, .atom n, e] :: rest => if t = tag then do some ((n, ← toExpr e) :: (← toPairs tag rest)) else none
  | _ => none

def toItem : SExp → Option Item
  | .list [.atom "wire", .atom n, w] => do some (.wire n (← nat? w))
  | .list [.atom "reg", .atom n, w] => do some (.reg n (← nat? w) none)
  | .list [.atom "regi", .atom n, w, e] => do some (.reg n (← nat? w) (some (← toExpr e)))
  | .list [.atom "mem", .atom n, w, lo, hi] => do some (.mem n (← nat? w) (← nat? lo) (← nat? hi))
  | .list [.atom "int", .atom n] => some (.int n none)
  | .list [.atom "inti", .atom n, e] => do some (.int n (some (← toExpr e)))
  | .list [.atom "assign", l, e] => do some (.assign (← toLHS l) (← toExpr e))
  | .list [.atom "always", ev, s] => do some (.always (← toEvent ev) (← toStmt s))
  | .list [.atom "initial", s] => do some (.initial (← toStmt s))
  | .list [.atom "inst", .atom m, .atom i, .list (.atom "params" :: ps), .list (.atom "conns" :: cs)] => do
      some (.inst m i (← toPairs "p" ps) (← toPairs "c" cs))
  | _ => none

def toPort : SExp → Option Port
  | .list [.atom "port", .atom d, r, w, .atom n] => do
      let dir ← match d with | "in" => some Dir.inp | "out" => some Dir.out | "inout" => some Dir.inout | _ => none
      some { dir := dir, isReg := (← nat? r) != 0, width := ← nat? w, name := n }
  | _ => none

def toModule : SExp → Option Module
  | .list [.atom "module", .atom n, .list (.atom "params" :: ps), .list (.atom "ports" :: pts), .list (.atom "items" :: its)] => do
      let params ← ps.mapM fun p => match p with | .atom a => some a | _ => none
      some { name := n, params := params, ports := ← pts.mapM toPort, items := ← its.mapM toItem }
  | _ => none

def toDesign : SExp → Option Design
  | .list (.atom "design" :: ms) => ms.mapM toModule
  | _ => none

def readDesign (s : String) : Option Design := (readS s).bind toDesign

end V
