import Py4hwV.Proofs.C01FlatElab
import Py4hwV.Proofs.C01FlatShip
/-
  C01 design level, elaboration (2): the flattened emitted text IS the flat design of the theorems
  (assigns up to order, procs, initialisers, declarations), and `V.mkSim` of it satisfies `ShipInv`.
-/
set_option linter.unusedSimpArgs false
namespace FlatM
open V C01 Net
namespace FlatSrc
variable (S : FlatSrc)

/-- the flattened text -/
def flatS : V.Flat := addC {} S.topC

theorem flatMap_regs {β : Type} (cs : List Child) (g : Child → List β) (h : RegSrc → β)
    (hp : ∀ k, g (.prim k) = []) (hr : ∀ r, g (.reg r) = [h r]) :
    cs.flatMap g = (cs.filterMap Child.reg?).map h := by
  induction cs with
  | nil => rfl
  | cons c cs ih =>
    cases c with
    | prim k =>
      have : Child.reg? (.prim k) = none := rfl
      simp [List.flatMap_cons, hp, List.filterMap_cons, this, ih]
    | reg r =>
      have : Child.reg? (.reg r) = some r := rfl
      simp [List.flatMap_cons, hr, List.filterMap_cons, this, ih]

theorem join_nil_of {α : Type} (l : List α) (c : α → Contrib) :
    (Contrib.join (l.map c)).sigs = l.flatMap (fun x => (c x).sigs) ∧
    (Contrib.join (l.map c)).inits = l.flatMap (fun x => (c x).inits) ∧
    (Contrib.join (l.map c)).assigns = l.flatMap (fun x => (c x).assigns) ∧
    (Contrib.join (l.map c)).procs = l.flatMap (fun x => (c x).procs) := by
  simp [Contrib.join, List.flatMap_map]

theorem flatS_procs : S.flatS.procs = S.design.regs.map RegI.proc := by
  have h1 := (join_nil_of S.locals (fun k => ({ sigs := [(S.nm k, { width := S.wd k })] } : Contrib))).2.2.2
  have h2 := (join_nil_of S.children S.childC).2.2.2
  simp only [flatS, addC, topC, Contrib.app, h1, h2, List.nil_append, List.append_nil]
  simp only [design, regSrcs, List.map_map]
  rw [show (S.locals.flatMap fun x => ([] : List (Event × Stmt))) = [] by simp]
  simp only [List.nil_append]
  apply flatMap_regs
  · intro k; rfl
  · intro r; simp [childC, Contrib.app, regModC, connC, RegI.proc, RegSrc.regI]

theorem flatS_inits : S.flatS.inits = S.design.regs.map (fun R => (R.rq, FlatM.lit R.leaf.rv)) := by
  have h1 := (join_nil_of S.locals (fun k => ({ sigs := [(S.nm k, { width := S.wd k })] } : Contrib))).2.1
  have h2 := (join_nil_of S.children S.childC).2.1
  simp only [flatS, addC, topC, Contrib.app, h1, h2, List.nil_append]
  simp only [design, regSrcs, List.map_map]
  rw [show (S.locals.flatMap fun x => ([] : List (String × Expr))) = [] by simp]
  simp only [List.nil_append]
  apply flatMap_regs
  · intro k; rfl
  · intro r; simp [childC, Contrib.app, regModC, connC, RegI.rq, RegSrc.regI]

theorem flatS_errors : S.flatS.errors = [] ∧ S.flatS.initials = [] := ⟨rfl, rfl⟩

/-! ### the assigns, up to order -/

theorem flatS_assigns : S.flatS.assigns = S.children.flatMap (fun c => (S.childC c).assigns) := by
  have h1 := (join_nil_of S.locals (fun k => ({ sigs := [(S.nm k, { width := S.wd k })] } : Contrib))).2.2.1
  have h2 := (join_nil_of S.children S.childC).2.2.1
  simp only [flatS, addC, topC, Contrib.app, h1, h2, List.nil_append]
  rw [show (S.locals.flatMap fun x => ([] : List (LHS × Expr))) = [] by simp]
  rfl

theorem perm_move {α : Type} (T a b c d : List α) : (T ++ (a ++ (b ++ (c ++ d)))).Perm (a ++ (b ++ (c ++ (T ++ d)))) := by
  have h1 : T ++ (a ++ (b ++ (c ++ d))) = (T ++ (a ++ b ++ c)) ++ d := by simp [List.append_assoc]
  have h2 : a ++ (b ++ (c ++ (T ++ d))) = ((a ++ b ++ c) ++ T) ++ d := by simp [List.append_assoc]
  rw [h1, h2]
  exact List.Perm.append_right d List.perm_append_comm

theorem tail_perm {α : Type} (tc td hn : α) (X : List α) : (tc :: td :: (X ++ [hn])).Perm (hn :: td :: tc :: X) := by
  have h1 : (tc :: td :: (X ++ [hn])).Perm (tc :: td :: hn :: X) :=
    List.Perm.cons _ (List.Perm.cons _ (List.perm_append_singleton _ _))
  refine h1.trans ?_
  refine (List.Perm.cons _ (List.Perm.swap _ _ _)).trans ?_
  refine (List.Perm.swap _ _ _).trans ?_
  exact List.Perm.cons _ (List.Perm.swap _ _ _)

theorem assigns_perm_aux (nm : Nat → String) (wd : Nat → Nat) (clk : String) (cs : List Child)
    (A : Child → List (LHS × Expr))
    (hp : ∀ k, A (.prim k) = [k.assign wd nm])
    (hr : ∀ r, (A (.reg r)).Perm (RegI.hq (RegSrc.regI r) :: RegI.hn nm (RegSrc.regI r) :: RegI.tail nm clk (RegSrc.regI r))) :
    (cs.flatMap A).Perm
      (((cs.filterMap Child.reg?).map RegSrc.regI).map RegI.hq ++
        (((cs.filterMap Child.reg?).map RegSrc.regI).map (RegI.hn nm) ++
          ((cs.filterMap Child.prim?).map (Kind.assign wd nm) ++
            ((cs.filterMap Child.reg?).map RegSrc.regI).flatMap (RegI.tail nm clk)))) := by
  induction cs with
  | nil => simp
  | cons c cs ih =>
    cases c with
    | prim k =>
      have e1 : Child.reg? (.prim k) = none := rfl
      have e2 : Child.prim? (.prim k) = some k := rfl
      simp only [List.flatMap_cons, hp, List.filterMap_cons, e1, e2, List.map_cons]
      refine ((List.Perm.cons _ ih)).trans ?_
      -- move `ka` past the two register blocks
      have := perm_move [k.assign wd nm]
        (((cs.filterMap Child.reg?).map RegSrc.regI).map RegI.hq)
        (((cs.filterMap Child.reg?).map RegSrc.regI).map (RegI.hn nm)) []
        ((cs.filterMap Child.prim?).map (Kind.assign wd nm) ++
          ((cs.filterMap Child.reg?).map RegSrc.regI).flatMap (RegI.tail nm clk))
      simpa using this
    | reg r =>
      have e1 : Child.reg? (.reg r) = some r := rfl
      have e2 : Child.prim? (.reg r) = none := rfl
      simp only [List.flatMap_cons, List.filterMap_cons, e1, e2, List.map_cons]
      refine (List.Perm.append (hr r) ih).trans ?_
      simp only [List.cons_append]
      apply List.Perm.cons
      refine List.Perm.trans ?_ (List.perm_middle).symm
      apply List.Perm.cons
      exact perm_move _ _ _ _ _

theorem flatS_perm : S.flatS.assigns.Perm S.design.assigns := by
  rw [flatS_assigns]
  unfold FlatDesign.assigns design regSrcs
  apply assigns_perm_aux S.nm S.wd S.clk S.children
  · intro k; rfl
  · intro r
    cases hE : r.leaf.hasE <;> cases hR : r.leaf.hasR <;>
      simp only [childC, Contrib.app, regModC, connC, RegI.hq, RegI.hn, RegI.tail, RegSrc.regI, hE, hR, if_true, if_false,
        Bool.false_eq_true, List.append_nil, List.cons_append, List.nil_append]
    · exact List.Perm.cons _ (tail_perm _ _ _ [])
    · exact List.Perm.cons _ (tail_perm _ _ _ [_])
    · exact List.Perm.cons _ (tail_perm _ _ _ [_])
    · exact List.Perm.cons _ (tail_perm _ _ _ [_, _])

/-! ### the declarations -/

def regSigNodes (R : RegI) : List Node :=
  [.clk R, .d R] ++ (if R.leaf.hasE then [.e R] else []) ++ (if R.leaf.hasR then [.r R] else []) ++ [.q R, .rq R]

/-- the declared signals of the flattened text, in the order `V.flattenM` collects them -/
def sigNodes : List Node :=
  (if S.regSrcs.isEmpty then [] else [Node.base]) ++ S.inputs.map Node.net ++ S.outputs.map Node.net ++
    S.locals.map Node.net ++ S.design.regs.flatMap regSigNodes

def sigOf (x : Node) : String × SigInfo := (S.design.name x, { width := S.design.width0 x })

theorem flatS_sigs : S.flatS.sigs = S.sigNodes.map S.sigOf := by
  have h1 := (join_nil_of S.locals (fun k => ({ sigs := [(S.nm k, { width := S.wd k })] } : Contrib))).1
  have h2 := (join_nil_of S.children S.childC).1
  simp only [flatS, addC, topC, Contrib.app, h1, h2, List.nil_append, sigNodes, List.map_append, List.map_map]
  have hports : S.topModule.ports.map (portSig "") =
      ((if S.regSrcs.isEmpty then [] else [Node.base]).map S.sigOf ++ (S.inputs.map Node.net).map S.sigOf) ++
        (S.outputs.map Node.net).map S.sigOf := by
    have e0 : (if S.regSrcs.isEmpty then [] else [mkPort .inp 1 S.clk]).map (portSig "") =
        (if S.regSrcs.isEmpty then [] else [Node.base]).map S.sigOf := by
      cases S.regSrcs.isEmpty <;>
        simp [portSig, mkPort, sigOf, FlatDesign.name, FlatDesign.width0, netOf, design]
    have e1 : ∀ (dir : Dir) (l : List Nat), (l.map fun k => mkPort dir (S.wd k) (S.nm k)).map (portSig "") = (l.map Node.net).map S.sigOf := by
      intro dir l
      rw [List.map_map, List.map_map]
      apply List.map_congr_left; intro k _
      simp [portSig, mkPort, sigOf, FlatDesign.name, FlatDesign.width0, netOf, design]
    simp only [topModule, List.map_append, e0, e1]
  have hloc : (S.locals.flatMap fun x => [(S.nm x, ({ width := S.wd x } : SigInfo))]) = (S.locals.map Node.net).map S.sigOf := by
    rw [List.map_map]
    induction S.locals with
    | nil => rfl
    | cons k l ih => simp [List.flatMap_cons, ih, sigOf, FlatDesign.name, FlatDesign.width0, netOf, design]
  have hch : (S.children.flatMap fun x => (S.childC x).sigs) = (S.design.regs.flatMap regSigNodes).map S.sigOf := by
    simp only [design, regSrcs]
    induction S.children with
    | nil => rfl
    | cons c cs ih =>
      cases c with
      | prim k =>
        have e1 : Child.reg? (.prim k) = none := rfl
        simp only [List.flatMap_cons, List.filterMap_cons, e1, ih]
        simp [childC]
      | reg r =>
        have e1 : Child.reg? (.reg r) = some r := rfl
        simp only [List.flatMap_cons, List.filterMap_cons, e1, List.map_cons, List.map_append, ih]
        congr 1
        cases hE : r.leaf.hasE <;> cases hR : r.leaf.hasR <;>
          simp [childC, Contrib.app, regModC, connC, regSigNodes, RegSrc.regI, hE, hR, sigOf, FlatDesign.name,
            FlatDesign.width0, netOf, design]
  rw [hports, hloc, hch]
  simp [List.append_assoc]

end FlatSrc

/-! ### `V.mkSim`: the store before the first settle -/

/-- the store `V.mkSim` builds before its final `settle` (same code) -/
def preStore (f : V.Flat) (clk : String) : Store :=
  let st : Store := f.sigs.foldl (fun s (n, i) =>
    match i.memLen with
    | some len => { s with info := s.info.insert n i, mems := s.mems.insert n (Array.replicate len (BV.x i.width)) }
    | none => { s with info := s.info.insert n i }) {}
  let st := f.inits.foldl (fun s (n, e) => s.wr (.whole n) (evalAssign s.rd (widthOf s.rd n) e)) st
  let st := st.setVal clk ⟨1, 1, true⟩
  f.initials.foldl (fun s p => let (s', q) := runProc s p; applyNba s' q) st

theorem mkSim_eq (d : Design) (top clk : String) :
    mkSim d top clk = (Sim.mk (flatten d top) (preStore (flatten d top) clk) clk (flatten d top).errors).settle := rfl

theorem sigs_fold (g : Store → String × SigInfo → Store)
    (hg : ∀ s x, x.2.memLen = none → g s x = { s with info := s.info.insert x.1 x.2 })
    (l : List (String × SigInfo)) (hl : ∀ x, x ∈ l → x.2.memLen = none) (s0 : Store) :
    (l.foldl g s0).vals = s0.vals ∧ (l.foldl g s0).mems = s0.mems ∧
    (∀ n, n ∉ l.map (·.1) → (l.foldl g s0).info[n]? = s0.info[n]?) ∧
    ((∀ x y, x ∈ l → y ∈ l → x.1 = y.1 → x.2 = y.2) → ∀ x, x ∈ l → (l.foldl g s0).info[x.1]? = some x.2) := by
  induction l generalizing s0 with
  | nil => exact ⟨rfl, rfl, fun _ _ => rfl, fun _ x hx => by cases hx⟩
  | cons a l ih =>
    simp only [List.foldl]
    have ha := hg s0 a (hl a (by simp))
    obtain ⟨h1, h2, h3, h4⟩ := ih (fun x hx => hl x (by simp [hx])) (g s0 a)
    refine ⟨by rw [h1, ha], by rw [h2, ha], ?_, ?_⟩
    · intro n hn
      simp only [List.map_cons, List.mem_cons, not_or] at hn
      rw [h3 n hn.2, ha]
      simp only [Std.HashMap.getElem?_insert]
      have : (a.1 == n) = false := by simp; exact fun e => hn.1 e.symm
      simp [this]
    · intro hf x hx
      have hf' : ∀ x y, x ∈ l → y ∈ l → x.1 = y.1 → x.2 = y.2 := fun x y hx hy => hf x y (by simp [hx]) (by simp [hy])
      simp only [List.mem_cons] at hx
      rcases hx with e | hx
      · subst e
        by_cases hin : x.1 ∈ l.map (·.1)
        · rcases List.mem_map.mp hin with ⟨y, hy, e⟩
          have := h4 hf' y hy
          rw [e] at this
          rw [this, hf y x (by simp [hy]) (by simp) e]
        · rw [h3 x.1 hin, ha]
          simp
      · exact h4 hf' x hx

/-- reader-level declaration initialiser -/
def initA (r : Rd) (ne : String × Expr) : Rd := setWhole r ne.1 (evalAssign r (widthOf r ne.1) ne.2)

theorem inits_fold (g : Store → String × Expr → Store)
    (hg : ∀ s x, g s x = s.wr (.whole x.1) (evalAssign s.rd (widthOf s.rd x.1) x.2))
    (l : List (String × Expr)) (s0 : Store) : (l.foldl g s0).rd = l.foldl initA s0.rd := by
  induction l generalizing s0 with
  | nil => rfl
  | cons a l ih =>
    simp only [List.foldl]
    rw [ih, hg, wr_whole_rd]
    rfl

theorem initA_regs (wd : Nat → Nat) (regs : List RegI) (hn : (regs.map RegI.rq).Nodup) (hrv : ∀ R, R ∈ regs → R.leaf.rv < 2 ^ 31)
    (r : Rd) (hi : ∀ R, R ∈ regs → r.info R.rq = some { width := wd R.leaf.q }) :
    ((regs.map fun R => (R.rq, FlatM.lit R.leaf.rv)).foldl initA r).info = r.info ∧
    ((regs.map fun R => (R.rq, FlatM.lit R.leaf.rv)).foldl initA r).mem = r.mem ∧
    (∀ R, R ∈ regs → ((regs.map fun R => (R.rq, FlatM.lit R.leaf.rv)).foldl initA r).val R.rq =
      ⟨wd R.leaf.q, R.leaf.rv % 2 ^ wd R.leaf.q, true⟩) ∧
    (∀ n, n ∉ regs.map RegI.rq → ((regs.map fun R => (R.rq, FlatM.lit R.leaf.rv)).foldl initA r).val n = r.val n) := by
  induction regs generalizing r with
  | nil => exact ⟨rfl, rfl, (fun _ h => nomatch h), fun _ _ => rfl⟩
  | cons R regs ih =>
    simp only [List.map_cons, List.nodup_cons] at hn
    simp only [List.map_cons, List.foldl]
    have hw : widthOf r R.rq = wd R.leaf.q := by simp [widthOf, hi R (by simp)]
    have hv : evalAssign r (wd R.leaf.q) (FlatM.lit R.leaf.rv) = ⟨wd R.leaf.q, R.leaf.rv % 2 ^ wd R.leaf.q, true⟩ := by
      have := inline_const r (wd R.leaf.q) R.leaf.rv (hrv R (by simp))
      rw [← lit_eq] at this
      simpa [Leaf.const, Bits.put_ofNat] using this
    have hstep : ∀ n, (initA r (R.rq, FlatM.lit R.leaf.rv)).val n =
        if n = R.rq then ⟨wd R.leaf.q, R.leaf.rv % 2 ^ wd R.leaf.q, true⟩ else r.val n := by
      intro n
      simp only [initA, setWhole, hw, hv, norm, Nat.mod_mod, if_true]
    obtain ⟨h1, h2, h3, h4⟩ := ih hn.2 (fun R' h' => hrv R' (by simp [h'])) (initA r (R.rq, FlatM.lit R.leaf.rv))
      (fun R' h' => hi R' (by simp [h']))
    refine ⟨h1, h2, ?_, ?_⟩
    · intro R' hR'
      simp only [List.mem_cons] at hR'
      rcases hR' with e | hR'
      · subst e
        rw [h4 _ hn.1, hstep, if_pos rfl]
      · exact h3 R' hR'
    · intro n hn'
      simp only [List.map_cons, List.mem_cons, not_or] at hn'
      rw [h4 n hn'.2, hstep, if_neg hn'.1]


theorem keeps_fold_wr (g : Store → String × Expr → Store)
    (hg : ∀ s x, g s x = s.wr (.whole x.1) (evalAssign s.rd (widthOf s.rd x.1) x.2))
    (l : List (String × Expr)) (s0 : Store) : Keeps s0 (l.foldl g s0) := by
  induction l generalizing s0 with
  | nil => exact Keeps.refl s0
  | cons a l ih =>
    simp only [List.foldl]
    exact (by rw [hg]; exact keeps_wr_whole _ _ _ : Keeps s0 (g s0 a)).trans (ih _)

namespace FlatSrc
variable (S : FlatSrc)

/-- everything the elaboration theorem needs of the imported description (all decidable: `FlatSrc.check`) -/
structure OK (S : FlatSrc) : Prop where
  wf : S.design.WF
  mods : S.ModsOK
  inputs_in : ∀ k, k ∈ S.inputs → S.design.isIn k
  all_driven : ∀ k, S.design.isIn k → k ∈ S.inputs

theorem sigNodes_sub {x : Node} (hx : x ∈ S.sigNodes) : x ∈ S.design.nodes := by
  unfold sigNodes at hx
  simp only [List.mem_append, List.mem_map, List.mem_flatMap] at hx
  rcases hx with (((hx | ⟨k, hk, e⟩) | ⟨k, hk, e⟩) | ⟨k, hk, e⟩) | ⟨R, hR, hx⟩
  · cases h : S.regSrcs.isEmpty
    · simp [h] at hx; subst hx; exact FlatDesign.mem_nodes_base
    · simp [h] at hx
  · subst e; exact FlatDesign.mem_nodes_net (by simp [design, hk])
  · subst e; exact FlatDesign.mem_nodes_net (by simp [design, hk])
  · subst e; exact FlatDesign.mem_nodes_net (by simp [design, hk])
  · apply FlatDesign.mem_nodes_reg hR
    unfold regSigNodes at hx
    unfold RegI.nodes
    cases hE : R.leaf.hasE <;> cases hRr : R.leaf.hasR <;> simp [hE, hRr] at hx ⊢ <;> grind

theorem sigNodes_reg {R : RegI} (hR : R ∈ S.design.regs) {x : Node} (hx : x ∈ regSigNodes R) : x ∈ S.sigNodes := by
  unfold sigNodes
  simp only [List.mem_append, List.mem_flatMap]
  right; exact ⟨R, hR, hx⟩

theorem sigNodes_cover {x : Node} (hx : x ∈ S.design.nodes) {k : Nat} (hk : netOf x = some k) : x ∈ S.sigNodes := by
  rcases FlatDesign.nodes_inv hx with ⟨k', hk', e⟩ | ⟨R, hR, hxR⟩ | e
  · subst e
    unfold sigNodes
    simp only [design, List.mem_append] at hk'
    simp only [List.mem_append, List.mem_map]
    rcases hk' with h | h | h
    · left; left; left; right; exact ⟨k', h, rfl⟩
    · left; left; right; exact ⟨k', h, rfl⟩
    · left; right; exact ⟨k', h, rfl⟩
  · apply S.sigNodes_reg hR
    rcases FlatDesign.regnodes_inv hxR with e | e | e | e | ⟨e, h⟩ | ⟨e, h⟩ <;> subst e
    · simp [regSigNodes]
    · simp [regSigNodes]
    · simp [regSigNodes]
    · cases hk
    · simp [regSigNodes, h]
    · simp [regSigNodes, h]
  · subst e; cases hk

theorem sigNodes_base {R : RegI} (hR : R ∈ S.design.regs) : Node.base ∈ S.sigNodes := by
  have : S.regSrcs.isEmpty = false := by
    simp only [design] at hR
    cases h : S.regSrcs with
    | nil => rw [h] at hR; cases hR
    | cons a l => rfl
  unfold sigNodes
  simp [this]

/-- the reader of the store `mkSim` builds before its final settle -/
theorem preStore_rd (h : S.OK) :
    let r := (preStore S.flatS S.clk).rd
    (∀ x, x ∈ S.sigNodes → r.info (S.design.name x) = some { width := S.design.width0 x }) ∧
    r.val S.clk = ⟨1, 1, true⟩ ∧
    (∀ R, R ∈ S.design.regs → r.val R.rq = ⟨S.design.wd R.leaf.q, R.leaf.rv % 2 ^ S.design.wd R.leaf.q, true⟩) := by
  intro r
  have hF := h.wf
  -- the three folds
  let g1 : Store → String × SigInfo → Store := fun s x =>
    match x with
    | (n, i) => match i.memLen with
      | some len => { s with info := s.info.insert n i, mems := s.mems.insert n (Array.replicate len (BV.x i.width)) }
      | none => { s with info := s.info.insert n i }
  have hg1 : ∀ s x, x.2.memLen = none → g1 s x = { s with info := s.info.insert x.1 x.2 } := by
    intro s x hx
    obtain ⟨n, i⟩ := x
    simp only at hx
    simp only [g1, hx]
  let st1 : Store := S.flatS.sigs.foldl g1 {}
  let g2 : Store → String × Expr → Store := fun s x => s.wr (.whole x.1) (evalAssign s.rd (widthOf s.rd x.1) x.2)
  let st2 : Store := S.flatS.inits.foldl g2 st1
  have hpre : preStore S.flatS S.clk = st2.setVal S.clk ⟨1, 1, true⟩ := rfl
  have hsig := sigs_fold g1 hg1 S.flatS.sigs (by
    intro x hx
    rw [flatS_sigs] at hx
    rcases List.mem_map.mp hx with ⟨y, _, e⟩
    subst e; rfl) {}
  obtain ⟨hv1, hm1, _, hinfo1⟩ := hsig
  have hfun : ∀ x y, x ∈ S.flatS.sigs → y ∈ S.flatS.sigs → x.1 = y.1 → x.2 = y.2 := by
    intro x y hx hy e
    rw [flatS_sigs] at hx hy
    rcases List.mem_map.mp hx with ⟨a, ha, ea⟩
    rcases List.mem_map.mp hy with ⟨b, hb, eb⟩
    subst ea eb
    have := FlatDesign.name_inj hF.names_inj (S.sigNodes_sub ha) (S.sigNodes_sub hb) e
    rw [this]
  have hk12 : Keeps st1 st2 := keeps_fold_wr g2 (fun _ _ => rfl) _ st1
  have hk23 : Keeps st2 (st2.setVal S.clk ⟨1, 1, true⟩) := keeps_setVal _ _ _
  have hinfoR : ∀ x, x ∈ S.sigNodes → (st2.setVal S.clk ⟨1, 1, true⟩).rd.info (S.design.name x) = some { width := S.design.width0 x } := by
    intro x hx
    show (st2.setVal S.clk ⟨1, 1, true⟩).info[S.design.name x]? = _
    rw [hk23.info, hk12.info]
    exact hinfo1 hfun (S.sigOf x) (by rw [flatS_sigs]; exact List.mem_map.mpr ⟨x, hx, rfl⟩)
  have hrd2 : st2.rd = (S.design.regs.map fun R => (R.rq, FlatM.lit R.leaf.rv)).foldl initA st1.rd := by
    show (S.flatS.inits.foldl g2 st1).rd = _
    rw [inits_fold g2 (fun _ _ => rfl), flatS_inits]
  have hC := FlatDesign.seqCorr hF S.design.assigns (List.Perm.refl _)
  have hregs := initA_regs S.design.wd S.design.regs hC.rq_nodup hF.rv_lt st1.rd (by
    intro R hR
    have hx := S.sigNodes_reg hR (x := .rq R) (by simp [regSigNodes])
    have := hinfo1 hfun (S.sigOf (.rq R)) (by rw [flatS_sigs]; exact List.mem_map.mpr ⟨_, hx, rfl⟩)
    show st1.info[R.rq]? = _
    exact this)
  rw [← hrd2] at hregs
  obtain ⟨_, _, hrq, _⟩ := hregs
  have hrd3 : (st2.setVal S.clk ⟨1, 1, true⟩).rd = { st2.rd with val := fun m => if m = S.clk then ⟨1, 1, true⟩ else st2.rd.val m } :=
    setVal_rd _ _ _
  refine ⟨by rw [hpre] at *; exact hinfoR, ?_, ?_⟩
  · show (preStore S.flatS S.clk).rd.val S.clk = _
    rw [hpre, hrd3]; simp
  · intro R hR
    show (preStore S.flatS S.clk).rd.val R.rq = _
    rw [hpre, hrd3]
    have hne : R.rq ≠ S.clk :=
      FlatDesign.name_ne hF.names_inj (x := .rq R) (y := .base)
        (FlatDesign.mem_nodes_reg hR (FlatDesign.mem_regnodes_rq R)) FlatDesign.mem_nodes_base (by simp)
    simp only [if_neg hne]
    exact hrq R hR

/-- **elaboration**: `V.mkSim` of the emitted module list is a shipped-simulator state for the flat design: it runs the
    design's assigns (in the text's order, a permutation of `FlatDesign.assigns`) and register bodies, declares every
    signal, holds `rq = reset_value`, has the clocks high, and logged no error -/
theorem mkSim_inv (h : S.OK) :
    S.flatS.assigns.Perm S.design.assigns ∧
    FlatDesign.ShipInv S.design S.flatS.assigns (mkSim S.emit S.top S.clk) ∧
    (mkSim S.emit S.top S.clk).errors = [] ∧
    (∀ R, R ∈ S.design.regs → (mkSim S.emit S.top S.clk).st.rd.val R.rq =
      ⟨S.design.wd R.leaf.q, R.leaf.rv % 2 ^ S.design.wd R.leaf.q, true⟩) := by
  have hF := h.wf
  have hp := S.flatS_perm
  obtain ⟨hinfo, hclk, hrq⟩ := S.preStore_rd h
  have hflat : flatten S.emit S.top = S.flatS := S.flatten_emit h.mods
  rw [mkSim_eq, hflat]
  generalize hpre : Sim.mk S.flatS (preStore S.flatS S.clk) S.clk S.flatS.errors = pre
  have hst : pre.st = preStore S.flatS S.clk := by rw [← hpre]
  have hfl : pre.flat = S.flatS := by rw [← hpre]
  have hck : pre.clk = S.clk := by rw [← hpre]
  have her : pre.errors = [] := by rw [← hpre]; rfl
  -- declarations
  have hdecl : S.design.Declared pre.st.rd := by
    intro x hx k hk
    rw [hst, hinfo x (S.sigNodes_cover hx hk)]
    simp [FlatDesign.width0, hk]
  have hclkd : S.design.ClkDeclared pre.st.rd.info := by
    intro R hR
    rw [hst]
    exact ⟨hinfo .base (S.sigNodes_base hR), hinfo (.clk R) (S.sigNodes_reg hR (by simp [regSigNodes]))⟩
  have hC : CycOK pre.flat pre.clk S.design.topo pre.st.rd.info := by
    rw [hck]
    apply FlatDesign.CycOK_congr (f := S.design.flatOf S.flatS.assigns) (by rw [hfl]; rfl) (by rw [hfl]; exact S.flatS_procs)
    exact FlatDesign.cycOK hF _ hp _ hclkd
  have hl : ∀ a, a ∈ pre.flat.assigns → LhsOk pre.st.rd a.1 := by
    rw [hfl]; exact (FlatDesign.infoOK hF _ hp pre.st.rd hdecl).lhs
  obtain ⟨hs1, hs2, hs3, hs4⟩ := sim_settle_rd pre hC.nostar hC.perm hC.acyc hl
  obtain ⟨hSet, hi, _, hund, _⟩ := settleA_settled hC.perm hC.acyc pre.st.rd hl
  have hsc := FlatDesign.seqCorr hF S.flatS.assigns hp
  have hvclk : pre.settle.st.rd.val S.clk = ⟨1, 1, true⟩ := by
    rw [hs1, hund S.clk (by rw [← hck]; exact hC.clk_undriven), hst]; exact hclk
  have hvrq : ∀ R, R ∈ S.design.regs → pre.settle.st.rd.val R.rq =
      ⟨S.design.wd R.leaf.q, R.leaf.rv % 2 ^ S.design.wd R.leaf.q, true⟩ := by
    intro R hR
    rw [hs1, hund R.rq (by
      intro a ha e
      rw [hfl] at ha
      exact hsc.rq_undriven R hR (List.mem_map.mpr ⟨a, ha, e⟩)), hst]
    exact hrq R hR
  refine ⟨hp, ⟨by rw [hs3, hfl], by rw [hs3, hfl]; exact S.flatS_procs, hs4.trans hck, ?_, ?_, hvclk, ?_⟩, hs2.trans her, hvrq⟩
  · intro x hx k hk; rw [hs1, hi]; exact hdecl x hx k hk
  · rw [hs1, hi]; exact hclkd
  · intro R hR
    have hmem : RegI.proc R ∈ pre.flat.procs := by rw [hfl, S.flatS_procs]; exact List.mem_map.mpr ⟨R, hR, rfl⟩
    apply hC.follows (RegI.proc R) _ hmem rfl pre.settle.st.rd (by rw [hs1, hi]) (by rw [hs1]; exact hSet) 1 (by omega)
    rw [hck]; exact hvclk

end FlatSrc
end FlatM
