import Py4hwV.Proofs.C07Shift
/-
  C07 helper lemmas: rotations.  A rotation of a `w`-bit word by `n` is multiplication by `2^n` modulo `2^w - 1`
  (except for the all-ones word, which is a fixed point); composing the barrel stages is then adding exponents.
-/
namespace C07
open Bits

/-- canonical value of "rotate the `w`-bit word `a` by `n ≤ w` towards the MSB" -/
def rotv (w a n : Nat) : Nat := (a % 2^(w-n)) * 2^n + a / 2^(w-n)

theorem pow_mul_pow_sub {n w : Nat} (hn : n ≤ w) : 2^(w-n) * 2^n = 2^w := by
  rw [← Nat.pow_add]; congr 1; omega

theorem rot_core (w a n : Nat) (hn : n ≤ w) (ha : a < 2^w) :
    ((a <<< n) ||| (a >>> (w - n))) % 2^w = rotv w a n := by
  have hPQ := pow_mul_pow_sub hn
  have hhi : a / 2^(w-n) < 2^n := by
    rw [Nat.div_lt_iff_lt_mul (Nat.two_pow_pos _), Nat.mul_comm, hPQ]; exact ha
  rw [Nat.or_mod_two_pow, Nat.shiftLeft_eq, Nat.shiftRight_eq_div_pow]
  rw [show a * 2^n % 2^w = (a % 2^(w-n)) * 2^n by rw [← hPQ, Nat.mul_mod_mul_right]]
  rw [Nat.mod_eq_of_lt (Nat.lt_of_le_of_lt (Nat.div_le_self _ _) ha)]
  unfold rotv
  rw [← Nat.shiftLeft_eq, Nat.shiftLeft_add_eq_or_of_lt hhi]

theorem rotv_lt_pow (w a n : Nat) (hn : n ≤ w) (ha : a < 2^w) : rotv w a n < 2^w := by
  rw [← rot_core w a n hn ha]; exact Nat.mod_lt _ (Nat.two_pow_pos w)

theorem spec_rotl_eq_rotv (w a n : Nat) (hn : n ≤ w) (ha : a < 2^w) : ArithSpec.rotl w a n = rotv w a n := by
  have hPQ := pow_mul_pow_sub hn
  unfold ArithSpec.rotl
  rw [show a * 2^n % 2^w = (a % 2^(w-n)) * 2^n by rw [← hPQ, Nat.mul_mod_mul_right]]
  exact Nat.mod_eq_of_lt (rotv_lt_pow w a n hn ha)

theorem spec_rotr_eq_rotl (w a n : Nat) (hn : n ≤ w) : ArithSpec.rotr w a n = ArithSpec.rotl w a (w - n) := by
  unfold ArithSpec.rotr ArithSpec.rotl
  rw [show w - (w - n) = n by omega, Nat.add_comm]

theorem leaf_rotr_eq_rotl (rw w a n : Nat) (hn : n ≤ w) : Leaf.rotr rw w a n = Leaf.rotl rw w a (w - n) := by
  unfold Leaf.rotr Leaf.rotl
  rw [show w - (w - n) = n by omega, Nat.or_comm]

/-- the Rotate*Constant leaf (which masks the rotated word to the width of `a` since /repo 6b4070f) is the
    canonical rotation seen through the `rw`-bit result wire, for EVERY result width -/
theorem leaf_rotl_eq_rotv (rw w a n : Nat) (hn : n ≤ w) (ha : a < 2^w) : Leaf.rotl rw w a n = rotv w a n % 2^rw := by
  unfold Leaf.rotl; rw [rot_core w a n hn ha]

/-- a word that is not all ones: rotation = multiplication by `2^n` modulo `2^w - 1` -/
theorem rotv_lt_M (w a n : Nat) (hn : n ≤ w) (ha : a < 2^w - 1) : rotv w a n = (a * 2^n) % (2^w - 1) := by
  have hPQ := pow_mul_pow_sub hn
  have hP : 0 < 2^n := Nat.two_pow_pos _
  have hQ : 0 < 2^(w-n) := Nat.two_pow_pos _
  have hW : 0 < 2^w := Nat.two_pow_pos _
  have hhi : a / 2^(w-n) < 2^n := by
    rw [Nat.div_lt_iff_lt_mul hQ, Nat.mul_comm, hPQ]; omega
  have hlo : a % 2^(w-n) < 2^(w-n) := Nat.mod_lt _ hQ
  have hdm := Nat.div_add_mod a (2^(w-n))
  unfold rotv
  generalize a / 2^(w-n) = hi at *
  generalize a % 2^(w-n) = lo at *
  generalize hM : 2^w - 1 = M at *
  generalize 2^n = P at *
  generalize 2^(w-n) = Q at *
  have hWM : Q * P = M + 1 := by omega
  have key : a * P = hi * M + (hi + lo * P) := by
    subst hdm
    have : (Q * hi + lo) * P = hi * (Q * P) + lo * P := by grind
    rw [this, hWM]; grind
  have h1 : lo * P + P ≤ Q * P := by
    have := Nat.mul_le_mul_right P (show lo + 1 ≤ Q by omega)
    grind
  have bound : hi + lo * P < M := by
    by_cases hc : hi + 1 < P
    · omega
    · have hhiP : hi + 1 = P := by omega
      by_cases hlo2 : lo + 2 ≤ Q
      · have := Nat.mul_le_mul_right P hlo2
        have e : (lo + 2) * P = lo * P + 2 * P := by grind
        omega
      · have hloQ : lo + 1 = Q := by omega
        have : Q * hi + Q = Q * P := by rw [← hhiP]; grind
        omega
  rw [key, Nat.mul_add_mod_self_right, Nat.mod_eq_of_lt bound, Nat.add_comm]

/-- the all-ones word is a fixed point of every rotation -/
theorem rotv_allones (w n : Nat) (hn : n ≤ w) : rotv w (2^w - 1) n = 2^w - 1 := by
  have hPQ := pow_mul_pow_sub hn
  obtain ⟨P', hP'⟩ : ∃ P', 2^n = P' + 1 := ⟨2^n - 1, by have := Nat.two_pow_pos n; omega⟩
  obtain ⟨Q', hQ'⟩ : ∃ Q', 2^(w-n) = Q' + 1 := ⟨2^(w-n) - 1, by have := Nat.two_pow_pos (w-n); omega⟩
  unfold rotv
  rw [← hPQ, hP', hQ']
  have ha : (Q' + 1) * (P' + 1) - 1 = Q' * P' + Q' + P' := by
    have : (Q' + 1) * (P' + 1) = Q' * P' + Q' + P' + 1 := by grind
    omega
  rw [ha]
  have hdiv : (Q' * P' + Q' + P') / (Q' + 1) = P' := by
    apply Nat.div_eq_of_lt_le
    · have : P' * (Q' + 1) = Q' * P' + P' := by grind
      omega
    · have : (P' + 1) * (Q' + 1) = Q' * P' + Q' + P' + 1 := by grind
      omega
  have hmod : (Q' * P' + Q' + P') % (Q' + 1) = Q' := by
    have h := Nat.div_add_mod (Q' * P' + Q' + P') (Q' + 1)
    rw [hdiv] at h
    have : (Q' + 1) * P' = Q' * P' + P' := by grind
    omega
  rw [hdiv, hmod]
  grind

/-- `2^x mod (2^w - 1)` only depends on `x mod w` -/
theorem two_pow_mod_M (w x : Nat) : 2^x % (2^w - 1) = 2^(x % w) % (2^w - 1) := by
  have hW : 0 < 2^w := Nat.two_pow_pos w
  have h1 : 2^w % (2^w - 1) = 1 % (2^w - 1) := by
    have : 2^w = (2^w - 1) + 1 := by omega
    rw [this, Nat.add_sub_cancel, Nat.add_mod_left]
  have hx : 2^x = (2^w)^(x / w) * 2^(x % w) := by
    rw [← Nat.pow_mul, ← Nat.pow_add, Nat.div_add_mod]
  rw [hx, Nat.mul_mod, Nat.pow_mod, h1, ← Nat.pow_mod, Nat.one_pow, ← Nat.mul_mod, Nat.one_mul]

/-- exponent accumulated by the first `j` stages of RotateRight -/
def expR (aw b : Nat) : Nat → Nat
  | 0 => 0
  | j+1 => expR aw b j + (if (b / 2^j) % 2 = 1 then aw - 2^j else 0)

theorem expR_mod (aw b j : Nat) (hl : ∀ i, i < j → 2^i ≤ aw) : (expR aw b j + b % 2^j) % aw = 0 := by
  induction j with
  | zero => simp [expR, Nat.mod_one]
  | succ j ih =>
    have ih' := ih (fun i hi => hl i (Nat.lt_succ_of_lt hi))
    have hj := hl j (Nat.lt_succ_self j)
    rw [mod_succ_bit]
    unfold expR
    split
    · have e : expR aw b j + (aw - 2^j) + (b % 2^j + 2^j) = (expR aw b j + b % 2^j) + aw := by omega
      rw [e, Nat.add_mod_right]; exact ih'
    · simpa using ih'

/-- the value held after the stages, for both rotation directions: `a·2^E mod (2^aw-1)`, all-ones fixed -/
def rotRes (aw a E : Nat) : Nat := if a = 2^aw - 1 then 2^aw - 1 else (a * 2^E) % (2^aw - 1)

theorem rotRes_lt (aw a E : Nat) (ha : a < 2^aw) : rotRes aw a E < 2^aw := by
  have hW : 0 < 2^aw := Nat.two_pow_pos aw
  unfold rotRes
  split
  · omega
  · next h =>
    have : 0 < 2^aw - 1 := by omega
    have := Nat.mod_lt (a * 2^E) this
    omega

/-- one rotate-left-by-`n` leaf on a value of the form `rotRes`, landing on an `aw`-bit wire -/
theorem rot_step (aw rw a E n : Nat) (hle : aw ≤ rw) (hn : n ≤ aw) (ha : a < 2^aw) :
    Leaf.rotl rw aw (rotRes aw a E) n % 2^aw = rotRes aw a (E + n) := by
  have hv := rotRes_lt aw a E ha
  have hW : 0 < 2^aw := Nat.two_pow_pos aw
  unfold Leaf.rotl
  rw [Nat.mod_mod_of_dvd _ (Nat.pow_dvd_pow 2 hle), Nat.mod_mod, rot_core aw _ n hn hv]
  unfold rotRes at *
  by_cases h : a = 2^aw - 1
  · simp only [h, if_true]; exact rotv_allones aw n hn
  · have hM : 0 < 2^aw - 1 := by omega
    simp only [h, if_false] at hv ⊢
    rw [rotv_lt_M aw _ n hn (Nat.mod_lt _ hM), Nat.mod_mul_mod, Nat.pow_add, Nat.mul_assoc]

theorem barrel_rotl (aw wb rw b a : Nat) (hle : aw ≤ rw) (hl : ∀ i, i < wb → 2^i ≤ aw) (ha : a < 2^aw) :
    Lib.barrel (fun last n => Leaf.rotl rw aw last n) aw wb b a = rotRes aw a (b % 2^wb) := by
  have hW : 0 < 2^aw := Nat.two_pow_pos aw
  refine barrel_inv _ aw b a (fun j v => v = rotRes aw a (b % 2^j)) wb ?_ ?_
  · simp only [Nat.pow_zero, Nat.mod_one, rotRes, Nat.mul_one]
    split
    · next h => exact h
    · next h => exact (Nat.mod_eq_of_lt (by omega)).symm
  · intro j v hj hv
    subst hv
    rw [barrelStage_eq, mod_succ_bit]
    split
    · exact rot_step aw rw a _ _ hle (hl j hj) ha
    · rw [Nat.add_zero]; exact Nat.mod_eq_of_lt (rotRes_lt aw a _ ha)

theorem barrel_rotr (aw wb rw b a : Nat) (hle : aw ≤ rw) (hl : ∀ i, i < wb → 2^i ≤ aw) (ha : a < 2^aw) :
    Lib.barrel (fun last n => Leaf.rotr rw aw last n) aw wb b a = rotRes aw a (expR aw b wb) := by
  have hW : 0 < 2^aw := Nat.two_pow_pos aw
  refine barrel_inv _ aw b a (fun j v => v = rotRes aw a (expR aw b j)) wb ?_ ?_
  · simp only [expR, Nat.pow_zero, rotRes, Nat.mul_one]
    split
    · next h => exact h
    · next h => exact (Nat.mod_eq_of_lt (by omega)).symm
  · intro j v hj hv
    subst hv
    rw [barrelStage_eq]
    show _ = rotRes aw a (expR aw b j + _)
    split
    · rw [leaf_rotr_eq_rotl _ _ _ _ (hl j hj)]
      exact rot_step aw rw a _ _ hle (Nat.sub_le _ _) ha
    · rw [Nat.add_zero]; exact Nat.mod_eq_of_lt (rotRes_lt aw a _ ha)

/-- `rotRes` with exponent `E` is the specified rotation by `E mod aw` -/
theorem rotRes_spec (aw a E : Nat) (haw : 1 ≤ aw) (ha : a < 2^aw) :
    rotRes aw a E = ArithSpec.rotl aw a (E % aw) := by
  have hn : E % aw ≤ aw := Nat.le_of_lt (Nat.mod_lt _ haw)
  rw [spec_rotl_eq_rotv aw a _ hn ha]
  unfold rotRes
  split
  · next h => rw [h, rotv_allones aw _ hn]
  · next h =>
    rw [rotv_lt_M aw a _ hn (by omega), Nat.mul_mod, two_pow_mod_M aw E, ← Nat.mul_mod]

/-- … and for an exponent that is itself a legal rotation amount, no reduction is needed -/
theorem rotRes_eq_rotl_le (aw a n : Nat) (hn : n ≤ aw) (ha : a < 2^aw) :
    rotRes aw a n = ArithSpec.rotl aw a n := by
  rw [spec_rotl_eq_rotv aw a _ hn ha]
  unfold rotRes
  split
  · next h => rw [h, rotv_allones aw _ hn]
  · next h => rw [rotv_lt_M aw a _ hn (by omega)]

theorem expR_spec (aw b wb : Nat) (haw : 1 ≤ aw) (hb : b < 2^wb) (hl : ∀ i, i < wb → 2^i ≤ aw) :
    expR aw b wb % aw = (aw - b % aw) % aw := by
  have h := expR_mod aw b wb hl
  rw [Nat.mod_eq_of_lt hb, Nat.add_mod] at h
  have he : expR aw b wb % aw < aw := Nat.mod_lt _ haw
  have hr : b % aw < aw := Nat.mod_lt _ haw
  generalize expR aw b wb % aw = e at *
  generalize b % aw = r at *
  by_cases hlt : e + r < aw
  · rw [Nat.mod_eq_of_lt hlt] at h
    have : r = 0 := by omega
    subst this
    rw [Nat.sub_zero, Nat.mod_self]; omega
  · have h2 : (e + r) % aw = e + r - aw := by
      rw [Nat.mod_eq_sub_mod (by omega)]; exact Nat.mod_eq_of_lt (by omega)
    rw [h2] at h
    rw [Nat.mod_eq_of_lt (by omega)]; omega

end C07
