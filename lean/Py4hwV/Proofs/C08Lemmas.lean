import Py4hwV.Lib.Relational
import Py4hwV.Lib.LogicSpec
/-
  Helper lemmas for Props/C08.lean: `ofBitFn` truth tables, testBit characterisation of the leaf reference functions.
-/
namespace C08
open Lib Leaf Lib.LSpec

theorem ofBitFn_lt (w : Nat) (f : Nat → Bool) : ofBitFn w f < 2 ^ w := by
  induction w with
  | zero => simp [ofBitFn]
  | succ w ih =>
    simp only [ofBitFn]
    rw [Nat.pow_succ]
    split <;> omega

/-- bit `i` of the truth table is `f i` inside the width and 0 outside -/
theorem testBit_ofBitFn (w : Nat) (f : Nat → Bool) (i : Nat) :
    (ofBitFn w f).testBit i = (decide (i < w) && f i) := by
  induction w with
  | zero => simp [ofBitFn]
  | succ w ih =>
    simp only [ofBitFn]
    have hlt := ofBitFn_lt w f
    by_cases hf : f w = true
    · simp only [hf, if_true]
      rw [Nat.add_comm]
      rcases Nat.lt_trichotomy i w with h | h | h
      · rw [Nat.testBit_two_pow_add_gt h, ih]
        have : i < w + 1 := by omega
        simp [h, this]
      · subst h
        rw [Nat.testBit_two_pow_add_eq, Nat.testBit_lt_two_pow hlt]
        simp [hf]
      · have h1 : ¬ i < w + 1 := by omega
        have : 2 ^ w + ofBitFn w f < 2 ^ i := by
          have : 2 ^ (w + 1) ≤ 2 ^ i := Nat.pow_le_pow_right (by decide) (by omega)
          rw [Nat.pow_succ] at this
          omega
        rw [Nat.testBit_lt_two_pow this]
        simp [h1]
    · have hf' : f w = false := by simpa using hf
      simp only [hf', Bool.false_eq_true, if_false, Nat.add_zero]
      rw [ih]
      by_cases h : i = w
      · subst h; simp [hf']
      · by_cases h2 : i < w
        · have : i < w + 1 := by omega
          simp [h2, this]
        · have : ¬ i < w + 1 := by omega
          simp [h2, this]

/-- two numbers below `2^w` with the same bits below `w` are equal: the workhorse for every gate theorem -/
theorem eq_ofBitFn (w x : Nat) (f : Nat → Bool) (h : ∀ i, x.testBit i = (decide (i < w) && f i)) : x = ofBitFn w f := by
  apply Nat.eq_of_testBit_eq
  intro i
  rw [h, testBit_ofBitFn]

theorem testBit_and2 (rw a b i : Nat) : (Leaf.and2 rw a b).testBit i = (decide (i < rw) && (a.testBit i && b.testBit i)) := by
  simp [Leaf.and2]
theorem testBit_or2 (rw a b i : Nat) : (Leaf.or2 rw a b).testBit i = (decide (i < rw) && (a.testBit i || b.testBit i)) := by
  simp [Leaf.or2]
theorem testBit_buf (rw a i : Nat) : (Leaf.buf rw a).testBit i = (decide (i < rw) && a.testBit i) := by
  simp [Leaf.buf]
theorem testBit_not1 (rw a i : Nat) : (Leaf.not1 rw a).testBit i = (decide (i < rw) && !a.testBit i) := by
  unfold Leaf.not1
  have h : a % 2 ^ rw < 2 ^ rw := Nat.mod_lt _ (Nat.two_pow_pos rw)
  rw [Nat.sub_sub, Nat.add_comm, Nat.testBit_two_pow_sub_succ h, Nat.testBit_mod_two_pow]
  by_cases hi : i < rw <;> simp [hi]
theorem testBit_repeat1 (rw x i : Nat) : (Leaf.repeat1 rw x).testBit i = (decide (i < rw) && decide (x ≠ 0)) := by
  unfold Leaf.repeat1
  by_cases h : x = 0 <;> simp [h]

theorem testBit_and_ladder (rw i : Nat) (rest : List Nat) (acc x : Nat) :
    ((x :: rest).foldl (fun auxin y => Leaf.and2 rw auxin y) acc).testBit i
      = (decide (i < rw) && (acc.testBit i && (x :: rest).all (·.testBit i))) := by
  induction rest generalizing acc x with
  | nil => simp [testBit_and2]
  | cons y rest ih =>
    rw [List.foldl_cons, ih]
    simp only [testBit_and2, List.all_cons]
    cases decide (i < rw) <;> simp [Bool.and_assoc]

theorem testBit_or_ladder (rw i : Nat) (rest : List Nat) (acc x : Nat) :
    ((x :: rest).foldl (fun auxin y => Leaf.or2 rw auxin y) acc).testBit i
      = (decide (i < rw) && (acc.testBit i || (x :: rest).any (·.testBit i))) := by
  induction rest generalizing acc x with
  | nil => simp [testBit_or2]
  | cons y rest ih =>
    rw [List.foldl_cons, ih]
    simp only [testBit_or2, List.any_cons]
    cases decide (i < rw) <;> simp [Bool.or_assoc]

theorem testBit_andN (rw i : Nat) (ins : List Nat) (h : ins ≠ []) :
    (Lib.andN rw ins).testBit i = (decide (i < rw) && ins.all (·.testBit i)) := by
  match ins, h with
  | [a], _ => simp [Lib.andN, testBit_buf]
  | [a, b], _ => simp [Lib.andN, testBit_and2]
  | a :: b :: c :: rest, _ =>
    simp only [Lib.andN]
    rw [testBit_and_ladder]
    simp [Bool.and_assoc]

theorem testBit_orN (rw i : Nat) (ins : List Nat) (h : ins ≠ []) :
    (Lib.orN rw ins).testBit i = (decide (i < rw) && ins.any (·.testBit i)) := by
  match ins, h with
  | [a], _ => simp [Lib.orN, testBit_buf]
  | [a, b], _ => simp [Lib.orN, testBit_or2]
  | a :: b :: c :: rest, _ =>
    simp only [Lib.orN]
    rw [testBit_or_ladder]
    simp [Bool.or_assoc]

/-- And(ins, r): every arity ≥ 1, every widths, every inputs -/
theorem andN_spec (rw : Nat) (ins : List Nat) (h : ins ≠ []) : Lib.andN rw ins = LSpec.andN rw ins :=
  eq_ofBitFn _ _ _ (fun i => testBit_andN rw i ins h)

theorem orN_spec (rw : Nat) (ins : List Nat) (h : ins ≠ []) : Lib.orN rw ins = LSpec.orN rw ins :=
  eq_ofBitFn _ _ _ (fun i => testBit_orN rw i ins h)


theorem testBit_false_of_lt' {a w i : Nat} (h : a < 2 ^ w) (hi : w ≤ i) : a.testBit i = false := by
  apply Nat.testBit_lt_two_pow
  exact Nat.lt_of_lt_of_le h (Nat.pow_le_pow_right (by decide) hi)

end C08
