import Py4hwV.Proofs.C01FlatRel
import Py4hwV.Proofs.C01FlatNet
/-
  C01 design level: the generic correspondence theorems (any list of justified assigns over any name ↦ net map).
-/
set_option linter.unusedSimpArgs false
namespace FlatM
open V C01 Net

/-- hypotheses tying a list of continuous assigns `as` to a flat netlist `D` through the name ↦ net map `net` -/
structure CombCorr (D : NetD) (as topo : List (LHS × Expr)) (net : String → Option Nat) : Prop where
  perm : as.Perm topo
  acyc : Acyc topo
  /-- every assign is justified by every in-range valuation at which the combinational leaves sit at their fixpoint -/
  just : ∀ V, CombFix D V → (∀ k, V k < 2 ^ D.wd k) → D.good V → ∀ a, a ∈ as → Just net D.wd V a
  /-- a name no assign drives denotes a net no combinational leaf drives -/
  undriven : ∀ n k, net n = some k → n ∉ as.map tgt → ∀ c, c ∈ D.combs → ∀ o, o ∈ c.outs.map (·.1) → o ≠ k

/-- what the store must declare: whole-net targets, the widths of the names that denote nets -/
structure InfoOK (D : NetD) (as : List (LHS × Expr)) (net : String → Option Nat) (r : Rd) : Prop where
  lhs : ∀ a, a ∈ as → LhsOk r a.1
  width : ∀ n k, net n = some k → r.info n = some { width := D.wd k }

theorem InfoOK_congr {D : NetD} {as : List (LHS × Expr)} {net : String → Option Nat} {r r' : Rd} (h : r.info = r'.info)
    (hi : InfoOK D as net r) : InfoOK D as net r' :=
  ⟨fun a ha => LhsOk_congr h (hi.lhs a ha), fun n k hn => h ▸ hi.width n k hn⟩

/-- **Stage 1, generic.**  From ANY store that declares the nets and carries the simulator's values on the UNDRIVEN
    names (top-level inputs, register outputs), `length` (or more) passes of the shipped settle step end in a store that
    carries on EVERY name the value the simulator's `propagateAll` computes for the net it denotes. -/
theorem comb_corr {D : NetD} (hD : D.SchedOK) {net : String → Option Nat} {as topo : List (LHS × Expr)}
    (C : CombCorr D as topo net) (s : State Int) (hs : C06.Inv D.design s)
    (r0 : Rd) (hI : InfoOK D as net r0)
    (h0 : ∀ n k, net n = some k → n ∉ as.map tgt → r0.val n = ⟨D.wd k, s.val k, true⟩)
    (hg : D.good (propagateAll D.design s).val)
    (j : Nat) (hj : as.length ≤ j) :
    Rel net D.wd (propagateAll D.design s).val (Net.iter (passA as) j r0) := by
  rw [iter_eq_topo C.perm C.acyc r0 hI.lhs j hj]
  have hokt : ∀ a, a ∈ topo → LhsOk r0 a.1 := fun a ha => hI.lhs a (C.perm.mem_iff.mpr ha)
  have hi : (passA topo r0).info = r0.info := passA_info _ _
  have hV : ∀ k, (propagateAll D.design s).val k < 2 ^ D.wd k := (C06.inv_propagateAll D.design s hs).1
  apply settled_rel net D.wd _ topo C.acyc _ (pass_topo_settled topo C.acyc r0 hokt)
  · intro n k hn; rw [hi]; exact hI.width n k hn
  · intro n k _; exact hV k
  · intro n k hmem hn
    have hmem' : n ∉ as.map tgt := by
      intro h
      rcases List.mem_map.mp h with ⟨b, hb, e⟩
      exact hmem (List.mem_map.mpr ⟨b, C.perm.mem_iff.mp hb, e⟩)
    rw [passA_val_other topo r0 hokt n (fun b hb e => hmem (List.mem_map.mpr ⟨b, hb, e.symm⟩)), h0 n k hn hmem',
      propagate_val_other D s k (C.undriven n k hn hmem')]
  · intro a ha
    exact C.just _ (propagate_combfix D hD s) hV hg a (C.perm.mem_iff.mpr ha)

end FlatM
