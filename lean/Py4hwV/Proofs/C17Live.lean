import Py4hwV.Proofs.C17Frame
/-
  C17 — serializer liveness: from every reachable position `ready` returns within 22n+1 = 11·P + 1 cycles, whatever the inputs.
-/
set_option linter.unusedSimpArgs false
namespace C17
open Uart

/-- number of cycles until the serializer is ready again -/
def rank (n : Nat) : Mode → Nat → Nat
  | .gap _ _, _ => 1
  | .ready _, _ => 0
  | .wait _, e => e + 20 * n + 2
  | .frame _ i, e => e + 1 + (9 - i) * (2 * n) + 1

theorem rank_le (n : Nat) (m : Mode) (e : Nat) (wf : m.wf) (lt : e < 2 * n) (hn : 1 ≤ n) : rank n m e ≤ 22 * n + 1 := by
  cases m with
  | gap tx j => simp [rank]
  | ready j => simp [rank]
  | wait b => simp [rank]; omega
  | frame b i =>
    simp only [Mode.wf] at wf
    simp only [rank]
    have : (9 - i) * (2 * n) ≤ 9 * (2 * n) := Nat.mul_le_mul_right _ (by omega)
    omega

theorem rank_step (n : Nat) (hn : 1 ≤ n) (m : Mode) (e valid v : Nat) (wf : m.wf) (lt : e < 2 * n)
    (hm : ∀ j, m ≠ .ready j) : rank n (nextMode m e valid v) (nextE n e) + 1 = rank n m e := by
  cases m with
  | gap tx j => simp [rank, nextMode]
  | ready j => exact absurd rfl (hm j)
  | wait b =>
    by_cases he : e = 0
    · subst he; simp [rank, nextMode, nextE]; omega
    · simp [rank, nextMode, nextE, he]; omega
  | frame b i =>
    simp only [Mode.wf] at wf
    by_cases he : e = 0
    · subst he
      have hi : i = 0 ∨ i = 1 ∨ i = 2 ∨ i = 3 ∨ i = 4 ∨ i = 5 ∨ i = 6 ∨ i = 7 ∨ i = 8 ∨ i = 9 := by omega
      rcases hi with h | h | h | h | h | h | h | h | h | h <;> subst h <;> simp [rank, nextMode, nextE] <;> omega
    · simp [rank, nextMode, nextE, he]; omega

theorem rank_zero (n : Nat) (m : Mode) (e : Nat) (h : rank n m e = 0) : ∃ j, m = .ready j := by
  cases m with
  | gap tx j => simp [rank] at h
  | ready j => exact ⟨j, rfl⟩
  | wait b => simp [rank] at h
  | frame b i => simp [rank] at h

theorem posRun_wf (n : Nat) (hn : 1 ≤ n) (ins : List (Nat × Nat)) : ∀ m e, m.wf → e < 2 * n →
    (posRun n m e ins).1.wf ∧ (posRun n m e ins).2 < 2 * n := by
  induction ins with
  | nil => intro m e h1 h2; exact ⟨h1, h2⟩
  | cons i is ih =>
    intro m e h1 h2
    obtain ⟨valid, v⟩ := i
    simp only [posRun]
    apply ih
    · cases m with
      | gap tx j => trivial
      | ready j => simp only [nextMode]; split <;> trivial
      | wait b => simp only [nextMode]; split <;> simp [Mode.wf]
      | frame b i =>
        simp only [nextMode]; simp only [Mode.wf] at h1
        split
        · split
          · simp [Mode.wf]; omega
          · trivial
        · exact h1
    · exact nextE_lt n e hn h2

/-- after exactly `rank` steps, whatever the inputs, the serializer is in `ready` -/
theorem live_pos (n : Nat) (hn : 1 ≤ n) (r : Nat) : ∀ (m : Mode) (e : Nat) (ins : List (Nat × Nat)), m.wf → e < 2 * n →
    rank n m e = r → r ≤ ins.length → ∃ j, (posRun n m e (ins.take r)).1 = .ready j := by
  induction r with
  | zero =>
    intro m e ins _ _ hr _
    obtain ⟨j, hj⟩ := rank_zero n m e hr
    exact ⟨j, by simp [posRun, hj]⟩
  | succ r ih =>
    intro m e ins wf lt hr hl
    cases ins with
    | nil => simp at hl
    | cons i is =>
      obtain ⟨valid, v⟩ := i
      have hm : ∀ j, m ≠ .ready j := by
        intro j hj; subst hj; simp [rank] at hr
      have hs := rank_step n hn m e valid v wf lt hm
      have hw := posRun_wf n hn [(valid, v)] m e wf lt
      simp only [posRun] at hw
      simp only [List.take_succ_cons, posRun]
      exact ih _ _ is hw.1 hw.2 (by omega) (by simpa using hl)

/-- with valid = 0 the serializer stays ready -/
theorem posRun_idle (n : Nat) (ins : List (Nat × Nat)) (hi : ∀ x ∈ ins, x.1 = 0) : ∀ j e,
    (posRun n (.ready j) e ins).1 = .ready j := by
  induction ins with
  | nil => intro j e; rfl
  | cons i is ih =>
    intro j e
    obtain ⟨valid, v⟩ := i
    have : valid = 0 := hi (valid, v) (by simp)
    subst this
    simp only [posRun, nextMode]
    exact ih (fun x hx => hi x (by simp [hx])) j _

theorem posRun_append (n : Nat) (a b : List (Nat × Nat)) : ∀ m e,
    posRun n m e (a ++ b) = posRun n (posRun n m e a).1 (posRun n m e a).2 b := by
  induction a with
  | nil => intro m e; rfl
  | cons i is ih => intro m e; obtain ⟨x, y⟩ := i; simp only [List.cons_append, posRun]; exact ih _ _

end C17
