import Py4hwV.Proofs.C19Sim
/- C19 — every function of the generator model, run with the cache (`uc₁`) and without (`uc₂`), from any two coherent states -/
namespace C19
open Emit

variable {d : Design}

theorem getWireNames_sim (uc₁ uc₂ : Bool) (o : Option ObjId) :
    Sim d (getWireNames d uc₁ o) (getWireNames d uc₂ o) := by
  intro s₁ s₂ c₁ c₂
  cases o with
  | none => exact ⟨rfl, c₁, c₂, [], by simp [getWireNames], by simp [getWireNames]⟩
  | some o =>
    -- each side: a hit returns the cached map (= the fresh one by coherence), a miss computes it
    have key : ∀ (uc : Bool) (s : S), Coh d s.cache →
        (getWireNames d uc (some o) s).1 = computeWireNames d o ∧ Coh d (getWireNames d uc (some o) s).2.cache ∧
        (getWireNames d uc (some o) s).2.created = s.created := by
      intro uc s c
      unfold getWireNames
      simp only
      split
      · rename_i h
        have : s.cache.obj = some o := by
          simp only [Bool.and_eq_true, beq_iff_eq] at h; exact h.2
        exact ⟨(c o this).symm, c, rfl⟩
      · cases hcw : computeWireNames d o with
        | error e => exact ⟨rfl, c, rfl⟩
        | ok ret =>
          refine ⟨rfl, ?_, rfl⟩
          intro o' ho'
          simp only at ho'
          cases ho'
          exact hcw
    obtain ⟨e₁, k₁, a₁⟩ := key uc₁ s₁ c₁
    obtain ⟨e₂, k₂, a₂⟩ := key uc₂ s₂ c₂
    exact ⟨by rw [e₁, e₂], k₁, k₂, [], by simp [a₁], by simp [a₂]⟩

theorem getWireName_sim (uc₁ uc₂ : Bool) (scope : ObjId) (w : WireId) :
    Sim d (getWireName d uc₁ scope w) (getWireName d uc₂ scope w) := by
  unfold getWireName
  refine Sim.bind (getWireNames_sim _ _ _) fun wn => ?_
  split
  · exact Sim.pure _
  · exact Sim.throw _

theorem getParentWireName_sim (uc₁ uc₂ : Bool) (child : ObjD) (w : WireId) :
    Sim d (getParentWireName d uc₁ child w) (getParentWireName d uc₂ child w) := by
  unfold getParentWireName
  refine Sim.bind (Sim.liftE _) fun wd => ?_
  split
  · exact Sim.pure _
  · refine Sim.bind (getWireNames_sim _ _ _) fun wn => ?_
    split
    · exact Sim.pure _
    · exact Sim.throw _

theorem inlinePrimitive_sim (uc₁ uc₂ : Bool) (o : ObjId) (obj : ObjD) :
    Sim d (inlinePrimitive d uc₁ o obj) (inlinePrimitive d uc₂ o obj) := by
  unfold inlinePrimitive
  exact Sim.bind (Sim.mapMM (fun w => getParentWireName_sim _ _ _ w) _) fun names => Sim.pure _

theorem connect_sim (c : ObjId) (wn : NameMap) (p : PortD) : Sim d (connect d c wn p) (connect d c wn p) := by
  unfold connect
  split
  · exact Sim.throw _
  · split
    · exact Sim.throw _
    · exact Sim.pure _

theorem instantiateStructural_sim (uc₁ uc₂ : Bool) (c : ObjId) (child : ObjD) :
    Sim d (instantiateStructural d uc₁ c child) (instantiateStructural d uc₂ c child) := by
  unfold instantiateStructural
  refine Sim.bind ?_ fun clk => Sim.bind (getWireNames_sim _ _ _) fun wn =>
    Sim.bind (Sim.mapMM (fun p => connect_sim c wn p) _) fun conns => Sim.pure _
  split
  · exact Sim.pure _
  · refine Sim.bind (Sim.liftE _) fun b => ?_
    split
    · refine Sim.bind (Sim.liftE _) fun drv => ?_
      split
      · exact Sim.throw _
      · refine Sim.bind ?_ fun pd => ?_
        · split
          · exact Sim.throw _
          · exact Sim.liftE _
        · split
          · exact Sim.pure _
          · refine Sim.bind ?_ fun wn => Sim.pure _
            split
            · exact Sim.throw _
            · exact getWireName_sim _ _ _ _
    · exact Sim.pure _

theorem emitChild_sim (uc₁ uc₂ : Bool) (c : ObjId) : Sim d (emitChild d uc₁ c) (emitChild d uc₂ c) := by
  unfold emitChild
  refine Sim.bind (Sim.liftE _) fun child => ?_
  split
  · exact inlinePrimitive_sim _ _ _ _
  · exact instantiateStructural_sim _ _ _ _

theorem moduleInstances_sim (uc₁ uc₂ : Bool) (obj : ObjD) :
    Sim d (moduleInstances d uc₁ obj) (moduleInstances d uc₂ obj) :=
  Sim.mapMM (fun c => emitChild_sim _ _ c) _

theorem declare_sim (o : ObjId) (wn : NameMap) (w : WireId) : Sim d (declare d o wn w) (declare d o wn w) := by
  unfold declare
  refine Sim.bind (Sim.liftE _) fun wd => ?_
  split
  · exact Sim.pure _
  · split
    · exact Sim.pure _
    · exact Sim.throw _

theorem finishModule_sim (n : String) (h : ModT) (b : Body) : Sim d (finishModule n h b) (finishModule n h b) := by
  unfold finishModule
  exact Sim.bind (Sim.appendCreated _) fun _ => Sim.pure _

theorem emitModule_sim (uc₁ uc₂ : Bool) (o : ObjId) (obj : ObjD) (n : String) :
    Sim d (emitModule d uc₁ o obj n) (emitModule d uc₂ o obj n) := by
  unfold emitModule
  refine Sim.bind (Sim.liftE _) fun hdr => Sim.bind (Sim.liftE _) fun lw => Sim.bind (getWireNames_sim _ _ _) fun wn =>
    Sim.bind (Sim.mapMM (fun w => declare_sim o wn w) _) fun decls => ?_
  split
  · split
    · exact finishModule_sim _ _ _
    · split
      · exact Sim.bind (inlinePrimitive_sim _ _ _ _) fun f => Sim.pure _
      · exact finishModule_sim _ _ _
  · split
    · exact finishModule_sim _ _ _
    · split
      · split
        · exact finishModule_sim _ _ _
        · exact finishModule_sim _ _ _
      · exact Sim.bind (moduleInstances_sim _ _ _) fun fr => finishModule_sim _ _ _

theorem getVerilogI_sim (uc₁ uc₂ : Bool) (o : ObjId) (ni : Bool) (f : Option String) :
    SimC d (getVerilogI d uc₁ o ni f) (getVerilogI d uc₂ o ni f) := by
  unfold getVerilogI
  refine SimC.bind (Sim.liftE _).toC fun obj => SimC.bind (SimC.isCreated _) fun b => ?_
  split
  · exact (Sim.pure _).toC
  · exact (emitModule_sim _ _ _ _ _).toC

theorem hierI_sim (uc₁ uc₂ : Bool) (fuel : Nat) : ∀ (o : ObjId) (ni : Bool) (f : Option String),
    SimC d (hierI d uc₁ fuel o ni f) (hierI d uc₂ fuel o ni f) := by
  induction fuel with
  | zero => intro o ni f; unfold hierI; exact (Sim.throw _).toC
  | succ n ih =>
    intro o ni f
    unfold hierI
    refine SimC.bind (getVerilogI_sim _ _ _ _ _) fun own => SimC.bind (Sim.liftE _).toC fun obj =>
      SimC.bind (SimC.mapMM (fun c => ?_) _) fun parts => (Sim.pure _).toC
    refine SimC.bind (Sim.liftE _).toC fun child => ?_
    split
    · exact (Sim.pure _).toC
    · exact ih _ _ _

end C19
