import Py4hwV.Emit.Flat
import Py4hwV.Props.C01
import Py4hwV.Props.C04
import Py4hwV.Props.C05
import Py4hwV.Props.C06
/-
  C01 design level, simulator side: what `propagateAll` and one clock edge do to a flat netlist `NetD`
  (consequences of C04 Part B, C05 and C06 for this class of designs).
-/
set_option linter.unusedSimpArgs false
namespace FlatM
open Net

/-! ### `dedupLast` -/

theorem dedupLast_sub {α : Type} (l : List (Nat × α)) : ∀ x, x ∈ dedupLast l → x ∈ l := by
  induction l with
  | nil => intro x h; cases h
  | cons a l ih =>
    intro x hx
    simp only [dedupLast] at hx
    split at hx
    · exact List.mem_cons_of_mem _ (ih x hx)
    · simp only [List.mem_cons] at hx
      rcases hx with e | hx
      · simp [e]
      · exact List.mem_cons_of_mem _ (ih x hx)

theorem dedupLast_keys {α : Type} (l : List (Nat × α)) : ∀ k, k ∈ (dedupLast l).map (·.1) ↔ k ∈ l.map (·.1) := by
  induction l with
  | nil => intro k; simp [dedupLast]
  | cons a l ih =>
    intro k
    simp only [dedupLast]
    split
    · rename_i h
      rw [ih k]
      simp only [List.map_cons, List.mem_cons]
      constructor
      · exact Or.inr
      · rintro (e | h')
        · rcases List.any_eq_true.mp h with ⟨y, hy, hyk⟩
          rw [e]
          exact List.mem_map.mpr ⟨y, hy, by simpa using hyk⟩
        · exact h'
    · simp only [List.map_cons, List.mem_cons, ih k]

theorem dedupLast_nodup {α : Type} (l : List (Nat × α)) : ((dedupLast l).map (·.1)).Nodup := by
  induction l with
  | nil => simp [dedupLast]
  | cons a l ih =>
    simp only [dedupLast]
    split
    · exact ih
    · rename_i h
      simp only [List.map_cons, List.nodup_cons]
      refine ⟨?_, ih⟩
      intro hmem
      rw [dedupLast_keys] at hmem
      apply h
      rcases List.mem_map.mp hmem with ⟨y, hy, e⟩
      exact List.any_eq_true.mpr ⟨y, hy, by simp [e]⟩

theorem dedupLast_of_nodup {α : Type} (l : List (Nat × α)) (h : (l.map (·.1)).Nodup) : dedupLast l = l := by
  induction l with
  | nil => rfl
  | cons a l ih =>
    simp only [List.map_cons, List.nodup_cons] at h
    simp only [dedupLast]
    have : l.any (·.1 == a.1) = false := by
      rw [Bool.eq_false_iff]
      intro hany
      rcases List.any_eq_true.mp hany with ⟨y, hy, e⟩
      exact h.1 (List.mem_map.mpr ⟨y, hy, by simpa using e⟩)
    rw [this]
    simp [ih h.2]

theorem outs_single (c : CLeaf) (h : c.more = []) : c.outs = [(c.out, c.py)] := by
  simp [CLeaf.outs, h, dedupLast]

/-- every combinational leaf's outputs hold their functions of the CURRENT wire values -/
def CombFix (D : NetD) (V : Nat → Nat) : Prop :=
  ∀ c, c ∈ D.combs → ∀ of, of ∈ c.outs → V of.1 = Bits.put (D.wd of.1) (of.2 (c.ins.map V))

theorem CombFix.single {D : NetD} {V : Nat → Nat} (h : CombFix D V) (c : CLeaf) (hc : c ∈ D.combs) (hm : c.more = []) :
    V c.out = Bits.put (D.wd c.out) (c.py (c.ins.map V)) :=
  h c hc (c.out, c.py) (by rw [outs_single c hm]; simp)

def NetD.reads (D : NetD) (k : Nat) : List Nat := match D.combs[k]? with | some c => c.ins | none => []
def NetD.writes (D : NetD) (k : Nat) : List Nat := match D.combs[k]? with | some c => c.outs.map (·.1) | none => []

theorem leaf_prop (D : NetD) (k : Nat) (v : Val) (x : Int) :
    (D.leaf k).prop v x = (x, match D.combs[k]? with
      | some c => c.outs.map fun of => (of.1, of.2 (c.ins.map v))
      | none => []) := by
  unfold NetD.leaf
  cases h : D.combs[k]? with
  | some c => rfl
  | none =>
    simp only
    cases D.regs[k - D.combs.length]? <;> rfl

/-- the combinational leaves of a flat netlist are stateless functions with declared read/write sets (C04.Comb) -/
def NetD.comb (D : NetD) : C04.Comb D.design where
  reads := D.reads
  writes := D.writes
  stateless := by intro k v x; show ((D.leaf k).prop v x).1 = x; rw [leaf_prop]
  state_indep := by intro k v x y; show ((D.leaf k).prop v x).2 = ((D.leaf k).prop v y).2; rw [leaf_prop, leaf_prop]
  reads_ok := by
    intro k v v' x h
    show ((D.leaf k).prop v x).2 = ((D.leaf k).prop v' x).2
    rw [leaf_prop, leaf_prop]
    unfold NetD.reads at h
    cases hc : D.combs[k]? with
    | none => rfl
    | some c =>
      rw [hc] at h
      simp only
      rw [List.map_congr_left h]
  writes_ok := by
    intro k v x
    show ((D.leaf k).prop v x).2.map Prod.fst = D.writes k
    rw [leaf_prop]
    unfold NetD.writes
    cases D.combs[k]? with
    | none => rfl
    | some c => simp [List.map_map, Function.comp_def]
  writes_nodup := by
    intro k
    unfold NetD.writes
    cases D.combs[k]? with
    | none => simp
    | some c => exact dedupLast_nodup _

/-- the schedule is an evaluation order (what the sorter guarantees, C04 Part A / `topoOK_of_sorted`) that contains
    every combinational leaf -/
def NetD.SchedOK (D : NetD) : Prop :=
  C04.TopoOK D.comb D.order ∧ ∀ i, i < D.combs.length → i ∈ D.order

theorem wput (w : Nat) (v : Int) : (Gen.Wire.put (w : Int) v).toNat = Bits.put w v := by
  rw [C06.gen_wire_put_eq]; simp

/-- **C04 ⇒** after `propagateAll` every combinational output is at its fixpoint value -/
theorem propagate_combfix (D : NetD) (h : D.SchedOK) (s : State Int) : CombFix D (propagateAll D.design s).val := by
  intro c hc of hof
  obtain ⟨i, hi, hci⟩ := List.mem_iff_getElem.mp hc
  have hget : D.combs[i]? = some c := by rw [List.getElem?_eq_getElem hi, hci]
  have hfix := C04.propagate_fixpoint D.design D.comb D.order h.1 s i (h.2 i hi)
  have : ((D.design.leaf i).prop (List.foldl (propLeaf D.design) s D.order).val (s.st i)).2
      = c.outs.map fun of => (of.1, of.2 (c.ins.map (List.foldl (propLeaf D.design) s D.order).val)) := by
    show ((D.leaf i).prop _ _).2 = _
    rw [leaf_prop, hget]
  have h2 := hfix (of.1, of.2 (c.ins.map (List.foldl (propLeaf D.design) s D.order).val))
    (by rw [this]; exact List.mem_map.mpr ⟨of, hof, rfl⟩)
  unfold propagateAll
  show (List.foldl (propLeaf D.design) s D.design.order).val of.1 = _
  rw [show D.design.order = D.order from rfl, h2]
  simp only [C04.mval]
  exact wput _ _

/-- nets no combinational leaf drives keep their value -/
theorem propagate_val_other (D : NetD) (s : State Int) (w : Nat)
    (hw : ∀ c, c ∈ D.combs → ∀ o, o ∈ c.outs.map (·.1) → o ≠ w) :
    (propagateAll D.design s).val w = s.val w := by
  unfold propagateAll
  apply C04.fold_propLeaf_val_other D.design D.comb
  intro k _ hmem
  replace hmem : w ∈ D.writes k := hmem
  unfold NetD.writes at hmem
  cases hc : D.combs[k]? with
  | none => rw [hc] at hmem; cases hmem
  | some c =>
    rw [hc] at hmem
    exact hw c (List.mem_of_getElem? hc) w hmem rfl

theorem propagate_st (D : NetD) (s : State Int) : (propagateAll D.design s).st = s.st :=
  C04.fold_propLeaf_st D.design D.comb _ s

theorem propagate_prepared (D : NetD) (s : State Int) : (propagateAll D.design s).prepared = s.prepared :=
  (C04.fold_propLeaf_rest D.design _ s).2.1

end FlatM

namespace FlatM
open Net

/-! ### the clock edge on a flat netlist -/

/-- the register rule on the pre-edge wire values `V` (C01.regNext) -/
def regNextV (V : Nat → Nat) (R : RLeaf) (old : Nat) : Nat :=
  C01.regNext R.hasR R.hasE R.rv (V R.r) (V R.e) (V R.d) old

theorem leaf_clock_reg (D : NetD) (j : Nat) (R : RLeaf) (h : D.regs[j]? = some R) (v : Val) (x : Int) :
    (D.leaf (D.rid j)).clock v x = R.sem.clock v x := by
  unfold NetD.leaf NetD.rid
  have h1 : D.combs[D.combs.length + j]? = none := List.getElem?_eq_none (by omega)
  have h2 : D.combs.length + j - D.combs.length = j := by omega
  rw [h1, h2, h]

theorem getElem?_getD {α : Type} [Inhabited α] (l : List α) (j : Nat) (h : j < l.length) :
    l[j]? = some (l.getD j default) := by
  simp [List.getD_eq_getElem?_getD, List.getElem?_eq_getElem h]

theorem getD_of_getElem? {α : Type} [Inhabited α] (l : List α) (j : Nat) (x : α) (h : l[j]? = some x) :
    l.getD j default = x := by
  simp [List.getD_eq_getElem?_getD, h]

theorem reg_clock (R : RLeaf) (v : Val) (old : Nat) :
    R.sem.clock v (old : Int) = (((regNextV v R old : Nat) : Int), [(R.q, ((regNextV v R old : Nat) : Int))]) := by
  have h := C01.gen_reg_rule R.hasR R.hasE R.rv (v R.r) (v R.e) (v R.d) old
  simp only [RLeaf.sem, regNextV, h.1, h.2]

theorem foldl_nstep_hit (d : Design Int) (ps : List (Nat × Int)) (n0 : Val) (hn : (ps.map Prod.fst).Nodup)
    (wv : Nat × Int) (h : wv ∈ ps) : (ps.foldl (C05.nstep d) n0) wv.1 = C05.P d wv := by
  induction ps generalizing n0 with
  | nil => cases h
  | cons a ps ih =>
    simp only [List.foldl]
    simp only [List.map_cons, List.nodup_cons] at hn
    simp only [List.mem_cons] at h
    rcases h with h | h
    · subst h
      have hnot : ∀ (l : List (Nat × Int)) (m : Val), wv.1 ∉ l.map Prod.fst → (l.foldl (C05.nstep d) m) wv.1 = m wv.1 := by
        intro l
        induction l with
        | nil => intro m _; rfl
        | cons b l ihl =>
          intro m hm
          simp only [List.map_cons, List.mem_cons, not_or] at hm
          simp only [List.foldl]
          rw [ihl _ hm.2]
          simp [C05.nstep, upd, hm.1]
      rw [hnot ps _ hn.1]
      simp [C05.nstep]
    · exact ih _ hn.2 h

theorem foldl_nstep_miss (d : Design Int) (ps : List (Nat × Int)) (n0 : Val) (w : Nat) (h : w ∉ ps.map Prod.fst) :
    (ps.foldl (C05.nstep d) n0) w = n0 w := by
  induction ps generalizing n0 with
  | nil => rfl
  | cons b l ihl =>
    simp only [List.map_cons, List.mem_cons, not_or] at h
    simp only [List.foldl]
    rw [ihl _ h.2]
    simp [C05.nstep, upd, h.1]

theorem flatMap_map_single {α β γ : Type} (rid : α → β) (f : β → List γ) (g : α → γ) (l : List α)
    (h : ∀ j, j ∈ l → f (rid j) = [g j]) : (l.map rid).flatMap f = l.map g := by
  induction l with
  | nil => rfl
  | cons a l ih =>
    simp only [List.map_cons, List.flatMap_cons, h a (by simp)]
    rw [ih (fun j hj => h j (by simp [hj]))]
    rfl

/-- pre-edge → post-edge (`clockDrivers` then `settleAll`) on a flat netlist whose register states are `old j` -/
theorem edge_sim (D : NetD) (s : State Int) (hp : s.prepared = [])
    (hq : ∀ (i j : Nat) (R R' : RLeaf), D.regs[i]? = some R → D.regs[j]? = some R' → R.q = R'.q → i = j)
    (old : Nat → Nat) (hst : ∀ j, j < D.regs.length → s.st (D.rid j) = (old j : Int)) :
    (∀ j R, D.regs[j]? = some R →
        (settleAll (clockDrivers D.design s D.design.drivers)).val R.q = Bits.put (D.wd R.q) (regNextV s.val R (old j)) ∧
        (settleAll (clockDrivers D.design s D.design.drivers)).st (D.rid j) = (regNextV s.val R (old j) : Nat)) ∧
    (∀ w, (∀ R, R ∈ D.regs → R.q ≠ w) → (settleAll (clockDrivers D.design s D.design.drivers)).val w = s.val w) ∧
    (∀ k, k < D.combs.length → (settleAll (clockDrivers D.design s D.design.drivers)).st k = s.st k) ∧
    (settleAll (clockDrivers D.design s D.design.drivers)).prepared = [] := by
  let d := D.design
  let g : Nat → Nat × Int := fun j =>
    ((D.regs.getD j default).q, ((regNextV s.val (D.regs.getD j default) (old j) : Nat) : Int))
  have hids : (clockDrivers d s d.drivers) = D.regIds.foldl (C05.applyRes d (C05.res d s)) s := by
    have : clockDrivers d s d.drivers = D.regIds.foldl (clockLeaf d) s := by
      simp [clockDrivers, d, NetD.design, enabled]
    rw [this]
    apply C05.foldl_clockLeaf_eq d s _ _ s rfl (fun _ _ => rfl)
    unfold NetD.regIds
    rw [List.nodup_iff_pairwise_ne, List.pairwise_map]
    apply (List.nodup_iff_pairwise_ne.mp (List.nodup_range (n := D.regs.length))).imp
    intro a b hab
    unfold NetD.rid
    omega
  have hres : ∀ j, j < D.regs.length → C05.res d s (D.rid j) = (((regNextV s.val (D.regs.getD j default) (old j) : Nat) : Int), [g j]) := by
    intro j hj
    have hget : D.regs[j]? = some (D.regs.getD j default) := getElem?_getD _ _ hj
    show (D.leaf (D.rid j)).clock s.val (s.st (D.rid j)) = _
    rw [leaf_clock_reg D j _ hget, hst j hj, reg_clock]
  have hps : D.regIds.flatMap (fun k => (C05.res d s k).2) = (List.range D.regs.length).map g := by
    unfold NetD.regIds
    apply flatMap_map_single
    intro j hj
    rw [hres j (List.mem_range.mp hj)]
  have hfst : ((List.range D.regs.length).map g).map Prod.fst = (List.range D.regs.length).map (fun j => (D.regs.getD j default).q) := by
    simp [g]
  have hnd : (((List.range D.regs.length).map g).map Prod.fst).Nodup := by
    rw [hfst, List.nodup_iff_pairwise_ne, List.pairwise_map]
    apply (List.nodup_iff_pairwise_ne.mp (List.nodup_range (n := D.regs.length))).imp_of_mem
    intro a b ha hb hab e
    have ha' := List.mem_range.mp ha
    have hb' := List.mem_range.mp hb
    exact hab (hq a b _ _ (getElem?_getD _ _ ha') (getElem?_getD _ _ hb') e)
  have hprep : (clockDrivers d s d.drivers).prepared = ((List.range D.regs.length).map g).map Prod.fst := by
    rw [hids, C05.foldl_applyRes_prepared, hp, hps]; simp
  have hnxt : (clockDrivers d s d.drivers).nxt = ((List.range D.regs.length).map g).foldl (C05.nstep d) s.nxt := by
    rw [hids, C05.foldl_applyRes_nxt, hps]
  have hval : (clockDrivers d s d.drivers).val = s.val := by rw [hids, C05.foldl_applyRes_val]
  have hstk : ∀ k, (clockDrivers d s d.drivers).st k = if k ∈ D.regIds then (C05.res d s k).1 else s.st k := by
    intro k; rw [hids, C05.foldl_applyRes_st]
  refine ⟨?_, ?_, ?_, rfl⟩
  · intro j R hR
    have hj : j < D.regs.length := by
      rcases Nat.lt_or_ge j D.regs.length with h | h
      · exact h
      · rw [List.getElem?_eq_none h] at hR; cases hR
    have hRd : D.regs.getD j default = R := getD_of_getElem? _ _ _ hR
    constructor
    · rw [C05.settle_exactly, hprep, hnxt]
      have hmem : g j ∈ (List.range D.regs.length).map g := List.mem_map.mpr ⟨j, List.mem_range.mpr hj, rfl⟩
      have hq1 : (g j).1 = R.q := by show (D.regs.getD j default).q = R.q; rw [hRd]
      have hin : R.q ∈ ((List.range D.regs.length).map g).map Prod.fst := hq1 ▸ List.mem_map.mpr ⟨g j, hmem, rfl⟩
      rw [if_pos hin]
      have := foldl_nstep_hit d _ s.nxt hnd (g j) hmem
      rw [hq1] at this
      rw [this]
      show Bits.put (D.wd (D.regs.getD j default).q) ((regNextV s.val (D.regs.getD j default) (old j) : Nat) : Int) = _
      rw [hRd]
    · show (clockDrivers d s d.drivers).st (D.rid j) = _
      rw [hstk, if_pos (by unfold NetD.regIds; exact List.mem_map.mpr ⟨j, List.mem_range.mpr hj, rfl⟩), hres j hj, hRd]
  · intro w hw
    rw [C05.settle_exactly, hprep, hval]
    have : w ∉ ((List.range D.regs.length).map g).map Prod.fst := by
      rw [hfst]
      intro hmem
      rcases List.mem_map.mp hmem with ⟨j, hj, e⟩
      have hj' := List.mem_range.mp hj
      exact hw (D.regs.getD j default) (List.mem_of_getElem? (getElem?_getD _ _ hj')) e
    rw [if_neg this]
  · intro k hk
    show (clockDrivers d s d.drivers).st k = _
    rw [hstk, if_neg]
    unfold NetD.regIds NetD.rid
    intro hmem
    rcases List.mem_map.mp hmem with ⟨j, _, e⟩
    omega

end FlatM
