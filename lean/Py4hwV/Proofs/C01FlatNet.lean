import Py4hwV.Emit.Flat
import Py4hwV.Props.C01
import Py4hwV.Props.C04
import Py4hwV.Props.C05
import Py4hwV.Props.C06
/-
  C01 design level, simulator side: what `propagateAll` and one clock edge do to a flat netlist `NetD`
  (consequences of C04 Part B, C05 and C06 for this class of designs).
-/
set_option linter.unusedSimpArgs false
namespace FlatM
open Net

/-- every combinational leaf's output holds its function of the CURRENT wire values -/
def CombFix (D : NetD) (V : Nat → Nat) : Prop :=
  ∀ c, c ∈ D.combs → V c.out = Bits.put (D.wd c.out) (c.py (c.ins.map V))

def NetD.reads (D : NetD) (k : Nat) : List Nat := match D.combs[k]? with | some c => c.ins | none => []
def NetD.writes (D : NetD) (k : Nat) : List Nat := match D.combs[k]? with | some c => [c.out] | none => []

theorem leaf_prop (D : NetD) (k : Nat) (v : Val) (x : Int) :
    (D.leaf k).prop v x = (x, match D.combs[k]? with | some c => [(c.out, c.py (c.ins.map v))] | none => []) := by
  unfold NetD.leaf
  cases h : D.combs[k]? with
  | some c => rfl
  | none =>
    simp only
    cases D.regs[k - D.combs.length]? <;> rfl

/-- the combinational leaves of a flat netlist are stateless functions with declared read/write sets (C04.Comb) -/
def NetD.comb (D : NetD) : C04.Comb D.design where
  reads := D.reads
  writes := D.writes
  stateless := by intro k v x; show ((D.leaf k).prop v x).1 = x; rw [leaf_prop]
  state_indep := by intro k v x y; show ((D.leaf k).prop v x).2 = ((D.leaf k).prop v y).2; rw [leaf_prop, leaf_prop]
  reads_ok := by
    intro k v v' x h
    show ((D.leaf k).prop v x).2 = ((D.leaf k).prop v' x).2
    rw [leaf_prop, leaf_prop]
    unfold NetD.reads at h
    cases hc : D.combs[k]? with
    | none => rfl
    | some c =>
      rw [hc] at h
      simp only
      rw [List.map_congr_left h]
  writes_ok := by
    intro k v x
    show ((D.leaf k).prop v x).2.map Prod.fst = D.writes k
    rw [leaf_prop]
    unfold NetD.writes
    cases D.combs[k]? <;> rfl
  writes_nodup := by
    intro k
    unfold NetD.writes
    cases D.combs[k]? <;> simp

/-- the schedule is an evaluation order (what the sorter guarantees, C04 Part A / `topoOK_of_sorted`) that contains
    every combinational leaf -/
def NetD.SchedOK (D : NetD) : Prop :=
  C04.TopoOK D.comb D.order ∧ ∀ i, i < D.combs.length → i ∈ D.order

theorem wput (w : Nat) (v : Int) : (Gen.Wire.put (w : Int) v).toNat = Bits.put w v := by
  rw [C06.gen_wire_put_eq]; simp

/-- **C04 ⇒** after `propagateAll` every combinational output is at its fixpoint value -/
theorem propagate_combfix (D : NetD) (h : D.SchedOK) (s : State Int) : CombFix D (propagateAll D.design s).val := by
  intro c hc
  obtain ⟨i, hi, hci⟩ := List.mem_iff_getElem.mp hc
  have hget : D.combs[i]? = some c := by rw [List.getElem?_eq_getElem hi, hci]
  have hfix := C04.propagate_fixpoint D.design D.comb D.order h.1 s i (h.2 i hi)
  have : ((D.design.leaf i).prop (List.foldl (propLeaf D.design) s D.order).val (s.st i)).2
      = [(c.out, c.py (c.ins.map (List.foldl (propLeaf D.design) s D.order).val))] := by
    show ((D.leaf i).prop _ _).2 = _
    rw [leaf_prop, hget]
  have h2 := hfix (c.out, c.py (c.ins.map (List.foldl (propLeaf D.design) s D.order).val)) (by rw [this]; simp)
  unfold propagateAll
  show (List.foldl (propLeaf D.design) s D.design.order).val c.out = _
  rw [show D.design.order = D.order from rfl, h2]
  simp only [C04.mval]
  exact wput _ _

/-- nets no combinational leaf drives keep their value -/
theorem propagate_val_other (D : NetD) (s : State Int) (w : Nat) (hw : ∀ c, c ∈ D.combs → c.out ≠ w) :
    (propagateAll D.design s).val w = s.val w := by
  unfold propagateAll
  apply C04.fold_propLeaf_val_other D.design D.comb
  intro k _ hmem
  replace hmem : w ∈ D.writes k := hmem
  unfold NetD.writes at hmem
  cases hc : D.combs[k]? with
  | none => rw [hc] at hmem; cases hmem
  | some c =>
    rw [hc] at hmem
    simp at hmem
    exact hw c (List.mem_of_getElem? hc) hmem.symm

theorem propagate_st (D : NetD) (s : State Int) : (propagateAll D.design s).st = s.st :=
  C04.fold_propLeaf_st D.design D.comb _ s

theorem propagate_prepared (D : NetD) (s : State Int) : (propagateAll D.design s).prepared = s.prepared :=
  (C04.fold_propLeaf_rest D.design _ s).2.1

end FlatM
