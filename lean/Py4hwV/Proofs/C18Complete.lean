import Py4hwV.Proofs.C18Sound
/-
  C18 — completeness of the layout checker: every reported error is real (Holds d L → check d L = []).
-/
namespace Schem

/- ---------------------------------------------------------------- breadth-first search is complete -/
section BFS
variable {α : Type} [DecidableEq α]

theorem near_append (adj : α → α → Bool) (a b : List α) (x : α) : near adj (a ++ b) x = (near adj a x || near adj b x) := by
  simp [near, List.any_append]

theorem near_self (adj : α → α → Bool) (fr : List α) (x : α) (h : x ∈ fr) : near adj fr x = true := by
  rw [near_iff]; exact ⟨x, h, Or.inl rfl⟩

/-- when nothing of `rest` is near the reached set, the reached set is closed under Conn -/
theorem closed_of_not_near (adj : α → α → Bool) (S reached rest : List α) (x : α)
    (hx : x ∈ reached) (hS : ∀ s ∈ S, s ∈ reached ∨ s ∈ rest) (hnn : ∀ y ∈ rest, near adj reached y = false)
    (y : α) (hc : Conn (fun p q => p ∈ S ∧ q ∈ S ∧ adj p q = true) x y) : y ∈ reached := by
  induction hc with
  | refl => exact hx
  | step hab hr ih =>
    rename_i b c
    have hcS : c ∈ S := by
      rcases hr with h | h
      · exact h.2.1
      · exact h.1
    rcases hS c hcS with h | h
    · exact h
    · have : near adj reached c = true := by
        rw [near_iff]
        refine ⟨b, ih, Or.inr ?_⟩
        rcases hr with h1 | h1
        · exact Or.inl h1.2.2
        · exact Or.inr h1.2.2
      rw [hnn c h] at this
      cases this

theorem unreached_complete (adj : α → α → Bool) (S : List α) (x : α)
    (hconn : ∀ y ∈ S, Conn (fun p q => p ∈ S ∧ q ∈ S ∧ adj p q = true) x y) :
    ∀ (n : Nat) (rest fr done : List α), rest.length ≤ n → x ∈ done ++ fr →
      (∀ s ∈ S, s ∈ done ++ fr ∨ s ∈ rest) → (∀ y ∈ rest, near adj done y = false) → (∀ y ∈ rest, y ∈ S) →
      unreached adj n rest fr = [] := by
  intro n
  induction n with
  | zero =>
    intro rest fr done hlen _ _ _ _
    simp only [unreached]
    exact List.length_eq_zero_iff.1 (Nat.le_zero.1 hlen)
  | succ n ih =>
    intro rest fr done hlen hx hS hdone hrestS
    simp only [unreached]
    split
    · -- nothing hit: then rest must be empty
      rename_i hhit
      have hhit' : rest.filter (near adj fr) = [] := List.isEmpty_iff.1 hhit
      have hnn : ∀ y ∈ rest, near adj (done ++ fr) y = false := by
        intro y hy
        rw [near_append, hdone y hy, Bool.false_or]
        cases hb : near adj fr y with
        | false => rfl
        | true =>
          have : y ∈ rest.filter (near adj fr) := List.mem_filter.2 ⟨hy, hb⟩
          rw [hhit'] at this
          simp at this
      apply List.eq_nil_iff_forall_not_mem.2
      intro y hy
      have hr := closed_of_not_near adj S (done ++ fr) rest x hx hS hnn y (hconn y (hrestS y hy))
      have := near_self adj (done ++ fr) y hr
      rw [hnn y hy] at this
      cases this
    · rename_i hhit
      apply ih _ _ (done ++ fr)
      · -- the misses are fewer than rest
        have hne : rest.filter (near adj fr) ≠ [] := by
          intro h; apply hhit; simp [h]
        obtain ⟨z, hz⟩ := List.exists_mem_of_ne_nil _ hne
        have hz' := List.mem_filter.1 hz
        have hlt : (rest.filter fun x => !near adj fr x).length < rest.length := by
          apply List.length_filter_lt_length_iff_exists.2
          exact ⟨z, hz'.1, by simp [hz'.2]⟩
        omega
      · exact List.mem_append_left _ hx
      · intro s hs
        rcases hS s hs with h | h
        · exact Or.inl (List.mem_append_left _ h)
        · by_cases hn : near adj fr s = true
          · exact Or.inl (List.mem_append_right _ (List.mem_filter.2 ⟨h, hn⟩))
          · exact Or.inr (List.mem_filter.2 ⟨h, by simp [hn]⟩)
      · intro y hy
        have hy' := List.mem_filter.1 hy
        rw [near_append, hdone y hy'.1, Bool.false_or]
        simpa using hy'.2
      · intro y hy
        exact hrestS y (List.mem_filter.1 hy).1

theorem connectedB_complete (adj : α → α → Bool) (xs : List α) (h : Connected adj xs) : connectedB adj xs = true := by
  cases xs with
  | nil => rfl
  | cons x tl =>
    simp only [connectedB, List.isEmpty_iff]
    apply unreached_complete adj (x :: tl) x (fun y hy => h x (by simp) y hy) tl.length tl [x] [] (Nat.le_refl _)
    · simp
    · intro s hs
      rcases List.mem_cons.1 hs with rfl | h1
      · exact Or.inl (by simp)
      · exact Or.inr h1
    · intro y _
      simp [near]
    · intro y hy
      exact List.mem_cons_of_mem _ hy

end BFS

/- ---------------------------------------------------------------- the nine clauses of one wire, converse -/
theorem clauses_of_wireOK (d : Design) (L : Layout) (w : Nat) (h : WireOK d L w) :
    ∀ c ∈ wireClauses d L (pinTable d L) w, c.2 = true := by
  simp only [wireClauses, wireClausesOn, List.mem_cons, List.not_mem_nil, or_false, forall_eq_or_imp, forall_eq]
  refine ⟨?_, ?_, ?_, ?_, connectedB_complete _ _ h.connected, ?_, ?_, connectedB_complete _ _ h.drawn, ?_⟩
  · apply List.all_eq_true.2
    intro n hn
    have := h.ends n hn
    simp [this.1, this.2]
  · cases hr : d.readers w with
    | cons _ _ => simp
    | nil =>
      have : L.netsOf w = [] := by
        apply h.stray
        intro q hq hqw
        have := (mem_readers d w q).2 ⟨hq, hqw⟩
        rw [hr] at this
        simp at this
      simp [this]
  · unfold driverB
    cases hr : d.readers w with
    | nil => simp
    | cons q0 rest =>
      have hq0 : q0 ∈ d.readers w := by rw [hr]; simp
      have hq0' := (mem_readers d w q0).1 hq0
      simp only [List.isEmpty_cons, Bool.false_or]
      apply List.all_eq_true.2
      intro p hp
      have hp' := (mem_drivers d w p).1 hp
      obtain ⟨n, hn, h1, pt, hpt, hhead⟩ := h.driver p hp'.1 hp'.2 ⟨q0, hq0'.1, hq0'.2⟩
      apply List.any_eq_true.2
      exact ⟨n, hn, by simp [h1, hpt, hhead]⟩
  · unfold readersB
    apply List.all_eq_true.2
    intro q hq
    have hq' := (mem_readers d w q).1 hq
    obtain ⟨n, hn, h1, pt, hpt, hlast⟩ := h.readers q hq'.1 hq'.2
    apply List.any_eq_true.2
    exact ⟨n, hn, by simp [h1, hpt, hlast]⟩
  · apply List.all_eq_true.2
    intro n hn
    simpa using h.routed n hn
  · apply List.all_eq_true.2
    intro s hs
    exact h.ortho s hs
  · unfold foreignB
    apply List.all_eq_true.2
    intro e he
    obtain ⟨p, _, rfl⟩ := List.mem_map.1 he
    cases hw : d.wireOf p with
    | none => simp
    | some w' =>
      cases hp : L.pinPos p with
      | none => simp
      | some pt =>
        simp only
        by_cases hww : w' = w
        · simp [hww]
        · have hb : (w' == w) = false := by simpa using hww
          simp only [hb, Bool.false_or]
          apply List.all_eq_true.2
          intro s hs
          simp [h.foreign p w' hw hww pt hp s hs]

/- ---------------------------------------------------------------- completeness -/
theorem checker_complete (d : Design) (L : Layout) (h : Holds d L) : check d L = [] := by
  rw [check_nil_iff]
  intro c hc
  unfold clauses at hc
  simp only [List.mem_append] at hc
  rcases hc with ((((((hc | hc) | hc) | hc) | hc) | hc) | hc) | hc
  · -- symCount
    obtain ⟨k, hk, rfl⟩ := List.mem_map.1 hc
    have hk' := (mem_realKinds d k).1 hk
    have := h.once k hk'.1
    simp only [hk'.2, if_true] at this
    simp [this]
  · -- symKind
    obtain ⟨k, _, rfl⟩ := List.mem_map.1 hc
    simp only [symKindB]
    cases hs : L.syms[k]? with
    | none => rfl
    | some s =>
      have hmem : s ∈ L.syms.toList := (mem_syms_iff L s).2 ⟨k, hs⟩
      have hno := h.no_other s hmem
      simp only [Bool.and_eq_true, bne_iff_ne, ne_eq, Bool.or_eq_true, Bool.not_eq_true']
      refine ⟨hno, ?_⟩
      cases hr : s.kind.isReal with
      | false => exact Or.inl rfl
      | true =>
        right
        have hon := h.once s.kind hr
        cases hh : d.hasKind s.kind with
        | true => rfl
        | false =>
          simp only [hh, Bool.false_eq_true, if_false, List.length_eq_zero_iff] at hon
          have : s ∈ L.syms.toList.filter (·.kind == s.kind) := List.mem_filter.2 ⟨hmem, by simp⟩
          rw [hon] at this
          simp at this
  · -- placed
    obtain ⟨k, _, rfl⟩ := List.mem_map.1 hc
    simp only [placedB]
    cases hs : L.syms[k]? with
    | none => rfl
    | some s =>
      obtain ⟨r, c, hcell, hat⟩ := h.placed k s hs
      simp [hcell, hat]
  · -- cells
    obtain ⟨rc, _, rfl⟩ := List.mem_map.1 hc
    simp only [cellB]
    cases hk : L.cellAt rc.1 rc.2 with
    | none => rfl
    | some k =>
      obtain ⟨s, hs, hcell⟩ := h.cells rc.1 rc.2 k hk
      simp [hs, hcell]
  · -- overlap
    obtain ⟨ia, hia, hc⟩ := List.mem_flatMap.1 hc
    obtain ⟨jb, hjb, rfl⟩ := List.mem_map.1 hc
    obtain ⟨i, a⟩ := ia
    obtain ⟨j, b⟩ := jb
    have ha := (mem_reals L i a).1 hia
    have hb := (mem_reals L j b).1 hjb
    simp only [overlapB, Bool.or_eq_true, beq_iff_eq, Bool.and_eq_true, bne_iff_ne, ne_eq]
    by_cases hij : i = j
    · exact Or.inl hij
    · have := h.apart i j a b ha.1 hb.1 hij ha.2 hb.2
      exact Or.inr ⟨this.1, (apartB_iff a b).2 this.2⟩
  · -- netWire
    obtain ⟨i, _, rfl⟩ := List.mem_map.1 hc
    cases hn : L.nets[i]? with
    | none => rfl
    | some n =>
      have hmem : n ∈ L.nets := List.mem_of_getElem? hn
      simp only [List.contains_iff_mem]
      exact (mem_usedList d n.wire).2 (h.nets_wires n hmem)
  · -- markerShared
    obtain ⟨k, _, rfl⟩ := List.mem_map.1 hc
    simp only [markerB]
    have key : ∀ a ∈ (L.nets.filter fun n => L.usesMarker n k).map (·.wire),
        ∀ b ∈ (L.nets.filter fun n => L.usesMarker n k).map (·.wire), b = a := by
      intro a ha b hb
      obtain ⟨n, hn, rfl⟩ := List.mem_map.1 ha
      obtain ⟨m, hm, rfl⟩ := List.mem_map.1 hb
      have hn' := List.mem_filter.1 hn
      have hm' := List.mem_filter.1 hm
      exact h.marker_one_wire m hm'.1 n hn'.1 k hm'.2 hn'.2
    revert key
    generalize (L.nets.filter fun n => L.usesMarker n k).map (·.wire) = ws
    intro key
    cases ws with
    | nil => rfl
    | cons w0 rest =>
      simp only [List.all_eq_true, beq_iff_eq]
      intro b hb
      exact key w0 (by simp) b (List.mem_cons_of_mem _ hb)
  · -- wires
    obtain ⟨w, hw, hc⟩ := List.mem_flatMap.1 hc
    exact clauses_of_wireOK d L w (h.wires w ((mem_usedList d w).1 hw)) c hc

theorem check_iff_holds (d : Design) (L : Layout) : check d L = [] ↔ Holds d L :=
  ⟨checker_sound d L, checker_complete d L⟩

end Schem
