import Py4hwV.Schem.Place
import Py4hwV.Schem.Spec
/-
  C18 — the model of replaceAsColRow never makes two cells overlap (for ALL matrices, sizes, track counts and
  all non-negative margins), and what that gives for clause 2 of `Holds`.
-/
namespace Schem.Place

theorem foldl_colW_ge (c : Nat) (l : List (List Cell)) (acc : Int) :
    acc ≤ l.foldl (fun acc row => match row[c]? with | some (some (w, _)) => max acc w | _ => acc) acc := by
  induction l generalizing acc with
  | nil => exact Int.le_refl _
  | cons row l ih =>
    simp only [List.foldl_cons]
    split
    · exact Int.le_trans (Int.le_max_left _ _) (ih _)
    · exact ih _

theorem foldl_colW_mem (c : Nat) (l : List (List Cell)) (acc : Int) (row : List Cell) (w h : Int)
    (hr : row ∈ l) (hc : row[c]? = some (some (w, h))) :
    w ≤ l.foldl (fun acc row => match row[c]? with | some (some (w, _)) => max acc w | _ => acc) acc := by
  induction l generalizing acc with
  | nil => simp at hr
  | cons r0 l ih =>
    simp only [List.foldl_cons]
    rcases List.mem_cons.1 hr with rfl | hr
    · simp only [hc]
      exact Int.le_trans (Int.le_max_right _ _) (foldl_colW_ge c l _)
    · exact ih _ hr

theorem colW_nonneg (m : List (List Cell)) (c : Nat) : 0 ≤ colW m c := foldl_colW_ge c m 0

theorem colW_ge (m : List (List Cell)) (r c : Nat) (row : List Cell) (w h : Int)
    (hr : m[r]? = some row) (hc : row[c]? = some (some (w, h))) : w ≤ colW m c :=
  foldl_colW_mem c m 0 row w h (List.mem_of_getElem? hr) hc

theorem foldl_rowH_ge (l : List Cell) (acc : Int) :
    acc ≤ l.foldl (fun m c => match c with | some (_, h) => max m h | none => m) acc := by
  induction l generalizing acc with
  | nil => exact Int.le_refl _
  | cons a l ih =>
    simp only [List.foldl_cons]
    split
    · exact Int.le_trans (Int.le_max_left _ _) (ih _)
    · exact ih _

theorem foldl_rowH_mem (l : List Cell) (acc : Int) (w h : Int) (hm : some (w, h) ∈ l) :
    h ≤ l.foldl (fun m c => match c with | some (_, h) => max m h | none => m) acc := by
  induction l generalizing acc with
  | nil => simp at hm
  | cons a l ih =>
    simp only [List.foldl_cons]
    rcases List.mem_cons.1 hm with rfl | hm
    · exact Int.le_trans (Int.le_max_right _ _) (foldl_rowH_ge l _)
    · exact ih _ hm

theorem rowH_nonneg (row : List Cell) : 0 ≤ rowH row := foldl_rowH_ge row 0

theorem rowH_ge (row : List Cell) (c : Nat) (w h : Int) (hc : row[c]? = some (some (w, h))) : h ≤ rowH row :=
  foldl_rowH_mem row 0 w h (List.mem_of_getElem? hc)

/-- margins and spacings are not negative (true of the constants in schematic.py; the harness reads them from the class) -/
def Cfg.NonNeg (cfg : Cfg) : Prop := 0 ≤ cfg.mv ∧ 0 ≤ cfg.mh ∧ 0 ≤ cfg.ns ∧ 0 ≤ cfg.ts

theorem gap_nonneg (cfg : Cfg) (h : cfg.NonNeg) (tracks : List Nat) (c : Nat) : 0 ≤ gap cfg tracks c := by
  obtain ⟨_, hmh, hns, hts⟩ := h
  unfold gap
  cases tracks[c]? with
  | none => simpa using hmh
  | some t =>
    have h1 : 0 ≤ (t : Int) * cfg.ts := Int.mul_nonneg (Int.natCast_nonneg t) hts
    simp only
    split <;> omega

/-- columns never run into each other: column c ends (with its widest symbol and its channel) before any later column starts -/
theorem xAt_mono (cfg : Cfg) (h : cfg.NonNeg) (tracks : List Nat) (m : List (List Cell)) (c c' : Nat) (hc : c < c') :
    xAt cfg tracks m c + colW m c ≤ xAt cfg tracks m c' := by
  induction c' with
  | zero => omega
  | succ k ih =>
    have g := gap_nonneg cfg h tracks k
    have wk := colW_nonneg m k
    simp only [xAt]
    by_cases hk : c = k
    · subst hk; omega
    · have := ih (by omega)
      have wc := colW_nonneg m c
      omega

/-- rows never run into each other -/
theorem yAt_mono (cfg : Cfg) (h : cfg.NonNeg) (m : List (List Cell)) (r r' : Nat) (hr : r < r') :
    yAt cfg m r + rowH ((m[r]?).getD []) ≤ yAt cfg m r' := by
  obtain ⟨hmv, _⟩ := h
  induction r' with
  | zero => omega
  | succ k ih =>
    have hk0 := rowH_nonneg ((m[k]?).getD [])
    simp only [yAt]
    by_cases hk : r = k
    · subst hk; omega
    · have := ih (by omega)
      have hr0 := rowH_nonneg ((m[r]?).getD [])
      omega

/-- the boxes given by replaceAsColRow to two different cells do not overlap — for every matrix, every size,
    every track count, every non-negative choice of margins -/
theorem placement_apart (cfg : Cfg) (h : cfg.NonNeg) (tracks : List Nat) (m : List (List Cell))
    (r c r' c' : Nat) (row row' : List Cell) (w h1 w' h1' : Int)
    (hr : m[r]? = some row) (hc : row[c]? = some (some (w, h1)))
    (hr' : m[r']? = some row') (hc' : row'[c']? = some (some (w', h1')))
    (hne : (r, c) ≠ (r', c')) :
    xAt cfg tracks m c + w ≤ xAt cfg tracks m c' ∨ xAt cfg tracks m c' + w' ≤ xAt cfg tracks m c ∨
    yAt cfg m r + h1 ≤ yAt cfg m r' ∨ yAt cfg m r' + h1' ≤ yAt cfg m r := by
  have hw := colW_ge m r c row w h1 hr hc
  have hw' := colW_ge m r' c' row' w' h1' hr' hc'
  have hh := rowH_ge row c w h1 hc
  have hh' := rowH_ge row' c' w' h1' hc'
  rcases Nat.lt_trichotomy c c' with hlt | heq | hgt
  · have := xAt_mono cfg h tracks m c c' hlt
    left; omega
  · subst heq
    have hrr : r ≠ r' := fun e => hne (by rw [e])
    rcases Nat.lt_or_gt_of_ne hrr with hlt | hgt
    · have := yAt_mono cfg h m r r' hlt
      rw [hr] at this
      simp only [Option.getD_some] at this
      right; right; left; omega
    · have := yAt_mono cfg h m r' r hgt
      rw [hr'] at this
      simp only [Option.getD_some] at this
      right; right; right; omega
  · have := xAt_mono cfg h tracks m c' c hgt
    right; left; omega

end Schem.Place

namespace Schem
open Place

/-- sizes of the symbols sitting in symbol_matrix -/
def Layout.sizes (L : Layout) : List (List Cell) :=
  L.mat.map fun row => row.map fun o => o.bind fun k => (L.syms[k]?).map fun s => (s.w, s.h)

/-- the layout's coordinates are those replaceAsColRow computes from symbol_matrix and the channel track counts
    (checked on every run by the harness' `place-model` correspondence stream) -/
def Layout.PlacedBy (L : Layout) (cfg : Cfg) (tracks : List Nat) : Prop :=
  ∀ (k : Nat) (s : Sym), L.syms[k]? = some s → ∃ r c, s.cell = some (r, c) ∧ L.cellAt r c = some k ∧
    s.x = xAt cfg tracks L.sizes c ∧ s.y = yAt cfg L.sizes r

theorem cellAt_some' (L : Layout) (r c k : Nat) :
    L.cellAt r c = some k ↔ ∃ row, L.mat[r]? = some row ∧ row[c]? = some (some k) := by
  unfold Layout.cellAt
  cases hr : L.mat[r]? with
  | none => simp
  | some row =>
    cases hc : row[c]? with
    | none => simp [hc]
    | some o => cases o <;> simp [hc]

/-- clause 2 of C18 for every layout whose coordinates come from replaceAsColRow: no two symbols (markers included)
    share a cell or overlap in pixels -/
theorem apart_of_placedBy (L : Layout) (cfg : Cfg) (hcfg : cfg.NonNeg) (tracks : List Nat) (hp : L.PlacedBy cfg tracks)
    (i j : Nat) (a b : Sym) (ha : L.syms[i]? = some a) (hb : L.syms[j]? = some b) (hij : i ≠ j) :
    a.cell ≠ b.cell ∧ a.Apart b := by
  obtain ⟨r, c, hcell, hat, hx, hy⟩ := hp i a ha
  obtain ⟨r', c', hcell', hat', hx', hy'⟩ := hp j b hb
  have hne : (r, c) ≠ (r', c') := by
    intro e
    simp only [Prod.mk.injEq] at e
    rw [e.1, e.2, hat'] at hat
    exact hij (Option.some.inj hat).symm
  refine ⟨by rw [hcell, hcell']; exact fun e => hne (Option.some.inj e), ?_⟩
  obtain ⟨row, hrow, hk⟩ := (cellAt_some' L r c i).1 hat
  obtain ⟨row', hrow', hk'⟩ := (cellAt_some' L r' c' j).1 hat'
  have hs : L.sizes[r]? = some (row.map fun o => o.bind fun k => (L.syms[k]?).map fun s => (s.w, s.h)) := by
    simp [Layout.sizes, hrow]
  have hs' : L.sizes[r']? = some (row'.map fun o => o.bind fun k => (L.syms[k]?).map fun s => (s.w, s.h)) := by
    simp [Layout.sizes, hrow']
  have hcw : (row.map fun o => o.bind fun k => (L.syms[k]?).map fun s => (s.w, s.h))[c]? = some (some (a.w, a.h)) := by
    simp [hk, ha]
  have hcw' : (row'.map fun o => o.bind fun k => (L.syms[k]?).map fun s => (s.w, s.h))[c']? = some (some (b.w, b.h)) := by
    simp [hk', hb]
  have := placement_apart cfg hcfg tracks L.sizes r c r' c' _ _ a.w a.h b.w b.h hs hcw hs' hcw' hne
  unfold Sym.Apart
  rw [hx, hy, hx', hy']
  exact this

end Schem
