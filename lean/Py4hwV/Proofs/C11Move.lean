import Py4hwV.Proofs.C11Shape
/-
  C11, after commit c407a05 (pre-check in Wire.rename / reparent / reparentAndRename):
  * on a graph with consistent registries (`Shape`) a rename-family call that passed the pre-check cannot raise after
    its `del` any more, hence a REJECTED call leaves the graph unchanged (`move_rejected_unchanged`);
  * every wire stays registered under its (parent, name) in every history (`AllReg`), hence a successful move deletes
    only the moved wire's own entry.
-/
namespace Build

theorem delWireKey_err_unchanged (g : G) (w : Nat) (e : Err) (h : (delWireKey g w).2 = .error e) : (delWireKey g w).1 = g := by
  unfold delWireKey at h ⊢
  cases hw : g.wires[w]? with
  | none => rfl
  | some wr =>
    simp only [hw] at h ⊢
    cases hp : g.objs[wr.parent]? with
    | none => rfl
    | some po =>
      simp only [hp] at h ⊢
      by_cases hh : dhas po.wires wr.name = true
      · simp [hh] at h
      · simp [hh]

theorem delWireKey_ok_some (g : G) (w : Nat) (h : (delWireKey g w).2 = .ok ()) : ∃ wr, g.wires[w]? = some wr := by
  unfold delWireKey at h
  cases hw : g.wires[w]? with
  | none => simp [hw] at h
  | some wr => exact ⟨wr, rfl⟩

theorem appendWire_wires (g : G) (p w : Nat) : (appendWire g p w).1.wires = g.wires := by
  unfold appendWire
  split
  · split <;> rfl
  · rfl

theorem preCheck_ok (g : G) (w p : Nat) (n : String) (h : (preCheck g w p n).2 = .ok ()) :
    ∃ po, g.objs[p]? = some po ∧ (dget po.wires n = none ∨ dget po.wires n = some w) := by
  unfold preCheck at h
  cases hp : g.objs[p]? with
  | none => simp [hp] at h
  | some po =>
    refine ⟨po, rfl, ?_⟩
    simp only [hp] at h
    cases hd : dget po.wires n with
    | none => exact Or.inl rfl
    | some v =>
      simp only [hd] at h
      by_cases e : v = w
      · subst e; exact Or.inr rfl
      · simp [e] at h

/-- after `del self.parent._wires[self.name]` the target name is free in the target parent, provided the pre-check
    passed (the name was free, or held by the wire itself) -/
theorem delWireKey_target_free {g : G} (hs : Shape g) {w p : Nat} {n : String} {wr : Wire} {po : Obj}
    (hw : g.wires[w]? = some wr) (hp : g.objs[p]? = some po)
    (hfree : dget po.wires n = none ∨ dget po.wires n = some w) (hok : (delWireKey g w).2 = .ok ()) :
    ∃ po1, (delWireKey g w).1.objs[p]? = some po1 ∧ dget po1.wires n = none := by
  unfold delWireKey at hok ⊢
  rw [hw] at hok ⊢
  simp only at hok ⊢
  cases hpp : g.objs[wr.parent]? with
  | none => simp [hpp] at hok
  | some pp =>
    simp only [hpp] at hok ⊢
    by_cases hh : dhas pp.wires wr.name = true
    · simp only [hh, ite_true]
      refine ⟨_, modify_of_some hp, ?_⟩
      by_cases e : wr.parent = p
      · simp only [e, ite_true]
        by_cases e2 : n = wr.name
        · subst e2; exact dget_ddel_self _ _
        · rw [dget_ddel_ne _ _ _ e2]
          rcases hfree with h | h
          · exact h
          · obtain ⟨wr', hw', _, p2⟩ := hs.wcons p po n w hp h
            rw [hw] at hw'; cases hw'
            exact absurd p2.symm e2
      · simp only [e, ite_false]
        rcases hfree with h | h
        · exact h
        · obtain ⟨wr', hw', p1, _⟩ := hs.wcons p po n w hp h
          rw [hw] at hw'; cases hw'
          exact absurd p1 e
    · simp [hh] at hok

/-- … so the `appendWire` that ends the method succeeds -/
theorem move_tail_ok {g : G} (hs : Shape g) {w p : Nat} {n : String} {wr : Wire} {po : Obj} (f : Wire → Wire)
    (hw : g.wires[w]? = some wr) (hp : g.objs[p]? = some po)
    (hfree : dget po.wires n = none ∨ dget po.wires n = some w) (hfn : (f wr).name = n)
    (hok : (delWireKey g w).2 = .ok ()) :
    (appendWire (modWire (delWireKey g w).1 w f) p w).2 = .ok () := by
  obtain ⟨po1, hp1, hn1⟩ := delWireKey_target_free hs hw hp hfree hok
  have hw2 : (modWire (delWireKey g w).1 w f).wires[w]? = some (f wr) := by
    simp only [modWire_wires, delWireKey_wires]
    rw [modify_of_some hw]; simp
  unfold appendWire
  simp only [modWire_objs, hp1, hw2]
  have : dhas po1.wires (f wr).name = false := by rw [dhas_eq_false, hfn]; exact hn1
  simp [this]

theorem wireParent_mod (g : G) (w : Nat) (f : Wire → Wire) (wr : Wire) (hw : g.wires[w]? = some wr) :
    wireParent (modWire g w f) w = (f wr).parent := by
  unfold wireParent
  simp only [modWire_wires]
  rw [modify_of_some hw]; simp

/-- the three method bodies after a passed pre-check, on a consistent graph: raise only before mutating -/
theorem renameOld_err_unchanged {g : G} (hs : Shape g) (w : Nat) (n : String) (e : Err)
    (hpc : (preCheck g w (wireParent g w) n).2 = .ok ()) (hr : (renameOld g w n).2 = .error e) : (renameOld g w n).1 = g := by
  unfold renameOld at hr ⊢
  rcases res_cases (delWireKey g w).2 with h | ⟨e', h⟩
  · exfalso
    rw [andThen_ok h] at hr
    obtain ⟨wr, hw⟩ := delWireKey_ok_some g w h
    obtain ⟨po, hp, hfree⟩ := preCheck_ok g w _ n hpc
    have hpar : wireParent g w = wr.parent := by unfold wireParent; rw [hw]
    rw [hpar] at hp
    have hw1 : (delWireKey g w).1.wires[w]? = some wr := by rw [delWireKey_wires]; exact hw
    have := move_tail_ok hs (fun wr => { wr with name := n }) hw hp hfree rfl h
    simp only at hr
    rw [wireParent_mod _ w _ wr hw1] at hr
    simp only at hr
    rw [this] at hr; cases hr
  · rw [andThen_err h]; exact delWireKey_err_unchanged g w e' h

theorem reparentOld_err_unchanged {g : G} (hs : Shape g) (w p : Nat) (e : Err)
    (hpc : (preCheck g w p (wireName g w)).2 = .ok ()) (hr : (reparentOld g w p).2 = .error e) : (reparentOld g w p).1 = g := by
  unfold reparentOld at hr ⊢
  rcases res_cases (delWireKey g w).2 with h | ⟨e', h⟩
  · exfalso
    rw [andThen_ok h] at hr
    obtain ⟨wr, hw⟩ := delWireKey_ok_some g w h
    obtain ⟨po, hp, hfree⟩ := preCheck_ok g w p _ hpc
    have hnm : wireName g w = wr.name := by unfold wireName; rw [hw]
    rw [hnm] at hfree
    have := move_tail_ok hs (fun wr => { wr with parent := p }) hw hp hfree rfl h
    simp only at hr
    rw [this] at hr; cases hr
  · rw [andThen_err h]; exact delWireKey_err_unchanged g w e' h

theorem reparentAndRenameOld_err_unchanged {g : G} (hs : Shape g) (w p : Nat) (n : String) (e : Err)
    (hpc : (preCheck g w p n).2 = .ok ()) (hr : (reparentAndRenameOld g w p n).2 = .error e) :
    (reparentAndRenameOld g w p n).1 = g := by
  unfold reparentAndRenameOld at hr ⊢
  rcases res_cases (delWireKey g w).2 with h | ⟨e', h⟩
  · exfalso
    rw [andThen_ok h] at hr
    obtain ⟨wr, hw⟩ := delWireKey_ok_some g w h
    obtain ⟨po, hp, hfree⟩ := preCheck_ok g w p n hpc
    have := move_tail_ok hs (fun wr => { wr with name := n, parent := p }) hw hp hfree rfl h
    simp only at hr
    rw [this] at hr; cases hr
  · rw [andThen_err h]; exact delWireKey_err_unchanged g w e' h

def Op.isMove : Op → Bool
  | .rename _ _ => true
  | .reparent _ _ => true
  | .reparentAndRename _ _ _ => true
  | _ => false

/-- the wire a rename-family call is applied to -/
def Op.movedWire : Op → Option Nat
  | .rename w _ => some w
  | .reparent w _ => some w
  | .reparentAndRename w _ _ => some w
  | _ => none

/-- a rejected rename / reparent / reparentAndRename leaves the graph unchanged (consistent registries) -/
theorem move_rejected_unchanged {g : G} (hs : Shape g) (op : Op) (hm : op.isMove = true) (e : Err)
    (hr : (step g op).2 = .error e) : (step g op).1 = g := by
  cases op with
  | rename w n =>
    simp only [step, rename] at hr ⊢
    rcases res_cases (preCheck g w (wireParent g w) n).2 with h | ⟨e', h⟩
    · rw [andThen_ok h, preCheck_fst] at hr ⊢
      exact renameOld_err_unchanged hs w n e h hr
    · rw [andThen_err h, preCheck_fst]
  | reparent w p =>
    simp only [step, reparent] at hr ⊢
    rcases res_cases (preCheck g w p (wireName g w)).2 with h | ⟨e', h⟩
    · rw [andThen_ok h, preCheck_fst] at hr ⊢
      exact reparentOld_err_unchanged hs w p e h hr
    · rw [andThen_err h, preCheck_fst]
  | reparentAndRename w p n =>
    simp only [step, reparentAndRename] at hr ⊢
    rcases res_cases (preCheck g w p n).2 with h | ⟨e', h⟩
    · rw [andThen_ok h, preCheck_fst] at hr ⊢
      exact reparentAndRenameOld_err_unchanged hs w p n e h hr
    · rw [andThen_err h, preCheck_fst]
  | _ => simp [Op.isMove] at hm

/-! ### every wire stays registered -/

/-- every wire object is found in its parent's `_wires` under its own name -/
def AllReg (g : G) : Prop :=
  ∀ (w : Nat) (wr : Wire), g.wires[w]? = some wr → wireOf g wr.parent wr.name = some w

/-- no new wires, and parent / name of the wires unchanged -/
def WSame (g g' : G) : Prop :=
  ∀ (w : Nat) (wr' : Wire), g'.wires[w]? = some wr' → ∃ wr, g.wires[w]? = some wr ∧ wr.parent = wr'.parent ∧ wr.name = wr'.name

theorem WSame.refl (g : G) : WSame g g := fun _ wr' h => ⟨wr', h, rfl, rfl⟩
theorem WSame.trans (a b c : G) (h1 : WSame a b) (h2 : WSame b c) : WSame a c := by
  intro w wr' h
  obtain ⟨wr1, ha, p1, p2⟩ := h2 w wr' h
  obtain ⟨wr0, hb, q1, q2⟩ := h1 w wr1 ha
  exact ⟨wr0, hb, q1.trans p1, q2.trans p2⟩
theorem wsame_of_eq {g g' : G} (h : g'.wires = g.wires) : WSame g g' := fun w wr' hw => ⟨wr', by rw [← h]; exact hw, rfl, rfl⟩
theorem wsame_modWire (g : G) (w : Nat) (f : Wire → Wire) (hf : ∀ wr, (f wr).parent = wr.parent ∧ (f wr).name = wr.name) :
    WSame g (modWire g w f) := by
  intro w' wr' h
  obtain ⟨a, ha, hb⟩ := modify_some h
  refine ⟨a, ha, ?_⟩
  subst hb
  split
  · exact ⟨(hf a).1.symm, (hf a).2.symm⟩
  · exact ⟨rfl, rfl⟩

theorem AllReg_frame {g g' : G} (h : AllReg g) (hk : KeepsW none g g') (hw : WSame g g') : AllReg g' := by
  intro w wr' h1
  obtain ⟨wr, ha, p1, p2⟩ := hw w wr' h1
  rw [← p1, ← p2]
  exact hk _ _ _ (by simp) (h w wr ha)

theorem regSource_wsame (g : G) (w pid : Nat) : WSame g (regSource g w pid).1 := by
  unfold regSource
  split
  · exact WSame.refl g
  · split
    · exact wsame_modWire g w _ (fun _ => ⟨rfl, rfl⟩)
    · split
      · exact WSame.refl g
      · exact wsame_modWire g w _ (fun _ => ⟨rfl, rfl⟩)

theorem regSink_wsame (g : G) (w pid : Nat) : WSame g (regSink g w pid).1 := by
  unfold regSink
  split
  · exact WSame.refl g
  · exact wsame_modWire g w _ (fun _ => ⟨rfl, rfl⟩)

theorem newLogic_wires (g : G) (p : Option Nat) (n : String) (pr : Bool) : (newLogic g p n pr).1.wires = g.wires := by
  unfold newLogic
  split
  · rfl
  · split
    · rfl
    · split <;> rfl

theorem addIn_wsame (g : G) (o : Nat) (n : String) (w : Nat) : WSame g (addIn g o n w).1 := by
  unfold addIn
  split
  · exact WSame.refl g
  · exact WSame.refl g
  · apply andThen_rel WSame.refl WSame.trans
    · split
      · exact regSink_wsame _ _ _
      · exact WSame.refl g
    · intro g1; exact wsame_of_eq rfl

theorem addOut_wsame (g : G) (o : Nat) (n : String) (w : Nat) : WSame g (addOut g o n w).1 := by
  unfold addOut
  split
  · exact WSame.refl g
  · exact WSame.refl g
  · apply andThen_rel WSame.refl WSame.trans
    · split
      · exact regSource_wsame _ _ _
      · exact WSame.refl g
    · intro g1; exact wsame_of_eq rfl

theorem addInOut_wsame (g : G) (o : Nat) (n : String) (w : Nat) : WSame g (addInOut g o n w).1 := by
  unfold addInOut
  split
  · exact WSame.refl g
  · exact WSame.refl g
  · apply andThen_rel WSame.refl WSame.trans
    · split
      · apply andThen_rel WSame.refl WSame.trans
        · exact regSource_wsame _ _ _
        · intro g1; exact regSink_wsame _ _ _
      · exact WSame.refl g
    · intro g1; exact wsame_of_eq rfl

theorem addIfSource_wsame (g : G) (o : Nat) (n : String) (i : Nat) : WSame g (addIfSource g o n i).1 := by
  unfold addIfSource
  split
  · exact WSame.refl g
  · apply andThen_rel WSame.refl WSame.trans
    · exact forEach_rel WSame.refl WSame.trans _ (fun g x => addOut_wsame _ _ _ _) _ _
    · intro g1; exact forEach_rel WSame.refl WSame.trans _ (fun g x => addIn_wsame _ _ _ _) _ _

theorem addIfSink_wsame (g : G) (o : Nat) (n : String) (i : Nat) : WSame g (addIfSink g o n i).1 := by
  unfold addIfSink
  split
  · exact WSame.refl g
  · apply andThen_rel WSame.refl WSame.trans
    · exact forEach_rel WSame.refl WSame.trans _ (fun g x => addIn_wsame _ _ _ _) _ _
    · intro g1; exact forEach_rel WSame.refl WSame.trans _ (fun g x => addOut_wsame _ _ _ _) _ _

theorem wsame_clear (g : G) (w : Nat) (f : Wire → Wire) (hf : ∀ wr, (f wr).parent = wr.parent ∧ (f wr).name = wr.name)
    (p : Nat) (k : Port → Port) : WSame g (modPort (modWire g w f) p k) :=
  WSame.trans _ _ _ (wsame_modWire g w f hf) (wsame_of_eq rfl)

theorem disconnect_wsame (g : G) (w o : Nat) : WSame g (disconnect g w o).1 := by
  unfold disconnect
  split
  · split
    · exact WSame.refl g
    · split
      · split
        · (apply wsame_clear; intro _; exact ⟨rfl, rfl⟩)
        · split
          · (apply wsame_clear; intro _; exact ⟨rfl, rfl⟩)
          · exact WSame.refl g
      · split
        · (apply wsame_clear; intro _; exact ⟨rfl, rfl⟩)
        · exact WSame.refl g
  · exact WSame.refl g

/-- `parent.appendWire(w)` that succeeds registers `w` under its name -/
theorem appendWire_registers (g : G) (p w : Nat) (wr : Wire) (hw : g.wires[w]? = some wr)
    (hok : (appendWire g p w).2 = .ok ()) : wireOf (appendWire g p w).1 p wr.name = some w := by
  unfold appendWire at hok ⊢
  cases hp : g.objs[p]? with
  | none => simp [hp] at hok
  | some po =>
    simp only [hp, hw] at hok ⊢
    by_cases hh : dhas po.wires wr.name = true
    · simp [hh] at hok
    · simp only [hh, Bool.false_eq_true, ite_false, wireOf, modObj_objs]
      rw [modify_of_some hp]
      simp [dget_dset_self]

theorem AllReg_newWire (g : G) (p : Nat) (n : String) (b : Bool) (h : AllReg g) : AllReg (newWire g p n b).1 := by
  unfold newWire
  simp only
  rcases res_cases (appendWire { g with wires := g.wires ++ [{ parent := p, name := n, bidir := b }] } p g.wires.length).2 with hr | ⟨e, hr⟩
  · rw [hr]
    simp only
    intro w wr' h1
    rw [appendWire_wires] at h1
    simp only [List.getElem?_append] at h1
    split at h1
    · have h0 := h w wr' h1
      exact appendWire_keepsW _ _ _ _ _ _ (by simp) (by simpa [wireOf] using h0)
    · have : w = g.wires.length := by
        have := lt_of_getElem?_some h1; simp at this; omega
      subst this
      simp at h1; subst h1
      exact appendWire_registers _ p g.wires.length _ (by simp) hr
  · rw [hr]; exact h

/-- a move whose two steps succeed keeps every wire registered -/
theorem AllReg_move_ok {g : G} (hreg : AllReg g) {w p : Nat} {wr : Wire} (f : Wire → Wire)
    (hw : g.wires[w]? = some wr) (hpar : (f wr).parent = p) (_hok1 : (delWireKey g w).2 = .ok ())
    (hok2 : (appendWire (modWire (delWireKey g w).1 w f) p w).2 = .ok ()) :
    AllReg (appendWire (modWire (delWireKey g w).1 w f) p w).1 := by
  intro y wy' h1
  rw [appendWire_wires] at h1
  have hw2 : (modWire (delWireKey g w).1 w f).wires[w]? = some (f wr) := by
    simp only [modWire_wires, delWireKey_wires]
    rw [modify_of_some hw]; simp
  by_cases e : y = w
  · subst e
    rw [hw2] at h1; cases h1
    rw [hpar]
    exact appendWire_registers _ p y (f wr) hw2 hok2
  · simp only [modWire_wires, delWireKey_wires] at h1
    obtain ⟨wy, hy, hb⟩ := modify_some h1
    have : ¬ w = y := fun e' => e e'.symm
    simp only [this, ite_false] at hb
    subst hb
    have h0 := hreg y wy' hy
    have hne : some (wy'.parent, wy'.name) ≠ some (wr.parent, wr.name) := by
      intro e2
      simp only [Option.some.injEq, Prod.mk.injEq] at e2
      have hw0 := hreg w wr hw
      rw [← e2.1, ← e2.2, h0] at hw0
      cases hw0; exact e rfl
    have h1' := delWireKey_keepsW g w wr hw _ _ _ hne h0
    apply appendWire_keepsW _ _ _ _ _ _ (by simp)
    simpa [wireOf] using h1'

theorem AllReg_rename {g : G} (hs : Shape g) (hreg : AllReg g) (w : Nat) (n : String) : AllReg (rename g w n).1 := by
  unfold rename
  rcases res_cases (preCheck g w (wireParent g w) n).2 with h | ⟨e', h⟩
  · rw [andThen_ok h, preCheck_fst]
    unfold renameOld
    rcases res_cases (delWireKey g w).2 with hd | ⟨e, hd⟩
    · rw [andThen_ok hd]
      obtain ⟨wr, hw⟩ := delWireKey_ok_some g w hd
      obtain ⟨po, hp, hfree⟩ := preCheck_ok g w _ n h
      have hpar : wireParent g w = wr.parent := by unfold wireParent; rw [hw]
      rw [hpar] at hp
      have hw1 : (delWireKey g w).1.wires[w]? = some wr := by rw [delWireKey_wires]; exact hw
      have hok2 := move_tail_ok hs (fun wr => { wr with name := n }) hw hp hfree rfl hd
      simp only
      rw [wireParent_mod _ w _ wr hw1]
      exact AllReg_move_ok hreg (fun wr => { wr with name := n }) hw rfl hd hok2
    · rw [andThen_err hd, delWireKey_err_unchanged g w e hd]; exact hreg
  · rw [andThen_err h, preCheck_fst]; exact hreg

theorem AllReg_reparent {g : G} (hs : Shape g) (hreg : AllReg g) (w p : Nat) : AllReg (reparent g w p).1 := by
  unfold reparent
  rcases res_cases (preCheck g w p (wireName g w)).2 with h | ⟨e', h⟩
  · rw [andThen_ok h, preCheck_fst]
    unfold reparentOld
    rcases res_cases (delWireKey g w).2 with hd | ⟨e, hd⟩
    · rw [andThen_ok hd]
      obtain ⟨wr, hw⟩ := delWireKey_ok_some g w hd
      obtain ⟨po, hp, hfree⟩ := preCheck_ok g w p _ h
      have hnm : wireName g w = wr.name := by unfold wireName; rw [hw]
      rw [hnm] at hfree
      have hok2 := move_tail_ok hs (fun wr => { wr with parent := p }) hw hp hfree rfl hd
      exact AllReg_move_ok hreg (fun wr => { wr with parent := p }) hw rfl hd hok2
    · rw [andThen_err hd, delWireKey_err_unchanged g w e hd]; exact hreg
  · rw [andThen_err h, preCheck_fst]; exact hreg

theorem AllReg_reparentAndRename {g : G} (hs : Shape g) (hreg : AllReg g) (w p : Nat) (n : String) :
    AllReg (reparentAndRename g w p n).1 := by
  unfold reparentAndRename
  rcases res_cases (preCheck g w p n).2 with h | ⟨e', h⟩
  · rw [andThen_ok h, preCheck_fst]
    unfold reparentAndRenameOld
    rcases res_cases (delWireKey g w).2 with hd | ⟨e, hd⟩
    · rw [andThen_ok hd]
      obtain ⟨wr, hw⟩ := delWireKey_ok_some g w hd
      obtain ⟨po, hp, hfree⟩ := preCheck_ok g w p n h
      have hok2 := move_tail_ok hs (fun wr => { wr with name := n, parent := p }) hw hp hfree rfl hd
      exact AllReg_move_ok hreg (fun wr => { wr with name := n, parent := p }) hw rfl hd hok2
    · rw [andThen_err hd, delWireKey_err_unchanged g w e hd]; exact hreg
  · rw [andThen_err h, preCheck_fst]; exact hreg

theorem AllReg_ifS2K (g : G) (i : Nat) (n : String) (h : AllReg g) : AllReg (ifS2K g i n).1 := by
  unfold ifS2K
  split
  · exact h
  · apply andThen_pred (P := AllReg) (AllReg_newWire _ _ _ _ h)
    intro g1 h1; exact AllReg_frame h1 (keepsW_of_eq rfl) (wsame_of_eq rfl)

theorem AllReg_ifK2S (g : G) (i : Nat) (n : String) (h : AllReg g) : AllReg (ifK2S g i n).1 := by
  unfold ifK2S
  split
  · exact h
  · apply andThen_pred (P := AllReg) (AllReg_newWire _ _ _ _ h)
    intro g1 h1; exact AllReg_frame h1 (keepsW_of_eq rfl) (wsame_of_eq rfl)

theorem AllReg_step {g : G} (hs : Shape g) (h : AllReg g) (op : Op) : AllReg (step g op).1 := by
  cases op with
  | newLogic p n pr => exact AllReg_frame h (newLogic_keepsW _ _ _ _) (wsame_of_eq (newLogic_wires _ _ _ _))
  | wire p n b => exact AllReg_newWire _ _ _ _ h
  | addIn o n w => exact AllReg_frame h (addIn_keepsW _ _ _ _) (addIn_wsame _ _ _ _)
  | addOut o n w => exact AllReg_frame h (addOut_keepsW _ _ _ _) (addOut_wsame _ _ _ _)
  | addInOut o n w => exact AllReg_frame h (addInOut_keepsW _ _ _ _) (addInOut_wsame _ _ _ _)
  | rename w n => exact AllReg_rename hs h w n
  | reparent w p => exact AllReg_reparent hs h w p
  | reparentAndRename w p n => exact AllReg_reparentAndRename hs h w p n
  | newIface p n => exact AllReg_frame h (newIface_keepsW _ _ _) (wsame_of_eq rfl)
  | ifS2K i n => exact AllReg_ifS2K _ _ _ h
  | ifK2S i n => exact AllReg_ifK2S _ _ _ h
  | addIfSource o n i => exact AllReg_frame h (addIfSource_keepsW _ _ _ _) (addIfSource_wsame _ _ _ _)
  | addIfSink o n i => exact AllReg_frame h (addIfSink_keepsW _ _ _ _) (addIfSink_wsame _ _ _ _)
  | disconnect w o => exact AllReg_frame h (keepsW_of_eq (disconnect_objs _ _ _)) (disconnect_wsame _ _ _)
  | wires p n k => exact forEach_pred (P := AllReg) _ (fun g x hg => AllReg_newWire _ _ _ _ hg) _ _ h

theorem AllReg_empty : AllReg {} := fun w wr h => by simp at h

theorem AllReg_run (ops : List Op) (g : G) (hs : Shape g) (h : AllReg g) : AllReg (run g ops) := by
  induction ops generalizing g with
  | nil => exact h
  | cons op t ih =>
    simp only [run, List.foldl_cons]
    exact ih _ (Shape_step g op hs) (AllReg_step hs h op)

end Build
