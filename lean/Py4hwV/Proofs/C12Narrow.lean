import Py4hwV.Proofs.C12Conv
/- C12 — narrowing: `FPNum.convert` on ANY normalised finite number (`p = 2^a`, `2^a ≤ m < 2^(a+1)`), into any format.
   Closed form of the standardisation loops with truncation, closed form of `convertFinite`, the rounding mode it
   implements (truncation of the magnitude; overflow → infinity; underflow → subnormal → zero), and exactness on every
   value representable in the target format.  Core Lean only. -/
namespace C12
open Py Bits Helper Helper.FPNum

/-! #### the standardisation loops, in general (bits may be dropped) -/

/-- `while (p > p_std): p >>= 1; m >>= 1` on powers of two: floor division by `2^(a-c)` -/
theorem stdDownLoop_trunc : ∀ (f : Nat) (m : Int) (a c : Nat), c ≤ a → a - c < f →
    stdDownLoop f ((2:Int)^c) m ((2:Int)^a) = some (m / (2:Int)^(a - c), (2:Int)^c) := by
  intro f
  induction f with
  | zero => intro m a c _ h; omega
  | succ f ih =>
    intro m a c hca hf
    unfold stdDownLoop
    by_cases h : c < a
    · rw [if_pos (two_pow_lt_int c a h), shr_one, shr_one]
      have ea : a = (a - 1) + 1 := by omega
      have e1 : (2:Int)^a / 2 = (2:Int)^(a-1) := by
        conv => lhs; rw [ea, Int.pow_succ]
        exact Int.mul_ediv_cancel _ (by decide)
      rw [e1, ih (m / 2) (a-1) c (by omega) (by omega)]
      congr 2
      have : a - c = ((a - 1) - c) + 1 := by omega
      rw [this, Int.pow_succ, Int.mul_comm, Int.ediv_ediv_of_nonneg (by decide)]
    · have : a = c := by omega
      subst this
      rw [if_neg (by omega)]; simp

/-- the two standardisation loops of `convert`, for every mantissa: `⌊m · 2^c / 2^a⌋` -/
theorem stdPrec_trunc (m : Int) (a c : Nat) :
    stdPrec ((2:Int)^c) m ((2:Int)^a) = some (m * (2:Int)^c / (2:Int)^a) := by
  unfold stdPrec
  rw [toNat_two_pow, toNat_two_pow]
  rcases Nat.lt_or_ge a c with hac | hac
  · have hdown : stdDownLoop (2^a + 1) ((2:Int)^c) m ((2:Int)^a) = some (m, (2:Int)^a) := by
      unfold stdDownLoop
      have := two_pow_lt_int a c hac
      rw [if_neg (by omega)]
    have hup := stdUpLoop_pow2 (2^c + 1) m a c (by omega) (by have := nat_lt_two_pow c; omega)
    simp only [hdown, hup, bind, Option.bind, pure]
    congr 1
    have : c = (c - a) + a := by omega
    conv => rhs; rw [this, Int.pow_add, ← Int.mul_assoc]
    exact (Int.mul_ediv_cancel _ (Int.ne_of_gt (two_pow_pos_int a))).symm
  · have hdown := stdDownLoop_trunc (2^a + 1) m a c hac (by have := nat_lt_two_pow a; omega)
    have hup := stdUpLoop_pow2 (2^c + 1) (m / (2:Int)^(a - c)) c c (Nat.le_refl _) (by have := Nat.two_pow_pos c; omega)
    simp only [hdown, hup, bind, Option.bind, pure]
    congr 1
    have : a = (a - c) + c := by omega
    conv => rhs; rw [this, Int.pow_add]
    simp only [Nat.sub_self, Int.pow_zero, Int.mul_one]
    exact (Int.mul_ediv_mul_of_pos_left _ _ (two_pow_pos_int c)).symm

/-! #### `convertFinite` on a normalised number: closed form = the truncation specification -/

theorem sub_hidden_ediv (m : Int) (a mb : Nat) :
    (m - (2:Int)^a) * (2:Int)^mb / (2:Int)^a = m * (2:Int)^mb / (2:Int)^a - (2:Int)^mb := by
  have hpa := two_pow_pos_int a
  have : (m - (2:Int)^a) * (2:Int)^mb = m * (2:Int)^mb + (2:Int)^a * (-(2:Int)^mb) := by
    rw [Int.sub_mul, Int.mul_neg]; omega
  rw [this, Int.add_mul_ediv_left _ _ (Int.ne_of_gt hpa)]; omega

/-- **`convert` of ANY normalised finite non-zero number into ANY format** (`0 < emask`): the fields are those of the
    truncation specification `truncFields` — in particular the conversion never raises (the `assert(m & p)` holds) and
    both standardisation loops terminate. -/
theorem convertFinite_norm (bias emask : Int) (mb a : Nat) (e m : Int)
    (h0 : (2:Int)^a ≤ m) (h1 : m < (2:Int)^(a+1)) (hmask : 0 < emask) :
    convertFinite bias emask ((2:Int)^mb) e m ((2:Int)^a) = some (truncFields bias emask mb a e m) := by
  have hpa := two_pow_pos_int a
  have h1' : m < 2 * (2:Int)^a := by rw [← two_pow_succ_int]; exact h1
  unfold convertFinite truncFields
  by_cases c1 : e < -(bias - 1)
  · -- below the smallest normal binade: subnormal, the precision is raised by 2^(1-bias-e)
    have hsh : (-(bias - 1) - e).toNat = (1 - bias - e).toNat := by congr 1; omega
    have hp' : Py.shl ((2:Int)^a) (-(bias - 1) - e).toNat = (2:Int)^(a + (1 - bias - e).toNat) := by
      rw [hsh, Int.pow_add]; simp [Py.shl]
    have c3 : ¬ ((0:Int) < 0) := by omega
    have c4 : ¬ ((0:Int) ≥ emask) := by omega
    have d1 : ¬ (e + bias ≥ emask) := by omega
    have d2 : ¬ (1 ≤ e + bias) := by omega
    simp only [c1, if_true, c3, c4, if_false, beq_self_eq_true, hp', stdPrec_trunc, Option.map, d1, d2]
  · have c2 : (e == -(bias - 1) && decide ((2:Int)^a > m)) = false := by
      have : ¬ ((2:Int)^a > m) := by omega
      simp [this]
    simp only [c1, c2, if_false, Bool.false_eq_true]
    have c3 : ¬ (e + bias < 0) := by omega
    by_cases c4 : e + bias ≥ emask
    · simp only [c3, c4, if_false, if_true]
    · have c5 : (e + bias == 0) = false := by simp; omega
      have c6 : ¬ ((2:Int)^a > m) := by omega
      have d2 : 1 ≤ e + bias := by omega
      simp only [c3, c4, c5, c6, d2, if_false, if_true, Bool.false_eq_true, shl_one']
      have c7 : ¬ (m ≥ (2:Int)^a * 2) := by omega
      simp only [c7, if_false]
      have hb := hidden_bit m a h0 h1
      rw [hb.1, hb.2]
      have c8 : ((2:Int)^a == 0) = false := by simp; omega
      simp only [c8, Bool.false_eq_true, if_false, stdPrec_trunc, Option.map, sub_hidden_ediv]

/-! #### dyadic equalities as integer equalities -/

/-- `m·2^x = N·2^y` in ℚ, read with any pair of natural shifts that align the exponents -/
theorem dy_cross (m N x y : Int) (p q : Nat) (h : Dy.toRat ⟨m, x⟩ = Dy.toRat ⟨N, y⟩) (hpq : x + (p : Int) = y + (q : Int)) :
    m * (2:Int)^q = N * (2:Int)^p := by
  unfold Dy.toRat at h
  simp only at h
  have e1 := zpow_add_nat x p
  have e2 := zpow_add_nat y q
  rw [hpq] at e1
  have hT := two_zpow_ne_zero_rat (y + (q : Int))
  have hx := two_zpow_ne_zero_rat x
  have hy := two_zpow_ne_zero_rat y
  have hp := two_pow_ne_zero_rat p
  have hq := two_pow_ne_zero_rat q
  have : ((m * (2:Int)^q : Int) : Rat) = ((N * (2:Int)^p : Int) : Rat) := by
    rw [cast_mul_pow, cast_mul_pow]
    -- (m·2^q)·2^x·2^p = m·2^x·2^p·2^q = N·2^y·2^q·2^p = (N·2^p)·(2^y·2^q), and 2^x·2^p = 2^y·2^q ≠ 0
    have k1 : (m : Rat) * (2:Rat)^q * ((2:Rat)^x * (2:Rat)^p) = (N : Rat) * (2:Rat)^p * ((2:Rat)^y * (2:Rat)^q) := by
      have : (m : Rat) * (2:Rat)^q * ((2:Rat)^x * (2:Rat)^p) = ((m : Rat) * (2:Rat)^x) * ((2:Rat)^p * (2:Rat)^q) := by grind
      rw [this, h]; grind
    rw [← e1] at k1
    rw [← e2] at k1
    grind
  exact Rat.intCast_inj.mp this

/-- two numbers in binades `[2^a, 2^(a+1))`, `[2^b, 2^(b+1))` that agree after shifting: the shifts differ by `a − b` -/
theorem binade_cross (m N : Int) (a b p q : Nat) (h0 : (2:Int)^a ≤ m) (h1 : m < (2:Int)^(a+1))
    (g0 : (2:Int)^b ≤ N) (g1 : N < (2:Int)^(b+1)) (h : m * (2:Int)^q = N * (2:Int)^p) : a + q = b + p := by
  have hq := two_pow_pos_int q
  have hp := two_pow_pos_int p
  have l1 : (2:Int)^(a+q) ≤ m * (2:Int)^q := by rw [Int.pow_add]; exact Int.mul_le_mul_of_nonneg_right h0 (Int.le_of_lt hq)
  have l2 : m * (2:Int)^q < (2:Int)^(a+1+q) := by rw [Int.pow_add]; exact Int.mul_lt_mul_of_pos_right h1 hq
  have r1 : (2:Int)^(b+p) ≤ N * (2:Int)^p := by rw [Int.pow_add]; exact Int.mul_le_mul_of_nonneg_right g0 (Int.le_of_lt hp)
  have r2 : N * (2:Int)^p < (2:Int)^(b+1+p) := by rw [Int.pow_add]; exact Int.mul_lt_mul_of_pos_right g1 hp
  rcases Nat.lt_trichotomy (a + q) (b + p) with c | c | c
  · have := two_pow_le_int (a+1+q) (b+p) (by omega); omega
  · exact c
  · have := two_pow_le_int (b+1+p) (a+q) (by omega); omega

theorem exists_binade (M : Int) (h : 0 < M) : ∃ b : Nat, (2:Int)^b ≤ M ∧ M < (2:Int)^(b+1) := by
  obtain ⟨n, rfl⟩ := Int.eq_ofNat_of_zero_le (Int.le_of_lt h)
  have hne : n ≠ 0 := by omega
  refine ⟨n.log2, ?_, ?_⟩
  · rw [← nat_pow_cast]; exact Int.ofNat_le.mpr (Nat.log2_self_le hne)
  · rw [← nat_pow_cast]; exact Int.ofNat_lt.mpr Nat.lt_log2_self

/-! #### a representable magnitude is converted exactly -/

/-- **exactness on representable values**: a normalised magnitude `m/2^a · 2^e` that EQUALS (in ℚ) the magnitude denoted by the
    finite non-zero fields `(E0, M0)` of the target format is converted to exactly those fields -/
theorem truncFields_of_representable (bias emask : Int) (mb a : Nat) (e m E0 M0 : Int)
    (h0 : (2:Int)^a ≤ m) (h1 : m < (2:Int)^(a+1)) (hmask : 0 < emask)
    (hE0 : 0 ≤ E0) (hE1 : E0 < emask) (hM0 : 0 ≤ M0) (hM1 : M0 < (2:Int)^mb) (hnz : ¬ (E0 = 0 ∧ M0 = 0))
    (hv : Dy.toRat ⟨m, e - (a : Int)⟩ = Dy.toRat (IEEE.fieldsDy bias mb E0 M0)) :
    truncFields bias emask mb a e m = (E0, M0) := by
  have hpa := two_pow_pos_int a
  unfold IEEE.fieldsDy at hv
  unfold truncFields
  by_cases cE : E0 = 0
  · subst cE
    have hMpos : 0 < M0 := by omega
    simp only [beq_self_eq_true, if_true] at hv
    obtain ⟨b, g0, g1⟩ := exists_binade M0 hMpos
    have hb : b < mb := by
      rcases Nat.lt_or_ge b mb with c | c
      · exact c
      · have := two_pow_le_int mb b c; omega
    -- exponent
    have hc := dy_cross m M0 (e - (a:Int)) (1 - bias - (mb:Int)) ((1 - bias - (mb:Int)) - (e - (a:Int))).toNat
      ((e - (a:Int)) - (1 - bias - (mb:Int))).toNat hv (by omega)
    have hab := binade_cross m M0 a b _ _ h0 h1 g0 g1 hc
    have he : e = (b : Int) + 1 - bias - (mb : Int) := by omega
    have hd : (1 - bias - e).toNat = mb - b := by omega
    -- mantissa
    have hc2 := dy_cross m M0 (e - (a:Int)) (1 - bias - (mb:Int)) (a + (mb - b)) mb hv (by omega)
    have d1 : ¬ (e + bias ≥ emask) := by omega
    have d2 : ¬ (1 ≤ e + bias) := by omega
    simp only [d1, d2, if_false, hd, hc2]
    rw [Int.mul_ediv_cancel _ (Int.ne_of_gt (two_pow_pos_int _))]
  · have cE' : (E0 == 0) = false := by simp [cE]
    simp only [cE', Bool.false_eq_true, if_false] at hv
    have g0 : (2:Int)^mb ≤ (2:Int)^mb + M0 := by omega
    have g1 : (2:Int)^mb + M0 < (2:Int)^(mb+1) := by rw [two_pow_succ_int]; omega
    have hc := dy_cross m ((2:Int)^mb + M0) (e - (a:Int)) (E0 - bias - (mb:Int)) ((E0 - bias - (mb:Int)) - (e - (a:Int))).toNat
      ((e - (a:Int)) - (E0 - bias - (mb:Int))).toNat hv (by omega)
    have hab := binade_cross m ((2:Int)^mb + M0) a mb _ _ h0 h1 g0 g1 hc
    have he : e = E0 - bias := by omega
    have hc2 := dy_cross m ((2:Int)^mb + M0) (e - (a:Int)) (E0 - bias - (mb:Int)) a mb hv (by omega)
    have d1 : ¬ (e + bias ≥ emask) := by omega
    have d2 : 1 ≤ e + bias := by omega
    simp only [d1, d2, if_false, if_true, hc2]
    rw [Int.mul_ediv_cancel _ (Int.ne_of_gt hpa)]
    congr 1 <;> omega

/-! #### the rounding mode: truncation of the magnitude -/

theorem rat_scaled_le (X Y : Int) (K : Rat) (hK : 0 < K) (h : X ≤ Y) : (X : Rat) * K ≤ (Y : Rat) * K := by
  apply Rat.not_lt.mp
  intro hlt
  have := (Rat.mul_lt_mul_right hK).mp hlt
  have := Rat.intCast_lt_intCast.mp this
  omega

theorem rat_scaled_lt (X Y : Int) (K : Rat) (hK : 0 < K) (h : X < Y) : (X : Rat) * K < (Y : Rat) * K :=
  (Rat.mul_lt_mul_right hK).mpr (Rat.intCast_lt_intCast.mpr h)

theorem cast_two_pow (n : Nat) : (((2:Int)^n : Int) : Rat) = (2:Rat)^n := by simp [Rat.intCast_pow]

/-- exponent of the unit in the last place of the binade with exponent field `E` -/
def ulpExp (bias : Int) (mb : Nat) (E : Int) : Int := (if E == 0 then 1 else E) - bias - (mb : Int)

/-- **the rounding mode of `convert`** for a normalised magnitude `x = m/2^a · 2^e` below the overflow threshold
    (`e + bias < emask`): the fields `(E, M)` are in range (a finite encoding), and the magnitude they denote is the multiple of
    the target's unit in the last place with   `denoted ≤ x < denoted + ulp`   — i.e. `x` ROUNDED TOWARD ZERO.
    Below the smallest normal the result is subnormal (`E = 0`), possibly zero (`M = 0`). -/
theorem truncFields_rounds_toward_zero (bias emask : Int) (mb a : Nat) (e m : Int)
    (h0 : (2:Int)^a ≤ m) (h1 : m < (2:Int)^(a+1)) (hmask : 0 < emask) (hfit : e + bias < emask) :
    0 ≤ (truncFields bias emask mb a e m).1 ∧ (truncFields bias emask mb a e m).1 < emask ∧
    0 ≤ (truncFields bias emask mb a e m).2 ∧ (truncFields bias emask mb a e m).2 < (2:Int)^mb ∧
    ((truncFields bias emask mb a e m).1 = 0 ↔ e + bias < 1) ∧
    Dy.toRat (IEEE.fieldsDy bias mb (truncFields bias emask mb a e m).1 (truncFields bias emask mb a e m).2) ≤ val4 1 e m ((2:Int)^a) ∧
    val4 1 e m ((2:Int)^a) <
      Dy.toRat (IEEE.fieldsDy bias mb (truncFields bias emask mb a e m).1 (truncFields bias emask mb a e m).2)
        + (2:Rat)^(ulpExp bias mb (truncFields bias emask mb a e m).1) := by
  have hpa := two_pow_pos_int a
  have hpb := two_pow_pos_int mb
  have hA := two_pow_ne_zero_rat a
  have hB := two_pow_ne_zero_rat mb
  have hApos : (0:Rat) < (2:Rat)^a := Rat.pow_pos (by decide)
  have hBpos : (0:Rat) < (2:Rat)^mb := Rat.pow_pos (by decide)
  have hTpos : (0:Rat) < (2:Rat)^e := Rat.zpow_pos (by decide)
  have hK : (0:Rat) < (2:Rat)^e / ((2:Rat)^a * (2:Rat)^mb) := by
    rw [Rat.div_def]; exact Rat.mul_pos hTpos (Rat.inv_pos.mpr (Rat.mul_pos hApos hBpos))
  -- the magnitude as a scaled integer
  have hv : val4 1 e m ((2:Int)^a) = ((m * (2:Int)^mb : Int) : Rat) * ((2:Rat)^e / ((2:Rat)^a * (2:Rat)^mb)) := by
    unfold val4; rw [cast_mul_pow, cast_two_pow]
    grind
  have d1 : ¬ (e + bias ≥ emask) := by omega
  unfold truncFields
  by_cases c : 1 ≤ e + bias
  · simp only [d1, c, if_false, if_true]
    generalize hS : m * (2:Int)^mb / (2:Int)^a = S
    have hS0 : (2:Int)^mb ≤ S := by
      rw [← hS]; apply (Int.le_ediv_iff_mul_le hpa).mpr
      rw [Int.mul_comm]; exact Int.mul_le_mul_of_nonneg_right h0 (Int.le_of_lt hpb)
    have hS1 : S < (2:Int)^(mb+1) := by
      rw [← hS]; apply (Int.ediv_lt_iff_lt_mul hpa).mpr
      rw [two_pow_succ_int] at h1 ⊢
      have := Int.mul_lt_mul_of_pos_right h1 hpb
      have e1 : 2 * (2:Int)^a * (2:Int)^mb = 2 * (2:Int)^mb * (2:Int)^a := by ac_rfl
      omega
    rw [two_pow_succ_int] at hS1
    have hlo : S * (2:Int)^a ≤ m * (2:Int)^mb := by rw [← hS]; exact Int.ediv_mul_le _ (Int.ne_of_gt hpa)
    have hhi : m * (2:Int)^mb < (S + 1) * (2:Int)^a := by rw [← hS]; exact Int.lt_ediv_add_one_mul_self _ hpa
    have cE : (e + bias == 0) = false := by simp; omega
    refine ⟨by omega, by omega, by omega, by omega, by constructor <;> intro _ <;> omega, ?_, ?_⟩
    all_goals
      unfold IEEE.fieldsDy Dy.toRat
      try unfold ulpExp
      simp only [cE, Bool.false_eq_true, if_false]
      have ex : e + bias - bias - (mb : Int) = e - (mb : Int) := by omega
      rw [ex, hv, show (2:Int)^mb + (S - (2:Int)^mb) = S by omega]
      have hU := zpow_sub_nat e mb
    · have : (S : Rat) * (2:Rat)^(e - (mb:Int)) = ((S * (2:Int)^a : Int) : Rat) * ((2:Rat)^e / ((2:Rat)^a * (2:Rat)^mb)) := by
        rw [cast_mul_pow]; grind
      rw [this]; exact rat_scaled_le _ _ _ hK hlo
    · have : (S : Rat) * (2:Rat)^(e - (mb:Int)) + (2:Rat)^(e - (mb:Int))
          = (((S + 1) * (2:Int)^a : Int) : Rat) * ((2:Rat)^e / ((2:Rat)^a * (2:Rat)^mb)) := by
        rw [cast_mul_pow, Rat.intCast_add]; grind
      rw [this]; exact rat_scaled_lt _ _ _ hK hhi
  · simp only [d1, c, if_false]
    generalize hd : (1 - bias - e).toNat = d
    have hd1 : 1 ≤ d := by omega
    have hde : (1:Int) - bias = e + (d : Int) := by omega
    have hpad := two_pow_pos_int (a + d)
    generalize hM : m * (2:Int)^mb / (2:Int)^(a + d) = M
    have hM0 : 0 ≤ M := by
      rw [← hM]; exact Int.ediv_nonneg (Int.mul_nonneg (by omega) (Int.le_of_lt hpb)) (Int.le_of_lt hpad)
    have hM1 : M < (2:Int)^mb := by
      rw [← hM]; apply (Int.ediv_lt_iff_lt_mul hpad).mpr
      have l1 : (2:Int)^(a+1) ≤ (2:Int)^(a+d) := two_pow_le_int _ _ (by omega)
      have := Int.mul_lt_mul_of_pos_right (show m < (2:Int)^(a+d) by omega) hpb
      rw [Int.mul_comm ((2:Int)^mb)]; exact this
    have hlo : M * (2:Int)^(a+d) ≤ m * (2:Int)^mb := by rw [← hM]; exact Int.ediv_mul_le _ (Int.ne_of_gt hpad)
    have hhi : m * (2:Int)^mb < (M + 1) * (2:Int)^(a+d) := by rw [← hM]; exact Int.lt_ediv_add_one_mul_self _ hpad
    refine ⟨by omega, by omega, hM0, hM1, by simp; omega, ?_, ?_⟩
    all_goals
      unfold IEEE.fieldsDy Dy.toRat
      try unfold ulpExp
      simp only [beq_self_eq_true, if_true]
      have ex : (1:Int) - bias - (mb : Int) = (e + (d : Int)) - (mb : Int) := by omega
      rw [ex, hv]
      have hU := zpow_sub_nat (e + (d : Int)) mb
      have hU2 := zpow_add_nat e d
      have hD := two_pow_ne_zero_rat d
    · have : (M : Rat) * (2:Rat)^((e + (d:Int)) - (mb:Int)) = ((M * (2:Int)^(a+d) : Int) : Rat) * ((2:Rat)^e / ((2:Rat)^a * (2:Rat)^mb)) := by
        rw [Int.pow_add, ← Int.mul_assoc, cast_mul_pow, cast_mul_pow]; grind
      rw [this]; exact rat_scaled_le _ _ _ hK hlo
    · have : (M : Rat) * (2:Rat)^((e + (d:Int)) - (mb:Int)) + (2:Rat)^((e + (d:Int)) - (mb:Int))
          = (((M + 1) * (2:Int)^(a+d) : Int) : Rat) * ((2:Rat)^e / ((2:Rat)^a * (2:Rat)^mb)) := by
        rw [Int.pow_add, ← Int.mul_assoc, cast_mul_pow, cast_mul_pow, Rat.intCast_add]; grind
      rw [this]; exact rat_scaled_lt _ _ _ hK hhi

/-! #### `convert` on normalised FPNums (what every constructor and every arithmetic operation returns) -/

/-- the class invariant of FPNum objects: finite, precision a power of two, mantissa zero or in `[p, 2p)` -/
structure Normalised (x : FPNum) : Prop where
  fin : x.Finite
  pow2 : IsPow2 x.p
  normal : x.m = 0 ∨ (x.p ≤ x.m ∧ x.m < 2 * x.p)

theorem normalised_of_adj {x y : FPNum} (hs : x.s = 1 ∨ x.s = -1) (hp : IsPow2 x.p) (q : AdjPost x y)
    (hi : x.infinity = false) (hn : x.nan = false) : Normalised y :=
  ⟨⟨by rw [q.s]; exact hs, q.m_nonneg, q.p_pos, by rw [q.inf]; exact hi, by rw [q.nan]; exact hn⟩, q.pow2 hp, q.normal⟩

theorem normalised_of_mk4 {s e m p : Int} {y : FPNum} (hs : s = 1 ∨ s = -1) (hp : IsPow2 p) (q : Mk4Post s e m p y) : Normalised y :=
  ⟨finite_of_mk4 hs q, q.pow2 hp, q.normal⟩

theorem dy_toRat_eq_zero (n k : Int) : Dy.toRat ⟨n, k⟩ = 0 ↔ n = 0 := by
  unfold Dy.toRat
  have h2 := two_zpow_ne_zero_rat k
  constructor
  · intro h
    have : (n : Rat) = 0 := by grind
    exact Rat.intCast_inj.mp (by simpa using this)
  · intro h; subst h; simp

/-- the sign bit, zero, and the truncation specification: `convert` (up to the final pack) of any normalised number -/
theorem convertParts_norm (bias emask : Int) (mb a : Nat) (nanM infM : Int) (x : FPNum)
    (hf : x.Finite) (hp : x.p = (2:Int)^a) (hn : x.m = 0 ∨ (x.p ≤ x.m ∧ x.m < 2 * x.p)) (hmask : 0 < emask) :
    convertParts x bias emask ((2:Int)^mb) nanM infM =
      some (if x.s > 0 then 0 else 1,
            if x.m = 0 then 0 else (truncFields bias emask mb a x.e x.m).1,
            if x.m = 0 then 0 else (truncFields bias emask mb a x.e x.m).2) := by
  unfold convertParts
  simp only [hf.notInf, hf.notNan, Bool.or_self, Bool.false_eq_true, if_false]
  by_cases c : x.m = 0
  · simp [c]
  · have c' : (x.m == 0) = false := by simp [c]
    rcases hn with h | h
    · exact absurd h c
    · rw [hp] at h
      simp only [c', Bool.false_eq_true, if_false, c, hp]
      rw [convertFinite_norm bias emask mb a x.e x.m h.1 (by rw [two_pow_succ_int]; exact h.2) hmask]
      simp [Option.map]

theorem val4_one_dy (e m : Int) (a : Nat) : val4 1 e m ((2:Int)^a) = Dy.toRat ⟨m, e - (a : Int)⟩ := by
  rw [val4_as_dy]; simp

/-- **every value representable in the target format is converted to its encoding**: a normalised FPNum with sign `S` whose
    magnitude equals the one denoted by the finite fields `(E0, M0)` yields exactly `(S, E0, M0)` -/
theorem convertParts_representable (bias emask : Int) (mb a : Nat) (nanM infM : Int) (x : FPNum) (S : Nat) (E0 M0 : Int)
    (hf : x.Finite) (hp : x.p = (2:Int)^a) (hn : x.m = 0 ∨ (x.p ≤ x.m ∧ x.m < 2 * x.p)) (hmask : 0 < emask)
    (hS : S < 2) (hs : x.s = if S = 0 then 1 else -1)
    (hE0 : 0 ≤ E0) (hE1 : E0 < emask) (hM0 : 0 ≤ M0) (hM1 : M0 < (2:Int)^mb)
    (hv : val4 1 x.e x.m x.p = Dy.toRat (IEEE.fieldsDy bias mb E0 M0)) :
    convertParts x bias emask ((2:Int)^mb) nanM infM = some ((S : Int), E0, M0) := by
  rw [convertParts_norm bias emask mb a nanM infM x hf hp hn hmask]
  have hsb : (if x.s > 0 then (0:Int) else 1) = (S : Int) := by
    rcases (show S = 0 ∨ S = 1 by omega) with rfl | rfl <;> simp [hs]
  rw [hsb, hp, val4_one_dy] at *
  have hpb := two_pow_pos_int mb
  by_cases c : x.m = 0
  · -- zero: the fields denote 0, so they are (0, 0)
    rw [c] at hv
    have hz : Dy.toRat (IEEE.fieldsDy bias mb E0 M0) = 0 := by rw [← hv]; exact (dy_toRat_eq_zero _ _).mpr rfl
    unfold IEEE.fieldsDy at hz
    by_cases cE : E0 = 0
    · subst cE
      simp only [beq_self_eq_true, if_true] at hz
      have := (dy_toRat_eq_zero _ _).mp hz
      simp [c, this]
    · have cE' : (E0 == 0) = false := by simp [cE]
      simp only [cE', Bool.false_eq_true, if_false] at hz
      have := (dy_toRat_eq_zero _ _).mp hz
      omega
  · rcases hn with h | h
    · exact absurd h c
    · have hnz : ¬ (E0 = 0 ∧ M0 = 0) := by
        intro ⟨h1, h2⟩
        subst h1; subst h2
        unfold IEEE.fieldsDy at hv
        simp only [beq_self_eq_true, if_true] at hv
        rw [(dy_toRat_eq_zero 0 _).mpr rfl] at hv
        exact c ((dy_toRat_eq_zero _ _).mp hv)
      rw [truncFields_of_representable bias emask mb a x.e x.m E0 M0 h.1 (by rw [two_pow_succ_int]; exact h.2) hmask
        hE0 hE1 hM0 hM1 hnz hv]
      simp [c]

/-! #### the target pattern's own fields -/

theorem val4_sign (s e m p : Int) : val4 s e m p = (s : Rat) * val4 1 e m p := by
  unfold val4; simp; grind

/-- `IEEE.decode` of a finite pattern, as sign · the magnitude of its fields -/
theorem decode_toRat_fields (f : IEEE.Format) (b : Nat) (hfin : IEEE.expOf f b ≠ 2 ^ f.ebits - 1) :
    (IEEE.decode f b).toRat = (if IEEE.signOf f b = 0 then 1 else -1 : Rat) *
      Dy.toRat (IEEE.fieldsDy f.bias f.mbits (IEEE.expOf f b : Int) (IEEE.manOf f b : Int)) := by
  have hs2 : IEEE.signOf f b < 2 := by unfold IEEE.signOf; omega
  have hsg : (if (IEEE.signOf f b == 1) = true then (-1:Rat) else 1) = (if IEEE.signOf f b = 0 then 1 else -1 : Rat) := by
    rcases (show IEEE.signOf f b = 0 ∨ IEEE.signOf f b = 1 by omega) with c | c <;> simp [c]
  unfold IEEE.decode IEEE.fieldsDy PyFloat.toRat
  have c1 : (IEEE.expOf f b == 2 ^ f.ebits - 1) = false := by simp [hfin]
  simp only [c1, Bool.false_eq_true, if_false]
  by_cases ce : IEEE.expOf f b = 0
  · simp only [ce, beq_self_eq_true, if_true, Int.natCast_zero]
    by_cases cm : IEEE.manOf f b = 0
    · simp [cm, Dy.toRat]
    · have : (IEEE.manOf f b == 0) = false := by simp [cm]
      simp only [this, Bool.false_eq_true, if_false, hsg]
  · have c2 : (IEEE.expOf f b == 0) = false := by simp [ce]
    have c3 : ((IEEE.expOf f b : Int) == 0) = false := by simp; omega
    simp only [c2, c3, Bool.false_eq_true, if_false, hsg]

/-- **representable ⇒ exact, in terms of a target pattern**: a normalised FPNum whose sign and value are those of the finite
    pattern `b` of the format `f` is converted (up to the final pack) to `b`'s own sign / exponent / mantissa fields -/
theorem convert_repr_core (f : IEEE.Format) (emask nanM infM : Int) (x : FPNum) (b : Nat) (hx : Normalised x)
    (hmask : emask = ((2 ^ f.ebits - 1 : Nat) : Int)) (hpos : 0 < emask) (hfin : IEEE.expOf f b ≠ 2 ^ f.ebits - 1)
    (hs : x.s = if IEEE.signOf f b = 0 then 1 else -1) (hv : x.value = (IEEE.decode f b).toRat) :
    convertParts x f.bias emask ((2:Int)^f.mbits) nanM infM =
      some ((IEEE.signOf f b : Int), (IEEE.expOf f b : Int), (IEEE.manOf f b : Int)) := by
  obtain ⟨a, ha⟩ := hx.pow2
  have hs2 : IEEE.signOf f b < 2 := by unfold IEEE.signOf; omega
  have hM : IEEE.manOf f b < 2 ^ f.mbits := Nat.mod_lt _ (Nat.two_pow_pos _)
  have hE : IEEE.expOf f b < 2 ^ f.ebits := Nat.mod_lt _ (Nat.two_pow_pos _)
  apply convertParts_representable f.bias emask f.mbits a nanM infM x (IEEE.signOf f b) _ _ hx.fin ha hx.normal hpos hs2 hs
    (by omega) (by omega) (by omega) (by rw [← nat_pow_cast]; exact Int.ofNat_lt.mpr hM)
  rw [value_eq, val4_sign, decode_toRat_fields f b hfin, hs] at hv
  rcases (show IEEE.signOf f b = 0 ∨ IEEE.signOf f b = 1 by omega) with c | c <;> simp [c] at hv <;> grind


/-! #### `reducePrecision` -/

theorem truncLoop_eq_stdDown : ∀ (f : Nat) (p m sp : Int), truncLoop f p m sp = stdDownLoop f p m sp := by
  intro f
  induction f with
  | zero => intro p m sp; rfl
  | succ f ih =>
    intro p m sp
    unfold truncLoop stdDownLoop
    rw [ih]

/-- **`reducePrecision(prec)`** on a precision `2^a`: for `prec < a` the mantissa loses its `a − prec` low bits
    (`m ↦ ⌊m / 2^(a−prec)⌋`, precision `2^prec`, `inexact` set) — the value `m/p` is truncated toward zero to `prec` fraction bits:
    `m'·2^(a−prec) ≤ m < (m'+1)·2^(a−prec)`; for `prec ≥ a` nothing changes. -/
theorem reducePrecision_spec (x : FPNum) (a prec : Nat) (hp : x.p = (2:Int)^a) :
    (prec < a → FPNum.reducePrecision x (prec : Int) =
        some { x with m := x.m / (2:Int)^(a - prec), p := (2:Int)^prec, inexact := true } ∧
        (x.m / (2:Int)^(a - prec)) * (2:Int)^(a - prec) ≤ x.m ∧ x.m < (x.m / (2:Int)^(a - prec) + 1) * (2:Int)^(a - prec)) ∧
    (a ≤ prec → FPNum.reducePrecision x (prec : Int) = some x) := by
  unfold FPNum.reducePrecision
  rw [shlT_one, hp]
  constructor
  · intro h
    have hlt := two_pow_lt_int prec a h
    have hq := two_pow_pos_int (a - prec)
    simp only [hlt, if_true, toNat_two_pow, truncLoop_eq_stdDown]
    rw [stdDownLoop_trunc (2^a + 1) x.m a prec (by omega) (by have := nat_lt_two_pow a; omega)]
    exact ⟨by simp [bind, Option.bind, pure], Int.ediv_mul_le _ (Int.ne_of_gt hq), Int.lt_ediv_add_one_mul_self _ hq⟩
  · intro h
    have := two_pow_le_int a prec h
    have : ¬ ((2:Int)^prec < (2:Int)^a) := by omega
    simp [this, pure]

end C12
