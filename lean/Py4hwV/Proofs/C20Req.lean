import Py4hwV.Proto.Hil
/-
  C20, request side: symbolic execution of the GENERATED `Gen.CMDRequest.step` inside the wire/producer model of
  `Proto/Hil.lean`.  Every lemma below unfolds `CMDRequest.step`, so a change of `CMDRequest.clock` in the Python
  source changes the generated definition and breaks the lemma for the affected state.
-/
namespace C20
open Hil Gen

variable (k : ReqCfg)

@[simp] theorem put1_0 : Bits.put 1 0 = 0 := by decide
@[simp] theorem put1_1 : Bits.put 1 1 = 1 := by decide

/-! ### one clock edge, state by state (arbitrary wire values, arbitrary inputs where they are not read) -/

theorem cyc0 (ct nc t : Int) (r x1 x2 x3 a sr b c cp v ch : Nat) :
    reqCycle k ⟨ct, nc, 0, t⟩ ⟨r, x1, x2, x3, a, sr, b, c, cp⟩ v ch
      = (⟨ct, nc, 1, t⟩, ⟨1, 0, 0, 0, a, sr, b, c, cp⟩) := by
  simp [reqCycle, CMDRequest.step, upd]

theorem cyc1v (ct nc t : Int) (r x1 x2 x3 a sr b c cp ch : Nat) :
    reqCycle k ⟨ct, nc, 1, t⟩ ⟨r, x1, x2, x3, a, sr, b, c, cp⟩ 1 ch
      = (⟨ct, ch, 2, t⟩, ⟨0, x1, x2, x3, a, sr, b, c, cp⟩) := by
  simp [reqCycle, CMDRequest.step, upd, Py.truthy]

theorem cyc1n (ct nc t : Int) (r x1 x2 x3 a sr b c cp ch : Nat) :
    reqCycle k ⟨ct, nc, 1, t⟩ ⟨r, x1, x2, x3, a, sr, b, c, cp⟩ 0 ch
      = (⟨ct, nc, 1, t⟩, ⟨1, x1, x2, x3, a, sr, b, c, cp⟩) := by
  simp [reqCycle, CMDRequest.step, upd, Py.truthy]

/-- 'I' (73), 'O' (79), 'K' (75): clear the accumulator -/
theorem cyc2_I (ct t : Int) (r x1 x2 x3 a sr b c cp v ch : Nat) :
    reqCycle k ⟨ct, 73, 2, t⟩ ⟨r, x1, x2, x3, a, sr, b, c, cp⟩ v ch
      = (⟨1, 73, 0, 0⟩, ⟨r, x1, x2, x3, a, sr, b, c, cp⟩) := by
  simp [reqCycle, CMDRequest.step, upd]

theorem cyc2_O (ct t : Int) (r x1 x2 x3 a sr b c cp v ch : Nat) :
    reqCycle k ⟨ct, 79, 2, t⟩ ⟨r, x1, x2, x3, a, sr, b, c, cp⟩ v ch
      = (⟨3, 79, 0, 0⟩, ⟨r, x1, x2, x3, a, sr, b, c, cp⟩) := by
  simp [reqCycle, CMDRequest.step, upd]

theorem cyc2_K (ct t : Int) (r x1 x2 x3 a sr b c cp v ch : Nat) :
    reqCycle k ⟨ct, 75, 2, t⟩ ⟨r, x1, x2, x3, a, sr, b, c, cp⟩ v ch
      = (⟨4, 75, 0, 0⟩, ⟨r, x1, x2, x3, a, sr, b, c, cp⟩) := by
  simp [reqCycle, CMDRequest.step, upd]

theorem cyc2_eq (ct t : Int) (r x1 x2 x3 a sr b c cp v ch : Nat) :
    reqCycle k ⟨ct, 61, 2, t⟩ ⟨r, x1, x2, x3, a, sr, b, c, cp⟩ v ch
      = (⟨2, 61, 3, t⟩, ⟨r, x1, x2, x3, a, sr, b, c, cp⟩) := by
  simp [reqCycle, CMDRequest.step, upd]

theorem cyc2_bang (ct t : Int) (r x1 x2 x3 a sr b c cp v ch : Nat) :
    reqCycle k ⟨ct, 33, 2, t⟩ ⟨r, x1, x2, x3, a, sr, b, c, cp⟩ v ch
      = (⟨ct, 33, 5, t⟩, ⟨r, x1, x2, x3, a, sr, b, c, cp⟩) := by
  simp [reqCycle, CMDRequest.step, upd]

theorem cyc2_quest (ct t : Int) (r x1 x2 x3 a sr b c cp v ch : Nat) :
    reqCycle k ⟨ct, 63, 2, t⟩ ⟨r, x1, x2, x3, a, sr, b, c, cp⟩ v ch
      = (⟨ct, 63, 6, t⟩, ⟨r, x1, x2, x3, a, sr, b, c, cp⟩) := by
  simp [reqCycle, CMDRequest.step, upd]

theorem cyc2_semi (ct t : Int) (r x1 x2 x3 a sr b c cp v ch : Nat) :
    reqCycle k ⟨ct, 59, 2, t⟩ ⟨r, x1, x2, x3, a, sr, b, c, cp⟩ v ch
      = (⟨ct, 59, 8, t⟩, ⟨r, x1, x2, x3, a, sr, b, c, cp⟩) := by
  simp [reqCycle, CMDRequest.step, upd]

/-- `(t << 4) | d = 16 t + d` for a nibble `d` and a non-negative accumulator -/
theorem lor_shl4 (t d : Nat) (h : d < 16) :
    Py.lor (Py.shlT (t:Int) 4) (d:Int) = ((16 * t + d : Nat) : Int) := by
  have e : Py.shlT (t:Int) 4 = ((t <<< 4 : Nat) : Int) := by
    simp [Py.shlT, Bits.shl_ofNat]
  rw [e, Bits.lor_ofNat]
  congr 1
  rw [← Nat.shiftLeft_add_eq_or_of_lt (by simpa using h)]
  simp [Nat.shiftLeft_eq]; omega

/-- a hex digit character: accumulate (the generated code's own `(temp << 4) | (c - '0')` resp. `c + 10 - 'A'`) -/
theorem cyc2_digit (ct : Int) (t d : Nat) (hd : d < 16) (r x1 x2 x3 a sr b c cp v ch : Nat) :
    reqCycle k ⟨ct, (hexChar d : Nat), 2, t⟩ ⟨r, x1, x2, x3, a, sr, b, c, cp⟩ v ch
      = (⟨ct, (hexChar d : Nat), 0, ((16 * t + d : Nat) : Int)⟩, ⟨r, x1, x2, x3, a, sr, b, c, cp⟩) := by
  have hcases : d = 0 ∨ d = 1 ∨ d = 2 ∨ d = 3 ∨ d = 4 ∨ d = 5 ∨ d = 6 ∨ d = 7 ∨ d = 8 ∨ d = 9 ∨ d = 10 ∨
      d = 11 ∨ d = 12 ∨ d = 13 ∨ d = 14 ∨ d = 15 := by omega
  rcases hcases with rfl | rfl | rfl | rfl | rfl | rfl | rfl | rfl | rfl | rfl | rfl | rfl | rfl | rfl | rfl | rfl <;>
    (rw [← lor_shl4 t _ (by decide)]; simp [reqCycle, CMDRequest.step, upd, hexChar])

/-- any character outside the command alphabet: go and clear the accumulator -/
theorem cyc2_sep (ct t : Int) (s : Nat) (hs : isCmdChar s = false) (r x1 x2 x3 a sr b c cp v ch : Nat) :
    reqCycle k ⟨ct, s, 2, t⟩ ⟨r, x1, x2, x3, a, sr, b, c, cp⟩ v ch
      = (⟨ct, s, 4, t⟩, ⟨r, x1, x2, x3, a, sr, b, c, cp⟩) := by
  simp [isCmdChar] at hs
  obtain ⟨⟨⟨⟨⟨⟨⟨⟨h1, h2⟩, h3⟩, h4⟩, h5⟩, h6⟩, h7⟩, h8⟩, h9⟩ := hs
  have e1 : ((s:Int) == 73) = false := by simp; omega
  have e2 : ((s:Int) == 61) = false := by simp; omega
  have e3 : ((s:Int) == 79) = false := by simp; omega
  have e4 : ((s:Int) == 75) = false := by simp; omega
  have e5 : ((s:Int) == 33) = false := by simp; omega
  have e6 : ((s:Int) == 63) = false := by simp; omega
  have e7 : ((s:Int) == 59) = false := by simp; omega
  have e8 : (decide ((s:Int) ≥ 48) && decide ((s:Int) ≤ 57)) = false := by simp; omega
  have e9 : (decide ((s:Int) ≥ 65) && decide ((s:Int) ≤ 70)) = false := by simp; omega
  simp only [reqCycle, CMDRequest.step, upd, Id.run, pure]
  simp [e1, e2, e3, e4, e5, e6, e7, e8, e9]

theorem cyc3 (ct nc : Int) (t : Nat) (r x1 x2 x3 a sr b c cp v ch : Nat) :
    reqCycle k ⟨ct, nc, 3, t⟩ ⟨r, x1, x2, x3, a, sr, b, c, cp⟩ v ch
      = (⟨ct, nc, 4, t⟩, ⟨r, 1, x2, x3, t % 2 ^ k.wIn, sr, b, c, cp⟩) := by
  simp [reqCycle, CMDRequest.step, upd, Bits.put_ofNat]

theorem cyc4 (ct nc t : Int) (r x1 x2 x3 a sr b c cp v ch : Nat) :
    reqCycle k ⟨ct, nc, 4, t⟩ ⟨r, x1, x2, x3, a, sr, b, c, cp⟩ v ch
      = (⟨ct, nc, 0, 0⟩, ⟨r, 0, 0, 0, a, 0, b, c, cp⟩) := by
  simp [reqCycle, CMDRequest.step, upd]

theorem cyc5 (ct nc : Int) (t : Nat) (r x1 x2 x3 a sr b c cp v ch : Nat) :
    reqCycle k ⟨ct, nc, 5, t⟩ ⟨r, x1, x2, x3, a, sr, b, c, cp⟩ v ch
      = (⟨ct, nc, 4, t⟩, ⟨r, x1, 1, x3, a, sr, t % 2 ^ k.wV, c, cp⟩) := by
  simp [reqCycle, CMDRequest.step, upd, Bits.put_ofNat]

theorem cyc6 (ct nc : Int) (t : Nat) (r x1 x2 x3 a sr b c cp v ch : Nat) :
    reqCycle k ⟨ct, nc, 6, t⟩ ⟨r, x1, x2, x3, a, sr, b, c, cp⟩ v ch
      = (⟨ct, nc, 10, t⟩, ⟨r, x1, x2, 1, a, sr, b, t % 2 ^ k.wOut, cp⟩) := by
  simp [reqCycle, CMDRequest.step, upd, Bits.put_ofNat]

theorem cyc10 (ct nc t : Int) (r x1 x2 x3 a sr b c cp v ch : Nat) :
    reqCycle k ⟨ct, nc, 10, t⟩ ⟨r, x1, x2, x3, a, sr, b, c, cp⟩ v ch
      = (⟨ct, nc, 7, t⟩, ⟨r, x1, x2, 0, a, sr, b, c, cp⟩) := by
  simp [reqCycle, CMDRequest.step, upd]

theorem cyc7 (ct nc t : Int) (r x1 x2 x3 a sr b c cp v ch : Nat) :
    reqCycle k ⟨ct, nc, 7, t⟩ ⟨r, x1, x2, x3, a, sr, b, c, cp⟩ v ch
      = (⟨ct, nc, 4, t⟩, ⟨r, x1, x2, x3, a, 1, b, c, cp⟩) := by
  simp [reqCycle, CMDRequest.step, upd]

theorem cyc8z (ct nc : Int) (r x1 x2 x3 a sr b c cp v ch : Nat) :
    reqCycle k ⟨ct, nc, 8, 0⟩ ⟨r, x1, x2, x3, a, sr, b, c, cp⟩ v ch
      = (⟨ct, nc, 4, 0⟩, ⟨r, x1, x2, x3, a, sr, b, c, 0⟩) := by
  simp [reqCycle, CMDRequest.step, upd]

theorem cyc8s (ct nc : Int) (t : Nat) (r x1 x2 x3 a sr b c cp v ch : Nat) :
    reqCycle k ⟨ct, nc, 8, ((t + 1 : Nat) : Int)⟩ ⟨r, x1, x2, x3, a, sr, b, c, cp⟩ v ch
      = (⟨ct, nc, 9, t⟩, ⟨r, x1, x2, x3, a, sr, b, c, 1⟩) := by
  have h : ¬ ((t:Int) + 1 = 0) := by omega
  simp [reqCycle, CMDRequest.step, upd, h]

theorem cyc9 (ct nc t : Int) (r x1 x2 x3 a sr b c cp v ch : Nat) :
    reqCycle k ⟨ct, nc, 9, t⟩ ⟨r, x1, x2, x3, a, sr, b, c, cp⟩ v ch
      = (⟨ct, nc, 8, t⟩, ⟨r, x1, x2, x3, a, sr, b, c, 0⟩) := by
  simp [reqCycle, CMDRequest.step, upd]

/-! ### runs of the closed loop -/

theorem after_add (a b : Nat) (l : ReqLoop) : after k (a + b) l = after k b (after k a l) := by
  induction a generalizing l with
  | zero => simp [after]
  | succ a ih => rw [Nat.succ_add]; simp [after, ih]

theorem trace_add (a b : Nat) (l : ReqLoop) : trace k (a + b) l = trace k a l ++ trace k b (after k a l) := by
  induction a generalizing l with
  | zero => simp [after, trace]
  | succ a ih => rw [Nat.succ_add]; simp [after, trace, ih]

theorem events_append (x y : List ReqW) : events (x ++ y) = events x ++ events y := by
  simp [events]

/-- `l` reaches `l'` in some number of cycles during which exactly the events `evs` are observed -/
def Steps (l : ReqLoop) (evs : List Ev) (l' : ReqLoop) : Prop :=
  ∃ T, after k T l = l' ∧ events (trace k T l) = evs

theorem Steps.refl (l : ReqLoop) : Steps k l [] l := ⟨0, rfl, rfl⟩

theorem Steps.trans {l l' l'' : ReqLoop} {e1 e2 : List Ev} (h1 : Steps k l e1 l') (h2 : Steps k l' e2 l'') :
    Steps k l (e1 ++ e2) l'' := by
  obtain ⟨T1, a1, t1⟩ := h1
  obtain ⟨T2, a2, t2⟩ := h2
  refine ⟨T1 + T2, ?_, ?_⟩
  · rw [after_add, a1, a2]
  · rw [trace_add, events_append, t1, a1, t2]

/-- the producer during a cycle in which `ready` is low: idle junk is consumed, a presented character is held -/
abbrev tick (p : Prod) : Prod := Prod.next 0 p

theorem chars_tick (p : Prod) : Prod.chars (tick p) = Prod.chars p := by
  unfold tick
  match p with
  | [] => rfl
  | (_ :: js, ch) :: r => rfl
  | ([], ch) :: r => rfl

/-- one edge in a state that does not look at the inputs, while `ready` is low -/
theorem step_busy (st st' : CMDRequest.St) (w w' : ReqW) (hr : w.ready = 0)
    (hc : ∀ v c, reqCycle k st w v c = (st', w')) (p : Prod) :
    Steps k ⟨st, w, p⟩ (evOf w') ⟨st', w', tick p⟩ := by
  refine ⟨1, ?_, ?_⟩
  · simp [after, reqLoopStep, hc, hr, tick]
  · simp [trace, events, reqLoopStep, hc]

/-- quiet wires: `ready` and all strobes low, buses `a b c` -/
def busW (a b c : Nat) : ReqW := ⟨0, 0, 0, 0, a, 0, b, c, 0⟩
/-- the same with `ready` high -/
def rdyW (a b c : Nat) : ReqW := ⟨1, 0, 0, 0, a, 0, b, c, 0⟩

/-- accepting state: wait through the producer's idle cycles (whatever is on `c`), then take the character -/
theorem wait_accept (ct nc t : Int) (a b c : Nat) (js : List Nat) (ch : Nat) (r : Prod) :
    Steps k ⟨⟨ct, nc, 1, t⟩, rdyW a b c, (js, ch) :: r⟩ [] ⟨⟨ct, ch, 2, t⟩, busW a b c, r⟩ := by
  induction js with
  | nil =>
    refine ⟨1, ?_, ?_⟩
    · simp [after, reqLoopStep, Prod.out, Prod.next, rdyW, busW, cyc1v]
    · simp [trace, events, reqLoopStep, Prod.out, rdyW, cyc1v, evOf]
  | cons j js ih =>
    have h1 : Steps k ⟨⟨ct, nc, 1, t⟩, rdyW a b c, (j :: js, ch) :: r⟩ [] ⟨⟨ct, nc, 1, t⟩, rdyW a b c, (js, ch) :: r⟩ := by
      refine ⟨1, ?_, ?_⟩
      · simp [after, reqLoopStep, Prod.out, Prod.next, rdyW, cyc1n]
      · simp [trace, events, reqLoopStep, Prod.out, rdyW, cyc1n, evOf]
    simpa using h1.trans k ih

theorem chars_cons {p : Prod} {ch : Nat} {cs : List Nat} (h : Prod.chars p = ch :: cs) :
    ∃ js r, p = (js, ch) :: r ∧ Prod.chars r = cs := by
  match p, h with
  | (js, c) :: r, h =>
    simp [Prod.chars] at h
    exact ⟨js, r, by rw [h.1], by simpa [Prod.chars] using h.2⟩

/-! ### predicates on (state, wires) and the "go" relation that abstracts the producer's timing -/

/-- FSM state `n`, accumulator `t`, wires `w0` (cur_type / new_c are don't-care) -/
def At (n : Int) (t : Nat) (w0 : ReqW) (st : CMDRequest.St) (w : ReqW) : Prop :=
  st.state = n ∧ st.temp = (t : Int) ∧ w = w0

/-- state 2 (character just taken) holding character `ch` -/
def Got (ch t : Nat) (w0 : ReqW) (st : CMDRequest.St) (w : ReqW) : Prop :=
  At 2 t w0 st w ∧ st.new_c = (ch : Int)

theorem At.elim {n : Int} {t : Nat} {w0 w : ReqW} {st : CMDRequest.St} (h : At n t w0 st w) :
    ∃ ct nc, st = ⟨ct, nc, n, t⟩ ∧ w = w0 := by
  obtain ⟨ct, nc, s, tt⟩ := st
  obtain ⟨h1, h2, h3⟩ := h
  simp at h1 h2
  exact ⟨ct, nc, by rw [h1, h2], h3⟩

theorem Got.elim {ch t : Nat} {w0 w : ReqW} {st : CMDRequest.St} (h : Got ch t w0 st w) :
    ∃ ct, st = ⟨ct, ch, 2, t⟩ ∧ w = w0 := by
  obtain ⟨ct, nc, s, tt⟩ := st
  obtain ⟨⟨h1, h2, h3⟩, h4⟩ := h
  simp at h1 h2 h4
  exact ⟨ct, by rw [h1, h2, h4], h3⟩

/-- from any configuration satisfying `P`, for ANY producer whose remaining characters are `cs` (any idle gaps, any
    junk on `c` while idle), the loop reaches a configuration satisfying `Q` with remaining characters `cs'`, and the
    strobes observed on the way are exactly `evs` -/
def GoP (P : CMDRequest.St → ReqW → Prop) (cs : List Nat) (evs : List Ev)
    (Q : CMDRequest.St → ReqW → Prop) (cs' : List Nat) : Prop :=
  ∀ st w p, P st w → Prod.chars p = cs →
    ∃ st' w' p', Q st' w' ∧ Prod.chars p' = cs' ∧ Steps k ⟨st, w, p⟩ evs ⟨st', w', p'⟩

theorem GoP.trans {P Q R : CMDRequest.St → ReqW → Prop} {cs cs' cs'' : List Nat} {e1 e2 : List Ev}
    (h1 : GoP k P cs e1 Q cs') (h2 : GoP k Q cs' e2 R cs'') : GoP k P cs (e1 ++ e2) R cs'' := by
  intro st w p hp hc
  obtain ⟨st1, w1, p1, q1, c1, s1⟩ := h1 st w p hp hc
  obtain ⟨st2, w2, p2, q2, c2, s2⟩ := h2 st1 w1 p1 q1 c1
  exact ⟨st2, w2, p2, q2, c2, s1.trans k s2⟩

theorem GoP.refl (P : CMDRequest.St → ReqW → Prop) (cs : List Nat) : GoP k P cs [] P cs :=
  fun st w p hp hc => ⟨st, w, p, hp, hc, Steps.refl k _⟩

theorem GoP.mono {P Q Q' : CMDRequest.St → ReqW → Prop} {cs cs' : List Nat} {e : List Ev}
    (h : GoP k P cs e Q cs') (hq : ∀ st w, Q st w → Q' st w) : GoP k P cs e Q' cs' := by
  intro st w p hp hc
  obtain ⟨st1, w1, p1, q1, c1, s1⟩ := h st w p hp hc
  exact ⟨st1, w1, p1, hq _ _ q1, c1, s1⟩

/-- state 0 → 1 → (wait) → 2: exactly one character is taken from the producer, nothing is strobed -/
theorem go_accept (t a b c ch : Nat) (cs : List Nat) :
    GoP k (At 0 t (busW a b c)) (ch :: cs) [] (Got ch t (busW a b c)) cs := by
  intro st w p h hp
  obtain ⟨ct, nc, rfl, rfl⟩ := h.elim
  have s1 := step_busy k ⟨ct, nc, 0, t⟩ _ (busW a b c) _ rfl (fun v c' => cyc0 k ct nc t 0 0 0 0 a 0 b c 0 v c') p
  have hc : Prod.chars (tick p) = ch :: cs := by rw [chars_tick, hp]
  obtain ⟨js, r, hr, hcs⟩ := chars_cons hc
  rw [hr] at s1
  have s2 := wait_accept k ct nc t a b c js ch r
  refine ⟨⟨ct, ch, 2, t⟩, busW a b c, r, ⟨⟨rfl, rfl, rfl⟩, rfl⟩, hcs, ?_⟩
  have := s1.trans k s2
  simpa [evOf, rdyW] using this

/-- a busy state: one edge, described by a `cyc` lemma -/
theorem go_step {n n' : Int} {t t' : Nat} {w0 w1 : ReqW} (cs : List Nat) (hr : w0.ready = 0)
    (hc : ∀ ct nc v c, ∃ ct' nc', reqCycle k ⟨ct, nc, n, t⟩ w0 v c = (⟨ct', nc', n', t'⟩, w1) ∧
        ∀ v' c', reqCycle k ⟨ct, nc, n, t⟩ w0 v' c' = reqCycle k ⟨ct, nc, n, t⟩ w0 v c) :
    GoP k (At n t w0) cs (evOf w1) (At n' t' w1) cs := by
  intro st w p h hp
  obtain ⟨ct, nc, rfl, rfl⟩ := h.elim
  obtain ⟨ct', nc', e, hall⟩ := hc ct nc 0 0
  refine ⟨⟨ct', nc', n', t'⟩, w1, tick p, ⟨rfl, rfl, rfl⟩, by rw [chars_tick, hp], ?_⟩
  exact step_busy k _ _ _ _ hr (fun v c => by rw [hall v c, e]) p


/-! ### what each character does after it has been taken (state 2 onwards), back to state 0 -/

/-- hex digit: accumulate, nothing strobed -/
theorem go_digit (t a b c d : Nat) (hd : d < 16) (cs : List Nat) :
    GoP k (Got (hexChar d) t (busW a b c)) cs [] (At 0 (16 * t + d) (busW a b c)) cs := by
  intro st w p h hp
  obtain ⟨ct, rfl, rfl⟩ := h.elim
  have s1 := step_busy k ⟨ct, (hexChar d : Nat), 2, t⟩ _ (busW a b c) _ rfl
    (fun v c' => cyc2_digit k ct t d hd 0 0 0 0 a 0 b c 0 v c') p
  exact ⟨_, _, tick p, ⟨rfl, rfl, rfl⟩, by rw [chars_tick, hp], by simpa [evOf, busW] using s1⟩

/-- a digit string of any length: `temp` becomes the value of the string read most-significant-first -/
theorem go_hex (a b c : Nat) (ds : List Nat) (hds : ∀ d ∈ ds, d < 16) (t : Nat) (cs : List Nat) :
    GoP k (At 0 t (busW a b c)) (ds.map hexChar ++ cs) [] (At 0 (hexFold t ds) (busW a b c)) cs := by
  induction ds generalizing t with
  | nil => exact GoP.refl k _ _
  | cons d ds ih =>
    have hd : d < 16 := hds d (by simp)
    have h1 := go_accept k t a b c (hexChar d) (ds.map hexChar ++ cs)
    have h2 := go_digit k t a b c d hd (ds.map hexChar ++ cs)
    have h3 := ih (fun x hx => hds x (by simp [hx])) (16 * t + d)
    have := (h1.trans k h2).trans k h3
    simpa [hexFold] using this

/-- 'I' / 'O' / 'K': clear the accumulator, nothing strobed -/
theorem go_letter (ch : Nat) (hch : ch = 73 ∨ ch = 79 ∨ ch = 75) (t a b c : Nat) (cs : List Nat) :
    GoP k (Got ch t (busW a b c)) cs [] (At 0 0 (busW a b c)) cs := by
  intro st w p h hp
  obtain ⟨ct, rfl, rfl⟩ := h.elim
  rcases hch with rfl | rfl | rfl
  · have s1 := step_busy k ⟨ct, (73 : Nat), 2, t⟩ _ (busW a b c) _ rfl
      (fun v c' => cyc2_I k ct t 0 0 0 0 a 0 b c 0 v c') p
    exact ⟨_, _, tick p, ⟨rfl, rfl, rfl⟩, by rw [chars_tick, hp], by simpa [evOf, busW] using s1⟩
  · have s1 := step_busy k ⟨ct, (79 : Nat), 2, t⟩ _ (busW a b c) _ rfl
      (fun v c' => cyc2_O k ct t 0 0 0 0 a 0 b c 0 v c') p
    exact ⟨_, _, tick p, ⟨rfl, rfl, rfl⟩, by rw [chars_tick, hp], by simpa [evOf, busW] using s1⟩
  · have s1 := step_busy k ⟨ct, (75 : Nat), 2, t⟩ _ (busW a b c) _ rfl
      (fun v c' => cyc2_K k ct t 0 0 0 0 a 0 b c 0 v c') p
    exact ⟨_, _, tick p, ⟨rfl, rfl, rfl⟩, by rw [chars_tick, hp], by simpa [evOf, busW] using s1⟩

/-- '=': `set_index_in` high for exactly one cycle with `temp` (masked by the bus) on `index_in` -/
theorem go_eq (t a b c : Nat) (cs : List Nat) :
    GoP k (Got 61 t (busW a b c)) cs [Ev.selIn (t % 2 ^ k.wIn)] (At 0 0 (busW (t % 2 ^ k.wIn) b c)) cs := by
  intro st w p h hp
  obtain ⟨ct, rfl, rfl⟩ := h.elim
  have s1 := step_busy k ⟨ct, (61 : Nat), 2, t⟩ _ (busW a b c) _ rfl
    (fun v c' => cyc2_eq k ct t 0 0 0 0 a 0 b c 0 v c') p
  have s2 := step_busy k ⟨2, 61, 3, t⟩ _ ⟨0, 0, 0, 0, a, 0, b, c, 0⟩ _ rfl
    (fun v c' => cyc3 k 2 61 t 0 0 0 0 a 0 b c 0 v c') (tick p)
  have s3 := step_busy k ⟨2, 61, 4, t⟩ _ ⟨0, 1, 0, 0, t % 2 ^ k.wIn, 0, b, c, 0⟩ _ rfl
    (fun v c' => cyc4 k 2 61 t 0 1 0 0 (t % 2 ^ k.wIn) 0 b c 0 v c') (tick (tick p))
  refine ⟨⟨2, 61, 0, 0⟩, busW (t % 2 ^ k.wIn) b c, tick (tick (tick p)), ⟨rfl, rfl, rfl⟩,
    by rw [chars_tick, chars_tick, chars_tick, hp], ?_⟩
  have := (s1.trans k s2).trans k s3
  simpa [evOf, busW] using this

/-- '!': `set_v_in` high for exactly one cycle with `temp` on `v_in` -/
theorem go_bang (t a b c : Nat) (cs : List Nat) :
    GoP k (Got 33 t (busW a b c)) cs [Ev.store (t % 2 ^ k.wV)] (At 0 0 (busW a (t % 2 ^ k.wV) c)) cs := by
  intro st w p h hp
  obtain ⟨ct, rfl, rfl⟩ := h.elim
  have s1 := step_busy k ⟨ct, (33 : Nat), 2, t⟩ _ (busW a b c) _ rfl
    (fun v c' => cyc2_bang k ct t 0 0 0 0 a 0 b c 0 v c') p
  have s2 := step_busy k ⟨ct, 33, 5, t⟩ _ ⟨0, 0, 0, 0, a, 0, b, c, 0⟩ _ rfl
    (fun v c' => cyc5 k ct 33 t 0 0 0 0 a 0 b c 0 v c') (tick p)
  have s3 := step_busy k ⟨ct, 33, 4, t⟩ _ ⟨0, 0, 1, 0, a, 0, t % 2 ^ k.wV, c, 0⟩ _ rfl
    (fun v c' => cyc4 k ct 33 t 0 0 1 0 a 0 (t % 2 ^ k.wV) c 0 v c') (tick (tick p))
  refine ⟨⟨ct, 33, 0, 0⟩, busW a (t % 2 ^ k.wV) c, tick (tick (tick p)), ⟨rfl, rfl, rfl⟩,
    by rw [chars_tick, chars_tick, chars_tick, hp], ?_⟩
  have := (s1.trans k s2).trans k s3
  simpa [evOf, busW] using this

/-- '?': `set_index_out` high for one cycle with `temp` on `index_out`, one cycle pause, `start_resp` high for one cycle -/
theorem go_quest (t a b c : Nat) (cs : List Nat) :
    GoP k (Got 63 t (busW a b c)) cs [Ev.selOut (t % 2 ^ k.wOut), Ev.startResp]
      (At 0 0 (busW a b (t % 2 ^ k.wOut))) cs := by
  intro st w p h hp
  obtain ⟨ct, rfl, rfl⟩ := h.elim
  have s1 := step_busy k ⟨ct, (63 : Nat), 2, t⟩ _ (busW a b c) _ rfl
    (fun v c' => cyc2_quest k ct t 0 0 0 0 a 0 b c 0 v c') p
  have s2 := step_busy k ⟨ct, 63, 6, t⟩ _ ⟨0, 0, 0, 0, a, 0, b, c, 0⟩ _ rfl
    (fun v c' => cyc6 k ct 63 t 0 0 0 0 a 0 b c 0 v c') (tick p)
  have s3 := step_busy k ⟨ct, 63, 10, t⟩ _ ⟨0, 0, 0, 1, a, 0, b, t % 2 ^ k.wOut, 0⟩ _ rfl
    (fun v c' => cyc10 k ct 63 t 0 0 0 1 a 0 b (t % 2 ^ k.wOut) 0 v c') (tick (tick p))
  have s4 := step_busy k ⟨ct, 63, 7, t⟩ _ ⟨0, 0, 0, 0, a, 0, b, t % 2 ^ k.wOut, 0⟩ _ rfl
    (fun v c' => cyc7 k ct 63 t 0 0 0 0 a 0 b (t % 2 ^ k.wOut) 0 v c') (tick (tick (tick p)))
  have s5 := step_busy k ⟨ct, 63, 4, t⟩ _ ⟨0, 0, 0, 0, a, 1, b, t % 2 ^ k.wOut, 0⟩ _ rfl
    (fun v c' => cyc4 k ct 63 t 0 0 0 0 a 1 b (t % 2 ^ k.wOut) 0 v c') (tick (tick (tick (tick p))))
  refine ⟨⟨ct, 63, 0, 0⟩, busW a b (t % 2 ^ k.wOut), tick (tick (tick (tick (tick p)))), ⟨rfl, rfl, rfl⟩,
    by rw [chars_tick, chars_tick, chars_tick, chars_tick, chars_tick, hp], ?_⟩
  have := (((s1.trans k s2).trans k s3).trans k s4).trans k s5
  simpa [evOf, busW] using this

/-- the pulse generator: from state 8 with `temp = n`, exactly `n` cycles with `clk_pulse` high (each followed by a
    low cycle), then back to state 0 with the accumulator cleared — induction on `temp` through states 8/9 -/
theorem go_clk (a b c : Nat) (cs : List Nat) (n : Nat) :
    GoP k (At 8 n (busW a b c)) cs (List.replicate n Ev.clk) (At 0 0 (busW a b c)) cs := by
  induction n with
  | zero =>
    intro st w p h hp
    obtain ⟨ct, nc, rfl, rfl⟩ := h.elim
    have s1 := step_busy k ⟨ct, nc, 8, (0 : Nat)⟩ _ (busW a b c) _ rfl
      (fun v c' => cyc8z k ct nc 0 0 0 0 a 0 b c 0 v c') p
    have s2 := step_busy k ⟨ct, nc, 4, 0⟩ _ ⟨0, 0, 0, 0, a, 0, b, c, 0⟩ _ rfl
      (fun v c' => cyc4 k ct nc 0 0 0 0 0 a 0 b c 0 v c') (tick p)
    refine ⟨⟨ct, nc, 0, 0⟩, busW a b c, tick (tick p), ⟨rfl, rfl, rfl⟩, by rw [chars_tick, chars_tick, hp], ?_⟩
    have := s1.trans k s2
    simpa [evOf, busW] using this
  | succ n ih =>
    have h1 : GoP k (At 8 (n + 1) (busW a b c)) cs [Ev.clk] (At 8 n (busW a b c)) cs := by
      intro st w p h hp
      obtain ⟨ct, nc, rfl, rfl⟩ := h.elim
      have s1 := step_busy k ⟨ct, nc, 8, ((n + 1 : Nat) : Int)⟩ _ (busW a b c) _ rfl
        (fun v c' => cyc8s k ct nc n 0 0 0 0 a 0 b c 0 v c') p
      have s2 := step_busy k ⟨ct, nc, 9, n⟩ _ ⟨0, 0, 0, 0, a, 0, b, c, 1⟩ _ rfl
        (fun v c' => cyc9 k ct nc n 0 0 0 0 a 0 b c 1 v c') (tick p)
      refine ⟨⟨ct, nc, 8, n⟩, busW a b c, tick (tick p), ⟨rfl, rfl, rfl⟩, by rw [chars_tick, chars_tick, hp], ?_⟩
      have := s1.trans k s2
      simpa [evOf, busW] using this
    have := h1.trans k ih
    simpa [List.replicate_succ] using this

/-- ';': go to the pulse generator -/
theorem go_semi (t a b c : Nat) (cs : List Nat) :
    GoP k (Got 59 t (busW a b c)) cs (List.replicate t Ev.clk) (At 0 0 (busW a b c)) cs := by
  have h1 : GoP k (Got 59 t (busW a b c)) cs [] (At 8 t (busW a b c)) cs := by
    intro st w p h hp
    obtain ⟨ct, rfl, rfl⟩ := h.elim
    have s1 := step_busy k ⟨ct, (59 : Nat), 2, t⟩ _ (busW a b c) _ rfl
      (fun v c' => cyc2_semi k ct t 0 0 0 0 a 0 b c 0 v c') p
    exact ⟨_, _, tick p, ⟨rfl, rfl, rfl⟩, by rw [chars_tick, hp], by simpa [evOf, busW] using s1⟩
  simpa using h1.trans k (go_clk k a b c cs t)

/-- a character outside the command alphabet: the accumulator is cleared, nothing is strobed -/
theorem go_sep (s : Nat) (hs : isCmdChar s = false) (t a b c : Nat) (cs : List Nat) :
    GoP k (Got s t (busW a b c)) cs [] (At 0 0 (busW a b c)) cs := by
  intro st w p h hp
  obtain ⟨ct, rfl, rfl⟩ := h.elim
  have s1 := step_busy k ⟨ct, (s : Nat), 2, t⟩ _ (busW a b c) _ rfl
    (fun v c' => cyc2_sep k ct t s hs 0 0 0 0 a 0 b c 0 v c') p
  have s2 := step_busy k ⟨ct, s, 4, t⟩ _ ⟨0, 0, 0, 0, a, 0, b, c, 0⟩ _ rfl
    (fun v c' => cyc4 k ct s t 0 0 0 0 a 0 b c 0 v c') (tick p)
  refine ⟨⟨ct, s, 0, 0⟩, busW a b c, tick (tick p), ⟨rfl, rfl, rfl⟩, by rw [chars_tick, chars_tick, hp], ?_⟩
  have := s1.trans k s2
  simpa [evOf, busW] using this

/-- between commands: state 0, accumulator 0, `ready` and every strobe low, whatever is left on the buses -/
def Idle (st : CMDRequest.St) (w : ReqW) : Prop := ∃ a b c, At 0 0 (busW a b c) st w

theorem GoP.fromIdle {cs cs' : List Nat} {e : List Ev}
    (h : ∀ a b c, GoP k (At 0 0 (busW a b c)) cs e Idle cs') : GoP k Idle cs e Idle cs' := by
  intro st w p ⟨a, b, c, hp⟩ hc
  exact h a b c st w p hp hc

theorem toIdle {a b c : Nat} : ∀ st w, At 0 0 (busW a b c) st w → Idle st w := fun _ _ h => ⟨a, b, c, h⟩

/-- idle with nothing left to send: one edge to the accepting state, then nothing changes any more -/
theorem quiet_forever (st : CMDRequest.St) (w : ReqW) (h : Idle st w) (n : Nat) :
    events (trace k n ⟨st, w, []⟩) = [] := by
  obtain ⟨a, b, c, h⟩ := h
  obtain ⟨ct, nc, rfl, rfl⟩ := h.elim
  have hstay : ∀ m, events (trace k m ⟨⟨ct, nc, 1, ((0 : Nat) : Int)⟩, rdyW a b c, []⟩) = [] := by
    intro m
    induction m with
    | zero => rfl
    | succ m ih =>
      have e : reqLoopStep k ⟨⟨ct, nc, 1, ((0 : Nat) : Int)⟩, rdyW a b c, []⟩
          = ⟨⟨ct, nc, 1, ((0 : Nat) : Int)⟩, rdyW a b c, []⟩ := by
        simp [reqLoopStep, Prod.out, Prod.next, rdyW, cyc1n]
      simp only [trace, e, events, List.flatMap_cons]
      simp only [events] at ih
      rw [ih]; simp [evOf, rdyW]
  cases n with
  | zero => rfl
  | succ n =>
    have e : reqLoopStep k ⟨⟨ct, nc, 0, ((0 : Nat) : Int)⟩, busW a b c, []⟩
        = ⟨⟨ct, nc, 1, ((0 : Nat) : Int)⟩, rdyW a b c, []⟩ := by
      simp [reqLoopStep, Prod.out, Prod.next, rdyW, busW, cyc0]
    simp only [trace, e, events, List.flatMap_cons]
    have := hstay n
    simp only [events] at this
    rw [this]; simp [evOf, rdyW]

end C20
