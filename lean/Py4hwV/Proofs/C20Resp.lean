import Py4hwV.Proto.Hil
/-
  C20, response side: symbolic execution of the GENERATED `Gen.CMDResponse.step` inside the wire/consumer model of
  `Proto/Hil.lean`, organised as a phase invariant.  Every case of `resp_step` unfolds `CMDResponse.step`.
-/
namespace C20
open Hil Gen

@[simp] theorem put1_0' : Bits.put 1 0 = 0 := by decide
@[simp] theorem put1_1' : Bits.put 1 1 = 1 := by decide

/-- the generated nibble extraction `(temp >> (temp_size*4)) & 0xF` is nibble `i` of `v` -/
theorem nib_gen (v i : Nat) : Py.land (Py.shrT (v : Int) ((i : Int) * 4)) 15 = ((nib v i : Nat) : Int) := by
  have e1 : ((i : Int) * 4) = ((i * 4 : Nat) : Int) := by simp
  have e2 : (15 : Int) = ((15 : Nat) : Int) := rfl
  rw [e1, e2]
  simp only [Py.shrT, Int.toNat_natCast, Bits.shr_ofNat, Bits.land_ofNat]
  congr 1
  have e3 : (15 : Nat) = 2 ^ 4 - 1 := rfl
  rw [e3, Nat.and_two_pow_sub_one_eq_mod, Nat.shiftRight_eq_div_pow, Nat.pow_mul']
  rfl

/-- the generated digit-to-character branch produces the upper-case hex character -/
theorem hexChar_gen (d : Nat) (h : d < 16) :
    (if (decide ((d : Int) ≥ 0) && decide ((d : Int) ≤ 9)) = true then (48 : Int) + (d : Int)
      else ((65 : Int) + (d : Int)) - 10) = ((hexChar d : Nat) : Int) := by
  unfold hexChar
  by_cases h9 : d < 10
  · have : (d : Int) ≤ 9 := by omega
    simp [h9, this]
  · have : ¬ (d : Int) ≤ 9 := by omega
    simp [h9, this]; omega

theorem nib_lt (v i : Nat) : nib v i < 16 := Nat.mod_lt _ (by decide)

/-- where the encoder is inside one response; for p1/p2 the index is the number of digits requested (`temp_size + 1`, may be 0),
    for d3/d4 it is `temp_size` (digits still to come after the current one) -/
inductive Ph where
  | p1 (n : Nat)      -- state 1: waiting for ready to present '='
  | p2 (n : Nat)      -- state 2: '=' presented
  | d3 (i : Nat)      -- state 3: waiting for ready to present digit i
  | d4 (i : Nat)      -- state 4: digit i presented
  | p5                -- state 5: about to present '!'
  | p6                -- state 6: '!' presented
  | done              -- state 0
deriving Repr, DecidableEq

/-- characters still to be handed over -/
def rest (wv v : Nat) : Ph → List Nat
  | .p1 n | .p2 n => (61 :: (hexUpper n v ++ [33])).map (· % 2 ^ wv)
  | .d3 i | .d4 i => (hexUpper (i + 1) v ++ [33]).map (· % 2 ^ wv)
  | .p5 | .p6 => [33 % 2 ^ wv]
  | .done => []

/-- number of cycles with `ready` high that certainly suffice to finish -/
def need : Ph → Nat
  | .p1 n => 2 * n + 4
  | .p2 n => 2 * n + 3
  | .d3 i => 2 * i + 4
  | .d4 i => 2 * i + 3
  | .p5 => 2
  | .p6 => 1
  | .done => 0

/-- the phase invariant: FSM state, sampled value, remaining size, current nibble, and what is on the wires -/
def Inv (wv v : Nat) : Ph → CMDResponse.St → RespW → Prop
  | .p1 n, s, w => s.state = 1 ∧ s.temp = (v : Int) ∧ s.temp_size = (n : Int) - 1 ∧ w.valid = 0
  | .p2 n, s, w => s.state = 2 ∧ s.temp = (v : Int) ∧ s.temp_size = (n : Int) - 1 ∧ w.valid = 1 ∧ w.v = 61 % 2 ^ wv
  | .d3 i, s, w => s.state = 3 ∧ s.temp = (v : Int) ∧ s.temp_size = (i : Int) ∧ s.aux = (nib v i : Nat) ∧ w.valid = 0
  | .d4 i, s, w => s.state = 4 ∧ s.temp = (v : Int) ∧ s.temp_size = (i : Int) ∧ w.valid = 1 ∧
      w.v = hexChar (nib v i) % 2 ^ wv
  | .p5, s, w => s.state = 5 ∧ w.valid = 0
  | .p6, s, w => s.state = 6 ∧ w.valid = 1 ∧ w.v = 33 % 2 ^ wv
  | .done, s, w => s.state = 0 ∧ w.valid = 0

/-- 1 when the consumer is ready in this cycle -/
def rdyBit (i : RespIn) : Nat := if i.ready ≠ 0 then 1 else 0

theorem put_61 (wv : Nat) : Bits.put wv 61 = 61 % 2 ^ wv := Bits.put_ofNat wv 61
theorem put_33 (wv : Nat) : Bits.put wv 33 = 33 % 2 ^ wv := Bits.put_ofNat wv 33
theorem put_lo (wv n : Nat) : Bits.put wv (48 + (n : Int)) = (48 + n) % 2 ^ wv := by
  have : (48 + (n : Int)) = ((48 + n : Nat) : Int) := by simp
  rw [this, Bits.put_ofNat]
theorem put_hi (wv n : Nat) (_h : 10 ≤ n) : Bits.put wv (65 + (n : Int) - 10) = (55 + n) % 2 ^ wv := by
  have : (65 + (n : Int) - 10) = ((55 + n : Nat) : Int) := by omega
  rw [this, Bits.put_ofNat]

theorem resp_step (wv v : Nat) (ph : Ph) (s : CMDResponse.St) (w : RespW) (i : RespIn)
    (h : Inv wv v ph s w) (hst : i.start = 0) :
    ∃ ph' s' w', respCycle wv s w i = some (s', w') ∧ Inv wv v ph' s' w' ∧
      rest wv v ph = xfer w i ++ rest wv v ph' ∧ need ph' ≤ need ph - rdyBit i := by
  obtain ⟨aux, state, temp, tsz⟩ := s
  obtain ⟨valid, vv⟩ := w
  obtain ⟨start, vin, size, ready⟩ := i
  simp only at hst
  subst hst
  have hr : ready = 0 ∨ ready ≠ 0 := by omega
  cases ph with
  | p1 i =>
    simp only [Inv] at h
    obtain ⟨rfl, rfl, rfl, rfl⟩ := h
    rcases hr with rfl | hr
    · exact ⟨.p1 i, ⟨aux, 1, v, (i : Int) - 1⟩, ⟨0, vv⟩, by simp [respCycle, respRaises, CMDResponse.step, upd, Py.truthy],
        by simp [Inv], by simp [xfer], by simp [need, rdyBit]⟩
    · exact ⟨.p2 i, ⟨aux, 2, v, (i : Int) - 1⟩, ⟨1, 61 % 2 ^ wv⟩,
        by simp [respCycle, respRaises, CMDResponse.step, upd, Py.truthy, hr, put_61],
        by simp [Inv], by simp [xfer, rest], by simp [need, rdyBit, hr] <;> omega⟩
  | p2 n =>
    simp only [Inv] at h
    obtain ⟨rfl, rfl, rfl, rfl, rfl⟩ := h
    rcases hr with rfl | hr
    · exact ⟨.p2 n, ⟨aux, 2, v, (n : Int) - 1⟩, ⟨1, 61 % 2 ^ wv⟩, by simp [respCycle, respRaises, CMDResponse.step, upd],
        by simp [Inv], by simp [xfer], by simp [need, rdyBit]⟩
    · cases n with
      | zero =>
        -- no digits requested (size 0): straight to the terminator (repair 21add98)
        exact ⟨.p5, ⟨aux, 5, v, ((0 : Nat) : Int) - 1⟩, ⟨0, 61 % 2 ^ wv⟩,
          by simp [respCycle, respRaises, CMDResponse.step, upd, hr],
          by simp [Inv], by simp [xfer, rest, hr, hexUpper], by simp [need, rdyBit, hr]⟩
      | succ i =>
        have e1 : (((i + 1 : Nat) : Int) - 1) = (i : Int) := by omega
        have hneg : ¬ ((i : Int) < 0) := by omega
        exact ⟨.d3 i, ⟨(nib v i : Nat), 3, v, i⟩, ⟨0, 61 % 2 ^ wv⟩,
          by rw [e1]; simp [respCycle, respRaises, CMDResponse.step, upd, hr, hneg, nib_gen],
          by simp [Inv], by simp [xfer, rest, hr, hexUpper], by simp [need, rdyBit, hr] <;> omega⟩
  | d3 i =>
    simp only [Inv] at h
    obtain ⟨rfl, rfl, rfl, rfl, rfl⟩ := h
    rcases hr with rfl | hr
    · exact ⟨.d3 i, ⟨(nib v i : Nat), 3, v, i⟩, ⟨0, vv⟩,
        by simp [respCycle, respRaises, CMDResponse.step, upd, Py.truthy],
        by simp [Inv], by simp [xfer], by simp [need, rdyBit]⟩
    · refine ⟨.d4 i, ⟨(nib v i : Nat), 4, v, i⟩, ⟨1, hexChar (nib v i) % 2 ^ wv⟩, ?_,
        by simp [Inv], by simp [xfer, rest], by simp [need, rdyBit, hr] <;> omega⟩
      by_cases h9 : nib v i < 10
      · have h9' : (nib v i : Int) ≤ 9 := by omega
        simp [respCycle, respRaises, CMDResponse.step, upd, Py.truthy, hr, h9, h9', hexChar, put_lo]
      · have h9' : ¬ (nib v i : Int) ≤ 9 := by omega
        simp [respCycle, respRaises, CMDResponse.step, upd, Py.truthy, hr, h9, h9', hexChar, put_hi wv (nib v i) (by omega)]
  | d4 i =>
    simp only [Inv] at h
    obtain ⟨rfl, rfl, rfl, rfl, rfl⟩ := h
    rcases hr with rfl | hr
    · exact ⟨.d4 i, ⟨aux, 4, v, i⟩, ⟨1, hexChar (nib v i) % 2 ^ wv⟩,
        by simp [respCycle, respRaises, CMDResponse.step, upd],
        by simp [Inv], by simp [xfer], by simp [need, rdyBit]⟩
    · cases i with
      | zero =>
        exact ⟨.p5, ⟨aux, 5, v, (0 : Nat)⟩, ⟨0, hexChar (nib v 0) % 2 ^ wv⟩,
          by simp [respCycle, respRaises, CMDResponse.step, upd, hr],
          by simp [Inv], by simp [xfer, rest, hr, hexUpper], by simp [need, rdyBit, hr]⟩
      | succ j =>
        have e1 : ((j : Int) + 1 - 1) = (j : Int) := by omega
        have hneg : ¬ ((j : Int) * 4 < 0) := by omega
        have hnz : ¬ ((j : Int) + 1 = 0) := by omega
        exact ⟨.d3 j, ⟨(nib v j : Nat), 3, v, j⟩, ⟨0, hexChar (nib v (j + 1)) % 2 ^ wv⟩,
          by simp [respCycle, respRaises, CMDResponse.step, upd, hr, e1, hneg, hnz, nib_gen],
          by simp [Inv], by simp [xfer, rest, hr, hexUpper], by simp [need, rdyBit, hr] <;> omega⟩
  | p5 =>
    simp only [Inv] at h
    obtain ⟨rfl, rfl⟩ := h
    exact ⟨.p6, ⟨aux, 6, temp, tsz⟩, ⟨1, 33 % 2 ^ wv⟩,
      by simp [respCycle, respRaises, CMDResponse.step, upd, put_33],
      by simp [Inv], by simp [xfer, rest], by simp [need, rdyBit]; split <;> omega⟩
  | p6 =>
    simp only [Inv] at h
    obtain ⟨rfl, rfl, rfl⟩ := h
    rcases hr with rfl | hr
    · exact ⟨.p6, ⟨aux, 6, temp, tsz⟩, ⟨1, 33 % 2 ^ wv⟩, by simp [respCycle, respRaises, CMDResponse.step, upd],
        by simp [Inv], by simp [xfer], by simp [need, rdyBit]⟩
    · exact ⟨.done, ⟨aux, 0, temp, tsz⟩, ⟨0, 33 % 2 ^ wv⟩, by simp [respCycle, respRaises, CMDResponse.step, upd, hr],
        by simp [Inv], by simp [xfer, rest, hr], by simp [need, rdyBit, hr]⟩
  | done =>
    simp only [Inv] at h
    obtain ⟨rfl, rfl⟩ := h
    exact ⟨.done, ⟨aux, 0, temp, tsz⟩, ⟨0, vv⟩, by simp [respCycle, respRaises, CMDResponse.step, upd, Py.truthy],
      by simp [Inv], by simp [xfer, rest], by simp [need]⟩

theorem readyCount_cons (i : RespIn) (cs : List RespIn) : readyCount (i :: cs) = rdyBit i + readyCount cs := by
  unfold readyCount rdyBit
  by_cases h : i.ready ≠ 0
  · simp [h]; omega
  · simp [h]

/-- any number of cycles, any `ready` pattern: the invariant is kept, what has been handed over plus what is still to be
    handed over is what was to be handed over at the start, and every ready cycle makes progress -/
theorem resp_run_inv (wv v : Nat) (cs : List RespIn) (hst : ∀ i ∈ cs, i.start = 0) :
    ∀ (ph : Ph) (s : CMDResponse.St) (w : RespW), Inv wv v ph s w →
    ∃ ph' s' w' tr, respRun wv s w cs = some ((s', w'), tr) ∧ Inv wv v ph' s' w' ∧
      rest wv v ph = tr ++ rest wv v ph' ∧ need ph' ≤ need ph - readyCount cs := by
  induction cs with
  | nil => intro ph s w h; exact ⟨ph, s, w, [], rfl, h, by simp, by simp [readyCount]⟩
  | cons i cs ih =>
    intro ph s w h
    obtain ⟨ph1, s1, w1, e1, h1, r1, n1⟩ := resp_step wv v ph s w i h (hst i (by simp))
    obtain ⟨ph2, s2, w2, tr, e2, h2, r2, n2⟩ := ih (fun j hj => hst j (by simp [hj])) ph1 s1 w1 h1
    refine ⟨ph2, s2, w2, xfer w i ++ tr, ?_, h2, ?_, ?_⟩
    · simp [respRun, e1, e2]
    · rw [r1, r2, List.append_assoc]
    · rw [readyCount_cons]; omega

/-- the start cycle: idle encoder, `start_resp` high, value `v` and size `s` (any, 0 included) on the inputs -/
theorem resp_start (wv v s : Nat) (st : CMDResponse.St) (w : RespW) (i : RespIn)
    (h0 : st.state = 0) (hv : w.valid = 0) (hi : i.start ≠ 0) (hvin : i.vin = v) (hsz : i.size = s) :
    ∃ s' w', respCycle wv st w i = some (s', w') ∧ Inv wv v (.p1 s) s' w' ∧ xfer w i = [] := by
  obtain ⟨aux, state, temp, tsz⟩ := st
  obtain ⟨valid, vv⟩ := w
  obtain ⟨start, vin, size, ready⟩ := i
  simp only at h0 hv hi hvin hsz
  subst h0 hv hvin hsz
  exact ⟨⟨aux, 1, vin, (size : Int) - 1⟩, ⟨0, vv⟩,
    by simp [respCycle, respRaises, CMDResponse.step, upd, Py.truthy, hi], by simp [Inv], by simp [xfer]⟩

end C20
