import Py4hwV.Proofs.C11Single
/-
  C11: shape invariant of the registries — children / `_wires` dictionaries have unique keys, every entry is
  consistent with the object it points to (a registered wire carries the parent and the name it is registered under;
  same for children), and children are created after their parent (so the recursion of checkIntegrity terminates).
-/
namespace Build

structure Shape (g : G) : Prop where
  childLt : ∀ (o : Nat) (ob : Obj) (n : String) (c : Nat), g.objs[o]? = some ob → (n, c) ∈ ob.children →
      o < c ∧ c < g.objs.length
  ckeys : ∀ (o : Nat) (ob : Obj), g.objs[o]? = some ob → (dkeys ob.children).Nodup
  wkeys : ∀ (o : Nat) (ob : Obj), g.objs[o]? = some ob → (dkeys ob.wires).Nodup
  wcons : ∀ (o : Nat) (ob : Obj) (n : String) (w : Nat), g.objs[o]? = some ob → dget ob.wires n = some w →
      ∃ wr, g.wires[w]? = some wr ∧ wr.parent = o ∧ wr.name = n
  ccons : ∀ (o : Nat) (ob : Obj) (n : String) (c : Nat), g.objs[o]? = some ob → dget ob.children n = some c →
      ∃ cb, g.objs[c]? = some cb ∧ cb.parent = some o ∧ cb.name = n

theorem modify_some {α : Type} {l : List α} {i j : Nat} {f : α → α} {b : α} (h : (l.modify i f)[j]? = some b) :
    ∃ a, l[j]? = some a ∧ b = if i = j then f a else a := by
  rw [List.getElem?_modify] at h
  cases hl : l[j]? with
  | none => simp [hl] at h
  | some a => simp [hl] at h; exact ⟨a, rfl, h.symm⟩

theorem modify_of_some {α : Type} {l : List α} {i j : Nat} {f : α → α} {a : α} (h : l[j]? = some a) :
    (l.modify i f)[j]? = some (if i = j then f a else a) := by
  rw [List.getElem?_modify, h]; rfl

theorem Shape_of_eq {g g' : G} (h : Shape g) (ho : g'.objs = g.objs) (hw : g'.wires = g.wires) : Shape g' := by
  constructor
  · intro o ob n c h1 h2; rw [ho] at h1 ⊢; exact h.childLt o ob n c h1 h2
  · intro o ob h1; rw [ho] at h1; exact h.ckeys o ob h1
  · intro o ob h1; rw [ho] at h1; exact h.wkeys o ob h1
  · intro o ob n w h1 h2; rw [ho] at h1; rw [hw]; exact h.wcons o ob n w h1 h2
  · intro o ob n c h1 h2; rw [ho] at h1 ⊢; exact h.ccons o ob n c h1 h2

/-- updates of an object that leave its dictionaries, parent and name alone (port lists) -/
theorem Shape_modObj_ports {g : G} (h : Shape g) (o : Nat) (f : Obj → Obj)
    (hf : ∀ ob, (f ob).children = ob.children ∧ (f ob).wires = ob.wires ∧ (f ob).parent = ob.parent ∧ (f ob).name = ob.name) :
    Shape (modObj g o f) := by
  have key : ∀ (o' : Nat) (ob' : Obj), (modObj g o f).objs[o']? = some ob' → ∃ ob, g.objs[o']? = some ob ∧ ob'.children = ob.children ∧
      ob'.wires = ob.wires ∧ ob'.parent = ob.parent ∧ ob'.name = ob.name := by
    intro o' ob' h1
    obtain ⟨a, ha, hb⟩ := modify_some h1
    refine ⟨a, ha, ?_⟩
    subst hb
    split
    · exact hf a
    · exact ⟨rfl, rfl, rfl, rfl⟩
  constructor
  · intro o' ob' n c h1 h2
    obtain ⟨ob, ha, e1, _, _, _⟩ := key o' ob' h1
    rw [e1] at h2
    simpa using h.childLt o' ob n c ha h2
  · intro o' ob' h1
    obtain ⟨ob, ha, e1, _, _, _⟩ := key o' ob' h1
    rw [e1]; exact h.ckeys o' ob ha
  · intro o' ob' h1
    obtain ⟨ob, ha, _, e2, _, _⟩ := key o' ob' h1
    rw [e2]; exact h.wkeys o' ob ha
  · intro o' ob' n w h1 h2
    obtain ⟨ob, ha, _, e2, _, _⟩ := key o' ob' h1
    rw [e2] at h2
    exact h.wcons o' ob n w ha h2
  · intro o' ob' n c h1 h2
    obtain ⟨ob, ha, e1, _, _, _⟩ := key o' ob' h1
    rw [e1] at h2
    obtain ⟨cb, hc, p1, p2⟩ := h.ccons o' ob n c ha h2
    refine ⟨_, modify_of_some hc, ?_, ?_⟩
    · split
      · rw [(hf cb).2.2.1]; exact p1
      · exact p1
    · split
      · rw [(hf cb).2.2.2]; exact p2
      · exact p2

/-- updates of a wire that leave its parent and name alone -/
theorem Shape_modWire {g : G} (h : Shape g) (w : Nat) (f : Wire → Wire)
    (hf : ∀ wr, (f wr).parent = wr.parent ∧ (f wr).name = wr.name) : Shape (modWire g w f) := by
  constructor
  · exact h.childLt
  · exact h.ckeys
  · exact h.wkeys
  · intro o ob n w' h1 h2
    obtain ⟨wr, hw, p1, p2⟩ := h.wcons o ob n w' h1 h2
    refine ⟨_, modify_of_some hw, ?_, ?_⟩
    · split
      · rw [(hf wr).1]; exact p1
      · exact p1
    · split
      · rw [(hf wr).2]; exact p2
      · exact p2
  · exact h.ccons

/-- changing name / parent of a wire that no dictionary points to -/
theorem Shape_modWire_free {g : G} (h : Shape g) (w : Nat) (f : Wire → Wire)
    (hfree : ∀ (o : Nat) (ob : Obj) (n : String), g.objs[o]? = some ob → dget ob.wires n ≠ some w) :
    Shape (modWire g w f) := by
  constructor
  · exact h.childLt
  · exact h.ckeys
  · exact h.wkeys
  · intro o ob n w' h1 h2
    obtain ⟨wr, hw, p1, p2⟩ := h.wcons o ob n w' h1 h2
    have hne : w ≠ w' := by
      intro e; subst e; exact hfree o ob n h1 h2
    refine ⟨wr, ?_, p1, p2⟩
    simp only [modWire_wires, List.getElem?_modify, hw]
    simp [hne]
  · exact h.ccons

theorem Shape_pushWire {g : G} (h : Shape g) (x : Wire) : Shape { g with wires := g.wires ++ [x] } := by
  constructor
  · exact h.childLt
  · exact h.ckeys
  · exact h.wkeys
  · intro o ob n w h1 h2
    obtain ⟨wr, hw, p1, p2⟩ := h.wcons o ob n w h1 h2
    exact ⟨wr, by simp only; rw [List.getElem?_append_left (lt_of_getElem?_some hw)]; exact hw, p1, p2⟩
  · exact h.ccons

/-- `Logic.appendWire(p, w)` when the wire says its parent is `p` -/
theorem Shape_appendWire (g : G) (p w : Nat) (h : Shape g)
    (hpar : ∀ wr, g.wires[w]? = some wr → wr.parent = p) : Shape (appendWire g p w).1 := by
  unfold appendWire
  split
  · rename_i po wr hp hw
    split
    · exact h
    · rename_i hh
      have hn : dget po.wires wr.name = none := by rw [← dhas_eq_false]; simpa using hh
      have key : ∀ (o' : Nat) (ob' : Obj), (modObj g p fun po => { po with wires := dset po.wires wr.name w }).objs[o']? = some ob' →
          ∃ ob, g.objs[o']? = some ob ∧ ob'.children = ob.children ∧ ob'.parent = ob.parent ∧ ob'.name = ob.name ∧
            ob'.wires = if p = o' then dset ob.wires wr.name w else ob.wires := by
        intro o' ob' h1
        obtain ⟨a, ha, hb⟩ := modify_some h1
        refine ⟨a, ha, ?_⟩
        subst hb
        by_cases e : p = o' <;> simp [e]
      constructor
      · intro o' ob' n c h1 h2
        obtain ⟨ob, ha, e1, _, _, _⟩ := key o' ob' h1
        rw [e1] at h2
        simpa using h.childLt o' ob n c ha h2
      · intro o' ob' h1
        obtain ⟨ob, ha, e1, _, _, _⟩ := key o' ob' h1
        rw [e1]; exact h.ckeys o' ob ha
      · intro o' ob' h1
        obtain ⟨ob, ha, _, _, _, e4⟩ := key o' ob' h1
        rw [e4]; split
        · exact nodup_dset (h.wkeys o' ob ha)
        · exact h.wkeys o' ob ha
      · intro o' ob' n w' h1 h2
        obtain ⟨ob, ha, _, _, _, e4⟩ := key o' ob' h1
        rw [e4] at h2
        simp only [modObj_wires]
        by_cases e : p = o'
        · subst e
          simp only [ite_true] at h2
          by_cases e2 : n = wr.name
          · subst e2
            rw [dget_dset_self] at h2; cases h2
            exact ⟨wr, hw, hpar wr hw, rfl⟩
          · rw [dget_dset_ne _ _ _ _ e2] at h2
            exact h.wcons p ob n w' ha h2
        · simp only [e, ite_false] at h2
          exact h.wcons o' ob n w' ha h2
      · intro o' ob' n c h1 h2
        obtain ⟨ob, ha, e1, _, _, _⟩ := key o' ob' h1
        rw [e1] at h2
        obtain ⟨cb, hc, p1, p2⟩ := h.ccons o' ob n c ha h2
        refine ⟨_, modify_of_some hc, ?_, ?_⟩
        · split <;> exact p1
        · split <;> exact p2
  · exact h

/-- `del self.parent._wires[self.name]`: afterwards NO dictionary points to the wire any more -/
theorem Shape_delWireKey (g : G) (w : Nat) (h : Shape g) :
    Shape (delWireKey g w).1 ∧
    ((delWireKey g w).2 = .ok () → ∀ (o : Nat) (ob : Obj) (n : String), (delWireKey g w).1.objs[o]? = some ob →
        dget ob.wires n ≠ some w) := by
  unfold delWireKey
  split
  · exact ⟨h, fun e => by cases e⟩
  · rename_i wr hw
    split
    · exact ⟨h, fun e => by cases e⟩
    · rename_i po hp
      split
      · have key : ∀ (o' : Nat) (ob' : Obj), (modObj g wr.parent fun po => { po with wires := ddel po.wires wr.name }).objs[o']? = some ob' →
            ∃ ob, g.objs[o']? = some ob ∧ ob'.children = ob.children ∧ ob'.parent = ob.parent ∧ ob'.name = ob.name ∧
              ob'.wires = if wr.parent = o' then ddel ob.wires wr.name else ob.wires := by
          intro o' ob' h1
          obtain ⟨a, ha, hb⟩ := modify_some h1
          refine ⟨a, ha, ?_⟩
          subst hb
          by_cases e : wr.parent = o' <;> simp [e]
        refine ⟨?_, ?_⟩
        · constructor
          · intro o' ob' n c h1 h2
            obtain ⟨ob, ha, e1, _, _, _⟩ := key o' ob' h1
            rw [e1] at h2
            simpa using h.childLt o' ob n c ha h2
          · intro o' ob' h1
            obtain ⟨ob, ha, e1, _, _, _⟩ := key o' ob' h1
            rw [e1]; exact h.ckeys o' ob ha
          · intro o' ob' h1
            obtain ⟨ob, ha, _, _, _, e4⟩ := key o' ob' h1
            rw [e4]; split
            · exact nodup_ddel (h.wkeys o' ob ha)
            · exact h.wkeys o' ob ha
          · intro o' ob' n w' h1 h2
            obtain ⟨ob, ha, _, _, _, e4⟩ := key o' ob' h1
            rw [e4] at h2
            simp only [modObj_wires]
            by_cases e : wr.parent = o'
            · simp only [e, ite_true] at h2
              by_cases e2 : n = wr.name
              · subst e2; rw [dget_ddel_self] at h2; cases h2
              · rw [dget_ddel_ne _ _ _ e2] at h2
                exact h.wcons o' ob n w' ha h2
            · simp only [e, ite_false] at h2
              exact h.wcons o' ob n w' ha h2
          · intro o' ob' n c h1 h2
            obtain ⟨ob, ha, e1, _, _, _⟩ := key o' ob' h1
            rw [e1] at h2
            obtain ⟨cb, hc, p1, p2⟩ := h.ccons o' ob n c ha h2
            refine ⟨_, modify_of_some hc, ?_, ?_⟩
            · split <;> exact p1
            · split <;> exact p2
        · intro _ o' ob' n h1 h2
          obtain ⟨ob, ha, _, _, _, e4⟩ := key o' ob' h1
          rw [e4] at h2
          by_cases e : wr.parent = o'
          · simp only [e, ite_true] at h2
            by_cases e2 : n = wr.name
            · subst e2; rw [dget_ddel_self] at h2; cases h2
            · rw [dget_ddel_ne _ _ _ e2] at h2
              obtain ⟨wr', hw', _, p2⟩ := h.wcons o' ob n w ha h2
              rw [hw] at hw'; cases hw'
              exact e2 p2.symm
          · simp only [e, ite_false] at h2
            obtain ⟨wr', hw', p1, _⟩ := h.wcons o' ob n w ha h2
            rw [hw] at hw'; cases hw'
            exact e p1
      · exact ⟨h, fun e => by cases e⟩

theorem Shape_newLogic (g : G) (p : Option Nat) (n : String) (pr : Bool) (h : Shape g) : Shape (newLogic g p n pr).1 := by
  unfold newLogic
  split
  · -- a root: one more object without children / wires
    have key : ∀ (o' : Nat) (ob' : Obj), (g.objs ++ [({ parent := none, name := n, prim := pr } : Obj)])[o']? = some ob' →
        g.objs[o']? = some ob' ∨ (ob'.children = [] ∧ ob'.wires = []) := by
      intro o' ob' h1
      rw [List.getElem?_append] at h1
      split at h1
      · exact Or.inl h1
      · have : o' - g.objs.length = 0 := by
          have := lt_of_getElem?_some h1; simp at this; omega
        rw [this] at h1; simp at h1; subst h1; exact Or.inr ⟨rfl, rfl⟩
    have up : ∀ (c : Nat) (cb : Obj), g.objs[c]? = some cb → (g.objs ++ [({ parent := none, name := n, prim := pr } : Obj)])[c]? = some cb :=
      fun c cb hc => by rw [List.getElem?_append_left (lt_of_getElem?_some hc)]; exact hc
    constructor
    · intro o' ob' m c h1 h2
      rcases key o' ob' h1 with h1' | ⟨e, _⟩
      · have := h.childLt o' ob' m c h1' h2
        simp only [List.length_append, List.length_cons, List.length_nil]; omega
      · rw [e] at h2; cases h2
    · intro o' ob' h1
      rcases key o' ob' h1 with h1' | ⟨e, _⟩
      · exact h.ckeys o' ob' h1'
      · rw [e]; simp [dkeys]
    · intro o' ob' h1
      rcases key o' ob' h1 with h1' | ⟨_, e⟩
      · exact h.wkeys o' ob' h1'
      · rw [e]; simp [dkeys]
    · intro o' ob' m w h1 h2
      rcases key o' ob' h1 with h1' | ⟨_, e⟩
      · exact h.wcons o' ob' m w h1' h2
      · rw [e] at h2; simp [dget] at h2
    · intro o' ob' m c h1 h2
      rcases key o' ob' h1 with h1' | ⟨e, _⟩
      · obtain ⟨cb, hc, p1, p2⟩ := h.ccons o' ob' m c h1' h2
        exact ⟨cb, up c cb hc, p1, p2⟩
      · rw [e] at h2; simp [dget] at h2
  · rename_i p
    split
    · exact h
    · rename_i po hp
      split
      · exact h
      · rename_i hh
        have hn : dget po.children n = none := by rw [← dhas_eq_false]; simpa using hh
        have hpl := lt_of_getElem?_some hp
        let objs' := (g.objs.modify p fun po => { po with children := dset po.children n g.objs.length }) ++
            [({ parent := some p, name := n, prim := pr } : Obj)]
        have key : ∀ (o' : Nat) (ob' : Obj), objs'[o']? = some ob' →
            (∃ ob, g.objs[o']? = some ob ∧ ob'.wires = ob.wires ∧ ob'.parent = ob.parent ∧ ob'.name = ob.name ∧
              ob'.children = if p = o' then dset ob.children n g.objs.length else ob.children) ∨
            (o' = g.objs.length ∧ ob' = { parent := some p, name := n, prim := pr }) := by
          intro o' ob' h1
          simp only [objs'] at h1
          rw [List.getElem?_append] at h1
          split at h1
          · left
            obtain ⟨a, ha, hb⟩ := modify_some h1
            refine ⟨a, ha, ?_⟩
            subst hb
            by_cases e : p = o' <;> simp [e]
          · right
            rename_i hge
            simp only [List.length_modify] at hge
            have : o' = g.objs.length := by
              have := lt_of_getElem?_some h1; simp at this; omega
            subst this
            simp at h1
            exact ⟨rfl, h1.symm⟩
        have up : ∀ (c : Nat) (cb : Obj), g.objs[c]? = some cb → ∃ cb' : Obj, objs'[c]? = some cb' ∧ cb'.parent = cb.parent ∧ cb'.name = cb.name := by
          intro c cb hc
          have hcl := lt_of_getElem?_some hc
          have hm : objs'[c]? = some (if p = c then { cb with children := dset cb.children n g.objs.length } else cb) := by
            simp only [objs']
            rw [List.getElem?_append_left (by simpa using hcl)]
            exact modify_of_some hc
          refine ⟨_, hm, ?_, ?_⟩ <;> split <;> rfl
        have hlen : objs'.length = g.objs.length + 1 := by simp [objs']
        show Shape { g with objs := objs' }
        constructor
        · intro o' ob' m c h1 h2
          rcases key o' ob' h1 with ⟨ob, ha, _, _, _, e4⟩ | ⟨_, e⟩
          · rw [e4] at h2
            simp only [hlen]
            by_cases e : p = o'
            · subst e
              simp only [ite_true] at h2
              rcases mem_dset h2 with h2' | h2'
              · have := h.childLt p ob m c ha h2'; omega
              · cases h2'; omega
            · simp only [e, ite_false] at h2
              have := h.childLt o' ob m c ha h2; omega
          · subst e; cases h2
        · intro o' ob' h1
          rcases key o' ob' h1 with ⟨ob, ha, _, _, _, e4⟩ | ⟨_, e⟩
          · rw [e4]; split
            · exact nodup_dset (h.ckeys o' ob ha)
            · exact h.ckeys o' ob ha
          · subst e; simp [dkeys]
        · intro o' ob' h1
          rcases key o' ob' h1 with ⟨ob, ha, e1, _, _, _⟩ | ⟨_, e⟩
          · rw [e1]; exact h.wkeys o' ob ha
          · subst e; simp [dkeys]
        · intro o' ob' m w h1 h2
          rcases key o' ob' h1 with ⟨ob, ha, e1, _, _, _⟩ | ⟨_, e⟩
          · rw [e1] at h2; exact h.wcons o' ob m w ha h2
          · subst e; simp [dget] at h2
        · intro o' ob' m c h1 h2
          rcases key o' ob' h1 with ⟨ob, ha, _, _, _, e4⟩ | ⟨_, e⟩
          · rw [e4] at h2
            by_cases e : p = o'
            · subst e
              simp only [ite_true] at h2
              by_cases e2 : m = n
              · subst e2
                rw [dget_dset_self] at h2; cases h2
                refine ⟨{ parent := some p, name := m, prim := pr }, ?_, rfl, rfl⟩
                simp [objs']
              · rw [dget_dset_ne _ _ _ _ e2] at h2
                obtain ⟨cb, hc, p1, p2⟩ := h.ccons p ob m c ha h2
                obtain ⟨cb', hc', q1, q2⟩ := up c cb hc
                exact ⟨cb', hc', by rw [q1]; exact p1, by rw [q2]; exact p2⟩
            · simp only [e, ite_false] at h2
              obtain ⟨cb, hc, p1, p2⟩ := h.ccons o' ob m c ha h2
              obtain ⟨cb', hc', q1, q2⟩ := up c cb hc
              exact ⟨cb', hc', by rw [q1]; exact p1, by rw [q2]; exact p2⟩
          · subst e; simp [dget] at h2

theorem Shape_newWire (g : G) (p : Nat) (n : String) (b : Bool) (h : Shape g) : Shape (newWire g p n b).1 := by
  unfold newWire
  simp only
  split
  · apply Shape_appendWire _ _ _ (Shape_pushWire h _)
    intro wr hw
    simp at hw; subst hw; rfl
  · exact h

theorem Shape_regSource (g : G) (w pid : Nat) (h : Shape g) : Shape (regSource g w pid).1 := by
  unfold regSource
  split
  · exact h
  · split
    · exact Shape_modWire h w _ (fun _ => ⟨rfl, rfl⟩)
    · split
      · exact h
      · exact Shape_modWire h w _ (fun _ => ⟨rfl, rfl⟩)

theorem Shape_regSink (g : G) (w pid : Nat) (h : Shape g) : Shape (regSink g w pid).1 := by
  unfold regSink
  split
  · exact h
  · exact Shape_modWire h w _ (fun _ => ⟨rfl, rfl⟩)

theorem Shape_attach {g : G} (h : Shape g) (pt : Port) (o : Nat) (f : Obj → Obj)
    (hf : ∀ ob, (f ob).children = ob.children ∧ (f ob).wires = ob.wires ∧ (f ob).parent = ob.parent ∧ (f ob).name = ob.name) :
    Shape (modObj (pushPort g pt) o f) :=
  Shape_modObj_ports (Shape_of_eq (g' := pushPort g pt) h rfl rfl) o f hf

theorem Shape_addIn (g : G) (o : Nat) (n : String) (w : Nat) (h : Shape g) : Shape (addIn g o n w).1 := by
  unfold addIn
  split
  · exact h
  · exact h
  · apply andThen_pred (P := Shape)
    · split
      · exact Shape_regSink _ _ _ h
      · exact h
    · intro g1 h1; exact Shape_attach h1 _ _ _ (fun _ => ⟨rfl, rfl, rfl, rfl⟩)

theorem Shape_addOut (g : G) (o : Nat) (n : String) (w : Nat) (h : Shape g) : Shape (addOut g o n w).1 := by
  unfold addOut
  split
  · exact h
  · exact h
  · apply andThen_pred (P := Shape)
    · split
      · exact Shape_regSource _ _ _ h
      · exact h
    · intro g1 h1; exact Shape_attach h1 _ _ _ (fun _ => ⟨rfl, rfl, rfl, rfl⟩)

theorem Shape_addInOut (g : G) (o : Nat) (n : String) (w : Nat) (h : Shape g) : Shape (addInOut g o n w).1 := by
  unfold addInOut
  split
  · exact h
  · exact h
  · apply andThen_pred (P := Shape)
    · split
      · apply andThen_pred (P := Shape) (Shape_regSource _ _ _ h)
        intro g1 h1; exact Shape_regSink _ _ _ h1
      · exact h
    · intro g1 h1; exact Shape_attach h1 _ _ _ (fun _ => ⟨rfl, rfl, rfl, rfl⟩)

/-- the common tail of rename / reparent / reparentAndRename -/
theorem Shape_move (g : G) (w : Nat) (f : Wire → Wire) (p : G → Nat)
    (hp : ∀ g1 wr, (modWire g1 w f).wires[w]? = some wr → wr.parent = p (modWire g1 w f)) (h : Shape g) :
    Shape (delWireKey g w >>> fun g1 => appendWire (modWire g1 w f) (p (modWire g1 w f)) w).1 := by
  obtain ⟨h1, hfree⟩ := Shape_delWireKey g w h
  rcases res_cases (delWireKey g w).2 with hr | ⟨e, hr⟩
  · rw [andThen_ok hr]
    apply Shape_appendWire _ _ _ (Shape_modWire_free h1 w f (hfree hr))
    exact hp _
  · rw [andThen_err hr]; exact h1

theorem Shape_renameOld (g : G) (w : Nat) (n : String) (h : Shape g) : Shape (renameOld g w n).1 := by
  unfold renameOld
  apply Shape_move g w (fun wr => { wr with name := n }) (fun g2 => wireParent g2 w) _ h
  intro g1 wr hw
  show wr.parent = wireParent (modWire g1 w _) w
  unfold wireParent; rw [hw]

theorem Shape_reparentOld (g : G) (w p : Nat) (h : Shape g) : Shape (reparentOld g w p).1 := by
  unfold reparentOld
  apply Shape_move g w (fun wr => { wr with parent := p }) (fun _ => p) _ h
  intro g1 wr hw
  obtain ⟨a, _, hb⟩ := modify_some hw
  simp at hb; rw [hb]

theorem Shape_reparentAndRenameOld (g : G) (w p : Nat) (n : String) (h : Shape g) : Shape (reparentAndRenameOld g w p n).1 := by
  unfold reparentAndRenameOld
  apply Shape_move g w (fun wr => { wr with name := n, parent := p }) (fun _ => p) _ h
  intro g1 wr hw
  obtain ⟨a, _, hb⟩ := modify_some hw
  simp at hb; rw [hb]

theorem Shape_rename (g : G) (w : Nat) (n : String) (h : Shape g) : Shape (rename g w n).1 :=
  pre_pred (P := Shape) h (fun g1 h1 => Shape_renameOld g1 w n h1)
theorem Shape_reparent (g : G) (w p : Nat) (h : Shape g) : Shape (reparent g w p).1 :=
  pre_pred (P := Shape) h (fun g1 h1 => Shape_reparentOld g1 w p h1)
theorem Shape_reparentAndRename (g : G) (w p : Nat) (n : String) (h : Shape g) : Shape (reparentAndRename g w p n).1 :=
  pre_pred (P := Shape) h (fun g1 h1 => Shape_reparentAndRenameOld g1 w p n h1)

theorem Shape_ifS2K (g : G) (i : Nat) (n : String) (h : Shape g) : Shape (ifS2K g i n).1 := by
  unfold ifS2K
  split
  · exact h
  · apply andThen_pred (P := Shape) (Shape_newWire _ _ _ _ h)
    intro g1 h1; exact Shape_of_eq h1 rfl rfl

theorem Shape_ifK2S (g : G) (i : Nat) (n : String) (h : Shape g) : Shape (ifK2S g i n).1 := by
  unfold ifK2S
  split
  · exact h
  · apply andThen_pred (P := Shape) (Shape_newWire _ _ _ _ h)
    intro g1 h1; exact Shape_of_eq h1 rfl rfl

theorem Shape_addIfSource (g : G) (o : Nat) (n : String) (i : Nat) (h : Shape g) : Shape (addIfSource g o n i).1 := by
  unfold addIfSource
  split
  · exact h
  · apply andThen_pred (P := Shape)
    · exact forEach_pred _ (fun g x hg => Shape_addOut _ _ _ _ hg) _ _ h
    · intro g1 h1; exact forEach_pred _ (fun g x hg => Shape_addIn _ _ _ _ hg) _ _ h1

theorem Shape_addIfSink (g : G) (o : Nat) (n : String) (i : Nat) (h : Shape g) : Shape (addIfSink g o n i).1 := by
  unfold addIfSink
  split
  · exact h
  · apply andThen_pred (P := Shape)
    · exact forEach_pred _ (fun g x hg => Shape_addIn _ _ _ _ hg) _ _ h
    · intro g1 h1; exact forEach_pred _ (fun g x hg => Shape_addOut _ _ _ _ hg) _ _ h1

theorem Shape_clear {g : G} (h : Shape g) (w : Nat) (f : Wire → Wire) (hf : ∀ wr, (f wr).parent = wr.parent ∧ (f wr).name = wr.name)
    (p : Nat) (k : Port → Port) : Shape (modPort (modWire g w f) p k) :=
  Shape_of_eq (g' := modPort (modWire g w f) p k) (Shape_modWire h w f hf) rfl rfl

theorem Shape_disconnect (g : G) (w o : Nat) (h : Shape g) : Shape (disconnect g w o).1 := by
  unfold disconnect
  split
  · split
    · exact h
    · split
      · split
        · (apply Shape_clear h; intro _; exact ⟨rfl, rfl⟩)
        · split
          · (apply Shape_clear h; intro _; exact ⟨rfl, rfl⟩)
          · exact h
      · split
        · (apply Shape_clear h; intro _; exact ⟨rfl, rfl⟩)
        · exact h
  · exact h

theorem Shape_step (g : G) (op : Op) (h : Shape g) : Shape (step g op).1 := by
  cases op with
  | newLogic p n pr => exact Shape_newLogic _ _ _ _ h
  | wire p n b => exact Shape_newWire _ _ _ _ h
  | addIn o n w => exact Shape_addIn _ _ _ _ h
  | addOut o n w => exact Shape_addOut _ _ _ _ h
  | addInOut o n w => exact Shape_addInOut _ _ _ _ h
  | rename w n => exact Shape_rename _ _ _ h
  | reparent w p => exact Shape_reparent _ _ _ h
  | reparentAndRename w p n => exact Shape_reparentAndRename _ _ _ _ h
  | newIface p n => exact Shape_of_eq h rfl rfl
  | ifS2K i n => exact Shape_ifS2K _ _ _ h
  | ifK2S i n => exact Shape_ifK2S _ _ _ h
  | addIfSource o n i => exact Shape_addIfSource _ _ _ _ h
  | addIfSink o n i => exact Shape_addIfSink _ _ _ _ h
  | disconnect w o => exact Shape_disconnect _ _ _ h
  | wires p n k => exact forEach_pred (P := Shape) _ (fun g x hg => Shape_newWire _ _ _ _ hg) _ _ h

theorem Shape_empty : Shape {} :=
  ⟨fun o ob n c h => by simp at h, fun o ob h => by simp at h, fun o ob h => by simp at h,
   fun o ob n w h => by simp at h, fun o ob n c h => by simp at h⟩

theorem Shape_run (ops : List Op) (g : G) (h : Shape g) : Shape (run g ops) := by
  induction ops generalizing g with
  | nil => exact h
  | cons op t ih => simp only [run, List.foldl_cons]; exact ih _ (Shape_step g op h)

end Build
