import Py4hwV.Schem.Track
import Py4hwV.Proofs.C18Place
/-
  C18 — what trackAssignment and routeNetSquare guarantee.
-/
namespace Schem.Track

/-- invariant of the walk over one channel -/
structure WInv (done : List (Nat × TNet)) (acc : List (Nat × Nat) × Nat × List (Nat × Nat)) : Prop where
  lt : ∀ w t, acc.1.lookup w = some t → t < acc.2.1
  inj : ∀ w w' t, acc.1.lookup w = some t → acc.1.lookup w' = some t → w = w'
  has : ∀ e ∈ done, (acc.1.lookup e.2.wire).isSome = true
  out : acc.2.2 = done.map fun e => (e.1, (acc.1.lookup e.2.wire).getD 0)

theorem assignStep_inv (done : List (Nat × TNet)) (acc : List (Nat × Nat) × Nat × List (Nat × Nat)) (e : Nat × TNet)
    (h : WInv done acc) : WInv (done ++ [e]) (assignStep acc e) := by
  unfold assignStep
  cases hl : acc.1.lookup e.2.wire with
  | some t =>
    simp only
    refine ⟨h.lt, h.inj, ?_, ?_⟩
    · intro x hx
      rcases List.mem_append.1 hx with hx | hx
      · exact h.has x hx
      · simp only [List.mem_singleton] at hx
        subst hx; simp [hl]
    · simp [h.out, hl]
  | none =>
    simp only
    have hstable : ∀ w t, acc.1.lookup w = some t → List.lookup w ((e.2.wire, acc.2.1) :: acc.1) = some t := by
      intro w t hw
      rw [List.lookup_cons]
      have : (w == e.2.wire) = false := by
        cases hb : w == e.2.wire with
        | false => rfl
        | true =>
          have : w = e.2.wire := by simpa using hb
          rw [this, hl] at hw; cases hw
      simp [this, hw]
    refine ⟨?_, ?_, ?_, ?_⟩
    · intro w t hw
      rw [List.lookup_cons] at hw
      split at hw
      · cases hw; simp
      · have := h.lt w t hw; simp only; omega
    · intro w w' t hw hw'
      rw [List.lookup_cons] at hw hw'
      cases hb : (w == e.2.wire) <;> cases hb' : (w' == e.2.wire) <;> simp only [hb, hb'] at hw hw'
      · exact h.inj w w' t hw hw'
      · cases hw'
        have := h.lt w _ hw
        omega
      · cases hw
        have := h.lt w' _ hw'
        omega
      · have e1 : w = e.2.wire := by simpa using hb
        have e2 : w' = e.2.wire := by simpa using hb'
        rw [e1, e2]
    · intro x hx
      rcases List.mem_append.1 hx with hx | hx
      · have := h.has x hx
        obtain ⟨t, ht⟩ := Option.isSome_iff_exists.1 this
        rw [hstable _ t ht]; rfl
      · simp only [List.mem_singleton] at hx
        subst hx
        simp [List.lookup_cons]
    · simp only [h.out, List.map_append, List.map_cons, List.map_nil, List.lookup_cons, beq_self_eq_true, Option.getD_some]
      congr 1
      apply List.map_congr_left
      intro x hx
      have := h.has x hx
      obtain ⟨t, ht⟩ := Option.isSome_iff_exists.1 this
      have h2 := hstable _ t ht
      rw [List.lookup_cons] at h2
      rw [h2, ht]

theorem foldl_assign_inv : ∀ (l done : List (Nat × TNet)) (acc : List (Nat × Nat) × Nat × List (Nat × Nat)),
    WInv done acc → WInv (done ++ l) (l.foldl assignStep acc) := by
  intro l
  induction l with
  | nil => intro done acc h; simpa using h
  | cons e l ih =>
    intro done acc h
    simp only [List.foldl_cons]
    have := ih (done ++ [e]) _ (assignStep_inv done acc e h)
    simpa using this

theorem winv_final (l : List (Nat × TNet)) : WInv l (l.foldl assignStep ([], 0, [])) := by
  have h0 : WInv [] (([], 0, []) : List (Nat × Nat) × Nat × List (Nat × Nat)) := by
    refine ⟨?_, ?_, ?_, rfl⟩
    · intro w t h; simp at h
    · intro w w' t h; simp at h
    · intro e he; simp at he
  simpa using foldl_assign_inv l [] _ h0

theorem lookup_map_nodup {β : Type} (f : Nat × TNet → β) : ∀ (l : List (Nat × TNet)), (l.map (·.1)).Nodup → ∀ e ∈ l,
    (l.map fun x => (x.1, f x)).lookup e.1 = some (f e) := by
  intro l
  induction l with
  | nil => intro _ e he; simp at he
  | cons a l ih =>
    intro hnd e he
    simp only [List.map_cons, List.nodup_cons] at hnd
    simp only [List.map_cons, List.lookup_cons]
    rcases List.mem_cons.1 he with h | h
    · subst h; simp
    · have hne : (e.1 == a.1) = false := by
        cases hb : e.1 == a.1 with
        | false => rfl
        | true =>
          have : e.1 = a.1 := by simpa using hb
          exact absurd (List.mem_map.2 ⟨e, h, this⟩) hnd.1
      simp only [hne]
      exact ih hnd.2 e h

theorem ins_perm (x : Nat × TNet) : ∀ l, (ins x l).Perm (x :: l) := by
  intro l
  induction l with
  | nil => exact List.Perm.refl _
  | cons y ys ih =>
    simp only [ins]
    split
    · exact List.Perm.refl _
    · exact (List.Perm.cons y ih).trans (List.Perm.swap x y ys)

theorem sortByKey_perm : ∀ l, (sortByKey l).Perm l := by
  intro l
  induction l with
  | nil => exact List.Perm.refl _
  | cons x l ih =>
    simp only [sortByKey, List.foldr_cons]
    exact (ins_perm x _).trans (List.Perm.cons x ih)

theorem inColumn_nodup (nets : List TNet) (c : Nat) : ((inColumn nets c).map (·.1)).Nodup := by
  unfold inColumn
  have hp := (sortByKey_perm ((nets.zipIdx.map fun p => (p.2, p.1)).filter fun e => e.2.sc == c)).map (·.1)
  rw [hp.nodup_iff]
  have hs : (((nets.zipIdx.map fun p => (p.2, p.1)).filter fun e => e.2.sc == c).map (·.1)).Sublist
      ((nets.zipIdx.map fun p => (p.2, p.1)).map (·.1)) := List.Sublist.map _ List.filter_sublist
  apply List.Nodup.sublist hs
  rw [List.map_map]
  have : ((fun x : Nat × TNet => x.1) ∘ fun p : TNet × Nat => (p.2, p.1)) = Prod.snd := by
    funext p; rfl
  rw [this, List.zipIdx_map_snd]
  exact List.nodup_range' (step := 1)

theorem mem_inColumn (nets : List TNet) (i : Nat) (n : TNet) (h : nets[i]? = some n) : (i, n) ∈ inColumn nets n.sc := by
  unfold inColumn
  rw [(sortByKey_perm _).mem_iff, List.mem_filter]
  refine ⟨List.mem_map.2 ⟨(n, i), List.mem_zipIdx_iff_getElem?.2 h, rfl⟩, by simp⟩

/-- the final assoc list of channel c -/
def chanMap (nets : List TNet) (c : Nat) : List (Nat × Nat) := ((inColumn nets c).foldl assignStep ([], 0, [])).1

theorem trackOf_eq (nets : List TNet) (i : Nat) (n : TNet) (h : nets[i]? = some n) :
    ∃ t, trackOf nets i = some t ∧ (chanMap nets n.sc).lookup n.wire = some t ∧ t < tracksOfColumn nets n.sc := by
  have hw := winv_final (inColumn nets n.sc)
  have hm := mem_inColumn nets i n h
  obtain ⟨t, ht⟩ := Option.isSome_iff_exists.1 (hw.has (i, n) hm)
  refine ⟨t, ?_, ht, hw.lt _ _ ht⟩
  unfold trackOf assignColumn
  simp only [h, hw.out]
  have := lookup_map_nodup (fun x => (((inColumn nets n.sc).foldl assignStep ([], 0, [])).1.lookup x.2.wire).getD 0)
    (inColumn nets n.sc) (inColumn_nodup nets n.sc) (i, n) hm
  simp only at this
  rw [this, ht]; rfl

/-- every net gets a track below the number of tracks reserved for its channel -/
theorem track_lt (nets : List TNet) (i : Nat) (n : TNet) (h : nets[i]? = some n) :
    ∃ t, trackOf nets i = some t ∧ t < tracksOfColumn nets n.sc := by
  obtain ⟨t, h1, _, h3⟩ := trackOf_eq nets i n h
  exact ⟨t, h1, h3⟩

/-- two nets that leave the same column share a track exactly when they carry the same wire -/
theorem track_eq_iff (nets : List TNet) (i i' : Nat) (n n' : TNet) (h : nets[i]? = some n) (h' : nets[i']? = some n')
    (hc : n.sc = n'.sc) (t t' : Nat) (ht : trackOf nets i = some t) (ht' : trackOf nets i' = some t') :
    t = t' ↔ n.wire = n'.wire := by
  obtain ⟨u, h1, h2, _⟩ := trackOf_eq nets i n h
  obtain ⟨u', h1', h2', _⟩ := trackOf_eq nets i' n' h'
  rw [h1] at ht; rw [h1'] at ht'
  cases ht; cases ht'
  rw [← hc] at h2'
  have hw := winv_final (inColumn nets n.sc)
  constructor
  · intro e
    subst e
    exact hw.inj _ _ _ h2 h2'
  · intro e
    rw [e] at h2
    unfold chanMap at h2 h2'
    rw [h2] at h2'
    exact Option.some.inj h2'

/- ---------------------------------------------------------------- routeNetSquare -/
open Place

/-- the polyline is routed (≥ 2 points) and axis-parallel, whatever the case -/
theorem route_shape (cfg : Cfg) (k : RKind) (p0 pf : Pt) (srcX sw : Int) (t : Nat) :
    2 ≤ (route cfg k p0 pf srcX sw t).length ∧ ∀ s ∈ segsOfPath (route cfg k p0 pf srcX sw t), s.ortho = true := by
  cases k <;> simp [route, segsOfPath, Seg.ortho]

/-- a net that starts on a real pin starts exactly on it, one that ends on a real pin ends exactly on it -/
theorem route_head (cfg : Cfg) (k : RKind) (p0 pf : Pt) (srcX sw : Int) (t : Nat) (hk : k ≠ .stopSource) :
    (route cfg k p0 pf srcX sw t).head? = some p0 := by
  cases k <;> simp [route] at hk ⊢

theorem route_last (cfg : Cfg) (k : RKind) (p0 pf : Pt) (srcX sw : Int) (t : Nat) (hk : k ≠ .startSink) :
    (route cfg k p0 pf srcX sw t).getLast? = some pf := by
  cases k <;> simp [route] at hk ⊢

/-- the vertical run of a net that leaves column c stays in the channel right of column c: right of the widest symbol of
    the column and left of column c+1 — it can cross no symbol -/
theorem mpx_in_channel (cfg : Cfg) (hcfg : cfg.NonNeg) (hts : 0 < cfg.ts) (tracks : List Nat) (m : List (List Cell)) (c t n : Nat)
    (hn : tracks[c]? = some n) (ht : t < n) :
    xAt cfg tracks m c + colW m c ≤ mpx cfg (xAt cfg tracks m c) (colW m c) t ∧
    mpx cfg (xAt cfg tracks m c) (colW m c) t < xAt cfg tracks m (c + 1) := by
  obtain ⟨_, hmh, hns, _⟩ := hcfg
  have h1 : (0 : Int) ≤ (t : Int) * cfg.ts := Int.mul_nonneg (Int.natCast_nonneg t) (Int.le_of_lt hts)
  have h2 : ((t : Int) + 1) * cfg.ts ≤ (n : Int) * cfg.ts := by
    apply Int.mul_le_mul_of_nonneg_right _ (Int.le_of_lt hts)
    omega
  have h3 : 0 < (n : Int) * cfg.ts := by
    have : (1 : Int) * cfg.ts ≤ (n : Int) * cfg.ts := Int.mul_le_mul_of_nonneg_right (by omega) (Int.le_of_lt hts)
    omega
  have h4 : ((t : Int) + 1) * cfg.ts = (t : Int) * cfg.ts + cfg.ts := by
    rw [Int.add_mul, Int.one_mul]
  have hx : xAt cfg tracks m (c + 1) = xAt cfg tracks m c + colW m c + (cfg.mh + ((n : Int) * cfg.ts + cfg.ns)) := by
    simp only [xAt, gap, hn]
    rw [if_pos h3]
  rw [hx]
  simp only [mpx]
  generalize (n : Int) * cfg.ts = A at *
  generalize (t : Int) * cfg.ts = B at *
  generalize ((t : Int) + 1) * cfg.ts = C at *
  constructor <;> omega

/-- nets of different wires that leave the same column have their vertical runs at different x: they never overlap -/
theorem mpx_inj (cfg : Cfg) (hts : 0 < cfg.ts) (srcX sw : Int) (t t' : Nat) (h : mpx cfg srcX sw t = mpx cfg srcX sw t') : t = t' := by
  simp only [mpx] at h
  have h1 : (t : Int) * cfg.ts = (t' : Int) * cfg.ts := by omega
  have := Int.eq_of_mul_eq_mul_right (Int.ne_of_gt hts) h1
  omega

end Schem.Track
