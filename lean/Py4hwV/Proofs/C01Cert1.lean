import Py4hwV.Emit.Cert
import Py4hwV.Proofs.C01FlatInst
import Py4hwV.Props.C08
import Py4hwV.Proofs.C01Gates
/-
  C01 design level: children with several leaves / several assigns (`GKind`): what their assigns read, and that each
  assign, evaluated on operands carrying the simulator's values, yields the simulator's value of its target whenever the
  child's leaves sit at their fixpoint (`gkind_just`).
-/
set_option linter.unusedSimpArgs false
namespace FlatM
open V C01

/-- the leaves of a child sit at their fixpoint under `V` -/
def LeavesFix (wd : Nat → Nat) (V : Nat → Nat) (ls : List CLeaf) : Prop :=
  ∀ c, c ∈ ls → ∀ of, of ∈ c.outs → V of.1 = Bits.put (wd of.1) (of.2 (c.ins.map V))

theorem LeavesFix.single {wd : Nat → Nat} {V : Nat → Nat} {ls : List CLeaf} (h : LeavesFix wd V ls) (p : Kind)
    (hp : p.leaf wd ∈ ls) : V p.out = Bits.put (wd p.out) ((p.leaf wd).py ((p.leaf wd).ins.map V)) := by
  have := h _ hp ((p.leaf wd).out, (p.leaf wd).py) (by rw [outs_single _ (FlatDesign.more_leaf wd p)]; simp)
  simpa [FlatDesign.out_leaf] using this

/-! ### what the leaves compute, over `Leaf.*` -/

theorem fix_and2 {wd : Nat → Nat} {V : Nat → Nat} {ls : List CLeaf} (h : LeavesFix wd V ls) (a b t : Nat)
    (hp : (Kind.and2 a b t).leaf wd ∈ ls) : V t = Leaf.and2 (wd t) (V a) (V b) := by
  have := h.single _ hp
  simp only [Kind.out, Kind.leaf, List.map, g_cons0, g_cons1] at this
  rw [this]; exact Leaf.gen_and2 (wd t) (V a) (V b)

theorem fix_or2 {wd : Nat → Nat} {V : Nat → Nat} {ls : List CLeaf} (h : LeavesFix wd V ls) (a b t : Nat)
    (hp : (Kind.or2 a b t).leaf wd ∈ ls) : V t = Leaf.or2 (wd t) (V a) (V b) := by
  have := h.single _ hp
  simp only [Kind.out, Kind.leaf, List.map, g_cons0, g_cons1] at this
  rw [this]; exact Leaf.gen_or2 (wd t) (V a) (V b)

theorem fix_not1 {wd : Nat → Nat} {V : Nat → Nat} {ls : List CLeaf} (h : LeavesFix wd V ls) (a r : Nat)
    (hp : (Kind.not1 a r).leaf wd ∈ ls) : V r = Leaf.not1 (wd r) (V a) := by
  have := h.single _ hp
  simp only [Kind.out, Kind.leaf, List.map, g_cons0] at this
  rw [this]; exact Leaf.gen_not (wd r) (V a)

/-- a Nand2 block: `r = not1 rw (and2 tw a b)` (`Lib.nand2`) -/
theorem fix_nand {wd : Nat → Nat} {V : Nat → Nat} {ls : List CLeaf} (h : LeavesFix wd V ls) (a b r t : Nat)
    (hp : ∀ c, c ∈ nandLeaves wd a b r t → c ∈ ls) : V r = Lib.nand2 (wd t) (wd r) (V a) (V b) := by
  rw [fix_not1 h t r (hp _ (by simp [nandLeaves])), fix_and2 h a b t (hp _ (by simp [nandLeaves]))]
  rfl

theorem not1_mod (rw tw x : Nat) (h : rw ≤ tw ∨ x < 2 ^ tw) : Leaf.not1 rw (x % 2 ^ tw) = Leaf.not1 rw x := by
  unfold Leaf.not1
  rcases h with h | h
  · rw [mod_mod_pow _ _ _ h]
  · rw [Nat.mod_eq_of_lt h]

/-! ### N-ary gates: Buf, or a ladder of And2 / Or2 -/

theorem fix_buf {wd : Nat → Nat} {V : Nat → Nat} {ls : List CLeaf} (h : LeavesFix wd V ls) (a r : Nat)
    (hp : (Kind.buf a r).leaf wd ∈ ls) : V r = Leaf.buf (wd r) (V a) := by
  have := h.single _ hp
  simp only [Kind.out, Kind.leaf, List.map, g_cons0] at this
  rw [this]; exact Leaf.gen_buf (wd r) (V a)

theorem fold_mod_congr (f : Nat → Nat → Nat) (hmod : ∀ p q w, f p q % 2 ^ w = f (p % 2 ^ w) (q % 2 ^ w) % 2 ^ w) (w : Nat)
    (l : List Nat) (p q : Nat) (h : p % 2 ^ w = q % 2 ^ w) : l.foldl f p % 2 ^ w = l.foldl f q % 2 ^ w := by
  induction l generalizing p q with
  | nil => exact h
  | cons x l ih =>
    simp only [List.foldl_cons]
    apply ih
    rw [hmod p x w, hmod q x w, h]

theorem ladder_val {wd : Nat → Nat} {V : Nat → Nat} {ls : List CLeaf} (mk : Nat → Nat → Nat → Kind) (f : Nat → Nat → Nat)
    (hleaf : ∀ a b o, (mk a b o).leaf wd ∈ ls → V o = f (V a) (V b) % 2 ^ wd o)
    (hmod : ∀ p q w, f p q % 2 ^ w = f (p % 2 ^ w) (q % 2 ^ w) % 2 ^ w) :
    ∀ (xs os : List Nat) (acc : Nat), os.length = xs.length → (∀ c, c ∈ ladderLeaves wd mk acc xs os → c ∈ ls) →
      ∀ r, os.getLast? = some r → (∀ o, o ∈ os → wd r ≤ wd o) →
      V r = (xs.foldl (fun p x => f p (V x)) (V acc)) % 2 ^ wd r := by
  intro xs
  induction xs with
  | nil =>
    intro os acc hlen _ r hr
    cases os with
    | nil => simp at hr
    | cons _ _ => simp at hlen
  | cons x xs ih =>
    intro os acc hlen hmem r hr hw
    cases os with
    | nil => simp at hlen
    | cons o os =>
      have ho := hleaf acc x o (hmem _ (by simp [ladderLeaves]))
      cases xs with
      | nil =>
        have : os = [] := by
          cases os with
          | nil => rfl
          | cons _ _ => simp at hlen
        subst this
        simp at hr
        subst hr
        simpa using ho
      | cons x' xs' =>
        have hos : os ≠ [] := by
          intro e; subst e; simp at hlen
        have hr' : os.getLast? = some r := by
          rw [List.getLast?_cons_of_ne_nil hos] at hr
          exact hr
        have := ih os o (by simpa using hlen) (fun c hc => hmem c (by simp [ladderLeaves, hc])) r hr'
          (fun o' ho' => hw o' (by simp [ho']))
        rw [this]
        simp only [List.foldl_cons]
        have h1 := fold_mod_congr f hmod (wd r) (xs'.map V) (f (V o) (V x')) (f (f (V acc) (V x)) (V x')) (by
          rw [hmod (V o), hmod (f (V acc) (V x)), ho, mod_mod_pow _ _ _ (hw o (by simp))])
        simpa [List.foldl_map] using h1

theorem gate_val {wd : Nat → Nat} {V : Nat → Nat} {ls : List CLeaf} (hfix : LeavesFix wd V ls) (mk : Nat → Nat → Nat → Kind)
    (f : Nat → Nat → Nat) (hleaf : ∀ a b o, (mk a b o).leaf wd ∈ ls → V o = f (V a) (V b) % 2 ^ wd o)
    (hmod : ∀ p q w, f p q % 2 ^ w = f (p % 2 ^ w) (q % 2 ^ w) % 2 ^ w)
    (a : Nat) (rest : List Nat) (r : Nat) (ts : List Nat)
    (hshape : ((a :: rest).length = 1 ∧ ts = []) ∨ ts.length + 2 = (a :: rest).length) (hw : ∀ t, t ∈ ts → wd r ≤ wd t)
    (hmem : ∀ c, c ∈ gateLeaves wd mk (a :: rest) r ts → c ∈ ls) :
    V r = (rest.foldl (fun p x => f p (V x)) (V a)) % 2 ^ wd r := by
  cases rest with
  | nil =>
    rw [fix_buf hfix a r (hmem _ (by simp [gateLeaves]))]
    rfl
  | cons x xs =>
    have hlen : ts.length = xs.length := by
      rcases hshape with ⟨h, _⟩ | h
      · simp at h
      · simp at h; omega
    exact ladder_val mk f hleaf hmod (x :: xs) (ts ++ [r]) a (by simp [hlen]) hmem r (by simp)
      (fun o ho => by
        simp only [List.mem_append, List.mem_singleton] at ho
        rcases ho with h | h
        · exact hw o h
        · subst h; exact Nat.le_refl _)

theorem and_hmod (p q w : Nat) : (p &&& q) % 2 ^ w = ((p % 2 ^ w) &&& (q % 2 ^ w)) % 2 ^ w := by
  rw [Nat.and_mod_two_pow, Nat.and_mod_two_pow, Nat.mod_mod, Nat.mod_mod]
theorem or_hmod (p q w : Nat) : (p ||| q) % 2 ^ w = ((p % 2 ^ w) ||| (q % 2 ^ w)) % 2 ^ w := by
  rw [Nat.or_mod_two_pow, Nat.or_mod_two_pow, Nat.mod_mod, Nat.mod_mod]

theorem reads_chainE (op : String) (ys : List String) (e : Expr) : ∀ n, n ∈ reads (chainE op e ys) ↔ (n ∈ reads e ∨ n ∈ ys) := by
  induction ys generalizing e with
  | nil => intro n; simp [chainE]
  | cons y ys ih =>
    intro n
    simp only [chainE, List.foldl_cons]
    have := ih (.bin op e (.id y)) n
    simp only [chainE] at this
    rw [this]
    simp [reads, or_assoc]

theorem reads_binChain (op : String) (l : List String) (hl : l ≠ []) : ∀ n, n ∈ reads (binChain op l) ↔ n ∈ l := by
  cases l with
  | nil => exact absurd rfl hl
  | cons x xs =>
    intro n
    rw [binChain_cons, reads_chainE]
    simp [reads]

theorem nary_ne {wd : Nat → Nat} {op : NOp} {ins : List Nat} {r : Nat} {ts : List Nat} {mid : Nat}
    (hok : (GKind.nary op ins r ts mid).okb wd = true) : ins ≠ [] := by
  intro e
  subst e
  cases op <;> simp [GKind.okb] at hok

/-! ### Bits leaves -/

theorem bitsLeaf_outs (f : Nat → List Nat → Int) (a : Nat) (bits : List Nat) (hnd : bits.Nodup) (c : CLeaf)
    (hc : c ∈ bitsLeaf f a bits) : c.ins = [a] ∧ c.outs = bits.zipIdx.map fun bi => (bi.1, f bi.2) := by
  cases bits with
  | nil => simp [bitsLeaf] at hc
  | cons b0 rest =>
    simp only [bitsLeaf, List.mem_singleton] at hc
    subst hc
    refine ⟨rfl, ?_⟩
    have e : ((b0, f 0) :: (rest.zipIdx 1).map fun bi => (bi.1, f bi.2)) = ((b0 :: rest).zipIdx).map fun bi => (bi.1, f bi.2) := by
      simp [List.zipIdx_cons]
    show dedupLast ((b0, f 0) :: (rest.zipIdx 1).map fun bi => (bi.1, f bi.2)) = _
    rw [e]
    apply dedupLast_of_nodup
    rw [List.map_map]
    have : ((fun x : Nat × (List Nat → Int) => x.1) ∘ fun bi : Nat × Nat => (bi.1, f bi.2)) = Prod.fst := rfl
    rw [this, List.zipIdx_map_fst]
    exact hnd

theorem bits_elem (aw va j : Nat) (hj : j < aw) :
    ((((Leaf.bits aw va).map fun (b : Nat) => (b : Int)).getD j 0) : Int) = (((va >>> j) % 2 : Nat) : Int) := by
  simp [Leaf.bits, List.getD_eq_getElem?_getD, hj]

theorem fix_bits (wd : Nat → Nat) (V : Nat → Nat) (f : Nat → List Nat → Int) (a : Nat) (bits : List Nat) (hnd : bits.Nodup)
    (hf : ∀ j, j < wd a → f j [V a] = (((V a >>> j) % 2 : Nat) : Int)) (hlen : bits.length = wd a)
    (hfix : LeavesFix wd V (bitsLeaf f a bits)) (j b : Nat) (hb : bits[j]? = some b) :
    V b = ((V a >>> j) % 2) % 2 ^ wd b := by
  have hj : j < bits.length := by
    rcases Nat.lt_or_ge j bits.length with h | h
    · exact h
    · rw [List.getElem?_eq_none h] at hb; cases hb
  have hne : bitsLeaf f a bits ≠ [] := by
    cases bits with
    | nil => simp at hj
    | cons _ _ => simp [bitsLeaf]
  obtain ⟨c, hc⟩ := List.exists_mem_of_ne_nil _ hne
  obtain ⟨hins, houts⟩ := bitsLeaf_outs f a bits hnd c hc
  have hmem : (b, f j) ∈ c.outs := by
    rw [houts]
    refine List.mem_map.mpr ⟨(b, j), ?_, rfl⟩
    rw [List.mem_iff_getElem?]
    exact ⟨j, by simp [List.getElem?_zipIdx, hb]⟩
  have := hfix c hc (b, f j) hmem
  simp only [hins, List.map] at this
  rw [this, hf j (by omega), Bits.put_ofNat]

theorem bitsFnL_val (aw va j : Nat) (hj : j < aw) : bitsFnL aw j [va] = (((va >>> j) % 2 : Nat) : Int) := by
  unfold bitsFnL
  rw [show g [va] 0 = (va : Int) from rfl, C08.gen_bitsLSBF]
  exact bits_elem aw va j hj

theorem bitsFnM_val (aw va j : Nat) (hj : j < aw) : bitsFnM aw j [va] = (((va >>> j) % 2 : Nat) : Int) := by
  unfold bitsFnM
  rw [show g [va] 0 = (va : Int) from rfl, C08.gen_bitsMSBF]
  exact bits_elem aw va j hj

theorem bitsAssigns_get (nm : Nat → String) (a : Nat) (bits : List Nat) (j : Nat) (as : LHS × Expr)
    (h : (bitsAssigns nm a bits)[j]? = some as) :
    ∃ b, bits[j]? = some b ∧ as.1 = .lid (nm b) ∧
      ((bits.length = 1 ∧ as.2 = .id (nm a)) ∨ (bits.length ≠ 1 ∧ as.2 = .idx (nm a) (FlatM.lit j))) := by
  by_cases h1 : bits.length = 1
  · match bits, h1 with
    | [b], _ =>
      simp only [bitsAssigns] at h
      cases j with
      | zero => simp at h; subst h; exact ⟨b, rfl, rfl, Or.inl ⟨rfl, rfl⟩⟩
      | succ j => simp at h
  · have e : bitsAssigns nm a bits = bits.zipIdx.map fun bi => (.lid (nm bi.1), .idx (nm a) (FlatM.lit bi.2)) := by
      match bits, h1 with
      | [], _ => rfl
      | [b], h1 => exact absurd rfl h1
      | _ :: _ :: _, _ => rfl
    rw [e, List.getElem?_map, List.getElem?_zipIdx] at h
    cases hb : bits[j]? with
    | none => rw [hb] at h; cases h
    | some b =>
      rw [hb] at h
      simp only [Option.map_some, Nat.zero_add, Option.some.injEq] at h
      subst h
      exact ⟨b, rfl, rfl, Or.inr ⟨h1, rfl⟩⟩

theorem just_bits (wd : Nat → Nat) (nm : Nat → String) (V : Nat → Nat) (f : Nat → List Nat → Int) (a : Nat) (bits : List Nat)
    (hnd : bits.Nodup) (hlen : bits.length = wd a) (h32 : wd a - 1 < 2 ^ 32)
    (hf : ∀ j, j < wd a → f j [V a] = (((V a >>> j) % 2 : Nat) : Int))
    (hfix : LeavesFix wd V (bitsLeaf f a bits)) (j : Nat) (as : LHS × Expr) (o : Nat)
    (ha : (bitsAssigns nm a bits)[j]? = some as) (ho : bits[j]? = some o) (r : Rd) (hK : Known r (nm a) (wd a) (V a)) :
    evalAssign r (wd o) as.2 = ⟨wd o, V o, true⟩ := by
  obtain ⟨b, hb, _, hform⟩ := bitsAssigns_get nm a bits j as ha
  have : b = o := by rw [hb] at ho; exact Option.some.inj ho
  subst this
  have hj : j < wd a := by
    rw [← hlen]
    rcases Nat.lt_or_ge j bits.length with h | h
    · exact h
    · rw [List.getElem?_eq_none h] at hb; cases hb
  rw [fix_bits wd V f a bits hnd hf hlen hfix j b hb]
  rcases hform with ⟨h1, e⟩ | ⟨_, e⟩
  · rw [e, inline_buf (wd b) hK]
    have hw1 : wd a = 1 := by omega
    have hj0 : j = 0 := by omega
    have hva : V a < 2 := by have := hK.lt; rw [hw1] at this; simpa using this
    subst hj0
    simp only [Leaf.buf, Nat.shiftRight_zero]
    rw [Nat.mod_eq_of_lt hva]
  · rw [e, lit_eq, inline_bit (wd b) j hj (by omega) hK]
    rfl

/-! ### every child: justification of its assigns -/

theorem okb_prim (wd : Nat → Nat) (p : Kind) (h : FlatSrc.Kind.okb wd p = true) : p.ok wd := by
  cases p <;> simp_all [FlatSrc.Kind.okb, Kind.ok]

theorem single_get {α : Type} (x : α) (j : Nat) (y : α) (h : [x][j]? = some y) : j = 0 ∧ y = x := by
  cases j with
  | zero => simp at h; exact ⟨rfl, h.symm⟩
  | succ j => simp at h

theorem gkind_just (wd : Nat → Nat) (nm : Nat → String) (k : GKind) (hok : k.okb wd = true) (V : Nat → Nat)
    (hfix : LeavesFix wd V (k.leaves wd)) (j : Nat) (a : LHS × Expr) (o : Nat)
    (ha : (k.assigns wd nm)[j]? = some a) (ho : k.outs[j]? = some o) (r : Rd)
    (hK : ∀ x, x ∈ k.ins wd → Known r (nm x) (wd x) (V x)) (hg : k.good V) :
    evalAssign r (wd o) a.2 = ⟨wd o, V o, true⟩ := by
  cases k with
  | dm isMod x y z =>
    obtain ⟨_, e1⟩ := single_get _ _ _ ha
    obtain ⟨_, e2⟩ := single_get _ _ _ ho
    subst e1 e2
    have hx := hK x (by simp [GKind.ins])
    have hy := hK y (by simp [GKind.ins])
    have hz : V y ≠ 0 := hg
    have hf := hfix _ (List.mem_singleton.mpr rfl) (o, _) (by rw [outs_single _ rfl]; exact List.mem_singleton.mpr rfl)
    simp only [List.map, g_cons0, g_cons1] at hf
    rw [hf]
    cases isMod with
    | true =>
      simp only [if_true]
      have := Leaf.gen_mod (wd o) (V x) (V y) hz
      simp only [Leaf.landed] at this
      rw [this]
      exact inline_mod (wd o) hx hy hz
    | false =>
      simp only [Bool.false_eq_true, if_false]
      have := Leaf.gen_div (wd o) (V x) (V y) hz
      simp only [Leaf.landed] at this
      rw [this]
      exact inline_div (wd o) hx hy hz
  | prim p =>
    obtain ⟨_, e1⟩ := single_get _ _ _ ha
    obtain ⟨_, e2⟩ := single_get _ _ _ ho
    subst e1 e2
    rw [hfix.single p (by simp [GKind.leaves])]
    exact kind_eval wd nm p (okb_prim wd p hok) r V hK
  | nary op ins z ts mid =>
    have hne := nary_ne hok
    obtain ⟨x, rest, e⟩ := List.exists_cons_of_ne_nil hne
    subst e
    have hKl : ∀ y, y ∈ (nm x, wd x, V x) :: (rest.map fun y => (nm y, wd y, V y)) → Known r y.1 y.2.1 y.2.2 := by
      intro y hy
      simp only [List.mem_cons, List.mem_map] at hy
      rcases hy with e | ⟨u, hu, e⟩
      · subst e; exact hK x (by simp [GKind.ins])
      · subst e; exact hK u (by simp [GKind.ins, hu])
    cases op with
    | and =>
      obtain ⟨_, e1⟩ := single_get _ _ _ ha
      obtain ⟨_, e2⟩ := single_get _ _ _ ho
      subst e1 e2
      simp only [GKind.okb, Bool.and_eq_true, decide_eq_true_eq, List.all_eq_true] at hok
      have hv := gate_val hfix Kind.and2 (· &&& ·) (fun a b o h => by rw [fix_and2 hfix a b o h]; rfl) and_hmod x rest o ts
        hok.1 hok.2 (fun c hc => hc)
      have ht := (evalAssign_chain "and" (· &&& ·) (by decide) (by decide) (by decide) (by intro W a b; simp [arith]) r (wd o)
        (nm x, wd x, V x) (rest.map fun y => (nm y, wd y, V y)) hKl).1
      simp only [List.map_cons, List.map_map, Function.comp_def, List.foldl_map] at ht
      show evalAssign r (wd o) (binChain "and" ((x :: rest).map nm)) = _
      rw [List.map_cons, ht, hv]
    | or =>
      obtain ⟨_, e1⟩ := single_get _ _ _ ha
      obtain ⟨_, e2⟩ := single_get _ _ _ ho
      subst e1 e2
      simp only [GKind.okb, Bool.and_eq_true, decide_eq_true_eq, List.all_eq_true] at hok
      have hv := gate_val hfix Kind.or2 (· ||| ·) (fun a b o h => by rw [fix_or2 hfix a b o h]; rfl) or_hmod x rest o ts
        hok.1 hok.2 (fun c hc => hc)
      have ht := (evalAssign_chain "or" (· ||| ·) (by decide) (by decide) (by decide) (by intro W a b; simp [arith]) r (wd o)
        (nm x, wd x, V x) (rest.map fun y => (nm y, wd y, V y)) hKl).1
      simp only [List.map_cons, List.map_map, Function.comp_def, List.foldl_map] at ht
      show evalAssign r (wd o) (binChain "or" ((x :: rest).map nm)) = _
      rw [List.map_cons, ht, hv]
    | nor =>
      obtain ⟨_, e1⟩ := single_get _ _ _ ha
      obtain ⟨_, e2⟩ := single_get _ _ _ ho
      subst e1 e2
      simp only [GKind.okb, Bool.and_eq_true, decide_eq_true_eq, List.all_eq_true] at hok
      have hfix' : LeavesFix wd V (gateLeaves wd Kind.or2 (x :: rest) mid ts ++ [(Kind.not1 mid o).leaf wd]) := hfix
      have hv := gate_val hfix' Kind.or2 (· ||| ·) (fun a b o h => by rw [fix_or2 hfix' a b o h]; rfl) or_hmod x rest mid ts
        hok.1.1 hok.1.2 (fun c hc => by simp [hc])
      have hr := fix_not1 hfix' mid o (by simp)
      have ht := evalAssign_notchain r (wd o) (nm x, wd x, V x) (rest.map fun y => (nm y, wd y, V y)) hKl
      simp only [List.map_cons, List.map_map, Function.comp_def, List.foldl_map] at ht
      show evalAssign r (wd o) (.un "not" (binChain "or" ((x :: rest).map nm))) = _
      rw [List.map_cons, ht, hr, hv, not1_mod _ _ _ (Or.inl hok.2)]
  | bitsL x bits =>
    simp only [GKind.okb, Bool.and_eq_true, decide_eq_true_eq, Bool.not_eq_true', List.contains_eq_mem, decide_eq_false_iff_not] at hok
    exact just_bits wd nm V (bitsFnL (wd x)) x bits hok.1.1.1.2 hok.1.1.1.1 hok.2
      (fun j hj => bitsFnL_val (wd x) (V x) j hj) hfix j a o ha ho r (hK x (by simp [GKind.ins]))
  | bitsM x bits =>
    simp only [GKind.okb, Bool.and_eq_true, decide_eq_true_eq, Bool.not_eq_true', List.contains_eq_mem, decide_eq_false_iff_not] at hok
    exact just_bits wd nm V (bitsFnM (wd x)) x bits hok.1.1.1.2 hok.1.1.1.1 hok.2
      (fun j hj => bitsFnM_val (wd x) (V x) j hj) hfix j a o ha ho r (hK x (by simp [GKind.ins]))
  | nand2 x y z t =>
    obtain ⟨_, e1⟩ := single_get _ _ _ ha
    obtain ⟨_, e2⟩ := single_get _ _ _ ho
    subst e1 e2
    have hx := hK x (by simp [GKind.ins])
    have hy := hK y (by simp [GKind.ins])
    rw [inline_nand2 (wd o) hx hy, fix_nand hfix x y o t (fun c hc => hc)]
    simp only [GKind.okb, Bool.or_eq_true, decide_eq_true_eq] at hok
    congr 1
    unfold Lib.nand2 Leaf.and2
    rw [not1_mod]
    rcases hok with h | h
    · right
      exact Nat.lt_of_le_of_lt Nat.and_le_left (Nat.lt_of_lt_of_le hx.lt (Nat.pow_le_pow_right (by decide) h))
    · left; exact h
  | nor2 x y z t =>
    obtain ⟨_, e1⟩ := single_get _ _ _ ha
    obtain ⟨_, e2⟩ := single_get _ _ _ ho
    subst e1 e2
    have hx := hK x (by simp [GKind.ins])
    have hy := hK y (by simp [GKind.ins])
    simp only [GKind.okb, decide_eq_true_eq] at hok
    rw [inline_nor2 (wd o) hx hy, fix_not1 hfix t o (by simp [GKind.leaves]), fix_or2 hfix x y t (by simp [GKind.leaves])]
    congr 1
    unfold Leaf.or2
    rw [not1_mod _ _ _ (Or.inl hok)]
  | xor2 x y z mid xo yo m0 m1 m2 m3 =>
    obtain ⟨_, e1⟩ := single_get _ _ _ ha
    obtain ⟨_, e2⟩ := single_get _ _ _ ho
    subst e1 e2
    have hx := hK x (by simp [GKind.ins])
    have hy := hK y (by simp [GKind.ins])
    simp only [GKind.okb, Bool.and_eq_true, decide_eq_true_eq] at hok
    obtain ⟨⟨⟨⟨⟨⟨w1, w2⟩, w3⟩, w4⟩, w5⟩, w6⟩, w7⟩ := hok
    have hmid := fix_nand hfix x y mid m0 (fun c hc => by simp only [GKind.leaves, List.mem_append]; exact Or.inl hc)
    have hxo := fix_nand hfix x mid xo m1 (fun c hc => by simp only [GKind.leaves, List.mem_append]; exact Or.inr (Or.inl hc))
    have hyo := fix_nand hfix y mid yo m2 (fun c hc => by simp only [GKind.leaves, List.mem_append]; exact Or.inr (Or.inr (Or.inl hc)))
    have hr := fix_nand hfix xo yo o m3 (fun c hc => by simp only [GKind.leaves, List.mem_append]; exact Or.inr (Or.inr (Or.inr hc)))
    rw [inline_xor2 (wd o) hx hy]
    congr 1
    rw [hr, hxo, hyo, hmid, w1, w2, w3, w4, w5, w6, w7]
    exact (C08.xor2_val (wd x) (wd y) (wd o) (V x) (V y) hx.lt hy.lt).symm

/-- the assigns of a child read only its named inputs … -/
theorem gkind_reads_sub (wd : Nat → Nat) (nm : Nat → String) (k : GKind) (j : Nat) (a : LHS × Expr)
    (ha : (k.assigns wd nm)[j]? = some a) : ∀ n, n ∈ reads a.2 → ∃ x, x ∈ k.ins wd ∧ n = nm x := by
  intro n hn
  cases k with
  | prim p =>
    obtain ⟨_, e1⟩ := single_get _ _ _ ha
    subst e1
    rcases List.mem_map.mp (FlatDesign.reads_rhs_sub wd nm p n hn) with ⟨x, hx, e⟩
    exact ⟨x, hx, e.symm⟩
  | dm isMod x y z =>
    obtain ⟨_, e1⟩ := single_get _ _ _ ha
    subst e1
    simp [reads] at hn
    rcases hn with h | h
    · exact ⟨x, by simp [GKind.ins], h⟩
    · exact ⟨y, by simp [GKind.ins], h⟩
  | nary op ins z ts mid =>
    cases op <;>
    · obtain ⟨_, e1⟩ := single_get _ _ _ ha
      subst e1
      cases ins with
      | nil => simp [binChain, reads, FlatM.lit] at hn
      | cons u us =>
        simp only [reads] at hn
        rw [reads_binChain _ _ (by simp)] at hn
        rcases List.mem_map.mp hn with ⟨x, hx, e⟩
        exact ⟨x, hx, e.symm⟩
  | bitsL x bits =>
    obtain ⟨b, _, _, hf⟩ := bitsAssigns_get nm x bits j a ha
    rcases hf with ⟨_, e⟩ | ⟨_, e⟩ <;> rw [e] at hn <;> simp [reads, FlatM.lit] at hn <;> exact ⟨x, by simp [GKind.ins], hn⟩
  | bitsM x bits =>
    obtain ⟨b, _, _, hf⟩ := bitsAssigns_get nm x bits j a ha
    rcases hf with ⟨_, e⟩ | ⟨_, e⟩ <;> rw [e] at hn <;> simp [reads, FlatM.lit] at hn <;> exact ⟨x, by simp [GKind.ins], hn⟩
  | nand2 x y z t =>
    obtain ⟨_, e1⟩ := single_get _ _ _ ha
    subst e1
    simp [reads] at hn
    rcases hn with h | h
    · exact ⟨x, by simp [GKind.ins], h⟩
    · exact ⟨y, by simp [GKind.ins], h⟩
  | nor2 x y z t =>
    obtain ⟨_, e1⟩ := single_get _ _ _ ha
    subst e1
    simp [reads] at hn
    rcases hn with h | h
    · exact ⟨x, by simp [GKind.ins], h⟩
    · exact ⟨y, by simp [GKind.ins], h⟩
  | xor2 x y z mid xo yo m0 m1 m2 m3 =>
    obtain ⟨_, e1⟩ := single_get _ _ _ ha
    subst e1
    simp [reads] at hn
    rcases hn with h | h
    · exact ⟨x, by simp [GKind.ins], h⟩
    · exact ⟨y, by simp [GKind.ins], h⟩

/-- … and all of them -/
theorem gkind_reads_sup (wd : Nat → Nat) (nm : Nat → String) (k : GKind) (hok : k.okb wd = true) (j : Nat) (a : LHS × Expr)
    (ha : (k.assigns wd nm)[j]? = some a) : ∀ x, x ∈ k.ins wd → nm x ∈ reads a.2 := by
  intro x hx
  cases k with
  | prim p =>
    obtain ⟨_, e1⟩ := single_get _ _ _ ha
    subst e1
    exact FlatDesign.reads_rhs_sup wd nm p (okb_prim wd p hok) x hx
  | dm isMod u v z =>
    obtain ⟨_, e1⟩ := single_get _ _ _ ha
    subst e1
    simp [GKind.ins] at hx
    rcases hx with h | h <;> subst h <;> simp [reads]
  | nary op ins z ts mid =>
    have hne := nary_ne hok
    cases op <;>
    · obtain ⟨_, e1⟩ := single_get _ _ _ ha
      subst e1
      simp only [reads]
      rw [reads_binChain _ _ (by simpa using hne)]
      exact List.mem_map.mpr ⟨x, hx, rfl⟩
  | bitsL y bits =>
    obtain ⟨b, _, _, hf⟩ := bitsAssigns_get nm y bits j a ha
    have : x = y := by simpa [GKind.ins] using hx
    subst this
    rcases hf with ⟨_, e⟩ | ⟨_, e⟩ <;> rw [e] <;> simp [reads]
  | bitsM y bits =>
    obtain ⟨b, _, _, hf⟩ := bitsAssigns_get nm y bits j a ha
    have : x = y := by simpa [GKind.ins] using hx
    subst this
    rcases hf with ⟨_, e⟩ | ⟨_, e⟩ <;> rw [e] <;> simp [reads]
  | nand2 u v z t =>
    obtain ⟨_, e1⟩ := single_get _ _ _ ha
    subst e1
    simp [GKind.ins] at hx
    rcases hx with h | h <;> subst h <;> simp [reads]
  | nor2 u v z t =>
    obtain ⟨_, e1⟩ := single_get _ _ _ ha
    subst e1
    simp [GKind.ins] at hx
    rcases hx with h | h <;> subst h <;> simp [reads]
  | xor2 u v z mid xo yo m0 m1 m2 m3 =>
    obtain ⟨_, e1⟩ := single_get _ _ _ ha
    subst e1
    simp [GKind.ins] at hx
    rcases hx with h | h <;> subst h <;> simp [reads]

end FlatM
