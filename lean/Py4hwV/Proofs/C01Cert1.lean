import Py4hwV.Emit.Cert
import Py4hwV.Proofs.C01FlatInst
import Py4hwV.Props.C08
import Py4hwV.Proofs.C01Gates
/-
  C01 design level: children with several leaves / several assigns (`GKind`): what their assigns read, and that each
  assign, evaluated on operands carrying the simulator's values, yields the simulator's value of its target whenever the
  child's leaves sit at their fixpoint (`gkind_just`).
-/
set_option linter.unusedSimpArgs false
namespace FlatM
open V C01

/-- the leaves of a child sit at their fixpoint under `V` -/
def LeavesFix (wd : Nat → Nat) (V : Nat → Nat) (ls : List CLeaf) : Prop :=
  ∀ c, c ∈ ls → ∀ of, of ∈ c.outs → V of.1 = Bits.put (wd of.1) (of.2 (c.ins.map V))

theorem LeavesFix.single {wd : Nat → Nat} {V : Nat → Nat} {ls : List CLeaf} (h : LeavesFix wd V ls) (p : Kind)
    (hp : p.leaf wd ∈ ls) : V p.out = Bits.put (wd p.out) ((p.leaf wd).py ((p.leaf wd).ins.map V)) := by
  have := h _ hp ((p.leaf wd).out, (p.leaf wd).py) (by rw [outs_single _ (FlatDesign.more_leaf wd p)]; simp)
  simpa [FlatDesign.out_leaf] using this

/-! ### what the leaves compute, over `Leaf.*` -/

theorem fix_and2 {wd : Nat → Nat} {V : Nat → Nat} {ls : List CLeaf} (h : LeavesFix wd V ls) (a b t : Nat)
    (hp : (Kind.and2 a b t).leaf wd ∈ ls) : V t = Leaf.and2 (wd t) (V a) (V b) := by
  have := h.single _ hp
  simp only [Kind.out, Kind.leaf, List.map, g_cons0, g_cons1] at this
  rw [this]; exact Leaf.gen_and2 (wd t) (V a) (V b)

theorem fix_or2 {wd : Nat → Nat} {V : Nat → Nat} {ls : List CLeaf} (h : LeavesFix wd V ls) (a b t : Nat)
    (hp : (Kind.or2 a b t).leaf wd ∈ ls) : V t = Leaf.or2 (wd t) (V a) (V b) := by
  have := h.single _ hp
  simp only [Kind.out, Kind.leaf, List.map, g_cons0, g_cons1] at this
  rw [this]; exact Leaf.gen_or2 (wd t) (V a) (V b)

theorem fix_not1 {wd : Nat → Nat} {V : Nat → Nat} {ls : List CLeaf} (h : LeavesFix wd V ls) (a r : Nat)
    (hp : (Kind.not1 a r).leaf wd ∈ ls) : V r = Leaf.not1 (wd r) (V a) := by
  have := h.single _ hp
  simp only [Kind.out, Kind.leaf, List.map, g_cons0] at this
  rw [this]; exact Leaf.gen_not (wd r) (V a)

/-- a Nand2 block: `r = not1 rw (and2 tw a b)` (`Lib.nand2`) -/
theorem fix_nand {wd : Nat → Nat} {V : Nat → Nat} {ls : List CLeaf} (h : LeavesFix wd V ls) (a b r t : Nat)
    (hp : ∀ c, c ∈ nandLeaves wd a b r t → c ∈ ls) : V r = Lib.nand2 (wd t) (wd r) (V a) (V b) := by
  rw [fix_not1 h t r (hp _ (by simp [nandLeaves])), fix_and2 h a b t (hp _ (by simp [nandLeaves]))]
  rfl

theorem not1_mod (rw tw x : Nat) (h : rw ≤ tw ∨ x < 2 ^ tw) : Leaf.not1 rw (x % 2 ^ tw) = Leaf.not1 rw x := by
  unfold Leaf.not1
  rcases h with h | h
  · rw [mod_mod_pow _ _ _ h]
  · rw [Nat.mod_eq_of_lt h]

/-! ### N-ary gates: Buf, or a ladder of And2 / Or2 -/

theorem fix_buf {wd : Nat → Nat} {V : Nat → Nat} {ls : List CLeaf} (h : LeavesFix wd V ls) (a r : Nat)
    (hp : (Kind.buf a r).leaf wd ∈ ls) : V r = Leaf.buf (wd r) (V a) := by
  have := h.single _ hp
  simp only [Kind.out, Kind.leaf, List.map, g_cons0] at this
  rw [this]; exact Leaf.gen_buf (wd r) (V a)

theorem fold_mod_congr (f : Nat → Nat → Nat) (hmod : ∀ p q w, f p q % 2 ^ w = f (p % 2 ^ w) (q % 2 ^ w) % 2 ^ w) (w : Nat)
    (l : List Nat) (p q : Nat) (h : p % 2 ^ w = q % 2 ^ w) : l.foldl f p % 2 ^ w = l.foldl f q % 2 ^ w := by
  induction l generalizing p q with
  | nil => exact h
  | cons x l ih =>
    simp only [List.foldl_cons]
    apply ih
    rw [hmod p x w, hmod q x w, h]

theorem ladder_val {wd : Nat → Nat} {V : Nat → Nat} {ls : List CLeaf} (mk : Nat → Nat → Nat → Kind) (f : Nat → Nat → Nat)
    (hleaf : ∀ a b o, (mk a b o).leaf wd ∈ ls → V o = f (V a) (V b) % 2 ^ wd o)
    (hmod : ∀ p q w, f p q % 2 ^ w = f (p % 2 ^ w) (q % 2 ^ w) % 2 ^ w) :
    ∀ (xs os : List Nat) (acc : Nat), os.length = xs.length → (∀ c, c ∈ ladderLeaves wd mk acc xs os → c ∈ ls) →
      ∀ r, os.getLast? = some r → (∀ o, o ∈ os → wd r ≤ wd o) →
      V r = (xs.foldl (fun p x => f p (V x)) (V acc)) % 2 ^ wd r := by
  intro xs
  induction xs with
  | nil =>
    intro os acc hlen _ r hr
    cases os with
    | nil => simp at hr
    | cons _ _ => simp at hlen
  | cons x xs ih =>
    intro os acc hlen hmem r hr hw
    cases os with
    | nil => simp at hlen
    | cons o os =>
      have ho := hleaf acc x o (hmem _ (by simp [ladderLeaves]))
      cases xs with
      | nil =>
        have : os = [] := by
          cases os with
          | nil => rfl
          | cons _ _ => simp at hlen
        subst this
        simp at hr
        subst hr
        simpa using ho
      | cons x' xs' =>
        have hos : os ≠ [] := by
          intro e; subst e; simp at hlen
        have hr' : os.getLast? = some r := by
          rw [List.getLast?_cons_of_ne_nil hos] at hr
          exact hr
        have := ih os o (by simpa using hlen) (fun c hc => hmem c (by simp [ladderLeaves, hc])) r hr'
          (fun o' ho' => hw o' (by simp [ho']))
        rw [this]
        simp only [List.foldl_cons]
        have h1 := fold_mod_congr f hmod (wd r) (xs'.map V) (f (V o) (V x')) (f (f (V acc) (V x)) (V x')) (by
          rw [hmod (V o), hmod (f (V acc) (V x)), ho, mod_mod_pow _ _ _ (hw o (by simp))])
        simpa [List.foldl_map] using h1

theorem gate_val {wd : Nat → Nat} {V : Nat → Nat} {ls : List CLeaf} (hfix : LeavesFix wd V ls) (mk : Nat → Nat → Nat → Kind)
    (f : Nat → Nat → Nat) (hleaf : ∀ a b o, (mk a b o).leaf wd ∈ ls → V o = f (V a) (V b) % 2 ^ wd o)
    (hmod : ∀ p q w, f p q % 2 ^ w = f (p % 2 ^ w) (q % 2 ^ w) % 2 ^ w)
    (a : Nat) (rest : List Nat) (r : Nat) (ts : List Nat)
    (hshape : ((a :: rest).length = 1 ∧ ts = []) ∨ ts.length + 2 = (a :: rest).length) (hw : ∀ t, t ∈ ts → wd r ≤ wd t)
    (hmem : ∀ c, c ∈ gateLeaves wd mk (a :: rest) r ts → c ∈ ls) :
    V r = (rest.foldl (fun p x => f p (V x)) (V a)) % 2 ^ wd r := by
  cases rest with
  | nil =>
    rw [fix_buf hfix a r (hmem _ (by simp [gateLeaves]))]
    rfl
  | cons x xs =>
    have hlen : ts.length = xs.length := by
      rcases hshape with ⟨h, _⟩ | h
      · simp at h
      · simp at h; omega
    exact ladder_val mk f hleaf hmod (x :: xs) (ts ++ [r]) a (by simp [hlen]) hmem r (by simp)
      (fun o ho => by
        simp only [List.mem_append, List.mem_singleton] at ho
        rcases ho with h | h
        · exact hw o h
        · subst h; exact Nat.le_refl _)

theorem and_hmod (p q w : Nat) : (p &&& q) % 2 ^ w = ((p % 2 ^ w) &&& (q % 2 ^ w)) % 2 ^ w := by
  rw [Nat.and_mod_two_pow, Nat.and_mod_two_pow, Nat.mod_mod, Nat.mod_mod]
theorem or_hmod (p q w : Nat) : (p ||| q) % 2 ^ w = ((p % 2 ^ w) ||| (q % 2 ^ w)) % 2 ^ w := by
  rw [Nat.or_mod_two_pow, Nat.or_mod_two_pow, Nat.mod_mod, Nat.mod_mod]

theorem reads_chainE (op : String) (ys : List String) (e : Expr) : ∀ n, n ∈ reads (chainE op e ys) ↔ (n ∈ reads e ∨ n ∈ ys) := by
  induction ys generalizing e with
  | nil => intro n; simp [chainE]
  | cons y ys ih =>
    intro n
    simp only [chainE, List.foldl_cons]
    have := ih (.bin op e (.id y)) n
    simp only [chainE] at this
    rw [this]
    simp [reads, or_assoc]

theorem reads_binChain (op : String) (l : List String) (hl : l ≠ []) : ∀ n, n ∈ reads (binChain op l) ↔ n ∈ l := by
  cases l with
  | nil => exact absurd rfl hl
  | cons x xs =>
    intro n
    rw [binChain_cons, reads_chainE]
    simp [reads]

theorem nary_ne {wd : Nat → Nat} {op : NOp} {ins : List Nat} {r : Nat} {ts : List Nat} {mid : Nat}
    (hok : (GKind.nary op ins r ts mid).okb wd = true) : ins ≠ [] := by
  intro e
  subst e
  cases op <;> simp [GKind.okb] at hok

/-! ### Bits leaves -/

theorem bitsLeaf_outs (f : Nat → List Nat → Int) (a : Nat) (bits : List Nat) (hnd : bits.Nodup) (c : CLeaf)
    (hc : c ∈ bitsLeaf f a bits) : c.ins = [a] ∧ c.outs = bits.zipIdx.map fun bi => (bi.1, f bi.2) := by
  cases bits with
  | nil => simp [bitsLeaf] at hc
  | cons b0 rest =>
    simp only [bitsLeaf, List.mem_singleton] at hc
    subst hc
    refine ⟨rfl, ?_⟩
    have e : ((b0, f 0) :: (rest.zipIdx 1).map fun bi => (bi.1, f bi.2)) = ((b0 :: rest).zipIdx).map fun bi => (bi.1, f bi.2) := by
      simp [List.zipIdx_cons]
    show dedupLast ((b0, f 0) :: (rest.zipIdx 1).map fun bi => (bi.1, f bi.2)) = _
    rw [e]
    apply dedupLast_of_nodup
    rw [List.map_map]
    have : ((fun x : Nat × (List Nat → Int) => x.1) ∘ fun bi : Nat × Nat => (bi.1, f bi.2)) = Prod.fst := rfl
    rw [this, List.zipIdx_map_fst]
    exact hnd

theorem bits_elem (aw va j : Nat) (hj : j < aw) :
    ((((Leaf.bits aw va).map fun (b : Nat) => (b : Int)).getD j 0) : Int) = (((va >>> j) % 2 : Nat) : Int) := by
  simp [Leaf.bits, List.getD_eq_getElem?_getD, hj]

theorem fix_bits (wd : Nat → Nat) (V : Nat → Nat) (f : Nat → List Nat → Int) (a : Nat) (bits : List Nat) (hnd : bits.Nodup)
    (hf : ∀ j, j < wd a → f j [V a] = (((V a >>> j) % 2 : Nat) : Int)) (hlen : bits.length = wd a)
    (hfix : LeavesFix wd V (bitsLeaf f a bits)) (j b : Nat) (hb : bits[j]? = some b) :
    V b = ((V a >>> j) % 2) % 2 ^ wd b := by
  have hj : j < bits.length := by
    rcases Nat.lt_or_ge j bits.length with h | h
    · exact h
    · rw [List.getElem?_eq_none h] at hb; cases hb
  have hne : bitsLeaf f a bits ≠ [] := by
    cases bits with
    | nil => simp at hj
    | cons _ _ => simp [bitsLeaf]
  obtain ⟨c, hc⟩ := List.exists_mem_of_ne_nil _ hne
  obtain ⟨hins, houts⟩ := bitsLeaf_outs f a bits hnd c hc
  have hmem : (b, f j) ∈ c.outs := by
    rw [houts]
    refine List.mem_map.mpr ⟨(b, j), ?_, rfl⟩
    rw [List.mem_iff_getElem?]
    exact ⟨j, by simp [List.getElem?_zipIdx, hb]⟩
  have := hfix c hc (b, f j) hmem
  simp only [hins, List.map] at this
  rw [this, hf j (by omega), Bits.put_ofNat]

theorem bitsFnL_val (aw va j : Nat) (hj : j < aw) : bitsFnL aw j [va] = (((va >>> j) % 2 : Nat) : Int) := by
  unfold bitsFnL
  rw [show g [va] 0 = (va : Int) from rfl, C08.gen_bitsLSBF]
  exact bits_elem aw va j hj

theorem bitsFnM_val (aw va j : Nat) (hj : j < aw) : bitsFnM aw j [va] = (((va >>> j) % 2 : Nat) : Int) := by
  unfold bitsFnM
  rw [show g [va] 0 = (va : Int) from rfl, C08.gen_bitsMSBF]
  exact bits_elem aw va j hj

theorem bitsAssigns_get (nm : Nat → String) (a : Nat) (bits : List Nat) (j : Nat) (as : LHS × Expr)
    (h : (bitsAssigns nm a bits)[j]? = some as) :
    ∃ b, bits[j]? = some b ∧ as.1 = .lid (nm b) ∧
      ((bits.length = 1 ∧ as.2 = .id (nm a)) ∨ (bits.length ≠ 1 ∧ as.2 = .idx (nm a) (FlatM.lit j))) := by
  by_cases h1 : bits.length = 1
  · match bits, h1 with
    | [b], _ =>
      simp only [bitsAssigns] at h
      cases j with
      | zero => simp at h; subst h; exact ⟨b, rfl, rfl, Or.inl ⟨rfl, rfl⟩⟩
      | succ j => simp at h
  · have e : bitsAssigns nm a bits = bits.zipIdx.map fun bi => (.lid (nm bi.1), .idx (nm a) (FlatM.lit bi.2)) := by
      match bits, h1 with
      | [], _ => rfl
      | [b], h1 => exact absurd rfl h1
      | _ :: _ :: _, _ => rfl
    rw [e, List.getElem?_map, List.getElem?_zipIdx] at h
    cases hb : bits[j]? with
    | none => rw [hb] at h; cases h
    | some b =>
      rw [hb] at h
      simp only [Option.map_some, Nat.zero_add, Option.some.injEq] at h
      subst h
      exact ⟨b, rfl, rfl, Or.inr ⟨h1, rfl⟩⟩

theorem just_bits (wd : Nat → Nat) (nm : Nat → String) (V : Nat → Nat) (f : Nat → List Nat → Int) (a : Nat) (bits : List Nat)
    (hnd : bits.Nodup) (hlen : bits.length = wd a) (h32 : wd a - 1 < 2 ^ 32)
    (hf : ∀ j, j < wd a → f j [V a] = (((V a >>> j) % 2 : Nat) : Int))
    (hfix : LeavesFix wd V (bitsLeaf f a bits)) (j : Nat) (as : LHS × Expr) (o : Nat)
    (ha : (bitsAssigns nm a bits)[j]? = some as) (ho : bits[j]? = some o) (r : Rd) (hK : Known r (nm a) (wd a) (V a)) :
    evalAssign r (wd o) as.2 = ⟨wd o, V o, true⟩ := by
  obtain ⟨b, hb, _, hform⟩ := bitsAssigns_get nm a bits j as ha
  have : b = o := by rw [hb] at ho; exact Option.some.inj ho
  subst this
  have hj : j < wd a := by
    rw [← hlen]
    rcases Nat.lt_or_ge j bits.length with h | h
    · exact h
    · rw [List.getElem?_eq_none h] at hb; cases hb
  rw [fix_bits wd V f a bits hnd hf hlen hfix j b hb]
  rcases hform with ⟨h1, e⟩ | ⟨_, e⟩
  · rw [e, inline_buf (wd b) hK]
    have hw1 : wd a = 1 := by omega
    have hj0 : j = 0 := by omega
    have hva : V a < 2 := by have := hK.lt; rw [hw1] at this; simpa using this
    subst hj0
    simp only [Leaf.buf, Nat.shiftRight_zero]
    rw [Nat.mod_eq_of_lt hva]
  · rw [e, lit_eq, inline_bit (wd b) j hj (by omega) hK]
    rfl

/-! ### Xor2, Equal, EqualConstant -/

theorem fix_xor2 {wd : Nat → Nat} {V : Nat → Nat} {ls : List CLeaf} (hfix : LeavesFix wd V ls)
    (a b r mid x y m0 m1 m2 m3 : Nat) (hmem : ∀ c, c ∈ xorLeaves wd a b r mid x y m0 m1 m2 m3 → c ∈ ls)
    (w1 : wd mid = wd r) (w2 : wd x = wd r) (w3 : wd y = wd r) (w4 : wd m0 = wd a) (w5 : wd m1 = wd a) (w6 : wd m2 = wd b)
    (w7 : wd m3 = wd r) (ha : V a < 2 ^ wd a) (hb : V b < 2 ^ wd b) : V r = (V a ^^^ V b) % 2 ^ wd r := by
  have hmid := fix_nand hfix a b mid m0 (fun c hc => hmem c (by simp only [xorLeaves, List.mem_append]; exact Or.inl hc))
  have hxo := fix_nand hfix a mid x m1 (fun c hc => hmem c (by simp only [xorLeaves, List.mem_append]; exact Or.inr (Or.inl hc)))
  have hyo := fix_nand hfix b mid y m2 (fun c hc => hmem c (by simp only [xorLeaves, List.mem_append]; exact Or.inr (Or.inr (Or.inl hc))))
  have hr := fix_nand hfix x y r m3 (fun c hc => hmem c (by simp only [xorLeaves, List.mem_append]; exact Or.inr (Or.inr (Or.inr hc))))
  rw [hr, hxo, hyo, hmid, w1, w2, w3, w4, w5, w6, w7]
  exact C08.xor2_val (wd a) (wd b) (wd r) (V a) (V b) ha hb

theorem mem_getElem? {α : Type} (l : List α) (x : α) (h : x ∈ l) : ∃ j : Nat, l[j]? = some x := by
  obtain ⟨j, hj, e⟩ := List.mem_iff_getElem.mp h
  exact ⟨j, by rw [List.getElem?_eq_getElem hj, e]⟩

theorem not1_one (x : Nat) (hx : x < 2) : Leaf.not1 1 x = if x = 0 then 1 else 0 := by
  rcases lt2 hx with e | e <;> subst e <;> decide

theorem equal_val {wd : Nat → Nat} {V : Nat → Nat} {ls : List CLeaf} (hfix : LeavesFix wd V ls)
    (a b r xr mid x y m0 m1 m2 m3 : Nat) (bits ts : List Nat) (nmid : Nat)
    (hok : (GKind.equal a b r xr mid x y m0 m1 m2 m3 bits ts nmid).okb wd = true)
    (hmem : ∀ c, c ∈ (GKind.equal a b r xr mid x y m0 m1 m2 m3 bits ts nmid).leaves wd → c ∈ ls)
    (ha : V a < 2 ^ wd a) (hb : V b < 2 ^ wd b) : V r = if V a = V b then 1 else 0 := by
  simp only [GKind.okb, Bool.and_eq_true, decide_eq_true_eq] at hok
  obtain ⟨⟨⟨⟨hab, hr1⟩, hxa⟩, ⟨⟨⟨⟨⟨⟨w1, w2⟩, w3⟩, w4⟩, w5⟩, w6⟩, w7⟩⟩, hrest⟩ := hok
  have hxr := fix_xor2 hfix a b xr mid x y m0 m1 m2 m3
    (fun c hc => hmem c (by simp only [GKind.leaves, List.mem_append]; exact Or.inl hc)) w1 w2 w3 w4 w5 w6 w7 ha hb
  have hxlt : V a ^^^ V b < 2 ^ wd xr := by
    rw [hxa]; exact Nat.xor_lt_two_pow ha (hab ▸ hb)
  rw [Nat.mod_eq_of_lt hxlt] at hxr
  by_cases hbits : bits = []
  · rw [if_pos hbits] at hrest
    simp only [decide_eq_true_eq] at hrest
    have hnot := fix_not1 hfix xr r (hmem _ (by simp [GKind.leaves, hbits]))
    rw [hnot, hr1, hxr]
    have ha2 : V a < 2 := by rw [hrest] at ha; simpa using ha
    have hb2 : V b < 2 := by rw [← hab, hrest] at hb; simpa using hb
    rcases lt2 ha2 with e | e <;> rcases lt2 hb2 with e' | e' <;> rw [e, e'] <;> decide
  · rw [if_neg hbits] at hrest
    simp only [Bool.and_eq_true, decide_eq_true_eq, List.all_eq_true, Bool.not_eq_true', List.contains_eq_mem,
      decide_eq_false_iff_not] at hrest
    obtain ⟨⟨⟨⟨⟨⟨⟨hlen, hnd⟩, _⟩, _⟩, hb1⟩, hshape⟩, hts⟩, hnm⟩ := hrest
    have hsub : ∀ c, c ∈ bitsLeaf (bitsFnL (wd xr)) xr bits ++ norLeaves wd bits r ts nmid → c ∈ ls := fun c hc =>
      hmem c (by simp only [GKind.leaves, if_neg hbits, List.mem_append]; exact Or.inr (List.mem_append.mp hc))
    have hbitv : ∀ j bb, bits[j]? = some bb → V bb = if (V a ^^^ V b).testBit j then 1 else 0 := by
      intro j bb hj
      have := fix_bits wd V (bitsFnL (wd xr)) xr bits hnd (fun j hj => bitsFnL_val (wd xr) (V xr) j hj) hlen
        (fun c hc => hfix c (hsub c (List.mem_append.mpr (Or.inl hc)))) j bb hj
      rw [this, hb1 bb (List.mem_of_getElem? hj), hxr, bit_val]
      split <;> rfl
    have hblt : ∀ bb, bb ∈ bits → V bb < 2 := by
      intro bb hbb
      obtain ⟨j, hj⟩ := mem_getElem? bits bb hbb
      rw [hbitv j bb hj]; split <;> decide
    obtain ⟨b0, rest, e⟩ := List.exists_cons_of_ne_nil hbits
    have hmid := gate_val hfix Kind.or2 (· ||| ·) (fun a b o h => by rw [fix_or2 hfix a b o h]; rfl) or_hmod b0 rest nmid ts
      (e ▸ hshape) hts (fun c hc => hsub c (by
        simp only [List.mem_append, norLeaves]; exact Or.inr (Or.inl (e ▸ hc))))
    have hnot := fix_not1 hfix nmid r (hsub _ (by simp [norLeaves]))
    have hF := orfold01 (rest.map V) (V b0) (hblt b0 (by simp [e])) (by
      intro v hv
      rcases List.mem_map.mp hv with ⟨u, hu, e'⟩
      subst e'
      exact hblt u (by simp [e, hu]))
    rw [List.foldl_map] at hF
    have hFlt : rest.foldl (fun p x => p ||| V x) (V b0) < 2 ^ wd nmid :=
      Nat.lt_of_lt_of_le hF.1 (by
        calc 2 = 2 ^ 1 := rfl
          _ ≤ 2 ^ wd nmid := Nat.pow_le_pow_right (by decide) hnm)
    rw [Nat.mod_eq_of_lt hFlt] at hmid
    rw [hnot, hr1, hmid, not1_one _ hF.1]
    have hzero : rest.foldl (fun p x => p ||| V x) (V b0) = 0 ↔ V a = V b := by
      rw [hF.2]
      constructor
      · intro h
        apply eq_of_bits (wd a) _ _ ha (hab ▸ hb)
        intro j hj
        have hjl : j < bits.length := by rw [hlen, hxa]; exact hj
        have hget : bits[j]? = some bits[j] := List.getElem?_eq_getElem hjl
        have hv := hbitv j _ hget
        have hallmem : ∀ bb, bb ∈ bits → V bb = 0 := by
          intro bb hm
          rw [e] at hm
          simp only [List.mem_cons] at hm
          rcases hm with h1 | h1
          · rw [h1]; exact h.1
          · exact h.2 _ (List.mem_map.mpr ⟨_, h1, rfl⟩)
        rw [hallmem _ (List.getElem_mem hjl)] at hv
        have : (V a ^^^ V b).testBit j = false := by
          cases ht : (V a ^^^ V b).testBit j
          · rfl
          · rw [ht] at hv; simp at hv
        rw [Nat.testBit_xor] at this
        cases h1 : (V a).testBit j <;> cases h2 : (V b).testBit j <;> rw [h1, h2] at this <;> first | rfl | (simp at this)
      · intro h
        have hall : ∀ bb, bb ∈ bits → V bb = 0 := by
          intro bb hbb
          obtain ⟨j, hj⟩ := mem_getElem? bits bb hbb
          rw [hbitv j bb hj, h, Nat.xor_self]
          simp
        refine ⟨hall b0 (by simp [e]), ?_⟩
        intro v hv
        rcases List.mem_map.mp hv with ⟨u, hu, e'⟩
        subst e'
        exact hall u (by simp [e, hu])
    by_cases hab' : V a = V b
    · rw [if_pos (hzero.mpr hab'), if_pos hab']
    · rw [if_neg (fun h => hab' (hzero.mp h)), if_neg hab']

theorem eqc_val {wd : Nat → Nat} {V : Nat → Nat} {ls : List CLeaf} (hfix : LeavesFix wd V ls)
    (a v r : Nat) (bits ns ts : List Nat) (hok : (GKind.eqc a v r bits ns ts).okb wd = true)
    (hmem : ∀ c, c ∈ (GKind.eqc a v r bits ns ts).leaves wd → c ∈ ls) (ha : V a < 2 ^ wd a) :
    V r = if V a = v then 1 else 0 := by
  simp only [GKind.okb, Bool.and_eq_true, decide_eq_true_eq] at hok
  obtain ⟨⟨⟨_, hvw⟩, hr1⟩, hrest⟩ := hok
  by_cases hbits : bits = []
  · rw [if_pos hbits] at hrest
    simp only [decide_eq_true_eq] at hrest
    have ha2 : V a < 2 := by rw [hrest] at ha; simpa using ha
    have hv2 : v < 2 := by rw [hrest] at hvw; simpa using hvw
    by_cases hv0 : v = 0
    · have := fix_not1 hfix a r (hmem _ (by simp [GKind.leaves, hbits, hv0]))
      rw [this, hr1, not1_one _ ha2, hv0]
    · have := fix_buf hfix a r (hmem _ (by simp [GKind.leaves, hbits, hv0]))
      have hv1 : v = 1 := by omega
      rw [this, hr1, hv1]
      rcases lt2 ha2 with e | e <;> rw [e] <;> decide
  · rw [if_neg hbits] at hrest
    simp only [Bool.and_eq_true, decide_eq_true_eq, List.all_eq_true, Bool.not_eq_true', List.contains_eq_mem,
      decide_eq_false_iff_not, Bool.or_eq_true, List.mem_range] at hrest
    obtain ⟨⟨⟨⟨⟨⟨⟨hlen, hnd⟩, _⟩, _⟩, hb1⟩, hn1⟩, hshape⟩, hts⟩ := hrest
    have hsub : ∀ c, c ∈ bitsLeaf (bitsFnL (wd a)) a bits ++
        (mintermNots wd v bits ns ++ gateLeaves wd Kind.and2 (mintermParts v bits ns) r ts) → c ∈ ls := fun c hc =>
      hmem c (by simp only [GKind.leaves, if_neg hbits]; exact hc)
    have hbitv : ∀ j, j < bits.length → V (bits.getD j 0) = if (V a).testBit j then 1 else 0 := by
      intro j hj
      have hget : bits[j]? = some (bits.getD j 0) := by
        rw [List.getD_eq_getElem?_getD, List.getElem?_eq_getElem hj]; rfl
      have := fix_bits wd V (bitsFnL (wd a)) a bits hnd (fun j hj => bitsFnL_val (wd a) (V a) j hj) hlen
        (fun c hc => hfix c (hsub c (List.mem_append.mpr (Or.inl hc)))) j _ hget
      rw [this, hb1 _ (List.mem_of_getElem? hget), bit_val]
      split <;> rfl
    have hpart : ∀ i, i < bits.length →
        V (if v.testBit i then bits.getD i 0 else ns.getD i 0) = if (V a).testBit i = v.testBit i then 1 else 0 := by
      intro i hi
      cases hvi : v.testBit i
      · simp only [Bool.false_eq_true, if_false]
        have hleaf : (Kind.not1 (bits.getD i 0) (ns.getD i 0)).leaf wd ∈ mintermNots wd v bits ns :=
          List.mem_filterMap.mpr ⟨i, List.mem_range.mpr hi, by simp [hvi]⟩
        have := fix_not1 hfix _ _ (hsub _ (List.mem_append.mpr (Or.inr (List.mem_append.mpr (Or.inl hleaf)))))
        have hw1 : wd (ns.getD i 0) = 1 := by
          rcases hn1 i hi with h | h
          · rw [hvi] at h; cases h
          · exact h
        rw [this, hw1, hbitv i hi]
        cases (V a).testBit i <;> decide
      · simp only [if_true, hbitv i hi]
    have hplen : (mintermParts v bits ns).length = bits.length := by simp [mintermParts]
    have hpne : mintermParts v bits ns ≠ [] := by
      intro e
      have := congrArg List.length e
      rw [hplen] at this
      exact hbits (List.eq_nil_of_length_eq_zero this)
    obtain ⟨p0, prest, e⟩ := List.exists_cons_of_ne_nil hpne
    have hpmem : ∀ x, x ∈ mintermParts v bits ns → ∃ i, i < bits.length ∧ x = if v.testBit i then bits.getD i 0 else ns.getD i 0 := by
      intro x hx
      rcases List.mem_map.mp hx with ⟨i, hi, e'⟩
      exact ⟨i, List.mem_range.mp hi, e'.symm⟩
    have hplt : ∀ x, x ∈ mintermParts v bits ns → V x < 2 := by
      intro x hx
      obtain ⟨i, hi, e'⟩ := hpmem x hx
      rw [e', hpart i hi]; split <;> decide
    have hr := gate_val hfix Kind.and2 (· &&& ·) (fun a b o h => by rw [fix_and2 hfix a b o h]; rfl) and_hmod p0 prest r ts
      (by rw [← e, hplen]; exact hshape) (fun t ht => by rw [hr1]; exact hts t ht)
      (fun c hc => hsub c (List.mem_append.mpr (Or.inr (List.mem_append.mpr (Or.inr (e ▸ hc))))))
    have hF := andfold01 (prest.map V) (V p0) (hplt p0 (by simp [e])) (by
      intro x hx
      rcases List.mem_map.mp hx with ⟨u, hu, e'⟩
      subst e'
      exact hplt u (by simp [e, hu]))
    rw [List.foldl_map] at hF
    rw [hr1, show (2:Nat) ^ 1 = 2 from rfl, Nat.mod_eq_of_lt hF.1] at hr
    have hone : prest.foldl (fun p x => p &&& V x) (V p0) = 1 ↔ V a = v := by
      rw [hF.2]
      have hall : (V p0 = 1 ∧ ∀ x, x ∈ prest.map V → x = 1) ↔ ∀ x, x ∈ mintermParts v bits ns → V x = 1 := by
        rw [e]
        constructor
        · intro h x hx
          simp only [List.mem_cons] at hx
          rcases hx with h1 | h1
          · rw [h1]; exact h.1
          · exact h.2 _ (List.mem_map.mpr ⟨x, h1, rfl⟩)
        · intro h
          refine ⟨h p0 (by simp), ?_⟩
          intro x hx
          rcases List.mem_map.mp hx with ⟨u, hu, e'⟩
          subst e'
          exact h u (by simp [hu])
      rw [hall]
      constructor
      · intro h
        apply eq_of_bits (wd a) _ _ ha hvw
        intro j hj
        have hjl : j < bits.length := by rw [hlen]; exact hj
        have := h _ (List.mem_map.mpr ⟨j, List.mem_range.mpr hjl, rfl⟩)
        rw [hpart j hjl] at this
        by_cases hc : (V a).testBit j = v.testBit j
        · exact hc
        · rw [if_neg hc] at this; cases this
      · intro h x hx
        obtain ⟨i, hi, e'⟩ := hpmem x hx
        rw [e', hpart i hi, h]
        simp
    rw [hr]
    by_cases hav : V a = v
    · rw [if_pos hav]; exact hone.mpr hav
    · rw [if_neg hav]
      have : prest.foldl (fun p x => p &&& V x) (V p0) ≠ 1 := fun h => hav (hone.mp h)
      have := hF.1
      omega

/-! ### every child: justification of its assigns -/

theorem okb_prim (wd : Nat → Nat) (p : Kind) (h : FlatSrc.Kind.okb wd p = true) : p.ok wd := by
  cases p <;> simp_all [FlatSrc.Kind.okb, Kind.ok]

theorem single_get {α : Type} (x : α) (j : Nat) (y : α) (h : [x][j]? = some y) : j = 0 ∧ y = x := by
  cases j with
  | zero => simp at h; exact ⟨rfl, h.symm⟩
  | succ j => simp at h

theorem gkind_just (wd : Nat → Nat) (nm : Nat → String) (k : GKind) (hok : k.okb wd = true) (V : Nat → Nat)
    (hfix : LeavesFix wd V (k.leaves wd)) (j : Nat) (a : LHS × Expr) (o : Nat)
    (ha : (k.assigns wd nm)[j]? = some a) (ho : k.outs[j]? = some o) (r : Rd)
    (hK : ∀ x, x ∈ k.ins wd → Known r (nm x) (wd x) (V x)) (hg : k.good V) :
    evalAssign r (wd o) a.2 = ⟨wd o, V o, true⟩ := by
  cases k with
  | dm isMod x y z =>
    obtain ⟨_, e1⟩ := single_get _ _ _ ha
    obtain ⟨_, e2⟩ := single_get _ _ _ ho
    subst e1 e2
    have hx := hK x (by simp [GKind.ins])
    have hy := hK y (by simp [GKind.ins])
    have hz : V y ≠ 0 := hg
    have hf := hfix _ (List.mem_singleton.mpr rfl) (o, _) (by rw [outs_single _ rfl]; exact List.mem_singleton.mpr rfl)
    simp only [List.map, g_cons0, g_cons1] at hf
    rw [hf]
    cases isMod with
    | true =>
      simp only [if_true]
      have := Leaf.gen_mod (wd o) (V x) (V y) hz
      simp only [Leaf.landed] at this
      rw [this]
      exact inline_mod (wd o) hx hy hz
    | false =>
      simp only [Bool.false_eq_true, if_false]
      have := Leaf.gen_div (wd o) (V x) (V y) hz
      simp only [Leaf.landed] at this
      rw [this]
      exact inline_div (wd o) hx hy hz
  | prim p =>
    obtain ⟨_, e1⟩ := single_get _ _ _ ha
    obtain ⟨_, e2⟩ := single_get _ _ _ ho
    subst e1 e2
    rw [hfix.single p (by simp [GKind.leaves])]
    exact kind_eval wd nm p (okb_prim wd p hok) r V hK
  | nary op ins z ts mid =>
    have hne := nary_ne hok
    obtain ⟨x, rest, e⟩ := List.exists_cons_of_ne_nil hne
    subst e
    have hKl : ∀ y, y ∈ (nm x, wd x, V x) :: (rest.map fun y => (nm y, wd y, V y)) → Known r y.1 y.2.1 y.2.2 := by
      intro y hy
      simp only [List.mem_cons, List.mem_map] at hy
      rcases hy with e | ⟨u, hu, e⟩
      · subst e; exact hK x (by simp [GKind.ins])
      · subst e; exact hK u (by simp [GKind.ins, hu])
    cases op with
    | and =>
      obtain ⟨_, e1⟩ := single_get _ _ _ ha
      obtain ⟨_, e2⟩ := single_get _ _ _ ho
      subst e1 e2
      simp only [GKind.okb, Bool.and_eq_true, decide_eq_true_eq, List.all_eq_true] at hok
      have hv := gate_val hfix Kind.and2 (· &&& ·) (fun a b o h => by rw [fix_and2 hfix a b o h]; rfl) and_hmod x rest o ts
        hok.1 hok.2 (fun c hc => hc)
      have ht := (evalAssign_chain "and" (· &&& ·) (by decide) (by decide) (by decide) (by intro W a b; simp [arith]) r (wd o)
        (nm x, wd x, V x) (rest.map fun y => (nm y, wd y, V y)) hKl).1
      simp only [List.map_cons, List.map_map, Function.comp_def, List.foldl_map] at ht
      show evalAssign r (wd o) (binChain "and" ((x :: rest).map nm)) = _
      rw [List.map_cons, ht, hv]
    | or =>
      obtain ⟨_, e1⟩ := single_get _ _ _ ha
      obtain ⟨_, e2⟩ := single_get _ _ _ ho
      subst e1 e2
      simp only [GKind.okb, Bool.and_eq_true, decide_eq_true_eq, List.all_eq_true] at hok
      have hv := gate_val hfix Kind.or2 (· ||| ·) (fun a b o h => by rw [fix_or2 hfix a b o h]; rfl) or_hmod x rest o ts
        hok.1 hok.2 (fun c hc => hc)
      have ht := (evalAssign_chain "or" (· ||| ·) (by decide) (by decide) (by decide) (by intro W a b; simp [arith]) r (wd o)
        (nm x, wd x, V x) (rest.map fun y => (nm y, wd y, V y)) hKl).1
      simp only [List.map_cons, List.map_map, Function.comp_def, List.foldl_map] at ht
      show evalAssign r (wd o) (binChain "or" ((x :: rest).map nm)) = _
      rw [List.map_cons, ht, hv]
    | nor =>
      obtain ⟨_, e1⟩ := single_get _ _ _ ha
      obtain ⟨_, e2⟩ := single_get _ _ _ ho
      subst e1 e2
      simp only [GKind.okb, Bool.and_eq_true, decide_eq_true_eq, List.all_eq_true] at hok
      have hfix' : LeavesFix wd V (gateLeaves wd Kind.or2 (x :: rest) mid ts ++ [(Kind.not1 mid o).leaf wd]) := hfix
      have hv := gate_val hfix' Kind.or2 (· ||| ·) (fun a b o h => by rw [fix_or2 hfix' a b o h]; rfl) or_hmod x rest mid ts
        hok.1.1 hok.1.2 (fun c hc => by simp [hc])
      have hr := fix_not1 hfix' mid o (by simp)
      have ht := evalAssign_notchain r (wd o) (nm x, wd x, V x) (rest.map fun y => (nm y, wd y, V y)) hKl
      simp only [List.map_cons, List.map_map, Function.comp_def, List.foldl_map] at ht
      show evalAssign r (wd o) (.un "not" (binChain "or" ((x :: rest).map nm))) = _
      rw [List.map_cons, ht, hr, hv, not1_mod _ _ _ (Or.inl hok.2)]
  | equal x y z xr mid xo yo m0 m1 m2 m3 bits ts nmid =>
    obtain ⟨_, e1⟩ := single_get _ _ _ ha
    obtain ⟨_, e2⟩ := single_get _ _ _ ho
    subst e1 e2
    have hx := hK x (by simp [GKind.ins])
    have hy := hK y (by simp [GKind.ins])
    have hv := equal_val hfix x y o xr mid xo yo m0 m1 m2 m3 bits ts nmid hok (fun c hc => hc) hx.lt hy.lt
    simp only [GKind.okb, Bool.and_eq_true, decide_eq_true_eq] at hok
    have hr1 : wd o = 1 := hok.1.1.1.2
    rw [hv]
    show evalAssign r (wd o) (.tern (.bin "eq" (.id (nm x)) (.id (nm y))) (C01.lit 1) (C01.lit 0)) = _
    exact inline_equal (wd o) (by omega) hx hy
  | eqc x v z bits ns ts =>
    obtain ⟨_, e1⟩ := single_get _ _ _ ha
    obtain ⟨_, e2⟩ := single_get _ _ _ ho
    subst e1 e2
    have hx := hK x (by simp [GKind.ins])
    have hv := eqc_val hfix x v o bits ns ts hok (fun c hc => hc) hx.lt
    simp only [GKind.okb, Bool.and_eq_true, decide_eq_true_eq] at hok
    have hr1 : wd o = 1 := hok.1.2
    rw [hv]
    show evalAssign r (wd o) (.tern (.bin "eq" (.id (nm x)) (C01.lit v)) (C01.lit 1) (C01.lit 0)) = _
    exact inline_equalconst (wd o) v hok.1.1.1 (by omega) hx
  | bitsL x bits =>
    simp only [GKind.okb, Bool.and_eq_true, decide_eq_true_eq, Bool.not_eq_true', List.contains_eq_mem, decide_eq_false_iff_not] at hok
    exact just_bits wd nm V (bitsFnL (wd x)) x bits hok.1.1.1.2 hok.1.1.1.1 hok.2
      (fun j hj => bitsFnL_val (wd x) (V x) j hj) hfix j a o ha ho r (hK x (by simp [GKind.ins]))
  | bitsM x bits =>
    simp only [GKind.okb, Bool.and_eq_true, decide_eq_true_eq, Bool.not_eq_true', List.contains_eq_mem, decide_eq_false_iff_not] at hok
    exact just_bits wd nm V (bitsFnM (wd x)) x bits hok.1.1.1.2 hok.1.1.1.1 hok.2
      (fun j hj => bitsFnM_val (wd x) (V x) j hj) hfix j a o ha ho r (hK x (by simp [GKind.ins]))
  | nand2 x y z t =>
    obtain ⟨_, e1⟩ := single_get _ _ _ ha
    obtain ⟨_, e2⟩ := single_get _ _ _ ho
    subst e1 e2
    have hx := hK x (by simp [GKind.ins])
    have hy := hK y (by simp [GKind.ins])
    rw [inline_nand2 (wd o) hx hy, fix_nand hfix x y o t (fun c hc => hc)]
    simp only [GKind.okb, Bool.or_eq_true, decide_eq_true_eq] at hok
    congr 1
    unfold Lib.nand2 Leaf.and2
    rw [not1_mod]
    rcases hok with h | h
    · right
      exact Nat.lt_of_le_of_lt Nat.and_le_left (Nat.lt_of_lt_of_le hx.lt (Nat.pow_le_pow_right (by decide) h))
    · left; exact h
  | nor2 x y z t =>
    obtain ⟨_, e1⟩ := single_get _ _ _ ha
    obtain ⟨_, e2⟩ := single_get _ _ _ ho
    subst e1 e2
    have hx := hK x (by simp [GKind.ins])
    have hy := hK y (by simp [GKind.ins])
    simp only [GKind.okb, decide_eq_true_eq] at hok
    rw [inline_nor2 (wd o) hx hy, fix_not1 hfix t o (by simp [GKind.leaves]), fix_or2 hfix x y t (by simp [GKind.leaves])]
    congr 1
    unfold Leaf.or2
    rw [not1_mod _ _ _ (Or.inl hok)]
  | xor2 x y z mid xo yo m0 m1 m2 m3 =>
    obtain ⟨_, e1⟩ := single_get _ _ _ ha
    obtain ⟨_, e2⟩ := single_get _ _ _ ho
    subst e1 e2
    have hx := hK x (by simp [GKind.ins])
    have hy := hK y (by simp [GKind.ins])
    simp only [GKind.okb, Bool.and_eq_true, decide_eq_true_eq] at hok
    obtain ⟨⟨⟨⟨⟨⟨w1, w2⟩, w3⟩, w4⟩, w5⟩, w6⟩, w7⟩ := hok
    have hmid := fix_nand hfix x y mid m0 (fun c hc => by simp only [GKind.leaves, List.mem_append]; exact Or.inl hc)
    have hxo := fix_nand hfix x mid xo m1 (fun c hc => by simp only [GKind.leaves, List.mem_append]; exact Or.inr (Or.inl hc))
    have hyo := fix_nand hfix y mid yo m2 (fun c hc => by simp only [GKind.leaves, List.mem_append]; exact Or.inr (Or.inr (Or.inl hc)))
    have hr := fix_nand hfix xo yo o m3 (fun c hc => by simp only [GKind.leaves, List.mem_append]; exact Or.inr (Or.inr (Or.inr hc)))
    rw [inline_xor2 (wd o) hx hy]
    congr 1
    rw [hr, hxo, hyo, hmid, w1, w2, w3, w4, w5, w6, w7]
    exact (C08.xor2_val (wd x) (wd y) (wd o) (V x) (V y) hx.lt hy.lt).symm

/-- the assigns of a child read only its named inputs … -/
theorem gkind_reads_sub (wd : Nat → Nat) (nm : Nat → String) (k : GKind) (j : Nat) (a : LHS × Expr)
    (ha : (k.assigns wd nm)[j]? = some a) : ∀ n, n ∈ reads a.2 → ∃ x, x ∈ k.ins wd ∧ n = nm x := by
  intro n hn
  cases k with
  | prim p =>
    obtain ⟨_, e1⟩ := single_get _ _ _ ha
    subst e1
    rcases List.mem_map.mp (FlatDesign.reads_rhs_sub wd nm p n hn) with ⟨x, hx, e⟩
    exact ⟨x, hx, e.symm⟩
  | dm isMod x y z =>
    obtain ⟨_, e1⟩ := single_get _ _ _ ha
    subst e1
    simp [reads] at hn
    rcases hn with h | h
    · exact ⟨x, by simp [GKind.ins], h⟩
    · exact ⟨y, by simp [GKind.ins], h⟩
  | nary op ins z ts mid =>
    cases op <;>
    · obtain ⟨_, e1⟩ := single_get _ _ _ ha
      subst e1
      cases ins with
      | nil => simp [binChain, reads, FlatM.lit] at hn
      | cons u us =>
        simp only [reads] at hn
        rw [reads_binChain _ _ (by simp)] at hn
        rcases List.mem_map.mp hn with ⟨x, hx, e⟩
        exact ⟨x, hx, e.symm⟩
  | equal x y z xr mid xo yo m0 m1 m2 m3 bits ts nmid =>
    obtain ⟨_, e1⟩ := single_get _ _ _ ha
    subst e1
    simp [reads, FlatM.lit] at hn
    rcases hn with h | h
    · exact ⟨x, by simp [GKind.ins], h⟩
    · exact ⟨y, by simp [GKind.ins], h⟩
  | eqc x v z bits ns ts =>
    obtain ⟨_, e1⟩ := single_get _ _ _ ha
    subst e1
    simp [reads, FlatM.lit] at hn
    exact ⟨x, by simp [GKind.ins], hn⟩
  | bitsL x bits =>
    obtain ⟨b, _, _, hf⟩ := bitsAssigns_get nm x bits j a ha
    rcases hf with ⟨_, e⟩ | ⟨_, e⟩ <;> rw [e] at hn <;> simp [reads, FlatM.lit] at hn <;> exact ⟨x, by simp [GKind.ins], hn⟩
  | bitsM x bits =>
    obtain ⟨b, _, _, hf⟩ := bitsAssigns_get nm x bits j a ha
    rcases hf with ⟨_, e⟩ | ⟨_, e⟩ <;> rw [e] at hn <;> simp [reads, FlatM.lit] at hn <;> exact ⟨x, by simp [GKind.ins], hn⟩
  | nand2 x y z t =>
    obtain ⟨_, e1⟩ := single_get _ _ _ ha
    subst e1
    simp [reads] at hn
    rcases hn with h | h
    · exact ⟨x, by simp [GKind.ins], h⟩
    · exact ⟨y, by simp [GKind.ins], h⟩
  | nor2 x y z t =>
    obtain ⟨_, e1⟩ := single_get _ _ _ ha
    subst e1
    simp [reads] at hn
    rcases hn with h | h
    · exact ⟨x, by simp [GKind.ins], h⟩
    · exact ⟨y, by simp [GKind.ins], h⟩
  | xor2 x y z mid xo yo m0 m1 m2 m3 =>
    obtain ⟨_, e1⟩ := single_get _ _ _ ha
    subst e1
    simp [reads] at hn
    rcases hn with h | h
    · exact ⟨x, by simp [GKind.ins], h⟩
    · exact ⟨y, by simp [GKind.ins], h⟩

/-- … and all of them -/
theorem gkind_reads_sup (wd : Nat → Nat) (nm : Nat → String) (k : GKind) (hok : k.okb wd = true) (j : Nat) (a : LHS × Expr)
    (ha : (k.assigns wd nm)[j]? = some a) : ∀ x, x ∈ k.ins wd → nm x ∈ reads a.2 := by
  intro x hx
  cases k with
  | prim p =>
    obtain ⟨_, e1⟩ := single_get _ _ _ ha
    subst e1
    exact FlatDesign.reads_rhs_sup wd nm p (okb_prim wd p hok) x hx
  | dm isMod u v z =>
    obtain ⟨_, e1⟩ := single_get _ _ _ ha
    subst e1
    simp [GKind.ins] at hx
    rcases hx with h | h <;> subst h <;> simp [reads]
  | nary op ins z ts mid =>
    have hne := nary_ne hok
    cases op <;>
    · obtain ⟨_, e1⟩ := single_get _ _ _ ha
      subst e1
      simp only [reads]
      rw [reads_binChain _ _ (by simpa using hne)]
      exact List.mem_map.mpr ⟨x, hx, rfl⟩
  | equal u v z xr mid xo yo m0 m1 m2 m3 bits ts nmid =>
    obtain ⟨_, e1⟩ := single_get _ _ _ ha
    subst e1
    simp [GKind.ins] at hx
    rcases hx with h | h <;> subst h <;> simp [reads]
  | eqc u v z bits ns ts =>
    obtain ⟨_, e1⟩ := single_get _ _ _ ha
    subst e1
    simp [GKind.ins] at hx
    subst hx
    simp [reads]
  | bitsL y bits =>
    obtain ⟨b, _, _, hf⟩ := bitsAssigns_get nm y bits j a ha
    have : x = y := by simpa [GKind.ins] using hx
    subst this
    rcases hf with ⟨_, e⟩ | ⟨_, e⟩ <;> rw [e] <;> simp [reads]
  | bitsM y bits =>
    obtain ⟨b, _, _, hf⟩ := bitsAssigns_get nm y bits j a ha
    have : x = y := by simpa [GKind.ins] using hx
    subst this
    rcases hf with ⟨_, e⟩ | ⟨_, e⟩ <;> rw [e] <;> simp [reads]
  | nand2 u v z t =>
    obtain ⟨_, e1⟩ := single_get _ _ _ ha
    subst e1
    simp [GKind.ins] at hx
    rcases hx with h | h <;> subst h <;> simp [reads]
  | nor2 u v z t =>
    obtain ⟨_, e1⟩ := single_get _ _ _ ha
    subst e1
    simp [GKind.ins] at hx
    rcases hx with h | h <;> subst h <;> simp [reads]
  | xor2 u v z mid xo yo m0 m1 m2 m3 =>
    obtain ⟨_, e1⟩ := single_get _ _ _ ha
    subst e1
    simp [GKind.ins] at hx
    rcases hx with h | h <;> subst h <;> simp [reads]

end FlatM
