import Py4hwV.Build.Model
/-
  C11 helper development: dictionary lemmas, frame lemmas of the primitive mutators, the "registrations are kept"
  relation `Keeps` and its closure under sequencing.
-/
namespace Build

/-! ### dictionaries -/

theorem dget_dset_self (d : Dict) (n : String) (v : Nat) : dget (dset d n v) n = some v := by
  induction d with
  | nil => simp [dset, dget]
  | cons kv t ih =>
    obtain ⟨k, x⟩ := kv
    by_cases h : k = n
    · simp [dset, dget, h]
    · simp [dset, dget, h, ih]

theorem dget_dset_ne (d : Dict) (n k : String) (v : Nat) (h : k ≠ n) : dget (dset d n v) k = dget d k := by
  induction d with
  | nil => simp [dset, dget]; intro e; exact absurd e.symm h
  | cons kv t ih =>
    obtain ⟨k', x⟩ := kv
    by_cases h1 : k' = n
    · subst h1
      have : ¬ k' = k := fun e => h e.symm
      simp [dset, dget, this]
    · by_cases h2 : k' = k
      · subst h2; simp [dset, dget, h1]
      · simp [dset, dget, h1, h2, ih]

theorem dget_ddel_self (d : Dict) (n : String) : dget (ddel d n) n = none := by
  induction d with
  | nil => simp [ddel, dget]
  | cons kv t ih =>
    obtain ⟨k, x⟩ := kv
    by_cases h : k = n
    · simpa [ddel, List.filter, h] using ih
    · simp only [ddel, List.filter, ne_eq, h, not_false_eq_true, decide_true, dget, ite_false]
      simpa [ddel] using ih

theorem dget_ddel_ne (d : Dict) (n k : String) (h : k ≠ n) : dget (ddel d n) k = dget d k := by
  induction d with
  | nil => simp [ddel, dget]
  | cons kv t ih =>
    obtain ⟨k', x⟩ := kv
    by_cases h1 : k' = n
    · subst h1
      have : ¬ k' = k := fun e => h e.symm
      simpa [ddel, List.filter, dget, this] using ih
    · simp only [ddel, List.filter, ne_eq, h1, not_false_eq_true, decide_true, dget]
      by_cases h2 : k' = k
      · simp [h2]
      · simp only [h2, ite_false]; simpa [ddel] using ih

theorem dhas_eq_false {d : Dict} {n : String} : dhas d n = false ↔ dget d n = none := by
  simp [dhas]

theorem dhas_eq_true {d : Dict} {n : String} : dhas d n = true ↔ ∃ v, dget d n = some v := by
  simp [dhas, Option.isSome_iff_exists]

theorem mem_dset {d : Dict} {n : String} {v : Nat} {x : String × Nat} (h : x ∈ dset d n v) : x ∈ d ∨ x = (n, v) := by
  induction d with
  | nil => simp [dset] at h; exact Or.inr h
  | cons kv t ih =>
    obtain ⟨k, y⟩ := kv
    by_cases hk : k = n
    · simp [dset, hk] at h
      rcases h with h | h
      · exact Or.inr h
      · exact Or.inl (List.mem_cons_of_mem _ h)
    · simp [dset, hk] at h
      rcases h with h | h
      · exact Or.inl (by simp [h])
      · rcases ih h with h' | h'
        · exact Or.inl (List.mem_cons_of_mem _ h')
        · exact Or.inr h'

theorem mem_of_dget {d : Dict} {n : String} {v : Nat} (h : dget d n = some v) : (n, v) ∈ d := by
  induction d with
  | nil => simp [dget] at h
  | cons kv t ih =>
    obtain ⟨k, y⟩ := kv
    by_cases hk : k = n
    · simp [dget, hk] at h; simp [hk, h]
    · simp [dget, hk] at h; exact List.mem_cons_of_mem _ (ih h)

theorem dget_of_mem_nodup {d : Dict} {n : String} {v : Nat} (hn : (dkeys d).Nodup) (h : (n, v) ∈ d) : dget d n = some v := by
  induction d with
  | nil => simp at h
  | cons kv t ih =>
    obtain ⟨k, y⟩ := kv
    simp [dkeys] at hn
    simp at h
    rcases h with ⟨h1, h2⟩ | h
    · simp [dget, h1, h2]
    · by_cases hk : k = n
      · exact absurd h (by subst hk; exact fun hm => hn.1 v hm)
      · simp [dget, hk]; exact ih (by simpa [dkeys] using hn.2) h

theorem dkeys_dset_of_none {d : Dict} {n : String} {v : Nat} (h : dget d n = none) : dset d n v = d ++ [(n, v)] := by
  induction d with
  | nil => simp [dset]
  | cons kv t ih =>
    obtain ⟨k, y⟩ := kv
    by_cases hk : k = n
    · simp [dget, hk] at h
    · simp [dget, hk] at h; simp [dset, hk, ih h]

theorem not_mem_dkeys_of_none {d : Dict} {n : String} (h : dget d n = none) : n ∉ dkeys d := by
  induction d with
  | nil => simp [dkeys]
  | cons kv t ih =>
    obtain ⟨k, y⟩ := kv
    by_cases hk : k = n
    · simp [dget, hk] at h
    · simp [dget, hk] at h
      simp [dkeys]
      exact ⟨fun e => hk e.symm, by simpa [dkeys] using ih h⟩

theorem nodup_dset {d : Dict} {n : String} {v : Nat} (hn : (dkeys d).Nodup) : (dkeys (dset d n v)).Nodup := by
  induction d with
  | nil => simp [dset, dkeys]
  | cons kv t ih =>
    obtain ⟨k, y⟩ := kv
    by_cases hk : k = n
    · simpa [dset, hk, dkeys] using hn
    · simp [dkeys] at hn
      simp only [dset, hk, ite_false, dkeys, List.map_cons, List.nodup_cons]
      refine ⟨?_, ih (by simpa [dkeys] using hn.2)⟩
      intro hm
      simp at hm
      obtain ⟨v', hm⟩ := hm
      rcases mem_dset hm with h' | h'
      · exact hn.1 v' h'
      · simp at h'; exact hk h'.1

theorem nodup_ddel {d : Dict} {n : String} (hn : (dkeys d).Nodup) : (dkeys (ddel d n)).Nodup := by
  unfold dkeys ddel at *
  induction d with
  | nil => simp
  | cons kv t ih =>
    simp only [List.map_cons, List.nodup_cons] at hn
    simp only [List.filter]
    split
    · simp only [List.map_cons, List.nodup_cons]
      refine ⟨?_, ih hn.2⟩
      intro hm
      apply hn.1
      simp only [List.mem_map, List.mem_filter] at hm ⊢
      obtain ⟨x, ⟨hx, _⟩, hx2⟩ := hm
      exact ⟨x, hx, hx2⟩
    · exact ih hn.2

/-! ### frame facts of the mutators -/

@[simp] theorem modObj_wires (g : G) (o : Nat) (f : Obj → Obj) : (modObj g o f).wires = g.wires := rfl
@[simp] theorem modObj_ports (g : G) (o : Nat) (f : Obj → Obj) : (modObj g o f).ports = g.ports := rfl
@[simp] theorem modObj_ifaces (g : G) (o : Nat) (f : Obj → Obj) : (modObj g o f).ifaces = g.ifaces := rfl
@[simp] theorem modObj_objs (g : G) (o : Nat) (f : Obj → Obj) : (modObj g o f).objs = g.objs.modify o f := rfl
@[simp] theorem modWire_objs (g : G) (w : Nat) (f : Wire → Wire) : (modWire g w f).objs = g.objs := rfl
@[simp] theorem modWire_ports (g : G) (w : Nat) (f : Wire → Wire) : (modWire g w f).ports = g.ports := rfl
@[simp] theorem modWire_ifaces (g : G) (w : Nat) (f : Wire → Wire) : (modWire g w f).ifaces = g.ifaces := rfl
@[simp] theorem modWire_wires (g : G) (w : Nat) (f : Wire → Wire) : (modWire g w f).wires = g.wires.modify w f := rfl
@[simp] theorem modPort_objs (g : G) (p : Nat) (f : Port → Port) : (modPort g p f).objs = g.objs := rfl
@[simp] theorem modPort_wires (g : G) (p : Nat) (f : Port → Port) : (modPort g p f).wires = g.wires := rfl
@[simp] theorem modPort_ports (g : G) (p : Nat) (f : Port → Port) : (modPort g p f).ports = g.ports.modify p f := rfl
@[simp] theorem modPort_ifaces (g : G) (p : Nat) (f : Port → Port) : (modPort g p f).ifaces = g.ifaces := rfl
@[simp] theorem modIface_objs (g : G) (i : Nat) (f : Iface → Iface) : (modIface g i f).objs = g.objs := rfl
@[simp] theorem modIface_wires (g : G) (i : Nat) (f : Iface → Iface) : (modIface g i f).wires = g.wires := rfl
@[simp] theorem modIface_ports (g : G) (i : Nat) (f : Iface → Iface) : (modIface g i f).ports = g.ports := rfl
@[simp] theorem pushPort_objs (g : G) (pt : Port) : (pushPort g pt).objs = g.objs := rfl
@[simp] theorem pushPort_wires (g : G) (pt : Port) : (pushPort g pt).wires = g.wires := rfl
@[simp] theorem pushPort_ports (g : G) (pt : Port) : (pushPort g pt).ports = g.ports ++ [pt] := rfl
@[simp] theorem pushPort_ifaces (g : G) (pt : Port) : (pushPort g pt).ifaces = g.ifaces := rfl

/-! ### sequencing -/

theorem andThen_ok {r : G × Res} {f : G → G × Res} (h : r.2 = .ok ()) : (r >>> f) = f r.1 := by
  unfold andThen; rw [h]

theorem andThen_err {r : G × Res} {f : G → G × Res} {e : Err} (h : r.2 = .error e) : (r >>> f) = (r.1, .error e) := by
  unfold andThen; rw [h]

theorem res_cases (r : Res) : r = .ok () ∨ ∃ e, r = .error e := by
  cases r with
  | ok u => exact Or.inl rfl
  | error e => exact Or.inr ⟨e, rfl⟩

/-- a property of pairs (before, after) that is reflexive and transitive passes through `>>>` -/
theorem andThen_rel {R : G → G → Prop} (hr : ∀ g, R g g) (ht : ∀ a b c, R a b → R b c → R a c)
    {g : G} {r : G × Res} {f : G → G × Res} (h1 : R g r.1) (h2 : ∀ g1, R g1 (f g1).1) : R g (r >>> f).1 := by
  rcases res_cases r.2 with h | ⟨e, h⟩
  · rw [andThen_ok h]; exact ht _ _ _ h1 (h2 _)
  · rw [andThen_err h]; exact h1

theorem forEach_rel {α : Type} {R : G → G → Prop} (hr : ∀ g, R g g) (ht : ∀ a b c, R a b → R b c → R a c)
    (f : G → α → G × Res) (h : ∀ g a, R g (f g a).1) (l : List α) (g : G) : R g (forEach g l f).1 := by
  induction l generalizing g with
  | nil => exact hr g
  | cons a t ih =>
    unfold forEach
    have h1 := h g a
    rcases hfa : f g a with ⟨g1, r⟩
    rw [hfa] at h1
    cases r with
    | ok u => exact ht _ _ _ h1 (ih g1)
    | error e => exact h1

theorem preCheck_fst (g : G) (w p : Nat) (n : String) : (preCheck g w p n).1 = g := by
  unfold preCheck
  split
  · rfl
  · split
    · rfl
    · split <;> rfl

/-- the pre-check mutates nothing: a predicate passes through `preCheck … >>> f` -/
theorem pre_pred {P : G → Prop} {g : G} {w p : Nat} {n : String} {f : G → G × Res} (h1 : P g)
    (h2 : ∀ g1, P g1 → P (f g1).1) : P (preCheck g w p n >>> f).1 := by
  rcases res_cases (preCheck g w p n).2 with h | ⟨e, h⟩
  · rw [andThen_ok h]; exact h2 _ (by rw [preCheck_fst]; exact h1)
  · rw [andThen_err h, preCheck_fst]; exact h1

/-! ### registrations are kept -/

/-- every driver and every child registered in `g` is still the one registered in `g'` -/
structure Keeps (g g' : G) : Prop where
  src : ∀ w p, srcOf g w = some p → srcOf g' w = some p
  child : ∀ o n c, childOf g o n = some c → childOf g' o n = some c

/-- every wire registered in `g` under (parent, name) is still the one registered in `g'`, except possibly key `ex` -/
def KeepsW (ex : Option (Nat × String)) (g g' : G) : Prop :=
  ∀ o n w, some (o, n) ≠ ex → wireOf g o n = some w → wireOf g' o n = some w

theorem Keeps.refl (g : G) : Keeps g g := ⟨fun _ _ h => h, fun _ _ _ h => h⟩
theorem Keeps.trans (a b c : G) (h1 : Keeps a b) (h2 : Keeps b c) : Keeps a c :=
  ⟨fun w p h => h2.src w p (h1.src w p h), fun o n x h => h2.child o n x (h1.child o n x h)⟩
theorem KeepsW.refl (ex) (g : G) : KeepsW ex g g := fun _ _ _ _ h => h
theorem KeepsW.trans (ex) (a b c : G) (h1 : KeepsW ex a b) (h2 : KeepsW ex b c) : KeepsW ex a c :=
  fun o n w hne h => h2 o n w hne (h1 o n w hne h)
theorem KeepsW.weaken {ex} {g g' : G} (h : KeepsW none g g') : KeepsW ex g g' :=
  fun o n w _ hw => h o n w (by simp) hw

/-- graphs with the same object table / same wire table -/
theorem keeps_of_eq {g g' : G} (ho : g'.objs = g.objs) (hw : g'.wires = g.wires) : Keeps g g' := by
  constructor
  · intro w p h; simpa [srcOf, hw] using h
  · intro o n c h; simpa [childOf, ho] using h

theorem keepsW_of_eq {g g' : G} (ho : g'.objs = g.objs) : KeepsW none g g' := by
  intro o n w _ h; simpa [wireOf, ho] using h

end Build
