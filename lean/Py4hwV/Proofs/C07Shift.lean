import Py4hwV.Proofs.C07Arith
/-
  C07 helper lemmas: the barrel loop of ShiftLeft / ShiftRight / RotateLeft / RotateRight.
-/
namespace C07
open Bits

/-- what one stage computes -/
theorem barrelStage_eq (f : Nat → Nat → Nat) (w b v k : Nat) :
    Lib.barrelStage f w b v k = if (b / 2^k) % 2 = 1 then f v (2^k) % 2^w else v % 2^w := by
  unfold Lib.barrelStage Leaf.mux2
  simp only [bit_one 1 b k (Nat.le_refl 1), Nat.mod_mod]

/-- loop invariant rule for `for i in range(wb)` -/
theorem barrel_inv (f : Nat → Nat → Nat) (w b a : Nat) (I : Nat → Nat → Prop) (wb : Nat) (h0 : I 0 a)
    (hstep : ∀ k v, k < wb → I k v → I (k+1) (Lib.barrelStage f w b v k)) : I wb (Lib.barrel f w wb b a) := by
  unfold Lib.barrel
  induction wb with
  | zero => exact h0
  | succ n ih =>
    rw [List.range_succ, List.foldl_append]
    simp only [List.foldl_cons, List.foldl_nil]
    apply hstep n _ (Nat.lt_succ_self n)
    exact ih (fun k v hk hi => hstep k v (Nat.lt_succ_of_lt hk) hi)

/-- the selected bits of `b` add up: `b mod 2^(k+1)` -/
theorem mod_succ_bit (b k : Nat) : b % 2^(k+1) = b % 2^k + (if (b / 2^k) % 2 = 1 then 2^k else 0) := by
  rw [Nat.mod_pow_succ]
  have : (b / 2^k) % 2 < 2 := Nat.mod_lt _ (by decide)
  split
  · next h => rw [h, Nat.mul_one]
  · next h =>
    have : (b / 2^k) % 2 = 0 := by omega
    rw [this, Nat.mul_zero]

/-! ### ShiftLeft -/

theorem barrel_shl (w wb b a : Nat) :
    Lib.barrel (fun last n => Leaf.shlC w last n) w wb b a = (a * 2^(b % 2^wb)) % 2^w ∨ wb = 0 := by
  by_cases h0 : wb = 0
  · exact Or.inr h0
  · left
    have key : ∀ k, 1 ≤ k → k ≤ wb → Lib.barrel (fun last n => Leaf.shlC w last n) w k b a = (a * 2^(b % 2^k)) % 2^w := by
      intro k hk _
      -- invariant from stage 1 on (after stage 0 the value is reduced mod 2^w)
      refine barrel_inv _ w b a (fun j v => (j = 0 ∧ v = a) ∨ (1 ≤ j ∧ v = (a * 2^(b % 2^j)) % 2^w)) k (Or.inl ⟨rfl, rfl⟩) ?_
        |> fun h => by
          rcases h with ⟨h1, _⟩ | ⟨_, h2⟩
          · omega
          · exact h2
      intro j v _ hI
      right
      refine ⟨by omega, ?_⟩
      rw [barrelStage_eq, mod_succ_bit]
      simp only [Leaf.shlC, Nat.shiftLeft_eq, Nat.mod_mod]
      rcases hI with ⟨hj, hv⟩ | ⟨_, hv⟩
      · subst hj; subst hv
        simp only [Nat.pow_zero, Nat.mod_one, Nat.zero_add, Nat.div_one]
        split <;> simp
      · subst hv
        split
        · rw [Nat.mod_mul_mod, Nat.pow_add, Nat.mul_assoc]
        · rw [Nat.mod_mod, Nat.add_zero]
    exact key wb (by omega) (Nat.le_refl _)

/-! ### ShiftRight: the barrel divides by `2^b` -/

theorem barrel_shr (w wb b x : Nat) (hx : x < 2^w) :
    Lib.barrel (fun last n => Leaf.shrC w last n) w wb b x = x / 2^(b % 2^wb) := by
  refine barrel_inv _ w b x (fun j v => v = x / 2^(b % 2^j)) wb (by simp [Nat.mod_one]) ?_
  intro j v _ hv
  subst hv
  rw [barrelStage_eq, mod_succ_bit]
  simp only [Leaf.shrC, Nat.shiftRight_eq_div_pow, Nat.mod_mod]
  have hle : ∀ n, x / 2^n < 2^w := fun n => Nat.lt_of_le_of_lt (Nat.div_le_self _ _) hx
  split
  · rw [Nat.div_div_eq_div_mul, ← Nat.pow_add, Nat.mod_eq_of_lt (hle _)]
  · rw [Nat.add_zero, Nat.mod_eq_of_lt (hle _)]

end C07
