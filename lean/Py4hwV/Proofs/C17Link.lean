import Py4hwV.Proofs.C17Joint
import Py4hwV.Proofs.C17Live
/-
  C17 — closed loop: joint invariant of transmit position, receive phase and their relation; bytes latched = bytes accepted.
-/
set_option linter.unusedSimpArgs false
namespace C17
open Uart

def LinkInv (n : Nat) (s : Link) (m : Mode) (e : Nat) (ph : RxPh) : Prop :=
  ∃ (t : TxN) (r : RxN), s.tx = t.toTx ∧ s.rx = r.toRx ∧ TxInv n t m e ∧ RxAt n r ph ∧ J n m e ph

theorem link_inv_init (n : Nat) (hn : 1 ≤ n) : LinkInv n Link.init (.gap 0 0) n (.idle 0) := by
  refine ⟨TxN.init, RxN.init, rfl, rfl, tx_inv_init n hn, ?_, ?_⟩
  · simp [RxAt, RxN.init, Div.init]
  · simp [J]

theorem link_step_inv (n : Nat) (hn : 2 ≤ n) (s : Link) (m : Mode) (e : Nat) (ph : RxPh) (i : LIn)
    (h : LinkInv n s m e ph) :
    LinkInv n (s.step n i) (nextMode m e i.valid i.v) (nextE n e) (rxNext n ph (serOf n m e).tx (byteOf m)).1 ∧
      feOfDes s.rx.des s.rx.sample = (rxNext n ph (serOf n m e).tx (byteOf m)).2 ∧
      s.tx.accept i.valid i.v = accOf m i.valid i.v := by
  obtain ⟨t, r, ht, hr, hti, hra, hj⟩ := h
  have hline : s.line = (serOf n m e).tx := by
    show s.tx.ser.tx = _
    rw [ht, ← hti.ser]; rfl
  obtain ⟨hok, hj'⟩ := J_step n hn m e i.valid i.v ph hti.wf hti.lt hj
  obtain ⟨hra', hfe⟩ := rx_step n (by omega) r ph (serOf n m e).tx i.ready (byteOf m) hra hok
  refine ⟨⟨t.step n i.valid i.v, r.step n (serOf n m e).tx i.ready, ?_, ?_, tx_inv_step n hn t m e i.valid i.v hti, hra', hj'⟩,
    ?_, ?_⟩
  · show s.tx.step n i.valid i.v = _
    rw [ht, tx_step_eq]
  · show s.rx.step n s.line i.ready = _
    rw [hr, hline, rx_step_eq]
  · rw [← hfe, hr]
    show feOfDes r.des.toDes r.sample = _
    exact feOfDes_eq r.des r.sample
  · rw [ht]; exact accept_eq n t m e i.valid i.v hti

theorem link_run_inv (n : Nat) (hn : 2 ≤ n) (ins : List LIn) :
    ∀ (s : Link) (m : Mode) (e : Nat) (ph : RxPh), LinkInv n s m e ph →
      ∃ m' e' ph', LinkInv n (Link.run n s ins) m' e' ph' ∧
        pendRx m ph ++ (Link.accepted n s ins).map (· % 256) =
          (rxEvents n s ins).filterMap (·.1) ++ pendRx m' ph' := by
  induction ins with
  | nil => intro s m e ph h; exact ⟨m, e, ph, h, by simp [Link.accepted, rxEvents]⟩
  | cons i is ih =>
    intro s m e ph h
    obtain ⟨h1, h2, h3⟩ := link_step_inv n hn s m e ph i h
    obtain ⟨m', e', ph', hinv, hl⟩ := ih _ _ _ _ h1
    refine ⟨m', e', ph', hinv, ?_⟩
    have hp := pendRx_step n hn m e i.valid i.v ph (by obtain ⟨t, r, _, _, hti, _, _⟩ := h; exact hti.wf)
      (by obtain ⟨t, r, _, _, hti, _, _⟩ := h; exact hti.lt) (by obtain ⟨t, r, _, _, _, _, hj⟩ := h; exact hj)
    simp only [Link.accepted, rxEvents, optCons_eq, h2, h3, List.map_append, List.filterMap_cons]
    rw [← List.append_assoc, hp, List.append_assoc, hl]
    cases hev : (rxNext n ph (serOf n m e).tx (byteOf m)).2 <;> simp

end C17
